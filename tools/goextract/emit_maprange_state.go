// Further rows of AmbientTable (C16), emitted by emit_maprange.go:
//
// PROCESS-LOCAL MUTABLE STATE (kinds "procstate", "procstate-ext", "procstate-unrecognised").
// The state of the chain lives in the multistore, which is branched and rolled back (CheckTx,
// simulation, a failed transaction).  Anything a keeper remembers outside the store is not rolled
// back and is not shared between processes.  The scan:
//   - SM types: every named struct type of the repository with a method that takes an sdk.Context
//     (or a context.Context: gRPC servers), app.App, and - transitively - every repository type
//     held in a field of one of them (by value, pointer, slice / array / map element);
//   - "procstate" row: every assignment / inc-dec / delete / append whose left-hand side goes through a
//     field of an SM struct, dereferences a pointer to an SM type or indexes a named SM map / slice
//     (the rule is by TYPE, so aliases of pointers are covered); every mutating method call
//     (sync.Map Store / Delete / ..., atomic Store / Add / ..., Mutex Lock ...) on a sync / atomic field;
//     the same shapes rooted at a package-level variable; every in-place sdk.Dec operation (*Mut,
//     Set*, BigIntMut) and every mutating math/big method rooted at a package-level variable or
//     an SM field; any *Mut call at all.  Exempt: `init` functions, and inside a function named
//     New* the writes rooted at a variable declared in that function (the object being built);
//   - "procstate-ext" row: one per type declared OUTSIDE the repository that a field of an SM struct
//     holds by value or pointer (SDK keepers, BaseApp, store keys, codecs ...): the scan cannot see
//     inside them, Coq holds the closed list of the ones known to keep their state in the store;
//   - "procstate-unrecognised" row: a map / slice / channel / sync field of an SM struct, or a
//     package-level map / channel / sync variable, used in a shape that is neither a recognised
//     read (index, range, len, cap, nil comparison, Load / Range) nor one of the mutations above
//     (copied to a variable, passed to a function, returned, address taken ...): an alias the
//     scan cannot follow.  Never accepted.
//
// LOCAL TIME ZONE (kind "localtime").  time.Unix / UnixMilli / UnixMicro, time.Parse,
// time.ParseInLocation and time.Date with a location other than time.UTC give a Time in (or
// depending on) the zone of the PROCESS.  Within a function such a value is followed through local
// variables and through Add / AddDate / Truncate / Round; .UTC() and .In(time.UTC) clean it.  Rows:
// a zone-dependent method on such a value (AddDate, Date, Clock, Year, Month, Day, Hour, Minute,
// Second, Weekday, YearDay, ISOWeek, Format, AppendFormat, String, GoString, Zone, ZoneBounds,
// Location, IsDST, Marshal*, In(non-UTC)); the value leaving the function (returned, passed to a call,
// stored in a field / element / literal) before a UTC conversion; any reference to time.Local,
// Time.Local(), time.LoadLocation; time.Unix* / Parse / Date used as a function value.  Unix, UnixNano,
// UnixMilli, UnixMicro, Sub, Add, Before, After, Equal, Compare, IsZero, Nanosecond are zone-independent.
// (Truncate / Round work on the absolute time, not on the presentation: they keep the zone and the
// value stays followed.)
package main

import (
	"fmt"
	"go/ast"
	"go/token"
	"go/types"
	"sort"
	"strings"

	"golang.org/x/tools/go/packages"
)

// ---------------------------------------------------------------------------------------------
// common: walking with a parent stack

type maprangeWalker struct {
	stack []ast.Node
}

func (w *maprangeWalker) walk(root ast.Node, f func(n ast.Node, parents []ast.Node)) {
	ast.Inspect(root, func(n ast.Node) bool {
		if n == nil {
			w.stack = w.stack[:len(w.stack)-1]
			return false
		}
		f(n, w.stack)
		w.stack = append(w.stack, n)
		return true
	})
}

func maprangeTypeName(t types.Type) string {
	return types.TypeString(t, func(p *types.Package) string {
		return strings.TrimPrefix(p.Path(), hooksModule+"/")
	})
}

func maprangeDeref(t types.Type) types.Type {
	if p, ok := t.Underlying().(*types.Pointer); ok {
		return p.Elem()
	}
	return t
}

func maprangeNamed(t types.Type) *types.Named {
	if t == nil {
		return nil
	}
	n, _ := maprangeDeref(t).(*types.Named)
	return n
}

func maprangeIsSyncType(t types.Type) bool {
	n := maprangeNamed(t)
	if n == nil || n.Obj().Pkg() == nil {
		return false
	}
	p := n.Obj().Pkg().Path()
	return p == "sync" || p == "sync/atomic"
}

func maprangeIsBigType(t types.Type) bool {
	n := maprangeNamed(t)
	return n != nil && n.Obj().Pkg() != nil && n.Obj().Pkg().Path() == "math/big"
}

// sdk.Dec / sdk.Int / sdk.Uint: structs around a *big.Int
func maprangeIsSdkNum(t types.Type) bool {
	n := maprangeNamed(t)
	if n == nil || n.Obj().Pkg() == nil {
		return false
	}
	p := n.Obj().Pkg().Path()
	if p != "cosmossdk.io/math" && p != "github.com/cosmos/cosmos-sdk/types" {
		return false
	}
	switch n.Obj().Name() {
	case "LegacyDec", "Dec", "Int", "Uint":
		return true
	}
	return false
}

func maprangeIsContext(t types.Type) bool {
	n, _ := t.(*types.Named)
	if n == nil || n.Obj().Pkg() == nil || n.Obj().Name() != "Context" {
		return false
	}
	p := n.Obj().Pkg().Path()
	return p == "github.com/cosmos/cosmos-sdk/types" || p == "context"
}

// ---------------------------------------------------------------------------------------------
// process-local mutable state

type procScan struct {
	c    *corpus
	g    *hooksGraph
	sm   map[*types.TypeName]bool // state-machine types (closure)
	ext  map[string][]string      // external type -> holders "<struct>.<field>"
	rows []maprangeAmbient
}

func (s *procScan) isSM(t types.Type) bool {
	n := maprangeNamed(t)
	return n != nil && s.sm[n.Obj()]
}

// addClosure: t is held by an SM struct; record repository types as SM (recursively through their
// fields) and types of other modules as "ext"
func (s *procScan) addClosure(t types.Type, holder string, seen map[types.Type]bool) {
	if seen[t] {
		return
	}
	seen[t] = true
	switch x := t.(type) {
	case *types.Pointer:
		s.addClosure(x.Elem(), holder, seen)
	case *types.Slice:
		s.addClosure(x.Elem(), holder, seen)
	case *types.Array:
		s.addClosure(x.Elem(), holder, seen)
	case *types.Map:
		s.addClosure(x.Key(), holder, seen)
		s.addClosure(x.Elem(), holder, seen)
	case *types.Chan:
		s.addClosure(x.Elem(), holder, seen)
	case *types.Struct:
		for i := 0; i < x.NumFields(); i++ {
			s.addClosure(x.Field(i).Type(), holder, seen)
		}
	case *types.Named:
		if types.IsInterface(x) {
			return
		}
		obj := x.Obj()
		if obj.Pkg() == nil {
			return
		}
		if !hooksIsRepo(obj) {
			name := maprangeTypeName(x)
			s.ext[name] = append(s.ext[name], holder)
			return
		}
		if s.sm[obj] {
			return
		}
		s.sm[obj] = true
		if st, ok := x.Underlying().(*types.Struct); ok {
			for i := 0; i < st.NumFields(); i++ {
				s.addClosure(st.Field(i).Type(), maprangeTypeName(x)+"."+st.Field(i).Name(), map[types.Type]bool{})
			}
		} else {
			s.addClosure(x.Underlying(), maprangeTypeName(x), seen)
		}
	}
}

func (s *procScan) collectSM() {
	s.sm = map[*types.TypeName]bool{}
	s.ext = map[string][]string{}
	var roots []*types.Named
	seenRoot := map[*types.TypeName]bool{}
	for _, p := range s.c.all {
		for _, file := range p.Syntax {
			fname := p.Fset.Position(file.Pos()).Filename
			if !maprangeInScope(s.c, p, fname) || maprangeAmbientExcluded(s.c.rel(fname)) {
				continue
			}
			for _, d := range file.Decls {
				fd, ok := d.(*ast.FuncDecl)
				if !ok || fd.Recv == nil {
					continue
				}
				obj, _ := p.TypesInfo.Defs[fd.Name].(*types.Func)
				if obj == nil {
					continue
				}
				sig := obj.Type().(*types.Signature)
				has := false
				for i := 0; i < sig.Params().Len(); i++ {
					if maprangeIsContext(sig.Params().At(i).Type()) {
						has = true
					}
				}
				if !has {
					continue
				}
				if n := hooksRecvNamed(obj); n != nil && !seenRoot[n.Obj()] {
					if _, isStruct := n.Underlying().(*types.Struct); isStruct {
						seenRoot[n.Obj()] = true
						roots = append(roots, n)
					}
				}
			}
		}
	}
	// a candidate whose values live only in local variables, parameters and results (no field, package
	// variable or named type of the repository holds one, none is ever converted to an interface,
	// handed to a function outside the repository, stored through a selector / index, put in a
	// literal or sent) dies with the call that made it: not process state.  Reported as a row of
	// its own so that Coq holds the closed list.
	held := s.heldTypes()
	esc := s.escapingTypes(seenRoot)
	var kept []*types.Named
	for _, n := range roots {
		if len(held[n.Obj()]) == 0 && len(esc[n.Obj()]) == 0 {
			s.rows = append(s.rows, maprangeAmbient{file: "<types>", fn: maprangeTypeName(n), kind: "procstate-local",
				what: "values only in local variables, parameters and results: no field, package variable, interface or external call holds one"})
			continue
		}
		kept = append(kept, n)
	}
	if p := s.c.pkgs[hooksModule+"/app"]; p != nil {
		if o, ok := p.Types.Scope().Lookup("App").(*types.TypeName); ok {
			if n, ok := o.Type().(*types.Named); ok {
				kept = append(kept, n)
			}
		}
	}
	for _, n := range kept {
		s.addClosure(n, maprangeTypeName(n), map[types.Type]bool{})
	}
}

// typeMentions: the repository named types a type expression holds without crossing another named type
func maprangeMentions(t types.Type, out map[*types.TypeName]bool, seen map[types.Type]bool) {
	if seen[t] {
		return
	}
	seen[t] = true
	switch x := t.(type) {
	case *types.Pointer:
		maprangeMentions(x.Elem(), out, seen)
	case *types.Slice:
		maprangeMentions(x.Elem(), out, seen)
	case *types.Array:
		maprangeMentions(x.Elem(), out, seen)
	case *types.Map:
		maprangeMentions(x.Key(), out, seen)
		maprangeMentions(x.Elem(), out, seen)
	case *types.Chan:
		maprangeMentions(x.Elem(), out, seen)
	case *types.Struct:
		for i := 0; i < x.NumFields(); i++ {
			maprangeMentions(x.Field(i).Type(), out, seen)
		}
	case *types.Signature:
		// a function value: its closure may hold anything; not followed
	case *types.Named:
		if hooksIsRepo(x.Obj()) {
			out[x.Obj()] = true
		}
	}
}

// heldTypes: for every repository named type, who holds a value of it: fields of repository struct
// types, underlying types of repository named types, package-level variables
func (s *procScan) heldTypes() map[*types.TypeName][]string {
	held := map[*types.TypeName][]string{}
	for _, p := range s.c.all {
		scope := p.Types.Scope()
		for _, name := range scope.Names() {
			switch o := scope.Lookup(name).(type) {
			case *types.TypeName:
				n, ok := o.Type().(*types.Named)
				if !ok {
					continue
				}
				m := map[*types.TypeName]bool{}
				maprangeMentions(n.Underlying(), m, map[types.Type]bool{})
				for t := range m {
					if t != o {
						held[t] = append(held[t], "type "+maprangeTypeName(n))
					}
				}
			case *types.Var:
				m := map[*types.TypeName]bool{}
				maprangeMentions(o.Type(), m, map[types.Type]bool{})
				for t := range m {
					held[t] = append(held[t], "var "+strings.TrimPrefix(p.PkgPath, hooksModule+"/")+"."+o.Name())
				}
			}
		}
	}
	return held
}

// escapingTypes: for the candidate types, the places where a value (or pointer) leaves the local
// variables: converted to an interface, handed to a function outside the repository or to a builtin,
// stored through a selector / index / dereference or into a package variable, put in a composite literal, sent on a
// channel, or a method value taken
func (s *procScan) escapingTypes(cands map[*types.TypeName]bool) map[*types.TypeName][]string {
	esc := map[*types.TypeName][]string{}
	isCand := func(t types.Type) *types.TypeName {
		if t == nil {
			return nil
		}
		if n := maprangeNamed(t); n != nil && cands[n.Obj()] {
			if _, ok := t.Underlying().(*types.Interface); !ok {
				return n.Obj()
			}
		}
		return nil
	}
	for _, p := range s.c.all {
		info := p.TypesInfo
		for _, file := range p.Syntax {
			fname := p.Fset.Position(file.Pos()).Filename
			if hooksIsGenerated(fname) {
				continue
			}
			var sigs []*types.Signature
			var w maprangeWalker
			// signatures of the enclosing functions, innermost last
			var sigAt = map[ast.Node]*types.Signature{}
			ast.Inspect(file, func(n ast.Node) bool {
				switch x := n.(type) {
				case *ast.FuncDecl:
					if o, ok := info.Defs[x.Name].(*types.Func); ok {
						sigAt[x] = o.Type().(*types.Signature)
					}
				case *ast.FuncLit:
					if sg, ok := info.TypeOf(x).(*types.Signature); ok {
						sigAt[x] = sg
					}
				}
				return true
			})
			_ = sigs
			w.walk(file, func(n ast.Node, parents []ast.Node) {
				e, ok := n.(ast.Expr)
				if !ok || len(parents) == 0 {
					return
				}
				tv, ok := info.Types[e]
				if !ok || tv.IsType() {
					return
				}
				cand := isCand(tv.Type)
				if cand == nil {
					return
				}
				note := func(why string) {
					pos := p.Fset.Position(e.Pos())
					esc[cand] = append(esc[cand], fmt.Sprintf("%s at %s:%d", why, s.c.rel(pos.Filename), pos.Line))
				}
				if id, ok := e.(*ast.Ident); ok {
					// a variable used inside a function literal that does not declare it: captured by a closure,
					// which may outlive the call
					if o := info.Uses[id]; o != nil {
						for k := len(parents) - 1; k >= 0; k-- {
							if fl, ok := parents[k].(*ast.FuncLit); ok {
								if o.Pos() < fl.Pos() || o.Pos() > fl.End() {
									note("captured by a function literal")
								}
								break
							}
						}
					}
				}
				i := len(parents) - 1
				for i > 0 {
					if _, ok := parents[i].(*ast.ParenExpr); ok {
						i--
						continue
					}
					break
				}
				switch par := parents[i].(type) {
				case *ast.CallExpr:
					if ast.Unparen(par.Fun) == e {
						return
					}
					if ftv, ok := info.Types[par.Fun]; ok && ftv.IsType() {
						if types.IsInterface(ftv.Type) {
							note("converted to an interface")
						}
						return
					}
					fn, bi := hooksCallee(info, par)
					if bi != nil {
						switch bi.Name() {
						case "len", "cap", "new", "panic", "print", "println":
							if bi.Name() == "panic" {
								note("panic value")
							}
						default:
							note("argument of builtin " + bi.Name())
						}
						return
					}
					if fn != nil && !hooksIsRepo(fn) {
						note("argument of " + fn.FullName())
						return
					}
					sg, _ := info.TypeOf(par.Fun).(*types.Signature)
					if sg == nil {
						note("argument of an unresolved call")
						return
					}
					idx := -1
					for k, a := range par.Args {
						if ast.Unparen(a) == e {
							idx = k
						}
					}
					if idx < 0 {
						return
					}
					var pt types.Type
					np := sg.Params().Len()
					if sg.Variadic() && idx >= np-1 {
						pt = sg.Params().At(np - 1).Type()
						if sl, ok := pt.(*types.Slice); ok && !par.Ellipsis.IsValid() {
							pt = sl.Elem()
						}
					} else if idx < np {
						pt = sg.Params().At(idx).Type()
					}
					if pt == nil || types.IsInterface(pt) {
						note("argument converted to an interface")
					}
				case *ast.AssignStmt:
					for k, r := range par.Rhs {
						if ast.Unparen(r) != e || len(par.Lhs) != len(par.Rhs) {
							continue
						}
						l := ast.Unparen(par.Lhs[k])
						if lt := info.TypeOf(l); lt != nil && types.IsInterface(lt) {
							note("assigned to an interface")
							continue
						}
						id, isId := l.(*ast.Ident)
						if !isId {
							note("stored through a selector / index")
							continue
						}
						o := info.Defs[id]
						if o == nil {
							o = info.Uses[id]
						}
						if v, ok := o.(*types.Var); ok && v.Pkg() != nil && v.Parent() == v.Pkg().Scope() {
							note("stored in a package variable")
						}
					}
				case *ast.ValueSpec:
					if par.Type != nil {
						if lt := info.TypeOf(par.Type); lt != nil && types.IsInterface(lt) {
							note("assigned to an interface")
						}
					}
				case *ast.ReturnStmt:
					// innermost enclosing function
					var sg *types.Signature
					for k := i - 1; k >= 0 && sg == nil; k-- {
						sg = sigAt[parents[k]]
					}
					idx := -1
					for k, r := range par.Results {
						if ast.Unparen(r) == e {
							idx = k
						}
					}
					if sg == nil || idx < 0 || idx >= sg.Results().Len() || types.IsInterface(sg.Results().At(idx).Type()) {
						note("returned as an interface")
					}
				case *ast.CompositeLit:
					if par.Type != e {
						note("stored in a literal")
					}
				case *ast.KeyValueExpr:
					note("stored in a literal")
				case *ast.SendStmt:
					if par.Value == e {
						note("sent on a channel")
					}
				case *ast.SelectorExpr:
					if sel, ok := info.Selections[par]; ok && sel.Kind() == types.MethodVal {
						called := false
						if i > 0 {
							if call, ok := parents[i-1].(*ast.CallExpr); ok && ast.Unparen(call.Fun) == par {
								called = true
							}
						}
						if !called {
							note("method value")
						}
					}
				case *ast.TypeAssertExpr, *ast.GoStmt, *ast.DeferStmt:
					note(fmt.Sprintf("%T", par))
				}
			})
		}
	}
	return esc
}

// carrying: the value can reach memory shared with other holders of the same field value
// (map, slice, channel, sync / atomic value)
func maprangeCarrying(t types.Type) bool {
	if maprangeIsSyncType(t) {
		return true
	}
	switch x := t.Underlying().(type) {
	case *types.Map, *types.Slice, *types.Chan:
		return true
	case *types.Pointer:
		switch x.Elem().Underlying().(type) {
		case *types.Map, *types.Slice, *types.Chan:
			return true
		}
	}
	return false
}

// reference-like element: reading it out of a container hands out an alias the scan cannot follow
// by type (pointers to repository types ARE followed by type; interfaces are opaque by design)
func (s *procScan) opaqueAliasElem(t types.Type) bool {
	switch x := t.Underlying().(type) {
	case *types.Map, *types.Slice, *types.Chan:
		return !s.isSM(t)
	case *types.Pointer:
		if s.isSM(x.Elem()) {
			return false
		}
		if n, ok := x.Elem().(*types.Named); ok && !hooksIsRepo(n.Obj()) {
			return false // an external object: listed as a procstate-ext row through the closure
		}
		return true
	}
	return false
}

type procFn struct {
	p      *packages.Package
	fd     *ast.FuncDecl
	obj    *types.Func
	file   string
	locals map[types.Object]bool // variables declared inside the body (not parameters / receiver)
}

func (s *procScan) add(f *procFn, n ast.Node, kind, what string) {
	a := maprangeAmbient{file: f.file, fn: maprangeFuncName(f.p, f.fd), kind: kind, what: what, line: f.p.Fset.Position(n.Pos()).Line}
	if f.obj != nil {
		for _, cl := range s.g.transitiveCallers(f.obj) {
			a.callers = append(a.callers, hooksName(cl))
		}
	}
	s.rows = append(s.rows, a)
}

// lhsTarget walks down the left-hand side of a mutation and says what it mutates: "" = nothing the
// scan cares about.  root = the identifier at the bottom of the chain (or nil); indirect = the chain
// crossed a pointer dereference (explicit, or implicit in a field selection) or indexed a slice / map:
// the write lands in memory shared with every other holder of that pointer / slice / map.
func (s *procScan) lhsTarget(f *procFn, e ast.Expr) (what string, root *ast.Ident, indirect bool) {
	info := f.p.TypesInfo
	for {
		switch x := ast.Unparen(e).(type) {
		case *ast.SelectorExpr:
			if sel, ok := info.Selections[x]; ok && sel.Kind() == types.FieldVal {
				if s.isSM(sel.Recv()) && what == "" {
					what = "field " + maprangeTypeName(maprangeDeref(sel.Recv())) + "." + x.Sel.Name
				}
				if sel.Indirect() {
					indirect = true
				}
				e = x.X
				continue
			}
			// qualified identifier pkg.Var
			if v, ok := info.Uses[x.Sel].(*types.Var); ok && v.Pkg() != nil && v.Parent() == v.Pkg().Scope() {
				if what == "" {
					what = "package variable " + strings.TrimPrefix(v.Pkg().Path(), hooksModule+"/") + "." + v.Name()
				}
				return what, x.Sel, true
			}
			return what, nil, true
		case *ast.IndexExpr:
			if tv, ok := info.Types[x.X]; ok {
				if s.isSM(tv.Type) && what == "" {
					if _, isPtr := tv.Type.Underlying().(*types.Pointer); !isPtr {
						what = "element of " + maprangeTypeName(tv.Type)
					}
				}
				if _, isArr := tv.Type.Underlying().(*types.Array); !isArr {
					indirect = true
				}
			}
			e = x.X
		case *ast.StarExpr:
			if tv, ok := info.Types[x.X]; ok && s.isSM(tv.Type) && what == "" {
				what = "pointee " + maprangeTypeName(maprangeDeref(tv.Type))
			}
			indirect = true
			e = x.X
		case *ast.SliceExpr:
			indirect = true
			e = x.X
		case *ast.TypeAssertExpr:
			indirect = true
			e = x.X
		case *ast.Ident:
			if v, ok := info.Uses[x].(*types.Var); ok && v.Pkg() != nil && v.Parent() == v.Pkg().Scope() {
				if what == "" {
					what = "package variable " + strings.TrimPrefix(v.Pkg().Path(), hooksModule+"/") + "." + v.Name()
				}
				return what, x, true
			}
			return what, x, indirect
		default:
			// a call result, a literal ...: if something SM was crossed on the way it is still a mutation
			return what, nil, true
		}
	}
}

// localCopy: the write stays inside a variable of this function (a local, a by-value parameter or
// receiver) - no pointer, slice or map was crossed on the way down to it
func (s *procScan) localCopy(f *procFn, root *ast.Ident, indirect bool) bool {
	if root == nil || indirect {
		return false
	}
	o := f.p.TypesInfo.Uses[root]
	if o == nil {
		o = f.p.TypesInfo.Defs[root]
	}
	v, ok := o.(*types.Var)
	if !ok || v.Pkg() == nil || v.Parent() == v.Pkg().Scope() {
		return false
	}
	switch v.Type().Underlying().(type) {
	case *types.Pointer, *types.Map, *types.Slice, *types.Chan, *types.Interface, *types.Signature:
		return false
	}
	return true
}

func (s *procScan) exemptRoot(f *procFn, root *ast.Ident) bool {
	if f.fd == nil {
		return false
	}
	name := f.fd.Name.Name
	if name == "init" && f.fd.Recv == nil {
		return true
	}
	if strings.HasPrefix(name, "New") && root != nil {
		if o := f.p.TypesInfo.Uses[root]; o != nil && f.locals[o] {
			return true
		}
		if o := f.p.TypesInfo.Defs[root]; o != nil && f.locals[o] {
			return true
		}
	}
	return false
}

func (s *procScan) mutation(f *procFn, n ast.Node, verb string, lhs ast.Expr) {
	what, root, indirect := s.lhsTarget(f, lhs)
	if what == "" {
		return
	}
	if s.exemptRoot(f, root) || s.localCopy(f, root, indirect) {
		return
	}
	s.add(f, n, "procstate", verb+" "+what)
}

var maprangeSyncRead = map[string]bool{"Load": true, "Range": true}
var maprangeSyncWrite = map[string]bool{"Store": true, "Delete": true, "LoadOrStore": true, "LoadAndDelete": true, "Swap": true,
	"CompareAndSwap": true, "CompareAndDelete": true, "Add": true, "And": true, "Or": true, "Lock": true, "Unlock": true, "RLock": true,
	"RUnlock": true, "TryLock": true, "TryRLock": true, "Do": true, "Wait": true, "Done": true, "Signal": true, "Broadcast": true,
	"Get": true, "Put": true, "Clear": true}
var maprangeBigRead = map[string]bool{"Cmp": true, "CmpAbs": true, "Sign": true, "String": true, "Text": true, "Int64": true, "Uint64": true,
	"IsInt64": true, "IsUint64": true, "BitLen": true, "Bit": true, "Bytes": true, "FillBytes": true, "Append": true, "Format": true,
	"ProbablyPrime": true, "TrailingZeroBits": true, "Float64": true, "Float32": true, "IsInt": true, "Num": true, "Denom": true,
	"MarshalJSON": true, "MarshalText": true, "GobEncode": true, "Bits": true, "Int": true, "Prec": true, "Mode": true, "Acc": true,
	"MinPrec": true, "IsInf": true, "Signbit": true, "MantExp": true, "Rat": true, "FloatString": true}

func (s *procScan) scanFunc(f *procFn) {
	info := f.p.TypesInfo
	var w maprangeWalker
	node := ast.Node(f.fd)
	w.walk(node, func(n ast.Node, parents []ast.Node) {
		switch x := n.(type) {
		case *ast.AssignStmt:
			if x.Tok == token.DEFINE {
				// := only declares; but `a.f, x := ...` cannot have a selector on the left
				return
			}
			for _, l := range x.Lhs {
				verb := "assign"
				if len(x.Rhs) == 1 {
					if call, ok := ast.Unparen(x.Rhs[0]).(*ast.CallExpr); ok {
						if _, b := hooksCallee(info, call); b != nil && b.Name() == "append" {
							verb = "append"
						}
					}
				}
				s.mutation(f, x, verb, l)
			}
		case *ast.IncDecStmt:
			s.mutation(f, x, "incdec", x.X)
		case *ast.RangeStmt:
			if x.Tok == token.ASSIGN {
				if x.Key != nil {
					s.mutation(f, x, "assign", x.Key)
				}
				if x.Value != nil {
					s.mutation(f, x, "assign", x.Value)
				}
			}
		case *ast.SendStmt:
			s.mutation(f, x, "send", x.Chan)
		case *ast.UnaryExpr:
			if x.Op == token.AND {
				// &pkgVar / &k.field of carrying kind: an alias
				if what, root, _ := s.lhsTarget(f, x.X); what != "" && !s.exemptRoot(f, root) {
					if tv, ok := info.Types[x.X]; ok && (maprangeCarrying(tv.Type) || strings.HasPrefix(what, "package variable")) {
						if len(parents) > 0 {
							if call, ok := parents[len(parents)-1].(*ast.CallExpr); ok {
								if fn, _ := hooksCallee(info, call); fn != nil && fn.Pkg() != nil &&
									fn.Pkg().Path() == "github.com/cosmos/cosmos-sdk/types/msgservice" && fn.Name() == "RegisterMsgServiceDesc" {
									// the generated gRPC service descriptor handed to the SDK's registration (reads the method list)
									s.add(f, x, "procstate", "msgservice.RegisterMsgServiceDesc of the address of a package variable")
									return
								}
							}
						}
						s.add(f, x, "procstate-unrecognised", "address taken: "+what)
					}
				}
			}
		case *ast.CallExpr:
			fn, bi := hooksCallee(info, x)
			if bi != nil {
				switch bi.Name() {
				case "delete", "clear":
					if len(x.Args) > 0 {
						s.mutation(f, x, bi.Name(), x.Args[0])
					}
				case "copy":
					if len(x.Args) > 0 {
						s.mutation(f, x, "copy into", x.Args[0])
					}
				}
				return
			}
			if fn == nil {
				return
			}
			sig, _ := fn.Type().(*types.Signature)
			if sig == nil || sig.Recv() == nil {
				return
			}
			sel, ok := ast.Unparen(x.Fun).(*ast.SelectorExpr)
			if !ok {
				return
			}
			recvT := sig.Recv().Type()
			name := fn.Name()
			switch {
			case maprangeIsSyncType(recvT):
				what, root, indirect := s.lhsTarget(f, sel.X)
				if tv, ok := info.Types[sel.X]; ok {
					if _, isPtr := tv.Type.Underlying().(*types.Pointer); isPtr {
						indirect = true // the method works on the pointee
					}
				}
				if what == "" || s.exemptRoot(f, root) || s.localCopy(f, root, indirect) {
					return
				}
				if maprangeSyncRead[name] {
					return
				}
				if maprangeSyncWrite[name] {
					s.add(f, x, "procstate", name+" "+what)
				} else {
					s.add(f, x, "procstate-unrecognised", "sync method "+name+" on "+what)
				}
			case maprangeIsSdkNum(recvT):
				if strings.HasSuffix(name, "Mut") || strings.HasPrefix(name, "Set") || strings.HasPrefix(name, "Unmarshal") {
					what, root, _ := s.lhsTarget(f, sel.X)
					if s.exemptRoot(f, root) {
						return
					}
					if strings.HasSuffix(name, "Mut") && what == "" {
						// in-place arithmetic on a Dec that may share its big.Int with any copy of the value
						what = "value " + hooksText(f.p.Fset, sel.X)
					}
					if what != "" {
						s.add(f, x, "procstate", "in-place "+maprangeTypeName(maprangeDeref(recvT))+"."+name+" on "+what)
					}
				}
			case maprangeIsBigType(recvT):
				if _, isPtr := recvT.(*types.Pointer); isPtr && !maprangeBigRead[name] {
					if what, root, _ := s.lhsTarget(f, sel.X); what != "" && !s.exemptRoot(f, root) {
						s.add(f, x, "procstate", "in-place "+maprangeTypeName(maprangeDeref(recvT))+"."+name+" on "+what)
					}
				}
			}
		case *ast.SelectorExpr, *ast.Ident:
			s.aliasUse(f, x.(ast.Expr), parents)
		}
	})
}

// aliasUse: e is a field of an SM struct or a package-level variable; if its type is a map / slice /
// channel / sync value, the context must be a recognised read or one of the mutations handled above
func (s *procScan) aliasUse(f *procFn, e ast.Expr, parents []ast.Node) {
	info := f.p.TypesInfo
	var what string
	var t types.Type
	isPkgVar := false
	switch x := e.(type) {
	case *ast.SelectorExpr:
		if sel, ok := info.Selections[x]; ok && sel.Kind() == types.FieldVal && s.isSM(sel.Recv()) {
			what = "field " + maprangeTypeName(maprangeDeref(sel.Recv())) + "." + x.Sel.Name
			t = sel.Type()
		} else {
			return // qualified identifiers are visited as *ast.Ident (x.Sel)
		}
	case *ast.Ident:
		v, ok := info.Uses[x].(*types.Var)
		if !ok || v.Pkg() == nil || v.Parent() != v.Pkg().Scope() || !hooksIsRepo(v) {
			return
		}
		what = "package variable " + strings.TrimPrefix(v.Pkg().Path(), hooksModule+"/") + "." + v.Name()
		t = v.Type()
		isPkgVar = true
		// the parent of a qualified identifier's Sel is the SelectorExpr: step over it
		if len(parents) > 0 {
			if se, ok := parents[len(parents)-1].(*ast.SelectorExpr); ok && se.Sel == x {
				e = se
				parents = parents[:len(parents)-1]
			}
		}
	}
	if !maprangeCarrying(t) {
		return
	}
	if isPkgVar {
		// package-level slices (store key prefixes, lists of names) are passed around everywhere; only
		// maps, channels and sync values are followed for aliases
		if _, isSlice := t.Underlying().(*types.Slice); isSlice {
			return
		}
	}
	if f.fd != nil && f.fd.Name.Name == "init" && f.fd.Recv == nil {
		return
	}
	if len(parents) == 0 {
		return
	}
	// climb over parentheses
	i := len(parents) - 1
	for i > 0 {
		if _, ok := parents[i].(*ast.ParenExpr); ok {
			i--
			continue
		}
		break
	}
	par := parents[i]
	unrec := func(why string) {
		// inside New*: the object under construction
		if root := maprangeRootIdent(e); root != nil && s.exemptRoot(f, root) {
			return
		}
		s.add(f, e, "procstate-unrecognised", why+": "+what)
	}
	switch p := par.(type) {
	case *ast.AssignStmt:
		for _, l := range p.Lhs {
			if ast.Unparen(l) == e {
				return // the mutation row
			}
		}
		unrec("copied")
	case *ast.IndexExpr:
		if ast.Unparen(p.X) != e {
			return // used as an index: a read of the value... of a map/slice type? cannot be an index
		}
		// element read (or the left-hand side of a mutation, handled there)
		if tv, ok := info.Types[p]; ok && s.opaqueAliasElem(tv.Type) && !maprangeOnLHS(p, parents[:i]) {
			unrec("element alias")
		}
	case *ast.SliceExpr:
		if !maprangeOnLHS(p, parents[:i]) {
			unrec("resliced")
		}
	case *ast.RangeStmt:
		if p.X == e || ast.Unparen(p.X) == e {
			if p.Value != nil {
				if tv := info.TypeOf(p.Value); tv != nil && s.opaqueAliasElem(tv) {
					unrec("element alias in range")
				}
			}
			return
		}
		unrec("range target")
	case *ast.BinaryExpr:
		if p.Op == token.EQL || p.Op == token.NEQ {
			return
		}
		unrec("operand")
	case *ast.CallExpr:
		if ast.Unparen(p.Fun) == e {
			return
		}
		if _, bi := hooksCallee(info, p); bi != nil {
			switch bi.Name() {
			case "len", "cap":
				return
			case "delete", "clear", "copy":
				if len(p.Args) > 0 && ast.Unparen(p.Args[0]) == e {
					return // mutation row
				}
				return // copy(dst, src): reading src
			case "append":
				// recognised only as `x.f = append(x.f, ...)`, which is a mutation row
				if i > 0 {
					if as, ok := parents[i-1].(*ast.AssignStmt); ok && len(as.Lhs) == 1 && len(p.Args) > 0 && ast.Unparen(p.Args[0]) == e {
						if w, _, _ := s.lhsTarget(f, as.Lhs[0]); w != "" {
							return
						}
					}
				}
				if len(p.Args) > 0 && ast.Unparen(p.Args[0]) != e {
					if p.Ellipsis.IsValid() {
						return // append(dst, x.f...): copies the elements
					}
				}
				unrec("appended to")
				return
			}
		}
		unrec("passed to a call")
	case *ast.SelectorExpr:
		// e.M(...) or e.field
		if ast.Unparen(p.X) != e {
			return
		}
		if sel, ok := info.Selections[p]; ok {
			switch sel.Kind() {
			case types.FieldVal:
				return
			case types.MethodVal:
				if maprangeIsSyncType(t) {
					// only as the callee of a call (handled in scanFunc)
					if i > 0 {
						if call, ok := parents[i-1].(*ast.CallExpr); ok && ast.Unparen(call.Fun) == p {
							return
						}
					}
					unrec("method value")
					return
				}
				// a method of a named map / slice type of the repository: its body is scanned by type
				if fn, ok := sel.Obj().(*types.Func); ok && hooksIsRepo(fn) {
					return
				}
				if fn, ok := sel.Obj().(*types.Func); ok {
					if root := maprangeRootIdent(e); root != nil && s.exemptRoot(f, root) {
						return
					}
					s.add(f, e, "procstate", "external method "+maprangeTypeName(maprangeDeref(t))+"."+fn.Name()+" on "+what)
					return
				}
				unrec("method of an external type")
				return
			}
		}
		unrec("selector")
	case *ast.UnaryExpr:
		if p.Op == token.AND {
			return // reported in scanFunc
		}
		if p.Op == token.ARROW {
			s.add(f, e, "procstate", "receive "+what)
			return
		}
		unrec("operand")
	case *ast.StarExpr:
		return
	case *ast.SendStmt:
		if p.Chan == e {
			return
		}
		unrec("sent")
	case *ast.IncDecStmt:
		return
	case *ast.KeyValueExpr, *ast.CompositeLit:
		unrec("stored in a literal")
	case *ast.ReturnStmt:
		unrec("returned")
	case *ast.ValueSpec:
		unrec("copied")
	default:
		unrec(fmt.Sprintf("used in %T", par))
	}
}

func maprangeRootIdent(e ast.Expr) *ast.Ident {
	for {
		switch x := ast.Unparen(e).(type) {
		case *ast.SelectorExpr:
			e = x.X
		case *ast.IndexExpr:
			e = x.X
		case *ast.StarExpr:
			e = x.X
		case *ast.SliceExpr:
			e = x.X
		case *ast.Ident:
			return x
		default:
			return nil
		}
	}
}

// the expression (with its chain of parents) is the target of an assignment / inc-dec
func maprangeOnLHS(e ast.Expr, parents []ast.Node) bool {
	var cur ast.Node = e
	for i := len(parents) - 1; i >= 0; i-- {
		switch p := parents[i].(type) {
		case *ast.ParenExpr:
			cur = p
		case *ast.IndexExpr:
			if p.X != cur {
				return false
			}
			cur = p
		case *ast.SelectorExpr:
			if p.X != cur {
				return false
			}
			cur = p
		case *ast.StarExpr:
			cur = p
		case *ast.SliceExpr:
			if p.X != cur {
				return false
			}
			cur = p
		case *ast.AssignStmt:
			for _, l := range p.Lhs {
				if l == cur {
					return true
				}
			}
			return false
		case *ast.IncDecStmt:
			return p.X == cur
		default:
			return false
		}
	}
	return false
}

func maprangeLocals(p *packages.Package, fd *ast.FuncDecl) map[types.Object]bool {
	out := map[types.Object]bool{}
	if fd.Body == nil {
		return out
	}
	ast.Inspect(fd.Body, func(n ast.Node) bool {
		if id, ok := n.(*ast.Ident); ok {
			if o := p.TypesInfo.Defs[id]; o != nil {
				if _, isVar := o.(*types.Var); isVar {
					out[o] = true
				}
			}
		}
		return true
	})
	return out
}

func maprangeProcState(c *corpus) []maprangeAmbient {
	s := &procScan{c: c, g: hooksBuildGraph(c)}
	s.collectSM()
	for _, p := range c.all {
		for _, file := range p.Syntax {
			fname := p.Fset.Position(file.Pos()).Filename
			rel := c.rel(fname)
			if !maprangeInScope(c, p, fname) || maprangeAmbientExcluded(rel) {
				continue
			}
			for _, d := range file.Decls {
				fd, ok := d.(*ast.FuncDecl)
				if !ok || fd.Body == nil {
					continue
				}
				obj, _ := p.TypesInfo.Defs[fd.Name].(*types.Func)
				f := &procFn{p: p, fd: fd, obj: obj, file: rel, locals: maprangeLocals(p, fd)}
				s.scanFunc(f)
			}
		}
	}
	// external types held by SM structs
	var names []string
	for n := range s.ext {
		names = append(names, n)
	}
	sort.Strings(names)
	for _, n := range names {
		hs := s.ext[n]
		sort.Strings(hs)
		var uniq []string
		for i, h := range hs {
			if i == 0 || hs[i-1] != h {
				uniq = append(uniq, h)
			}
		}
		s.rows = append(s.rows, maprangeAmbient{file: "<types>", fn: uniq[0], kind: "procstate-ext", what: n, callers: uniq})
	}
	return s.rows
}

// ---------------------------------------------------------------------------------------------
// local time zone

var maprangeZoneDependent = map[string]bool{"AddDate": true, "Date": true, "Clock": true, "Year": true, "Month": true, "Day": true,
	"Hour": true, "Minute": true, "Second": true, "Weekday": true, "YearDay": true, "ISOWeek": true, "Format": true, "AppendFormat": true,
	"String": true, "GoString": true, "Zone": true, "ZoneBounds": true, "Location": true, "IsDST": true, "MarshalJSON": true,
	"MarshalText": true, "MarshalBinary": true, "GobEncode": true, "Local": true}
var maprangeZoneFree = map[string]bool{"Unix": true, "UnixNano": true, "UnixMilli": true, "UnixMicro": true, "Sub": true, "Before": true,
	"After": true, "Equal": true, "Compare": true, "IsZero": true, "Nanosecond": true}
var maprangeZoneKeep = map[string]bool{"Add": true, "AddDate": true, "Truncate": true, "Round": true}

func maprangeIsTimePkgFunc(o types.Object, names ...string) bool {
	f, ok := o.(*types.Func)
	if !ok || f.Pkg() == nil || f.Pkg().Path() != "time" {
		return false
	}
	if sig, _ := f.Type().(*types.Signature); sig == nil || sig.Recv() != nil {
		return false
	}
	for _, n := range names {
		if f.Name() == n {
			return true
		}
	}
	return false
}

func maprangeIsTimeTime(t types.Type) bool {
	n := maprangeNamed(t)
	return n != nil && n.Obj().Pkg() != nil && n.Obj().Pkg().Path() == "time" && n.Obj().Name() == "Time"
}

func maprangeIsTimeUTC(info *types.Info, e ast.Expr) bool {
	if sel, ok := ast.Unparen(e).(*ast.SelectorExpr); ok {
		if v, ok := info.Uses[sel.Sel].(*types.Var); ok && v.Pkg() != nil && v.Pkg().Path() == "time" && v.Name() == "UTC" {
			return true
		}
	}
	return false
}

type zoneScan struct {
	c    *corpus
	g    *hooksGraph
	rows []maprangeAmbient
}

// source of a process-zone Time, "" if the call is not one
func maprangeZoneSource(info *types.Info, call *ast.CallExpr) string {
	fn, _ := hooksCallee(info, call)
	if fn == nil {
		return ""
	}
	switch {
	case maprangeIsTimePkgFunc(fn, "Unix", "UnixMilli", "UnixMicro", "Parse"):
		return "time." + fn.Name()
	case maprangeIsTimePkgFunc(fn, "Date", "ParseInLocation"):
		if len(call.Args) > 0 && maprangeIsTimeUTC(info, call.Args[len(call.Args)-1]) {
			return ""
		}
		return "time." + fn.Name() + " with a location other than time.UTC"
	}
	return ""
}

func (z *zoneScan) scanFunc(p *packages.Package, fd *ast.FuncDecl, rel string) {
	info := p.TypesInfo
	obj, _ := info.Defs[fd.Name].(*types.Func)
	add := func(n ast.Node, what string) {
		a := maprangeAmbient{file: rel, fn: maprangeFuncName(p, fd), kind: "localtime", what: what, line: p.Fset.Position(n.Pos()).Line}
		if obj != nil {
			for _, cl := range z.g.transitiveCallers(obj) {
				a.callers = append(a.callers, hooksName(cl))
			}
		}
		z.rows = append(z.rows, a)
	}
	tainted := map[types.Object]string{} // local variable -> source
	var taint func(e ast.Expr) string
	taint = func(e ast.Expr) string {
		switch x := ast.Unparen(e).(type) {
		case *ast.Ident:
			if o := info.Uses[x]; o != nil {
				return tainted[o]
			}
		case *ast.CallExpr:
			if src := maprangeZoneSource(info, x); src != "" {
				return src
			}
			if sel, ok := ast.Unparen(x.Fun).(*ast.SelectorExpr); ok {
				if s, ok := info.Selections[sel]; ok && s.Kind() == types.MethodVal && maprangeIsTimeTime(s.Recv()) {
					src := taint(sel.X)
					name := sel.Sel.Name
					switch {
					case name == "UTC":
						return ""
					case name == "In":
						if len(x.Args) == 1 && maprangeIsTimeUTC(info, x.Args[0]) {
							return ""
						}
						return "Time.In with a location other than time.UTC"
					case name == "Local":
						return "Time.Local"
					case maprangeZoneKeep[name]:
						return src
					}
				}
			}
		case *ast.StarExpr:
			return taint(x.X)
		case *ast.UnaryExpr:
			if x.Op == token.AND {
				return taint(x.X)
			}
		}
		return ""
	}
	// flow-insensitive fixpoint over the local variables
	for changed, rounds := true, 0; changed && rounds < 20; rounds++ {
		changed = false
		mark := func(lhs ast.Expr, src string) {
			if src == "" {
				return
			}
			if id, ok := ast.Unparen(lhs).(*ast.Ident); ok {
				o := info.Defs[id]
				if o == nil {
					o = info.Uses[id]
				}
				if v, ok := o.(*types.Var); ok && v.Pkg() != nil && v.Parent() != v.Pkg().Scope() && tainted[o] == "" {
					tainted[o] = src
					changed = true
				}
			}
		}
		ast.Inspect(fd.Body, func(n ast.Node) bool {
			switch x := n.(type) {
			case *ast.AssignStmt:
				if len(x.Lhs) == len(x.Rhs) {
					for i := range x.Lhs {
						mark(x.Lhs[i], taint(x.Rhs[i]))
					}
				} else if len(x.Rhs) == 1 {
					// t, err := time.Parse(...)
					if src := taint(x.Rhs[0]); src != "" {
						for _, l := range x.Lhs {
							if tv := info.TypeOf(l); tv != nil && maprangeIsTimeTime(tv) {
								mark(l, src)
							}
						}
					}
				}
			case *ast.ValueSpec:
				if len(x.Names) == len(x.Values) {
					for i := range x.Names {
						mark(x.Names[i], taint(x.Values[i]))
					}
				} else if len(x.Values) == 1 {
					if src := taint(x.Values[0]); src != "" {
						for _, l := range x.Names {
							if tv := info.TypeOf(l); tv != nil && maprangeIsTimeTime(tv) {
								mark(l, src)
							}
						}
					}
				}
			}
			return true
		})
	}
	var w maprangeWalker
	w.walk(fd.Body, func(n ast.Node, parents []ast.Node) {
		switch x := n.(type) {
		case *ast.Ident:
			o := info.Uses[x]
			if v, ok := o.(*types.Var); ok && v.Pkg() != nil && v.Pkg().Path() == "time" && v.Name() == "Local" {
				add(x, "time.Local")
			}
			if maprangeIsTimePkgFunc(o, "LoadLocation", "LoadLocationFromTZData") {
				add(x, "time."+o.Name())
			}
			if maprangeIsTimePkgFunc(o, "Unix", "UnixMilli", "UnixMicro", "Parse", "ParseInLocation", "Date") {
				// must be the callee of a call (a function value escapes the analysis)
				called := false
				for i := len(parents) - 1; i >= 0; i-- {
					switch p := parents[i].(type) {
					case *ast.SelectorExpr, *ast.ParenExpr:
						continue
					case *ast.CallExpr:
						if id := maprangeCalleeIdent(p); id == x {
							called = true
						}
					}
					break
				}
				if !called {
					add(x, "time."+o.Name()+" used as a function value")
				}
			}
		case *ast.SelectorExpr:
			if s, ok := info.Selections[x]; ok && s.Kind() == types.MethodVal && maprangeIsTimeTime(s.Recv()) {
				name := x.Sel.Name
				if name == "Local" {
					add(x, "Time.Local")
					return
				}
				src := taint(x.X)
				if src == "" {
					return
				}
				if maprangeZoneDependent[name] {
					add(x, src+" value: zone-dependent ."+name+" before a UTC conversion")
				} else if !(maprangeZoneFree[name] || maprangeZoneKeep[name] || name == "UTC" || name == "In") {
					add(x, src+" value: unrecognised method ."+name)
				}
			}
		}
		// escape of a followed value
		e, ok := n.(ast.Expr)
		if !ok || len(parents) == 0 {
			return
		}
		src := taint(e)
		if src == "" {
			return
		}
		if tv := info.TypeOf(e); tv == nil || !maprangeIsTimeTime(tv) {
			return
		}
		i := len(parents) - 1
		for i > 0 {
			if _, ok := parents[i].(*ast.ParenExpr); ok {
				i--
				continue
			}
			break
		}
		switch par := parents[i].(type) {
		case *ast.SelectorExpr:
			return // a method call or field on the value: handled above
		case *ast.AssignStmt:
			for idx, r := range par.Rhs {
				if ast.Unparen(r) == ast.Unparen(e) {
					var lhs ast.Expr
					if len(par.Lhs) == len(par.Rhs) {
						lhs = par.Lhs[idx]
					} else {
						return
					}
					if id, ok := ast.Unparen(lhs).(*ast.Ident); ok {
						o := info.Defs[id]
						if o == nil {
							o = info.Uses[id]
						}
						if v, ok := o.(*types.Var); ok && v.Pkg() != nil && v.Parent() != v.Pkg().Scope() {
							return // a local variable: followed
						}
						if id.Name == "_" {
							return
						}
					}
					add(e, src+" value stored outside the function before a UTC conversion")
				}
			}
		case *ast.ValueSpec:
			return
		case *ast.ReturnStmt:
			add(e, src+" value returned before a UTC conversion")
		case *ast.CallExpr:
			if ast.Unparen(par.Fun) == ast.Unparen(e) {
				return
			}
			if sel, ok := ast.Unparen(par.Fun).(*ast.SelectorExpr); ok {
				if ms, ok := info.Selections[sel]; ok && ms.Kind() == types.MethodVal && maprangeIsTimeTime(ms.Recv()) && maprangeZoneFree[sel.Sel.Name] {
					return // t.Before(u), t.Sub(u) ...: compares instants
				}
			}
			add(e, src+" value passed to a call before a UTC conversion")
		case *ast.KeyValueExpr, *ast.CompositeLit:
			add(e, src+" value stored in a literal before a UTC conversion")
		case *ast.BinaryExpr:
			add(e, src+" value compared with == (the location is part of the value)")
		case *ast.UnaryExpr, *ast.StarExpr:
			return // followed by taint()
		case *ast.ExprStmt:
			return
		case *ast.SendStmt:
			add(e, src+" value sent on a channel before a UTC conversion")
		case *ast.IndexExpr, *ast.SliceExpr:
			return
		default:
			add(e, fmt.Sprintf("%s value used in an unrecognised shape (%T)", src, par))
		}
	})
	// a followed variable captured by a closure is used in the closure body, which is part of fd.Body: covered
}

func maprangeCalleeIdent(call *ast.CallExpr) *ast.Ident {
	switch f := ast.Unparen(call.Fun).(type) {
	case *ast.Ident:
		return f
	case *ast.SelectorExpr:
		return f.Sel
	}
	return nil
}

func maprangeLocalTime(c *corpus) []maprangeAmbient {
	z := &zoneScan{c: c, g: hooksBuildGraph(c)}
	for _, p := range c.all {
		for _, file := range p.Syntax {
			fname := p.Fset.Position(file.Pos()).Filename
			rel := c.rel(fname)
			if !maprangeInScope(c, p, fname) || maprangeAmbientExcluded(rel) {
				continue
			}
			for _, d := range file.Decls {
				switch x := d.(type) {
				case *ast.FuncDecl:
					if x.Body != nil {
						z.scanFunc(p, x, rel)
					}
				case *ast.GenDecl:
					// package-level initialisers
					for _, sp := range x.Specs {
						vs, ok := sp.(*ast.ValueSpec)
						if !ok {
							continue
						}
						for _, v := range vs.Values {
							ast.Inspect(v, func(n ast.Node) bool {
								switch y := n.(type) {
								case *ast.CallExpr:
									if src := maprangeZoneSource(p.TypesInfo, y); src != "" {
										z.rows = append(z.rows, maprangeAmbient{file: rel, fn: "<package level>", kind: "localtime",
											what: src + " in a package-level initialiser", callers: []string{"<package initialisation>"},
											line: p.Fset.Position(y.Pos()).Line})
									}
								case *ast.Ident:
									if vv, ok := p.TypesInfo.Uses[y].(*types.Var); ok && vv.Pkg() != nil && vv.Pkg().Path() == "time" && vv.Name() == "Local" {
										z.rows = append(z.rows, maprangeAmbient{file: rel, fn: "<package level>", kind: "localtime",
											what: "time.Local", callers: []string{"<package initialisation>"}, line: p.Fset.Position(y.Pos()).Line})
									}
								}
								return true
							})
						}
					}
				}
			}
		}
	}
	return z.rows
}
