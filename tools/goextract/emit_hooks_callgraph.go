// Shared by emit_hooks.go and emit_maprange.go: a reference graph over the functions declared in
// the repository (non-test files) with
//   - interface method references resolved to the repository's implementers (types.Implements),
//   - per function: "writes" (transitively reaches a KV-store Set/Delete or a state-changing
//     method of a keeper that lives outside the repository: bank, account, ibc channel …),
//   - per function: "containsWrap" (transitively reaches a utils.ApplyFuncIfNoError call).
// An edge is any *reference* to a function object inside a body (calls and function values), so a
// function passed as a callback counts as reached.
package main

import (
	"go/ast"
	"go/types"
	"regexp"
	"sort"
	"strings"

	"golang.org/x/tools/go/packages"
)

const hooksModule = "github.com/comdex-official/comdex"

type hooksFn struct {
	obj          *types.Func
	decl         *ast.FuncDecl
	pkg          *packages.Package
	refs         []*types.Func // repository functions referenced in the body (resolved)
	directWrite  bool          // body contains a store Set/Delete or an external keeper write
	directWrap   bool          // body contains a call of ApplyFuncIfNoError
	writes       bool          // transitive
	containsWrap bool          // transitive
	writingLoop  bool          // a for/range body in this function references a writing function
}

type hooksGraph struct {
	c       *corpus
	fns     map[*types.Func]*hooksFn
	order   []*hooksFn
	methods map[string][]*types.Func // concrete repository methods by name
	implMem map[string][]*types.Func
	callers map[*types.Func][]*types.Func
}

var hooksGraphCache *hooksGraph

// names of methods of keepers outside the repository (bank, account, staking, ibc, wasm …) that
// change state
var hooksExtWriteRe = regexp.MustCompile(`^(Send|Mint|Burn|Set|Delete|Delegate|Undelegate|Transfer|Add|Remove|Update|Create|Withdraw|Execute|Instantiate|Claim|Bind|New)`)

func hooksIsRepo(o types.Object) bool {
	return o != nil && o.Pkg() != nil && strings.HasPrefix(o.Pkg().Path(), hooksModule)
}

func hooksIsGenerated(path string) bool {
	return strings.HasSuffix(path, ".pb.go") || strings.HasSuffix(path, ".pb.gw.go") || strings.HasSuffix(path, "_test.go")
}

func hooksRecvNamed(f *types.Func) *types.Named {
	sig, _ := f.Type().(*types.Signature)
	if sig == nil || sig.Recv() == nil {
		return nil
	}
	t := sig.Recv().Type()
	if p, ok := t.(*types.Pointer); ok {
		t = p.Elem()
	}
	n, _ := t.(*types.Named)
	return n
}

func hooksIsInterfaceMethod(f *types.Func) bool {
	sig, _ := f.Type().(*types.Signature)
	if sig == nil || sig.Recv() == nil {
		return false
	}
	return types.IsInterface(sig.Recv().Type())
}

// short, stable name: "<module>[/<sub>].[Recv.]Func" (the keeper package and the Keeper receiver
// are elided: x/liquidation/keeper.Keeper.LiquidateVaults -> "liquidation.LiquidateVaults")
func hooksName(f *types.Func) string {
	path := ""
	if f.Pkg() != nil {
		path = strings.TrimPrefix(f.Pkg().Path(), hooksModule+"/")
	}
	path = strings.TrimPrefix(path, "x/")
	path = strings.TrimSuffix(path, "/keeper")
	name := f.Name()
	if n := hooksRecvNamed(f); n != nil && n.Obj().Name() != "Keeper" {
		name = n.Obj().Name() + "." + name
	}
	return path + "." + name
}

func hooksBuildGraph(c *corpus) *hooksGraph {
	if hooksGraphCache != nil && hooksGraphCache.c == c {
		return hooksGraphCache
	}
	g := &hooksGraph{c: c, fns: map[*types.Func]*hooksFn{}, methods: map[string][]*types.Func{}, implMem: map[string][]*types.Func{},
		callers: map[*types.Func][]*types.Func{}}
	for _, p := range c.all {
		for _, file := range p.Syntax {
			fname := p.Fset.Position(file.Pos()).Filename
			if hooksIsGenerated(fname) {
				continue
			}
			for _, d := range file.Decls {
				fd, ok := d.(*ast.FuncDecl)
				if !ok || fd.Body == nil {
					continue
				}
				obj, _ := p.TypesInfo.Defs[fd.Name].(*types.Func)
				if obj == nil {
					continue
				}
				fn := &hooksFn{obj: obj, decl: fd, pkg: p}
				g.fns[obj] = fn
				g.order = append(g.order, fn)
				if fd.Recv != nil {
					g.methods[obj.Name()] = append(g.methods[obj.Name()], obj)
				}
			}
		}
	}
	for _, fn := range g.order {
		g.scan(fn)
	}
	// transitive closure (fixpoint; the graph is small)
	for _, fn := range g.order {
		fn.writes = fn.directWrite
		fn.containsWrap = fn.directWrap
	}
	for changed := true; changed; {
		changed = false
		for _, fn := range g.order {
			for _, r := range fn.refs {
				t := g.fns[r]
				if t == nil {
					continue
				}
				if t.writes && !fn.writes {
					fn.writes, changed = true, true
				}
				if t.containsWrap && !fn.containsWrap {
					fn.containsWrap, changed = true, true
				}
			}
		}
	}
	for _, fn := range g.order {
		fn.writingLoop = g.hasWritingLoop(fn)
		for _, r := range fn.refs {
			g.callers[r] = append(g.callers[r], fn.obj)
		}
	}
	hooksGraphCache = g
	return g
}

// resolve a referenced function object to the repository functions it may stand for
func (g *hooksGraph) resolve(f *types.Func) []*types.Func {
	f = f.Origin()
	if !hooksIsInterfaceMethod(f) {
		if _, ok := g.fns[f]; ok {
			return []*types.Func{f}
		}
		return nil
	}
	sig := f.Type().(*types.Signature)
	iface, _ := sig.Recv().Type().Underlying().(*types.Interface)
	if iface == nil {
		return nil
	}
	key := types.TypeString(sig.Recv().Type(), nil) + "." + f.Name()
	if r, ok := g.implMem[key]; ok {
		return r
	}
	var out []*types.Func
	for _, m := range g.methods[f.Name()] {
		n := hooksRecvNamed(m)
		if n == nil {
			continue
		}
		if types.Implements(n, iface) || types.Implements(types.NewPointer(n), iface) {
			out = append(out, m)
		}
	}
	g.implMem[key] = out
	return out
}

// is the (unresolvable) function a state-changing primitive?
func (g *hooksGraph) externalWrite(f *types.Func) bool {
	if f.Pkg() == nil {
		return false
	}
	path := f.Pkg().Path()
	sig, _ := f.Type().(*types.Signature)
	if sig == nil || sig.Recv() == nil {
		return false
	}
	if strings.Contains(path, "/store") && (f.Name() == "Set" || f.Name() == "Delete") {
		return true
	}
	// a keeper outside the repository: either an interface declared in the repository without a
	// repository implementer (expected.BankKeeper), or an SDK / ibc / wasm keeper used directly
	if hooksIsRepo(f) && hooksIsInterfaceMethod(f) && len(g.resolve(f)) == 0 {
		return hooksExtWriteRe.MatchString(f.Name())
	}
	if !hooksIsRepo(f) && (strings.Contains(path, "/x/") || strings.Contains(path, "/modules/")) && strings.Contains(path, "keeper") {
		return hooksExtWriteRe.MatchString(f.Name())
	}
	return false
}

func hooksIsApply(f *types.Func) bool {
	return f != nil && f.Name() == "ApplyFuncIfNoError" && f.Pkg() != nil && f.Pkg().Path() == hooksModule+"/types"
}

func (g *hooksGraph) scan(fn *hooksFn) {
	seen := map[*types.Func]bool{}
	ast.Inspect(fn.decl.Body, func(n ast.Node) bool {
		id, ok := n.(*ast.Ident)
		if !ok {
			return true
		}
		f, _ := fn.pkg.TypesInfo.Uses[id].(*types.Func)
		if f == nil {
			return true
		}
		if hooksIsApply(f) {
			fn.directWrap = true
			return true
		}
		rs := g.resolve(f)
		if len(rs) == 0 {
			if g.externalWrite(f) {
				fn.directWrite = true
			}
			return true
		}
		for _, r := range rs {
			if !seen[r] {
				seen[r] = true
				fn.refs = append(fn.refs, r)
			}
		}
		return true
	})
}

// does the node reference a function that writes (directly or transitively)?
func (g *hooksGraph) nodeWrites(p *packages.Package, n ast.Node) bool {
	w := false
	ast.Inspect(n, func(n ast.Node) bool {
		if w {
			return false
		}
		id, ok := n.(*ast.Ident)
		if !ok {
			return true
		}
		f, _ := p.TypesInfo.Uses[id].(*types.Func)
		if f == nil {
			return true
		}
		rs := g.resolve(f)
		if len(rs) == 0 {
			if g.externalWrite(f) {
				w = true
			}
			return true
		}
		for _, r := range rs {
			if t := g.fns[r]; t != nil && t.writes {
				w = true
			}
		}
		return true
	})
	return w
}

func (g *hooksGraph) hasWritingLoop(fn *hooksFn) bool {
	found := false
	ast.Inspect(fn.decl.Body, func(n ast.Node) bool {
		if found {
			return false
		}
		switch s := n.(type) {
		case *ast.ForStmt:
			if g.nodeWrites(fn.pkg, s.Body) {
				found = true
			}
		case *ast.RangeStmt:
			if g.nodeWrites(fn.pkg, s.Body) {
				found = true
			}
		}
		return true
	})
	return found
}

// all transitive callers of f (by reference), names sorted
func (g *hooksGraph) transitiveCallers(f *types.Func) []*types.Func {
	seen := map[*types.Func]bool{f: true}
	work := []*types.Func{f}
	var out []*types.Func
	for len(work) > 0 {
		x := work[len(work)-1]
		work = work[:len(work)-1]
		for _, c := range g.callers[x] {
			if !seen[c] {
				seen[c] = true
				out = append(out, c)
				work = append(work, c)
			}
		}
	}
	sort.Slice(out, func(i, j int) bool { return hooksName(out[i]) < hooksName(out[j]) })
	return out
}
