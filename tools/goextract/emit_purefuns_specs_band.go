// emit_purefuns_specs_band: tie (C) specs of the band-oracle side of the price pipeline (C17).
// Kept in its own file; appended to the shared list before the emitter runs.
package main

func init() {
	pureFunSpecs = append(pureFunSpecs,
		// x/bandoracle/keeper/oracle.go: the request-id comparison of the 20-block check
		// (res in bandoracle.BeginBlocker).  reads = the stored last acknowledged request id
		pfSpec{pkg: "x/bandoracle/keeper", recv: "Keeper", fn: "OraclePriceValidationByRequestID",
			coq: "gen_band_OraclePriceValidationByRequestID", reads: []string{"GetLastFetchPriceID"}},
	)
}
