// emit_purefuns: Gen/PureFuns.v - tie (C).  For a configured list of pure arithmetic Go functions
// (pureFunSpecs in emit_purefuns_specs.go; signatures, store reads and the printer are in
// emit_purefuns_driver.go) the type-checked AST is translated, statement by
// statement, into one shallow-embedded Gallina definition per function, written only in the
// vocabulary of coq/Lib/DecArith.v, coq/Lib/Base.v and coq/Lib/GoSem.v.  The per-property files
// coq/Properties/TieCxx.v prove each regenerated definition equal, for ALL inputs, to the
// hand-written model the property proofs are about.
//
// The translation (documented construct by construct in docs/TIE_C.md):
//   - values: sdkmath.Int, sdkmath.LegacyDec (its 10^18-scaled integer), native ints, error
//     (0 = nil) are Z; bool is bool
//   - the term has type  outcome R  (R = product of the result types): Ok v | Err 0 (panic of the
//     class utils.IsOverflow accepts) | Panic (any other panic)
//   - expressions are put in A-normal form in Go's left-to-right evaluation order; every call that
//     can panic becomes  obind (g_op a b) (fun t => ...)  so the order of the panic points is kept
//   - every assignment introduces a fresh Coq binder (SSA); if/switch without a return become
//     obind (if c then .. Ok (v1,..) else .. Ok (v1,..)) (fun '(v1,..) => rest); with a return the
//     rest is duplicated into the branches
//   - anything not recognised becomes  Unrecognised "<file>:<line>: <text>"  (sealed constant) and is
//     listed in gen_<f>_unrecognised; it is never skipped.
package main

import (
	"bytes"
	"fmt"
	"go/ast"
	"go/constant"
	"go/printer"
	"go/token"
	"go/types"
	"math/big"
	"sort"
	"strconv"
	"strings"

	"golang.org/x/tools/go/packages"
)

func init() { register("PureFuns", emitPureFuns) }

const pfNil = "\x00nil" // env marker: declared, holds the zero value of a pointer-backed type (nil Int/Dec)
const pfFnPrefix = "\x00fn:"

// ---------------------------------------------------------------------------------------------
// kinds of values

func pfNamed(t types.Type) (pkg, name string) {
	t = types.Unalias(t)
	if p, ok := t.(*types.Pointer); ok {
		t = types.Unalias(p.Elem())
	}
	n, ok := t.(*types.Named)
	if !ok || n.Obj() == nil {
		return "", ""
	}
	if n.Obj().Pkg() == nil {
		return "", n.Obj().Name()
	}
	return n.Obj().Pkg().Path(), n.Obj().Name()
}

// pfKind: "int" (sdkmath.Int), "dec" (sdkmath.LegacyDec), "bool", "i64" (int, int64), "u64" (uint, uint64),
// "err" (error), "ctx" (sdk.Context, ignored), "" (not a scalar the translator knows)
func pfKind(t types.Type) string {
	if t == nil {
		return ""
	}
	pkg, name := pfNamed(t)
	if _, isPtr := types.Unalias(t).(*types.Pointer); isPtr && pkg == "math/big" && name == "Int" {
		return "big" // *big.Int: its value; only fresh, never copied pointers are translated (emit_purefuns_slices.go)
	}
	if _, isPtr := types.Unalias(t).(*types.Pointer); !isPtr {
		switch {
		case pkg == "cosmossdk.io/math" && name == "Int":
			return "int"
		case pkg == "cosmossdk.io/math" && name == "LegacyDec":
			return "dec"
		case pkg == "github.com/cosmos/cosmos-sdk/types" && name == "Context":
			return "ctx"
		case pkg == "" && name == "error":
			return "err"
		}
	}
	if sl, ok := types.Unalias(t).Underlying().(*types.Slice); ok {
		// a slice of plain 64-bit natives is a list of Z (value semantics: see pfAliasing in
		// emit_purefuns_slices.go for the conditions under which Go's sharing cannot be observed)
		if _, ptr := types.Unalias(t).(*types.Pointer); !ptr {
			if ek := pfKind(sl.Elem()); ek == "i64" || ek == "u64" {
				return "list"
			}
		}
		return ""
	}
	if b, ok := types.Unalias(t).Underlying().(*types.Basic); ok {
		if _, named := types.Unalias(t).(*types.Named); named && b.Kind() != types.Int && b.Kind() != types.Int64 && b.Kind() != types.Uint64 {
			// a named integer type (enum) is translated when it is 64 bits wide like the plain natives
			return ""
		}
		switch b.Kind() {
		case types.Bool, types.UntypedBool:
			return "bool"
		case types.Int, types.Int64, types.UntypedInt:
			return "i64"
		case types.Uint, types.Uint64:
			return "u64"
		}
	}
	return ""
}

func pfCoqType(kind string) string {
	if kind == "bool" {
		return "bool"
	}
	if kind == "list" {
		return "list Z"
	}
	if strings.HasSuffix(kind, "?") {
		return "option Z"
	}
	if strings.HasPrefix(kind, pfPtrKindPrefix) {
		return pfPtrCoqType(kind)
	}
	return "Z"
}

func pfScalar(kind string) bool { return kind != "" && kind != "ctx" }

var pfErrorIface = types.Universe.Lookup("error").Type().Underlying().(*types.Interface)

// pfIsErrVar: a package-level variable whose value is an error (error, *errors.Error, ..)
func pfIsErrVar(o types.Object) bool {
	v, ok := o.(*types.Var)
	if !ok || v.IsField() || v.Pkg() == nil || v.Parent() != v.Pkg().Scope() {
		return false
	}
	return pfKind(v.Type()) == "err" || types.Implements(v.Type(), pfErrorIface)
}

// ---------------------------------------------------------------------------------------------
// functions

type pfParam struct {
	name string // Coq name
	kind string
}

type pfFun struct {
	spec    pfSpec
	pkg     *packages.Package
	decl    *ast.FuncDecl
	obj     *types.Func
	keeper  bool                // method of a keeper: calls through the receiver are store reads (inputs)
	recvObj *types.Var          // the receiver variable
	fields  []*types.Var        // scalar fields of a struct receiver, in declaration order
	params  []*types.Var        // scalar parameters, in order (blank and context parameters are dropped)
	dropped map[int]bool        // indices of dropped parameters
	structP map[*types.Var]bool // struct-typed parameters (fields become inputs on demand)
	resK    []string            // result kinds, flattened: a struct result contributes one entry per scalar field
	// per Go result: the field names / kinds of a struct result (nil = a scalar result); may the
	// result be a nil Int / Dec (then its kind in resK is "int?" / "dec?": option Z)
	resShape  [][]string
	resFieldK [][]string
	resNil    []bool
	resPtr    map[int]bool // results that are pointers to a struct (emit_purefuns_ptr.go)
	// filled by the translation
	fixed    []pfParam
	extra    []pfParam         // inputs discovered in the body (struct fields, store reads), in order of first use
	extraK   map[string]string // key -> Coq name
	body     string
	unrec    []string
	deps     []*pfFun
	done     bool
	busy     bool
	errSites map[token.Pos]int
	// the store cell (spec.cell): fields of its record, set at the first read
	cellFields, cellKinds []string
	cellType              types.Type
}

type pfEnv map[types.Object]string

func (e pfEnv) with(o types.Object, v string) pfEnv {
	n := make(pfEnv, len(e)+1)
	for k, x := range e {
		n[k] = x
	}
	n[o] = v
	return n
}

// per-function translation state (swapped when a callee is translated on demand)
type pfState struct {
	f            *pfFun
	pkg          *packages.Package
	used         map[string]bool // Coq names in use
	binder       map[string]bool // names introduced by an obind (not by a let or a parameter)
	adopted      map[string]bool // binders that already stand for a Go variable
	callHints    []string
	callHintsFor *ast.CallExpr
	closure      int
	pure         int
	loop         int
}

type pfTr struct {
	c    *corpus
	funs map[*types.Func]*pfFun
	pfState
	pkgVarConst map[types.Object]bool
	// emit_purefuns_slices.go
	structs []*pfStruct       // struct values built in function bodies (immutable once created)
	cells   []*pfCellState    // store cell states (immutable once created)
	cellObj types.Object      // the environment key of the store cell state
	sliceOK map[ast.Node]bool // append / slice expressions whose result goes back to their operand
}

var pfReserved = map[string]bool{}

func init() {
	for _, w := range strings.Fields(`as at cofix else end exists exists2 fix for forall fun if IF in let match mod
		Prop return Set then Type using where with by lazymatch multimatch
		Z N nat bool list option unit true false tt Some None Ok Err Panic obind outcome fst snd pair negb andb orb
		P18 P36 HALF18 two64 two63 two256 two315 dec_of_int dceil dtrunc_int dtrunc_dec dround_int dec_with_prec
		min_dec max_dec min_int max_int wrap_u64 wrap_i64 safe_math collapse to_option Unrecognised lift_ovf lift_pan
		is_int64 is_uint64 fold_left length string app cons nil xorb eqb zlen zsum nth_z set_nth
		for_range for_loop range_loop add64_sum add64_carry sub64_diff sub64_borrow mul64_hi mul64_lo out_of_cell
		repeat firstn skipn rev map two128 dec_digits dec_text_len big_exp`) {
		pfReserved[w] = true
	}
}

func (t *pfTr) fresh(base string) string {
	if base == "" || base == "_" {
		base = "t"
	}
	// Coq identifiers: Go identifiers are letters/digits/_ (unicode letters are rare: map them away)
	var b strings.Builder
	for _, r := range base {
		if r < 128 && (r == '_' || r >= '0' && r <= '9' || r >= 'a' && r <= 'z' || r >= 'A' && r <= 'Z') {
			b.WriteRune(r)
		} else {
			b.WriteString("_u")
		}
	}
	base = b.String()
	if pfReserved[base] || strings.HasPrefix(base, "g_") || strings.HasPrefix(base, "gen_") || base[0] >= '0' && base[0] <= '9' {
		base = base + "_"
	}
	name := base
	for i := 1; t.used[name]; i++ {
		name = fmt.Sprintf("%s_%d", base, i)
	}
	t.used[name] = true
	return name
}

func (t *pfTr) src(n ast.Node) string {
	var b bytes.Buffer
	printer.Fprint(&b, t.pkg.Fset, n)
	s := strings.Join(strings.Fields(b.String()), " ")
	if len(s) > 90 {
		s = s[:90] + "..."
	}
	return s
}

// unrec: the fail-closed exit.  The whole rest of the computation is replaced by the sealed constant.
func (t *pfTr) unrec(n ast.Node, why string) string {
	pos := t.pkg.Fset.Position(n.Pos())
	msg := fmt.Sprintf("%s:%d: %s: %s", t.c.rel(pos.Filename), pos.Line, why, t.src(n))
	t.f.unrec = append(t.f.unrec, msg)
	return "Unrecognised " + coqString(msg) + "%string"
}

func pfBind(m, binder, body string) string {
	// obind m Ok = m  (right identity of the monad; valid for every m by case analysis)
	exprForm := strings.TrimPrefix(binder, "'")
	if body == "Ok "+exprForm {
		return m
	}
	return "obind (" + m + ") (fun " + binder + " =>\n" + body + ")"
}

func pfTuple(names []string) (pat, expr string) {
	switch len(names) {
	case 0:
		return "_", "tt"
	case 1:
		return names[0], names[0]
	}
	s := "(" + strings.Join(names, ", ") + ")"
	return "'" + s, s
}

// pfSubstKey replaces identifier tokens of a read key
func pfSubstKey(key string, sub map[string]string) string {
	var b strings.Builder
	isId := func(r byte) bool {
		return r == '_' || r >= '0' && r <= '9' || r >= 'a' && r <= 'z' || r >= 'A' && r <= 'Z'
	}
	for i := 0; i < len(key); {
		if !isId(key[i]) {
			b.WriteByte(key[i])
			i++
			continue
		}
		j := i
		for j < len(key) && isId(key[j]) {
			j++
		}
		tok := key[i:j]
		if v, ok := sub[tok]; ok && (i == 0 || key[i-1] != '.') {
			b.WriteString(v)
		} else {
			b.WriteString(tok)
		}
		i = j
	}
	return b.String()
}

// pfSimpleAtom: an identifier or a numeral (no parentheses, no application)
func pfSimpleAtom(v string) bool {
	if v == "" {
		return false
	}
	for _, r := range v {
		if !(r == '_' || r >= '0' && r <= '9' || r >= 'a' && r <= 'z' || r >= 'A' && r <= 'Z') {
			return false
		}
	}
	return true
}

func pfZ(v *big.Int) string {
	if v.Sign() < 0 {
		return "(" + v.String() + ")"
	}
	return v.String()
}

// ---------------------------------------------------------------------------------------------
// expressions

// mop emits one operation that can panic and binds its result
func (t *pfTr) mop(at ast.Node, op, hint string, k func(string) string) string {
	if t.pure > 0 {
		return t.unrec(at, "operation that can panic in a constant initialiser")
	}
	v := t.fresh(hint)
	t.binder[v] = true
	return pfBind(op, v, k(v))
}

func (t *pfTr) exprs(es []ast.Expr, en pfEnv, k func([]string) string) string {
	var rec func(i int, acc []string) string
	rec = func(i int, acc []string) string {
		if i == len(es) {
			return k(acc)
		}
		return t.expr(es[i], en, "", func(a string) string {
			return rec(i+1, append(append([]string{}, acc...), a))
		})
	}
	return rec(0, nil)
}

func (t *pfTr) objOf(id *ast.Ident) types.Object {
	if o := t.pkg.TypesInfo.Uses[id]; o != nil {
		return o
	}
	return t.pkg.TypesInfo.Defs[id]
}

func (t *pfTr) kindOf(e ast.Expr) string { return pfKind(t.pkg.TypesInfo.TypeOf(e)) }

// constant-folded value of an expression, if the type checker computed one
func (t *pfTr) constOf(e ast.Expr) (string, bool) {
	tv, ok := t.pkg.TypesInfo.Types[e]
	if !ok || tv.Value == nil {
		return "", false
	}
	switch tv.Value.Kind() {
	case constant.Int:
		v, ok := new(big.Int).SetString(tv.Value.ExactString(), 10)
		if !ok {
			return "", false
		}
		return pfZ(v), true
	case constant.Bool:
		if constant.BoolVal(tv.Value) {
			return "true", true
		}
		return "false", true
	}
	return "", false
}

func (t *pfTr) expr(e ast.Expr, en pfEnv, hint string, k func(string) string) string {
	if c, ok := t.constOf(e); ok {
		return k(c)
	}
	switch x := e.(type) {
	case *ast.ParenExpr:
		return t.expr(x.X, en, hint, k)
	case *ast.Ident:
		return t.ident(x, en, k)
	case *ast.SelectorExpr:
		return t.selector(x, en, k)
	case *ast.UnaryExpr:
		return t.unary(x, en, hint, k)
	case *ast.BinaryExpr:
		return t.binary(x, en, hint, k)
	case *ast.CallExpr:
		return t.call(x, en, hint, func(rs []string) string {
			if len(rs) != 1 {
				return t.unrec(x, "multi-value call in single-value context")
			}
			return k(rs[0])
		})
	case *ast.CompositeLit:
		// sdk.Dec{} / sdk.Int{}: the nil value
		if kd := t.kindOf(x); (kd == "int" || kd == "dec") && len(x.Elts) == 0 {
			return k(pfNil)
		}
		return t.compositeLit(x, en, k)
	case *ast.IndexExpr:
		return t.indexExpr(x, en, hint, k)
	case *ast.SliceExpr:
		return t.sliceExpr(x, en, k)
	}
	return t.unrec(e, "expression")
}

func (t *pfTr) ident(x *ast.Ident, en pfEnv, k func(string) string) string {
	if x.Name == "nil" {
		if _, ok := t.objOf(x).(*types.Nil); ok {
			return k("0")
		}
	}
	o := t.objOf(x)
	if o == nil {
		return t.unrec(x, "unresolved identifier")
	}
	if v, ok := en[o]; ok {
		if strings.HasPrefix(v, pfFnPrefix) {
			return t.unrec(x, "function value used as data")
		}
		return k(v)
	}
	if v, ok := o.(*types.Var); ok && !v.IsField() && v.Pkg() != nil && v.Parent() == v.Pkg().Scope() {
		if pfIsErrVar(v) {
			return k(t.errCode(x))
		}
		return t.pkgVar(x, v, k)
	}
	return t.unrec(x, "identifier outside the translated subset")
}

// package-level variable with a constant initialiser that is never assigned anywhere in its package
func (t *pfTr) pkgVar(at ast.Node, v *types.Var, k func(string) string) string {
	if !pfScalar(pfKind(v.Type())) {
		return t.unrec(at, "package variable of untranslated type")
	}
	p := t.c.pkgs[v.Pkg().Path()]
	if p == nil {
		return t.unrec(at, "package variable of a package outside the corpus")
	}
	var init ast.Expr
	for _, f := range p.Syntax {
		for _, d := range f.Decls {
			gd, ok := d.(*ast.GenDecl)
			if !ok || gd.Tok != token.VAR {
				continue
			}
			for _, s := range gd.Specs {
				vs := s.(*ast.ValueSpec)
				for i, n := range vs.Names {
					if p.TypesInfo.Defs[n] == v && len(vs.Values) == len(vs.Names) {
						init = vs.Values[i]
					}
				}
			}
		}
	}
	if init == nil {
		return t.unrec(at, "package variable without a direct initialiser")
	}
	if !t.pkgVarIsConst(p, v) {
		return t.unrec(at, "package variable that is assigned or whose address is taken")
	}
	// translate the initialiser in the variable's own package, as a pure expression
	save := t.pkg
	t.pkg = p
	t.pure++
	r := t.expr(init, pfEnv{}, "", func(a string) string {
		t.pure--
		t.pkg = save
		r := k(a)
		t.pure++
		t.pkg = p
		return r
	})
	t.pure--
	t.pkg = save
	return r
}

func (t *pfTr) pkgVarIsConst(p *packages.Package, v *types.Var) bool {
	if r, ok := t.pkgVarConst[v]; ok {
		return r
	}
	okc := true
	for _, f := range p.Syntax {
		ast.Inspect(f, func(n ast.Node) bool {
			switch s := n.(type) {
			case *ast.AssignStmt:
				for _, l := range s.Lhs {
					if id, ok := l.(*ast.Ident); ok && p.TypesInfo.Uses[id] == v {
						okc = false
					}
				}
			case *ast.IncDecStmt:
				if id, ok := s.X.(*ast.Ident); ok && p.TypesInfo.Uses[id] == v {
					okc = false
				}
			case *ast.UnaryExpr:
				if id, ok := s.X.(*ast.Ident); ok && s.Op == token.AND && p.TypesInfo.Uses[id] == v {
					okc = false
				}
			}
			return true
		})
	}
	t.pkgVarConst[v] = okc
	return okc
}

// x.f: a field of the struct receiver, or of a struct-valued input
func (t *pfTr) selector(x *ast.SelectorExpr, en pfEnv, k func(string) string) string {
	sel := t.pkg.TypesInfo.Selections[x]
	if sel == nil {
		// qualified identifier pkg.Name
		if v, ok := t.pkg.TypesInfo.Uses[x.Sel].(*types.Var); ok && v.Pkg() != nil && v.Parent() == v.Pkg().Scope() {
			if pfIsErrVar(v) {
				return k(t.errCode(x))
			}
			return t.pkgVar(x, v, k)
		}
		return t.unrec(x, "qualified identifier")
	}
	if sel.Kind() != types.FieldVal {
		return t.unrec(x, "method value")
	}
	kd := t.kindOf(x)
	if !pfScalar(kd) {
		return t.unrec(x, "field of untranslated type")
	}
	path, root := t.fieldPath(x)
	if root == nil {
		return t.unrec(x, "field of a computed value")
	}
	ro := t.objOf(root)
	// the struct receiver: fields are fixed parameters, unless assigned earlier (then they are in en)
	if ro == t.f.recvObj && !t.f.keeper && len(path) == 1 {
		fo := sel.Obj()
		if v, ok := en[fo]; ok {
			return k(v)
		}
		return t.unrec(x, "receiver field that is not a parameter")
	}
	// a struct value built or modified in the body (emit_purefuns_slices.go)
	if v, ok := en[ro]; ok && strings.HasPrefix(v, pfStPrefix) {
		if a, ok := t.structField(v, path, kd); ok {
			return k(a)
		}
		return t.unrec(x, "field of a struct value")
	}
	// a struct-valued input (struct parameter, result of a store read)
	if v, ok := en[ro]; ok && strings.HasPrefix(v, pfInPrefix) {
		key := v[len(pfInPrefix):]
		base := strings.TrimPrefix(key, "param ")
		if b, ok := t.f.extraK["\x00base "+key]; ok {
			base = b
		}
		return k(t.input(key+"."+strings.Join(path, "."), base+"_"+strings.Join(path, "_"), kd))
	}
	return t.unrec(x, "field selection")
}

// fieldPath: a.b.c -> ([b c], a)
func (t *pfTr) fieldPath(x *ast.SelectorExpr) ([]string, *ast.Ident) {
	var path []string
	var cur ast.Expr = x
	for {
		switch y := cur.(type) {
		case *ast.SelectorExpr:
			s := t.pkg.TypesInfo.Selections[y]
			if s == nil || s.Kind() != types.FieldVal {
				return nil, nil
			}
			path = append([]string{y.Sel.Name}, path...)
			cur = y.X
		case *ast.ParenExpr:
			cur = y.X
		case *ast.Ident:
			return path, y
		default:
			return nil, nil
		}
	}
}

const pfInPrefix = "\x00in:" // env marker: struct-valued input; the rest is its key

// input: a function input discovered in the body; key identifies it, base names it
func (t *pfTr) input(key, base, kind string) string {
	if n, ok := t.f.extraK[key]; ok {
		return n
	}
	n := t.fresh(base)
	t.f.extraK[key] = n
	t.f.extra = append(t.f.extra, pfParam{n, kind})
	return n
}

// errCode: a non-nil error value.  Errors carry no arithmetic: the value is the 1-based number of the
// error-producing expression among those of the function, in source order (what the hand models
// use as Err 1, Err 2, ..), unless the spec maps its source text to a code.
func (t *pfTr) errCode(e ast.Expr) string {
	txt := t.src(e)
	if c, ok := t.f.spec.errs[txt]; ok {
		return strconv.Itoa(c)
	}
	if t.f.errSites == nil {
		t.f.errSites = map[token.Pos]int{}
		var sites []token.Pos
		ast.Inspect(t.f.decl.Body, func(n ast.Node) bool {
			ex, ok := n.(ast.Expr)
			if !ok {
				return true
			}
			if t.isErrSite(ex) {
				sites = append(sites, ex.Pos())
				return false
			}
			return true
		})
		sort.Slice(sites, func(i, j int) bool { return sites[i] < sites[j] })
		for i, p := range sites {
			t.f.errSites[p] = i + 1
		}
	}
	if n, ok := t.f.errSites[e.Pos()]; ok {
		return strconv.Itoa(n)
	}
	return "1"
}

// isErrSite: fmt.Errorf(..) / errors.New(..) / a package-level error variable
func (t *pfTr) isErrSite(e ast.Expr) bool {
	info := t.f.pkg.TypesInfo
	switch x := e.(type) {
	case *ast.CallExpr:
		if sel, ok := x.Fun.(*ast.SelectorExpr); ok && info.Selections[sel] == nil {
			if f, ok := info.Uses[sel.Sel].(*types.Func); ok && f.Pkg() != nil {
				return f.Pkg().Path() == "fmt" && f.Name() == "Errorf" || f.Pkg().Path() == "errors" && f.Name() == "New"
			}
		}
	case *ast.SelectorExpr:
		if info.Selections[x] == nil {
			return pfIsErrVar(info.Uses[x.Sel])
		}
	case *ast.Ident:
		return pfIsErrVar(info.Uses[x])
	}
	return false
}

func (t *pfTr) unary(x *ast.UnaryExpr, en pfEnv, hint string, k func(string) string) string {
	kd := t.kindOf(x.X)
	switch {
	case x.Op == token.NOT && kd == "bool":
		return t.expr(x.X, en, "", func(a string) string { return k("(negb " + a + ")") })
	case x.Op == token.SUB && kd == "i64":
		return t.expr(x.X, en, "", func(a string) string { return k("(wrap_i64 (- " + a + "))") })
	case x.Op == token.ADD && (kd == "i64" || kd == "u64"):
		return t.expr(x.X, en, hint, k)
	case x.Op == token.AND:
		return t.addrOf(x, en, k)
	}
	return t.unrec(x, "unary operator")
}

func (t *pfTr) binary(x *ast.BinaryExpr, en pfEnv, hint string, k func(string) string) string {
	lk, rk := t.kindOf(x.X), t.kindOf(x.Y)
	if id, ok := x.Y.(*ast.Ident); ok && id.Name == "nil" && lk == "err" {
		rk = "err"
	}
	if id, ok := x.X.(*ast.Ident); ok && id.Name == "nil" && rk == "err" {
		lk = "err"
	}
	// short-circuit operators: the right operand is only evaluated when needed
	if x.Op == token.LAND || x.Op == token.LOR {
		if lk != "bool" || rk != "bool" {
			return t.unrec(x, "logical operator on non-bool")
		}
		return t.expr(x.X, en, "", func(a string) string {
			// pure right operand: andb / orb
			t.pure++
			mark := len(t.f.unrec)
			var pureR string
			okPure := true
			rr := t.expr(x.Y, en, "", func(b string) string { pureR = b; return "" })
			t.pure--
			if rr != "" || len(t.f.unrec) != mark {
				okPure = false
				t.f.unrec = t.f.unrec[:mark]
			}
			if okPure {
				if x.Op == token.LAND {
					return k("(" + a + " && " + pureR + ")")
				}
				return k("(" + a + " || " + pureR + ")")
			}
			v := t.fresh(hint)
			right := t.expr(x.Y, en, "", func(b string) string { return "Ok " + b })
			if x.Op == token.LAND {
				return pfBind("if "+a+" then "+right+" else Ok false", v, k(v))
			}
			return pfBind("if "+a+" then Ok true else "+right, v, k(v))
		})
	}
	if (x.Op == token.EQL || x.Op == token.NEQ) && (lk == "int" || lk == "dec") && rk == lk {
		// == on the structs Int{i *big.Int} / LegacyDec{i *big.Int} compares the POINTERS.  A constructor
		// call returns a freshly allocated big.Int, which no other value points to: never equal.
		other := x.X
		if !t.isFreshAlloc(x.Y) {
			if !t.isFreshAlloc(x.X) {
				return t.unrec(x, "pointer comparison of Int / Dec values")
			}
			other = x.Y
		}
		return t.expr(other, en, "", func(string) string {
			if x.Op == token.NEQ {
				return k("true")
			}
			return k("false")
		})
	}
	return t.expr(x.X, en, "", func(a string) string {
		return t.expr(x.Y, en, "", func(b string) string {
			if pfOpaque(a) || pfOpaque(b) {
				return t.unrec(x, "operator on a nil or untranslated value")
			}
			cmp := map[token.Token]string{token.EQL: "=?", token.LSS: "<?", token.GTR: ">?", token.LEQ: "<=?", token.GEQ: ">=?"}
			switch {
			case lk == "bool" && rk == "bool" && x.Op == token.EQL:
				return k("(Bool.eqb " + a + " " + b + ")")
			case lk == "bool" && rk == "bool" && x.Op == token.NEQ:
				return k("(xorb " + a + " " + b + ")")
			case (lk == "i64" || lk == "u64" || lk == "err") && (rk == lk || x.Op == token.SHL || x.Op == token.SHR):
				if c, ok := cmp[x.Op]; ok {
					return k("(" + a + " " + c + " " + b + ")")
				}
				if x.Op == token.NEQ {
					return k("(negb (" + a + " =? " + b + "))")
				}
				if lk == "err" {
					break
				}
				wrap := "wrap_i64"
				if lk == "u64" {
					wrap = "wrap_u64"
				}
				switch x.Op {
				case token.ADD:
					return k("(" + wrap + " (" + a + " + " + b + "))")
				case token.SUB:
					return k("(" + wrap + " (" + a + " - " + b + "))")
				case token.MUL:
					return k("(" + wrap + " (" + a + " * " + b + "))")
				case token.QUO:
					if lk == "u64" {
						return t.mop(x, "g_udiv "+a+" "+b, hint, k)
					}
					return t.mop(x, "g_sdiv "+a+" "+b, hint, k)
				case token.REM:
					if lk == "u64" {
						return t.mop(x, "g_umod "+a+" "+b, hint, k)
					}
					return t.mop(x, "g_smod "+a+" "+b, hint, k)
				}
			}
			return t.unrec(x, "binary operator")
		})
	})
}

// ---- calls

var pfDecPure = map[string]string{
	"IsZero": "(%s =? 0)", "IsPositive": "(%s >? 0)", "IsNegative": "(%s <? 0)",
	"Equal": "(%s =? %s)", "LT": "(%s <? %s)", "GT": "(%s >? %s)", "LTE": "(%s <=? %s)", "GTE": "(%s >=? %s)",
	"Neg": "(- %s)", "Abs": "(Z.abs %s)", "Ceil": "(dceil %s)", "TruncateDec": "(dtrunc_dec %s)", "Clone": "%s",
}
var pfDecMon = map[string]string{
	"Add": "g_dadd", "Sub": "g_dsub", "Mul": "g_dmul", "MulTruncate": "g_dmul_trunc", "MulRoundUp": "g_dmul_up",
	"MulInt": "g_dmul_int", "MulInt64": "g_dmul_int", "Quo": "g_dquo", "QuoTruncate": "g_dquo_trunc",
	"QuoRoundUp": "g_dquo_up", "QuoInt": "g_dquo_int", "QuoInt64": "g_dquo_int", "TruncateInt": "g_dtrunc_int",
	"RoundInt": "g_dround_int", "TruncateInt64": "g_dtrunc_i64", "RoundInt64": "g_dround_i64", "Power": "g_dpower",
}
var pfIntPure = map[string]string{
	"ToLegacyDec": "(dec_of_int %s)", "IsZero": "(%s =? 0)", "IsPositive": "(%s >? 0)", "IsNegative": "(%s <? 0)",
	"Equal": "(%s =? %s)", "LT": "(%s <? %s)", "GT": "(%s >? %s)", "LTE": "(%s <=? %s)", "GTE": "(%s >=? %s)",
	"Neg": "(- %s)", "Abs": "(Z.abs %s)", "IsInt64": "(is_int64 %s)", "IsUint64": "(is_uint64 %s)",
}
var pfIntMon = map[string]string{
	"Add": "g_iadd", "Sub": "g_isub", "Mul": "g_imul", "Quo": "g_iquo", "Mod": "g_imod",
	"AddRaw": "g_iadd", "SubRaw": "g_isub", "MulRaw": "g_imul", "QuoRaw": "g_iquo", "ModRaw": "g_imod",
	"Int64": "g_int64", "Uint64": "g_uint64",
}

// constructors and helpers of cosmossdk.io/math, also under their cosmos-sdk/types aliases
var pfPkgFun = map[string]string{
	"ZeroInt": "0", "OneInt": "1", "NewInt": "%s", "NewIntFromUint64": "%s",
	"LegacyZeroDec": "0", "ZeroDec": "0", "LegacyOneDec": "P18", "OneDec": "P18", "LegacySmallestDec": "1", "SmallestDec": "1",
	"LegacyNewDec": "(dec_of_int %s)", "NewDec": "(dec_of_int %s)",
	"LegacyNewDecFromInt": "(dec_of_int %s)", "NewDecFromInt": "(dec_of_int %s)",
	"LegacyMinDec": "(min_dec %s %s)", "MinDec": "(min_dec %s %s)", "LegacyMaxDec": "(max_dec %s %s)", "MaxDec": "(max_dec %s %s)",
	"MinInt": "(min_int %s %s)", "MaxInt": "(max_int %s %s)",
}

func pfIsMathPkg(p string) bool {
	return p == "cosmossdk.io/math" || p == "github.com/cosmos/cosmos-sdk/types"
}

func pfFormat(f string, args []string) (string, bool) {
	n := strings.Count(f, "%s")
	if n != len(args) {
		return "", false
	}
	xs := make([]interface{}, len(args))
	for i, a := range args {
		xs[i] = a
	}
	return fmt.Sprintf(f, xs...), true
}

// call translates a call; k receives the result atoms (one per result)
func (t *pfTr) call(x *ast.CallExpr, en pfEnv, hint string, k func([]string) string) string {
	info := t.pkg.TypesInfo
	one := func(a string) string { return k([]string{a}) }
	if x.Ellipsis.IsValid() {
		return t.unrec(x, "variadic call")
	}
	// type conversion
	if tv, ok := info.Types[x.Fun]; ok && tv.IsType() && len(x.Args) == 1 {
		to, from := pfKind(tv.Type), t.kindOf(x.Args[0])
		return t.expr(x.Args[0], en, hint, func(a string) string {
			switch {
			case to == from && pfScalar(to):
				return one(a)
			case to == "i64" && from == "u64":
				return one("(wrap_i64 " + a + ")")
			case to == "u64" && from == "i64":
				return one("(wrap_u64 " + a + ")")
			}
			return t.unrec(x, "conversion")
		})
	}
	var callee types.Object
	var recv ast.Expr
	switch f := x.Fun.(type) {
	case *ast.Ident:
		callee = t.objOf(f)
		if v, ok := en[callee]; ok && strings.HasPrefix(v, pfFnPrefix) {
			return t.named(x, v[len(pfFnPrefix):], nil, en, hint, k)
		}
	case *ast.SelectorExpr:
		if s := info.Selections[f]; s != nil {
			if s.Kind() != types.MethodVal {
				return t.unrec(x, "call of a function-valued field")
			}
			callee = s.Obj()
			recv = f.X
		} else {
			callee = info.Uses[f.Sel]
		}
	default:
		return t.unrec(x, "call of a computed function")
	}
	if callee == nil {
		return t.unrec(x, "unresolved callee")
	}
	if b, ok := callee.(*types.Builtin); ok {
		if b.Name() == "panic" && len(x.Args) == 1 {
			return t.panicCall(x)
		}
		return t.builtinCall(x, b.Name(), en, one)
	}
	// ctx.BlockHeight() on the (never re-assigned) context parameter: an input
	if recv != nil && len(x.Args) == 0 && callee.Name() == "BlockHeight" && t.kindOf(recv) == "ctx" {
		if id, ok := recv.(*ast.Ident); ok && t.isCtxParam(id, en) {
			return one(t.input("ctx.BlockHeight()", "blockHeight", "i64"))
		}
		return t.unrec(x, "BlockHeight of a computed context")
	}
	// getter of an interface- or struct-valued input (a parameter such as amm.Order): a listed,
	// argument-free method is a field of that input
	if recv != nil && len(x.Args) == 0 {
		if id, ok := recv.(*ast.Ident); ok {
			if v, ok := en[t.objOf(id)]; ok && strings.HasPrefix(v, pfInPrefix) {
				listed := false
				for _, r := range t.f.spec.reads {
					if r == callee.Name() {
						listed = true
					}
				}
				kd := t.kindOf(x)
				if listed && pfScalar(kd) {
					key := v[len(pfInPrefix):]
					base := strings.TrimPrefix(key, "param ")
					if b, ok := t.f.extraK["\x00base "+key]; ok {
						base = b
					}
					return one(t.input(key+"."+callee.Name()+"()", base+"_"+strings.TrimPrefix(callee.Name(), "Get"), kd))
				}
				return t.unrec(x, "method of an input that is not a listed getter")
			}
		}
	}
	// *big.Int: Int.BigInt() (a fresh copy), nothing else as an expression
	if recv != nil && t.kindOf(recv) == "int" && callee.Name() == "BigInt" && len(x.Args) == 0 {
		return t.expr(recv, en, "", func(r string) string {
			if pfOpaque(r) {
				return t.unrec(x, "BigInt of a nil or untranslated Int")
			}
			return one(r)
		})
	}
	if recv != nil && t.kindOf(recv) == "big" {
		return t.unrec(x, "method of *big.Int")
	}
	// method of Int / Dec
	if recv != nil {
		rk := t.kindOf(recv)
		if rk == "int" || rk == "dec" {
			name := callee.Name()
			return t.expr(recv, en, "", func(r string) string {
				return t.exprs(x.Args, en, func(as []string) string {
					all := append([]string{r}, as...)
					if name == "IsNil" && len(as) == 0 {
						// the translator tracks nil-ness statically (a declared-but-unassigned Int/Dec)
						if r == pfNil {
							return one("true")
						}
						if strings.HasPrefix(r, pfOptPrefix) {
							return one("(match " + r[len(pfOptPrefix):] + " with Some _ => false | None => true end)")
						}
						return one("false")
					}
					for _, a := range all {
						if a == pfNil {
							// method call on / with a nil Int or Dec: nil *big.Int dereference
							return "Panic"
						}
					}
					for i, a := range all {
						if strings.HasPrefix(a, pfOptPrefix) {
							// a result of a translated function that may be nil: the dereference panics when it is
							return t.derefOpt(x, all, i, func(all2 []string) string {
								return t.intDecMethod(x, rk, name, all2, hint, one)
							})
						}
						if pfOpaque(a) {
							return t.unrec(x, "method call with an untranslated value")
						}
					}
					pure, mon := pfDecPure, pfDecMon
					if rk == "int" {
						pure, mon = pfIntPure, pfIntMon
					}
					if f, ok := pure[name]; ok {
						if s, ok := pfFormat(f, all); ok {
							return one(s)
						}
					}
					if op, ok := mon[name]; ok {
						return t.mop(x, op+" "+strings.Join(all, " "), hint, one)
					}
					return t.unrec(x, "method of "+rk)
				})
			})
		}
	}
	full := ""
	switch o := callee.(type) {
	case *types.Func:
		full = o.FullName()
	case *types.Var:
		if o.Pkg() != nil && o.Parent() == o.Pkg().Scope() {
			full = o.Pkg().Path() + "." + o.Name()
		}
	}
	if full == "" {
		return t.unrec(x, "callee")
	}
	return t.named(x, full, recv, en, hint, k)
}

func pfOverflowString(s string) bool { // utils.IsOverflow
	s = strings.ToLower(s)
	return strings.Contains(s, "overflow") || strings.HasSuffix(s, "out of bound")
}

func (t *pfTr) panicCall(x *ast.CallExpr) string {
	if tv, ok := t.pkg.TypesInfo.Types[x.Args[0]]; ok && tv.Value != nil && tv.Value.Kind() == constant.String {
		if pfOverflowString(constant.StringVal(tv.Value)) {
			return "Err 0"
		}
		return "Panic"
	}
	// panic(err) / panic(fmt.Sprintf(..)): the class of a formatted string is not known
	if t.kindOf(x.Args[0]) == "err" {
		return "Panic"
	}
	return t.unrec(x, "panic with a computed string")
}

// named: call of a function known by its full name
func (t *pfTr) named(x *ast.CallExpr, full string, recv ast.Expr, en pfEnv, hint string, k func([]string) string) string {
	one := func(a string) string { return k([]string{a}) }
	dot := strings.LastIndex(full, ".")
	pkgPath, name := full[:dot], full[dot+1:]
	if pfIsMathPkg(pkgPath) && recv == nil {
		switch name {
		case "LegacyNewDecWithPrec", "NewDecWithPrec":
			if len(x.Args) == 2 {
				if p, ok := t.constOf(x.Args[1]); ok {
					if pv, err := strconv.Atoi(p); err == nil && pv >= 0 && pv <= 18 {
						return t.expr(x.Args[0], en, "", func(a string) string {
							return one("(dec_with_prec " + a + " " + p + ")")
						})
					}
				}
			}
			return t.unrec(x, "NewDecWithPrec with a non-constant or out-of-range precision")
		case "NewIntWithDecimal":
			// n * 10^dec (int.go:137); panics when dec < 0 or the result exceeds 256 bits
			if len(x.Args) == 2 {
				n, ok1 := t.constOf(x.Args[0])
				d, ok2 := t.constOf(x.Args[1])
				if dv, err := strconv.Atoi(d); ok1 && ok2 && err == nil && dv >= 0 && dv <= 58 && len(n) <= 18 {
					return one("(" + n + " * 10 ^ " + d + ")")
				}
			}
			return t.unrec(x, "NewIntWithDecimal with non-constant or large arguments")
		case "LegacyMustNewDecFromStr", "MustNewDecFromStr":
			if len(x.Args) == 1 {
				if tv, ok := t.pkg.TypesInfo.Types[x.Args[0]]; ok && tv.Value != nil && tv.Value.Kind() == constant.String {
					if v, ok := pfDecFromStr(constant.StringVal(tv.Value)); ok {
						return one(pfZ(v))
					}
				}
			}
			return t.unrec(x, "MustNewDecFromStr of a non-literal or malformed string")
		}
		if f, ok := pfPkgFun[name]; ok {
			return t.exprs(x.Args, en, func(as []string) string {
				for _, a := range as {
					if a == pfNil {
						return "Panic"
					}
				}
				for i, a := range as {
					if strings.HasPrefix(a, pfOptPrefix) {
						return t.derefOpt(x, as, i, func(as2 []string) string {
							if s, ok := pfFormat(f, as2); ok {
								return one(s)
							}
							return t.unrec(x, "arity")
						})
					}
					if pfOpaque(a) {
						return t.unrec(x, "constructor applied to an untranslated value")
					}
				}
				if s, ok := pfFormat(f, as); ok {
					return one(s)
				}
				return t.unrec(x, "arity")
			})
		}
	}
	if pkgPath == "math/bits" && recv == nil {
		return t.bitsCall(x, name, en, k)
	}
	if pkgPath == "math/big" && recv == nil && name == "NewInt" && len(x.Args) == 1 && t.kindOf(x.Args[0]) == "i64" {
		return t.expr(x.Args[0], en, hint, one) // a fresh *big.Int holding the int64
	}
	if pfIsMathPkg(pkgPath) && recv == nil && name == "NewIntFromBigInt" && len(x.Args) == 1 && t.kindOf(x.Args[0]) == "big" {
		// int.go:109: nil -> Int{} (a translated *big.Int is never nil); BitLen > 256 panics "NewIntFromBigInt() out of bound"
		return t.expr(x.Args[0], en, "", func(a string) string {
			if pfOpaque(a) {
				return t.unrec(x, "NewIntFromBigInt of an untranslated value")
			}
			return t.mop(x, "g_int_of_big "+a, hint, one)
		})
	}
	if strings.HasSuffix(pkgPath, "comdex/types") && name == "DecApproxSqrt" && len(x.Args) == 1 {
		return t.expr(x.Args[0], en, "", func(a string) string {
			if a == pfNil {
				return "Panic"
			}
			return t.mop(x, "g_sqrt "+a, hint, one)
		})
	}
	if pkgPath == "fmt" && name == "Errorf" || pkgPath == "errors" && name == "New" {
		// a fresh non-nil error; its arguments are formatted, not computed with
		return one(t.errCode(x))
	}
	// another translated function
	for fo, g := range t.funs {
		if fo.FullName() == full {
			return t.genCall(x, g, recv, en, hint, k)
		}
	}
	return t.unrec(x, "call of an untranslated function "+full)
}

// pfDecFromStr: LegacyNewDecFromStr (dec.go:153) for a literal: optional sign, digits, optional
// fraction of at most 18 digits
func pfDecFromStr(s string) (*big.Int, bool) {
	neg := false
	if strings.HasPrefix(s, "-") {
		neg = true
		s = s[1:]
	}
	if s == "" {
		return nil, false
	}
	parts := strings.Split(s, ".")
	if len(parts) > 2 || parts[0] == "" {
		return nil, false
	}
	frac := ""
	if len(parts) == 2 {
		frac = parts[1]
		if frac == "" || len(frac) > 18 {
			return nil, false
		}
	}
	for _, r := range parts[0] + frac {
		if r < '0' || r > '9' {
			return nil, false
		}
	}
	v, ok := new(big.Int).SetString(parts[0]+frac+strings.Repeat("0", 18-len(frac)), 10)
	if !ok {
		return nil, false
	}
	if neg {
		v.Neg(v)
	}
	return v, true
}

// genCall: call of another translated function; its receiver fields, parameters and discovered
// inputs are passed in the callee's order
func (t *pfTr) genCall(x *ast.CallExpr, g *pfFun, recv ast.Expr, en pfEnv, hint string, k func([]string) string) string {
	if g.busy {
		return t.unrec(x, "recursive call")
	}
	if g.spec.cell != nil {
		return t.unrec(x, "call of a translated function that writes a store cell")
	}
	for _, a := range x.Args {
		// value semantics for slices: the callee must not change a backing array it shares with the caller
		if pfSliceTyped(t.pkg.TypesInfo.TypeOf(a)) && g.decl != nil && pfHasSliceMutation(g.decl.Body) {
			return t.unrec(x, "slice passed to a function that assigns slice elements or appends (aliasing)")
		}
	}
	t.translateFun(g)
	found := false
	for _, d := range t.f.deps {
		if d == g {
			found = true
		}
	}
	if !found {
		t.f.deps = append(t.f.deps, g)
	}
	var pre []string
	if len(g.fields) > 0 {
		// only a call on the caller's own receiver (same struct) is supported: same field values
		id, ok := recv.(*ast.Ident)
		if !ok || t.objOf(id) != t.f.recvObj || t.f.recvObj == nil || len(t.f.fields) != len(g.fields) {
			return t.unrec(x, "method call on another struct value")
		}
		for i, fo := range t.f.fields {
			if fo != g.fields[i] {
				return t.unrec(x, "method call on another struct type")
			}
			v, ok := en[fo]
			if !ok {
				return t.unrec(x, "receiver field")
			}
			pre = append(pre, v)
		}
	} else if recv != nil && !g.keeper {
		return t.unrec(x, "method call with an untranslated receiver")
	} else if g.keeper {
		id, ok := recv.(*ast.Ident)
		if !ok || t.objOf(id) != t.f.recvObj {
			return t.unrec(x, "keeper method called through another value")
		}
	}
	sig := g.obj.Type().(*types.Signature)
	if len(x.Args) != sig.Params().Len() {
		return t.unrec(x, "arity")
	}
	var argE []ast.Expr
	for i, a := range x.Args {
		if g.dropped[i] {
			// dropped parameter (context, blank): the argument must be free of effects
			if _, ok := a.(*ast.Ident); !ok {
				if _, isConst := t.constOf(a); !isConst {
					return t.unrec(a, "computed argument for an ignored parameter")
				}
			}
			continue
		}
		argE = append(argE, a)
	}
	return t.exprs(argE, en, func(as []string) string {
		for _, a := range as {
			if a == pfNil || strings.HasPrefix(a, pfInPrefix) {
				return t.unrec(x, "nil or struct argument")
			}
		}
		args := append(append([]string{}, pre...), as...)
		// the callee's discovered inputs (store reads) become inputs of the caller.  A read is identified
		// by its callee and arguments, so the callee's parameters are replaced by this call's actual
		// arguments in the key: the same read reached along two call paths is one input
		sub := map[string]string{}
		for i, fp := range g.fixed {
			if i < len(args) {
				sub[fp.name] = args[i]
			}
		}
		for _, ex := range g.extra {
			key := ""
			for kk, n := range g.extraK {
				if n == ex.name && !strings.HasPrefix(kk, "\x00") {
					key = kk
				}
			}
			if strings.HasPrefix(key, "param ") {
				// a field of a struct parameter of the callee: the field of this call's argument
				a, ok := t.structArgField(x, g, key, ex.kind, en)
				if !ok {
					return t.unrec(x, "call of a translated function with a struct parameter that is not a local struct value")
				}
				args = append(args, a)
				continue
			}
			args = append(args, t.input(pfSubstKey(key, sub), ex.name, ex.kind))
		}
		op := g.spec.coq
		if len(args) > 0 {
			op += " " + strings.Join(args, " ")
		}
		if t.pure > 0 {
			return t.unrec(x, "call in a constant initialiser")
		}
		goN := len(g.resShape)
		var names, outs []string
		var hints []string
		if t.callHintsFor == x {
			hints = t.callHints
		}
		for i := 0; i < goN; i++ {
			h := "r"
			if goN == 1 && hint != "" {
				h = hint
			} else if len(hints) == goN && hints[i] != "_" {
				h = hints[i]
			}
			if g.resShape[i] == nil {
				n := t.fresh(h)
				t.binder[n] = true
				names = append(names, n)
				if g.resNil[i] {
					n = pfOptPrefix + n // may be a nil Int / Dec: option Z
				}
				outs = append(outs, n)
				continue
			}
			if g.isResPtr(i) {
				// a pointer-to-struct result: one component (an option of the fields), only handed on
				n := t.fresh(h)
				t.binder[n] = true
				names = append(names, n)
				outs = append(outs, pfPtrPrefix+n)
				continue
			}
			// a struct result: one component per scalar field
			st := &pfStruct{over: map[string]string{}}
			for _, fn := range g.resShape[i] {
				n := t.fresh(fn)
				names = append(names, n)
				st.over[fn] = n
			}
			outs = append(outs, t.newStruct(st))
		}
		pat, _ := pfTuple(names)
		return pfBind(op, pat, k(outs))
	})
}

// ---------------------------------------------------------------------------------------------
// statements

// outer variables a statement list assigns (declared outside [lo,hi]), in declaration order
func (t *pfTr) assignedOuter(nodes []ast.Node, lo, hi token.Pos) []types.Object {
	seen := map[types.Object]bool{}
	var out []types.Object
	add := func(e ast.Expr) {
		var o types.Object
		switch l := e.(type) {
		case *ast.Ident:
			if l.Name == "_" {
				return
			}
			o = t.pkg.TypesInfo.Uses[l]
		case *ast.SelectorExpr:
			if s := t.pkg.TypesInfo.Selections[l]; s != nil && s.Kind() == types.FieldVal {
				o = s.Obj()
			}
		case *ast.IndexExpr:
			// s[i] = v assigns the slice variable s (value semantics)
			if id, ok := l.X.(*ast.Ident); ok {
				o = t.pkg.TypesInfo.Uses[id]
			} else if se, ok := l.X.(*ast.SelectorExpr); ok {
				if s := t.pkg.TypesInfo.Selections[se]; s != nil && s.Kind() == types.FieldVal {
					o = s.Obj()
				}
			}
		}
		if o == nil || seen[o] {
			return
		}
		if _, isField := o.(*types.Var); isField && o.(*types.Var).IsField() {
			seen[o] = true
			out = append(out, o)
			return
		}
		if o.Pos() >= lo && o.Pos() <= hi {
			return
		}
		seen[o] = true
		out = append(out, o)
	}
	for _, n := range nodes {
		if n == nil {
			continue
		}
		ast.Inspect(n, func(m ast.Node) bool {
			switch s := m.(type) {
			case *ast.AssignStmt:
				for _, l := range s.Lhs {
					add(l)
				}
			case *ast.IncDecStmt:
				add(s.X)
			case *ast.RangeStmt:
				if s.Tok == token.ASSIGN {
					if s.Key != nil {
						add(s.Key)
					}
					if s.Value != nil {
						add(s.Value)
					}
				}
			}
			return true
		})
	}
	sort.SliceStable(out, func(i, j int) bool { return out[i].Pos() < out[j].Pos() })
	return out
}

func pfMayReturn(nodes ...ast.Node) bool {
	r := false
	for _, n := range nodes {
		if n == nil {
			continue
		}
		ast.Inspect(n, func(m ast.Node) bool {
			switch m.(type) {
			case *ast.FuncLit:
				return false
			case *ast.ReturnStmt, *ast.BranchStmt:
				r = true
			}
			return true
		})
	}
	return r
}

// mentions: does the node read (or write) one of the objects
func (t *pfTr) mentions(n ast.Node, objs []types.Object) bool {
	r := false
	ast.Inspect(n, func(m ast.Node) bool {
		if id, ok := m.(*ast.Ident); ok {
			o := t.pkg.TypesInfo.Uses[id]
			for _, x := range objs {
				if o == x {
					r = true
				}
			}
		}
		return true
	})
	return r
}

func (t *pfTr) block(list []ast.Stmt, en pfEnv, k func(pfEnv) string) string {
	if len(list) == 0 {
		return k(en)
	}
	return t.stmt(list[0], en, func(e2 pfEnv) string { return t.block(list[1:], e2, k) })
}

// merge: run the branch bodies to the tuple of the variables they assign, then the rest once.
// mk builds the branching term from a per-branch continuation.
func (t *pfTr) merge(at ast.Node, nodes []ast.Node, en pfEnv, mk func(kb func(pfEnv) string) string, k func(pfEnv) string) string {
	vars := t.assignedOuter(nodes, at.Pos(), at.End())
	okAll := true
	term := mk(func(eb pfEnv) string {
		names := make([]string, len(vars))
		for i, v := range vars {
			n, ok := eb[v]
			if !ok || pfOpaque(n) {
				okAll = false
				n = "0"
			}
			names[i] = n
		}
		_, ex := pfTuple(names)
		return "Ok " + ex
	})
	if !okAll {
		return ""
	}
	e2 := en
	names := make([]string, len(vars))
	for i, v := range vars {
		names[i] = t.fresh(v.Name())
		e2 = e2.with(v, names[i])
	}
	pat, _ := pfTuple(names)
	return pfBind(term, pat, k(e2))
}

func (t *pfTr) stmt(s ast.Stmt, en pfEnv, k func(pfEnv) string) string {
	switch x := s.(type) {
	case *ast.EmptyStmt:
		return k(en)
	case *ast.BlockStmt:
		return t.block(x.List, en, k)
	case *ast.DeclStmt:
		return t.declStmt(x, en, k)
	case *ast.AssignStmt:
		return t.assign(x, en, k)
	case *ast.IncDecStmt:
		kd := t.kindOf(x.X)
		id, ok := x.X.(*ast.Ident)
		if !ok || (kd != "i64" && kd != "u64") {
			return t.unrec(x, "inc/dec")
		}
		return t.ident(id, en, func(a string) string {
			op, wrap := " + 1", "wrap_i64"
			if x.Tok == token.DEC {
				op = " - 1"
			}
			if kd == "u64" {
				wrap = "wrap_u64"
			}
			n := t.fresh(id.Name)
			return "let " + n + " := " + wrap + " (" + a + op + ") in\n" + k(en.with(t.objOf(id), n))
		})
	case *ast.ExprStmt:
		if c, ok := x.X.(*ast.CallExpr); ok {
			if t.isSafeMath(c) {
				return t.safeMath(c, en, k)
			}
			if t.isEventEmit(c) {
				// ctx.EventManager().EmitEvent(s)(..) with inert arguments: no effect on any result
				return k(en)
			}
			if r, ok := t.cellWrite(c, en, k); ok {
				return r
			}
			if r, ok := t.bigExpStmt(c, en, k); ok {
				return r
			}
			if id, ok := c.Fun.(*ast.Ident); ok {
				if b, ok := t.objOf(id).(*types.Builtin); ok && b.Name() == "panic" && len(c.Args) == 1 {
					return t.panicCall(c)
				}
			}
		}
		return t.unrec(x, "expression statement")
	case *ast.ReturnStmt:
		return t.ret(x, en)
	case *ast.IfStmt:
		return t.ifStmt(x, en, k)
	case *ast.SwitchStmt:
		return t.switchStmt(x, en, k)
	case *ast.RangeStmt:
		return t.rangeStmt(x, en, k)
	case *ast.ForStmt:
		return t.forStmt(x, en, k)
	}
	return t.unrec(s, "statement")
}

func (t *pfTr) declStmt(x *ast.DeclStmt, en pfEnv, k func(pfEnv) string) string {
	gd, ok := x.Decl.(*ast.GenDecl)
	if !ok || gd.Tok != token.VAR {
		return t.unrec(x, "declaration")
	}
	var lhs []*ast.Ident
	var rhs []ast.Expr
	zero := true
	for _, sp := range gd.Specs {
		vs := sp.(*ast.ValueSpec)
		if len(vs.Values) > 0 {
			zero = false
			if len(vs.Values) != len(vs.Names) || len(gd.Specs) != 1 {
				return t.unrec(x, "declaration with a multi-value initialiser")
			}
			rhs = vs.Values
		}
		lhs = append(lhs, vs.Names...)
	}
	if !zero {
		return t.bindAll(x, lhs, rhs, en, k)
	}
	e2 := en
	for _, id := range lhs {
		o := t.pkg.TypesInfo.Defs[id]
		if o == nil {
			continue
		}
		switch pfKind(o.Type()) {
		case "int", "dec":
			e2 = e2.with(o, pfNil)
		case "bool":
			e2 = e2.with(o, "false")
		case "i64", "u64", "err":
			e2 = e2.with(o, "0")
		case "list":
			e2 = e2.with(o, "(@nil Z)") // the nil slice: no elements (nil and empty are not told apart)
		default:
			return t.unrec(x, "declaration of a variable of untranslated type")
		}
	}
	return k(e2)
}

// bindAll: evaluate all right-hand sides left to right, then bind the left-hand identifiers
func (t *pfTr) bindAll(at ast.Node, lhs []*ast.Ident, rhs []ast.Expr, en pfEnv, k func(pfEnv) string) string {
	var rec func(i int, vals []string) string
	rec = func(i int, vals []string) string {
		if i < len(rhs) {
			hint := ""
			if lhs[i] != nil {
				hint = lhs[i].Name
			}
			// a function value: local alias
			if _, isSig := t.pkg.TypesInfo.TypeOf(rhs[i]).(*types.Signature); isSig {
				if full := t.funcRef(rhs[i]); full != "" {
					return rec(i+1, append(append([]string{}, vals...), pfFnPrefix+full))
				}
				return t.unrec(rhs[i], "function value")
			}
			return t.expr(rhs[i], en, hint, func(a string) string {
				return rec(i+1, append(append([]string{}, vals...), a))
			})
		}
		e2 := en
		pre := ""
		for j, id := range lhs {
			if id == nil || id.Name == "_" {
				continue
			}
			o := t.objOf(id)
			if o == nil {
				return t.unrec(at, "unresolved assignment target")
			}
			v := vals[j]
			if pfOpaque(v) {
				e2 = e2.with(o, v)
				continue
			}
			// reuse the binder the last operation introduced when it was named after this variable
			if t.adopt(v, id.Name) {
				e2 = e2.with(o, v)
				continue
			}
			if pfSimpleAtom(v) {
				// x := y / x := 0: the variable is the value itself (SSA), no let
				e2 = e2.with(o, v)
				continue
			}
			n := t.fresh(id.Name)
			pre += "let " + n + " := " + v + " in\n"
			e2 = e2.with(o, n)
		}
		return pre + k(e2)
	}
	return rec(0, nil)
}

// adopt: v is a binder an obind just introduced for this very variable (named after it through the
// hint) and nothing else stands for it yet: the variable is that binder, no extra let
func (t *pfTr) adopt(v, base string) bool {
	if !t.binder[v] || t.adopted[v] {
		return false
	}
	if v != base && !strings.HasPrefix(v, base+"_") {
		return false
	}
	t.adopted[v] = true
	return true
}

func (t *pfTr) funcRef(e ast.Expr) string {
	switch f := e.(type) {
	case *ast.Ident:
		if o, ok := t.objOf(f).(*types.Func); ok {
			return o.FullName()
		}
	case *ast.SelectorExpr:
		if t.pkg.TypesInfo.Selections[f] == nil {
			if o, ok := t.pkg.TypesInfo.Uses[f.Sel].(*types.Func); ok {
				return o.FullName()
			}
		}
	}
	return ""
}

func (t *pfTr) assign(x *ast.AssignStmt, en pfEnv, k func(pfEnv) string) string {
	// targets: identifiers, or fields of the struct receiver
	var ids []*ast.Ident
	for _, l := range x.Lhs {
		id, ok := l.(*ast.Ident)
		if !ok {
			// a field of a struct value / an element of a slice (emit_purefuns_slices.go)
			return t.assignLvalues(x, en, k)
		}
		ids = append(ids, id)
	}
	if bad := t.sliceCopy(x); bad != "" {
		return t.unrec(x, bad)
	}
	switch x.Tok {
	case token.DEFINE, token.ASSIGN:
		if len(x.Rhs) == 1 && len(x.Lhs) > 1 {
			// a, b := f(..)
			c, ok := x.Rhs[0].(*ast.CallExpr)
			if !ok {
				return t.unrec(x, "multi-value assignment from a non-call")
			}
			if r, ok := t.storeRead(c, ids, en, k); ok {
				return r
			}
			t.callHints, t.callHintsFor = nil, c
			for _, id := range ids {
				t.callHints = append(t.callHints, id.Name)
			}
			return t.call(c, en, "", func(rs []string) string {
				if len(rs) != len(ids) {
					return t.unrec(x, "arity of a multi-value assignment")
				}
				e2 := en
				pre := ""
				for j, id := range ids {
					if id.Name == "_" {
						continue
					}
					if pfOpaque(rs[j]) || t.adopt(rs[j], id.Name) {
						e2 = e2.with(t.objOf(id), rs[j])
						continue
					}
					n := t.fresh(id.Name)
					pre += "let " + n + " := " + rs[j] + " in\n"
					e2 = e2.with(t.objOf(id), n)
				}
				return pre + k(e2)
			})
		}
		if len(x.Rhs) != len(x.Lhs) {
			return t.unrec(x, "assignment arity")
		}
		if len(x.Rhs) == 1 {
			if c, ok := x.Rhs[0].(*ast.CallExpr); ok {
				if r, ok := t.storeRead(c, ids, en, k); ok {
					return r
				}
			}
		}
		return t.bindAll(x, ids, x.Rhs, en, k)
	case token.ADD_ASSIGN, token.SUB_ASSIGN, token.MUL_ASSIGN, token.QUO_ASSIGN, token.REM_ASSIGN:
		if len(ids) != 1 || len(x.Rhs) != 1 {
			return t.unrec(x, "operator assignment")
		}
		op := map[token.Token]token.Token{token.ADD_ASSIGN: token.ADD, token.SUB_ASSIGN: token.SUB, token.MUL_ASSIGN: token.MUL,
			token.QUO_ASSIGN: token.QUO, token.REM_ASSIGN: token.REM}[x.Tok]
		be := &ast.BinaryExpr{X: ids[0], Op: op, Y: x.Rhs[0], OpPos: x.TokPos}
		kd := t.kindOf(ids[0])
		if kd != "i64" && kd != "u64" || t.kindOf(x.Rhs[0]) != kd {
			return t.unrec(x, "operator assignment on a non-native value")
		}
		// the synthetic node has no recorded type: translate its operands by hand
		return t.expr(ids[0], en, "", func(a string) string {
			return t.expr(x.Rhs[0], en, "", func(b string) string {
				wrap := "wrap_i64"
				if kd == "u64" {
					wrap = "wrap_u64"
				}
				bindv := func(v string) string {
					n := t.fresh(ids[0].Name)
					return "let " + n + " := " + v + " in\n" + k(en.with(t.objOf(ids[0]), n))
				}
				switch be.Op {
				case token.ADD:
					return bindv(wrap + " (" + a + " + " + b + ")")
				case token.SUB:
					return bindv(wrap + " (" + a + " - " + b + ")")
				case token.MUL:
					return bindv(wrap + " (" + a + " * " + b + ")")
				case token.QUO:
					if kd == "u64" {
						return t.mop(x, "g_udiv "+a+" "+b, ids[0].Name, func(v string) string { return k(en.with(t.objOf(ids[0]), v)) })
					}
					return t.mop(x, "g_sdiv "+a+" "+b, ids[0].Name, func(v string) string { return k(en.with(t.objOf(ids[0]), v)) })
				}
				return t.unrec(x, "operator assignment")
			})
		})
	}
	return t.unrec(x, "assignment operator")
}

func (t *pfTr) ret(x *ast.ReturnStmt, en pfEnv) string {
	if t.closure > 0 {
		return t.unrec(x, "return inside a closure")
	}
	if t.loop > 0 {
		return t.unrec(x, "return inside a loop")
	}
	sig := t.f.obj.Type().(*types.Signature)
	n := sig.Results().Len()
	finish := func(vals []string) string {
		vals, badRes := t.flattenResults(vals)
		if badRes != "" {
			return t.unrec(x, badRes)
		}
		outs, bad := t.cellOutputs(en)
		if bad != "" {
			return t.unrec(x, bad)
		}
		_, ex := pfTuple(append(append([]string{}, vals...), outs...))
		return "Ok " + ex
	}
	if len(x.Results) == 0 {
		var vals []string
		for i := 0; i < n; i++ {
			v, ok := en[sig.Results().At(i)]
			if !ok {
				return t.unrec(x, "bare return without named results")
			}
			vals = append(vals, v)
		}
		return finish(vals)
	}
	if len(x.Results) == 1 && n > 1 {
		c, ok := x.Results[0].(*ast.CallExpr)
		if !ok {
			return t.unrec(x, "return of a multi-value non-call")
		}
		return t.call(c, en, "", finish)
	}
	if len(x.Results) != n {
		return t.unrec(x, "return arity")
	}
	return t.exprs(x.Results, en, finish)
}

// ifChain: if c {A} else if d {B} else {C} as nested conditionals; kb continues every branch that
// falls through.  Conditions are evaluated where Go evaluates them (d only when c is false).
func (t *pfTr) ifChain(x *ast.IfStmt, en pfEnv, kb func(pfEnv) string) string {
	if x.Init != nil {
		return t.stmt(x.Init, en, func(e2 pfEnv) string {
			y := *x
			y.Init = nil
			return t.ifChain(&y, e2, kb)
		})
	}
	if t.kindOf(x.Cond) != "bool" {
		return t.unrec(x.Cond, "condition")
	}
	return t.expr(x.Cond, en, "", func(c string) string {
		th := t.block(x.Body.List, en, kb)
		el := ""
		switch e := x.Else.(type) {
		case nil:
			el = kb(en)
		case *ast.BlockStmt:
			el = t.block(e.List, en, kb)
		case *ast.IfStmt:
			el = t.ifChain(e, en, kb)
		default:
			el = t.unrec(x.Else, "else")
		}
		return "(if " + c + " then\n\x01" + th + "\x02\nelse\n\x01" + el + "\x02)"
	})
}

func (t *pfTr) ifStmt(x *ast.IfStmt, en pfEnv, k func(pfEnv) string) string {
	if x.Init == nil && t.onlyEvents(x) {
		// if c { emit events }: the condition is evaluated, the branches have no effect on any result
		return t.expr(x.Cond, en, "", func(string) string { return k(en) })
	}
	if !pfMayReturn(x) && !t.noMerge(x) {
		mark, names := len(t.f.unrec), t.snapshot()
		mk := func(kb func(pfEnv) string) string { return t.ifChain(x, en, kb) }
		if r := t.merge(x, []ast.Node{x}, en, mk, k); r != "" {
			return r
		}
		// a branch leaves a variable nil: fall back to duplicating the rest
		t.f.unrec = t.f.unrec[:mark]
		t.restore(names)
	}
	return t.ifChain(x, en, k)
}

func (t *pfTr) snapshot() map[string]bool {
	m := make(map[string]bool, len(t.used))
	for k, v := range t.used {
		m[k] = v
	}
	return m
}
func (t *pfTr) restore(m map[string]bool) { t.used = m }

func (t *pfTr) switchStmt(x *ast.SwitchStmt, en pfEnv, k func(pfEnv) string) string {
	if x.Init != nil {
		return t.stmt(x.Init, en, func(e2 pfEnv) string {
			y := *x
			y.Init = nil
			return t.switchStmt(&y, e2, k)
		})
	}
	if x.Tag != nil {
		// switch tag { case c: .. }: the tag is evaluated once, each case compares it with constants
		tk := t.kindOf(x.Tag)
		if tk != "i64" && tk != "u64" {
			return t.unrec(x, "switch on a tag that is not a native integer")
		}
		return t.expr(x.Tag, en, "", func(tag string) string {
			y := *x
			y.Tag = nil
			return t.switchStmtTagged(&y, tag, en, k)
		})
	}
	return t.switchStmtTagged(x, "", en, k)
}

func (t *pfTr) switchStmtTagged(x *ast.SwitchStmt, tag string, en pfEnv, k func(pfEnv) string) string {
	var cases []*ast.CaseClause
	var def *ast.CaseClause
	for _, s := range x.Body.List {
		cc := s.(*ast.CaseClause)
		for _, b := range cc.Body {
			if br, ok := b.(*ast.BranchStmt); ok && br.Tok == token.FALLTHROUGH {
				return t.unrec(x, "fallthrough")
			}
		}
		if cc.List == nil {
			def = cc
		} else {
			cases = append(cases, cc)
		}
	}
	// switch { case c1: A  case c2: B  default: D }  =  if c1 {A} else if c2 {B} else {D}
	var chain func(i int, en pfEnv, kb func(pfEnv) string) string
	chain = func(i int, en pfEnv, kb func(pfEnv) string) string {
		if i == len(cases) {
			if def == nil {
				return kb(en)
			}
			return t.block(def.Body, en, kb)
		}
		cc := cases[i]
		var cond ast.Expr = cc.List[0]
		if tag != "" {
			var cs []string
			for _, ce := range cc.List {
				c, ok := t.constOf(ce)
				if !ok {
					return t.unrec(ce, "non-constant case of a tagged switch")
				}
				cs = append(cs, "("+tag+" =? "+c+")")
			}
			c := cs[0]
			if len(cs) > 1 {
				c = "(" + strings.Join(cs, " || ") + ")"
			}
			return "(if " + c + " then\n\x01" + t.block(cc.Body, en, kb) + "\x02\nelse\n\x01" + chain(i+1, en, kb) + "\x02)"
		}
		if len(cc.List) > 1 {
			return t.unrec(cc, "case with several conditions")
		}
		if t.kindOf(cond) != "bool" {
			return t.unrec(cond, "condition")
		}
		return t.expr(cond, en, "", func(c string) string {
			return "(if " + c + " then\n\x01" + t.block(cc.Body, en, kb) + "\x02\nelse\n\x01" + chain(i+1, en, kb) + "\x02)"
		})
	}
	if !pfMayReturn(x.Body) && !t.noMerge(x.Body) {
		mark, names := len(t.f.unrec), t.snapshot()
		if r := t.merge(x, []ast.Node{x.Body}, en, func(kb func(pfEnv) string) string { return chain(0, en, kb) }, k); r != "" {
			return r
		}
		t.f.unrec = t.f.unrec[:mark]
		t.restore(names)
	}
	return chain(0, en, k)
}

func (t *pfTr) isSafeMath(c *ast.CallExpr) bool {
	sel, ok := c.Fun.(*ast.SelectorExpr)
	if !ok || len(c.Args) != 2 {
		return false
	}
	f, ok := t.pkg.TypesInfo.Uses[sel.Sel].(*types.Func)
	return ok && f.Name() == "SafeMath" && f.Pkg() != nil && strings.HasSuffix(f.Pkg().Path(), "comdex/types")
}

// utils.SafeMath(func() { B }, func() { H })
func (t *pfTr) safeMath(c *ast.CallExpr, en pfEnv, k func(pfEnv) string) string {
	b, ok1 := c.Args[0].(*ast.FuncLit)
	h, ok2 := c.Args[1].(*ast.FuncLit)
	if !ok1 || !ok2 || b.Type.Params.NumFields() != 0 || h.Type.Params.NumFields() != 0 {
		return t.unrec(c, "SafeMath with non-literal closures")
	}
	if pfMayReturn(b.Body) || pfMayReturn(h.Body) {
		return t.unrec(c, "return inside a SafeMath closure")
	}
	// the handler must overwrite everything the body assigns and read none of it: then the state
	// after the handler does not depend on where the body panicked
	bv := t.assignedOuter([]ast.Node{b.Body}, b.Pos(), b.End())
	hv := map[types.Object]bool{}
	for _, s := range h.Body.List {
		as, ok := s.(*ast.AssignStmt)
		if !ok || as.Tok != token.ASSIGN {
			return t.unrec(c, "SafeMath handler that is not a list of assignments")
		}
		for _, r := range as.Rhs {
			if t.mentions(r, bv) {
				return t.unrec(c, "SafeMath handler reads a variable the body assigns")
			}
		}
		for _, l := range as.Lhs {
			if id, ok := l.(*ast.Ident); ok {
				hv[t.pkg.TypesInfo.Uses[id]] = true
			}
		}
	}
	for _, v := range bv {
		if !hv[v] {
			return t.unrec(c, "SafeMath handler does not overwrite "+v.Name())
		}
	}
	t.closure++
	defer func() { t.closure-- }()
	r := t.merge(c, []ast.Node{b.Body, h.Body}, en, func(kb func(pfEnv) string) string {
		return "safe_math\n(" + t.block(b.Body.List, en, kb) + ")\n(" + t.block(h.Body.List, en, kb) + ")"
	}, func(e2 pfEnv) string {
		t.closure--
		r := k(e2)
		t.closure++
		return r
	})
	if r == "" {
		return t.unrec(c, "SafeMath closure leaves a variable nil")
	}
	return r
}
