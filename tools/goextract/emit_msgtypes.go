// emit_msgtypes: Gen/MsgTypes.v = the closed list of sdk.Msg types registered by the modules under
// x/ (RegisterImplementations((*sdk.Msg)(nil), ...)), each with its module, the field that
// GetSigners() reads (the signer field), all uint64 fields whose name ends in Id/ID (candidate
// position / object ids; which of them name a *position* is decided by the reviewed model), and
// the msgServer method that handles it ("<module>.<Method>", "" when none is found).
package main

import (
	"fmt"
	"go/ast"
	"go/types"
	"path"
	"sort"
	"strings"

	"golang.org/x/tools/go/packages"
)

type msgtypesRow struct {
	module, name, signer, handler string
	idFields                      []string
	signerUnrecognised            bool
}

// msgtypesModuleOf: ".../x/vault/types" -> "vault"
func msgtypesModuleOf(pkgPath string) string {
	i := strings.Index(pkgPath, "/x/")
	if i < 0 {
		return ""
	}
	rest := pkgPath[i+3:]
	if j := strings.Index(rest, "/"); j >= 0 {
		return rest[:j]
	}
	return rest
}

// msgtypesRegistered finds &MsgX{} arguments of RegisterImplementations((*sdk.Msg)(nil), ...)
func msgtypesRegistered(p *packages.Package) []*types.Named {
	var out []*types.Named
	for _, f := range p.Syntax {
		ast.Inspect(f, func(n ast.Node) bool {
			call, ok := n.(*ast.CallExpr)
			if !ok {
				return true
			}
			sel, ok := call.Fun.(*ast.SelectorExpr)
			if !ok || sel.Sel.Name != "RegisterImplementations" || len(call.Args) < 2 {
				return true
			}
			// first argument must be (*sdk.Msg)(nil)
			first := types.ExprString(call.Args[0])
			if !strings.HasSuffix(first, ".Msg)(nil)") {
				return true
			}
			for _, a := range call.Args[1:] {
				t := p.TypesInfo.TypeOf(a)
				if t == nil {
					continue
				}
				if pt, ok := t.(*types.Pointer); ok {
					t = pt.Elem()
				}
				if nt, ok := t.(*types.Named); ok {
					out = append(out, nt)
				}
			}
			return true
		})
	}
	return out
}

// msgtypesMethodDecl finds the declaration of method `name` on named type nt in package p
func msgtypesMethodDecl(p *packages.Package, nt *types.Named, name string) *ast.FuncDecl {
	for _, f := range p.Syntax {
		for _, d := range f.Decls {
			fd, ok := d.(*ast.FuncDecl)
			if !ok || fd.Recv == nil || fd.Name.Name != name || len(fd.Recv.List) == 0 || fd.Body == nil {
				continue
			}
			rt := p.TypesInfo.TypeOf(fd.Recv.List[0].Type)
			if pt, ok := rt.(*types.Pointer); ok {
				rt = pt.Elem()
			}
			if types.Identical(rt, nt) {
				return fd
			}
		}
	}
	return nil
}

// msgtypesSignerField: the string field of the message that GetSigners() reads (through one
// level of getter such as GetOrderer()).
func msgtypesSignerField(p *packages.Package, nt *types.Named, depth int) (string, bool) {
	return msgtypesSignerIn(p, nt, "GetSigners", depth)
}

func msgtypesSignerIn(p *packages.Package, nt *types.Named, method string, depth int) (string, bool) {
	fd := msgtypesMethodDecl(p, nt, method)
	if fd == nil || len(fd.Recv.List[0].Names) == 0 {
		return "", false
	}
	recv := p.TypesInfo.Defs[fd.Recv.List[0].Names[0]]
	found, ok := "", false
	ast.Inspect(fd.Body, func(n ast.Node) bool {
		if ok {
			return false
		}
		sel, is := n.(*ast.SelectorExpr)
		if !is {
			return true
		}
		id, is := sel.X.(*ast.Ident)
		if !is || p.TypesInfo.Uses[id] != recv {
			return true
		}
		switch o := p.TypesInfo.Uses[sel.Sel].(type) {
		case *types.Var:
			if o.IsField() {
				if b, isb := o.Type().Underlying().(*types.Basic); isb && b.Kind() == types.String {
					found, ok = sel.Sel.Name, true
				}
			}
		case *types.Func:
			if depth > 0 {
				if f2, ok2 := msgtypesSignerIn(p, nt, o.Name(), depth-1); ok2 {
					found, ok = f2, true
				}
			}
		}
		return !ok
	})
	return found, ok
}

// msgtypesCollect is shared with the guard emitter (which needs signer fields and handlers)
func msgtypesCollect(c *corpus) []msgtypesRow {
	var rows []msgtypesRow
	for _, p := range c.all {
		if path.Base(p.PkgPath) != "types" || msgtypesModuleOf(p.PkgPath) == "" || !strings.Contains(p.PkgPath, "/x/") {
			continue
		}
		mod := msgtypesModuleOf(p.PkgPath)
		seen := map[string]bool{}
		for _, nt := range msgtypesRegistered(p) {
			name := nt.Obj().Name()
			if seen[name] {
				continue
			}
			seen[name] = true
			r := msgtypesRow{module: mod, name: name}
			if s, ok := msgtypesSignerField(p, nt, 1); ok {
				r.signer = s
			} else {
				r.signerUnrecognised = true
			}
			if st, ok := nt.Underlying().(*types.Struct); ok {
				for i := 0; i < st.NumFields(); i++ {
					f := st.Field(i)
					b, isb := f.Type().Underlying().(*types.Basic)
					if !isb || b.Kind() != types.Uint64 {
						continue
					}
					if strings.HasSuffix(f.Name(), "Id") || strings.HasSuffix(f.Name(), "ID") {
						r.idFields = append(r.idFields, f.Name())
					}
				}
			}
			rows = append(rows, r)
		}
	}
	// handlers: methods of a type named msgServer in x/<module>/keeper taking (context.Context, *types.MsgX)
	for i := range rows {
		rows[i].handler = ""
	}
	for _, h := range guardsMsgServerMethods(c) {
		for i := range rows {
			if rows[i].module == h.module && rows[i].name == h.msgType {
				rows[i].handler = h.module + "." + h.decl.Name.Name
			}
		}
	}
	sort.Slice(rows, func(i, j int) bool {
		if rows[i].module != rows[j].module {
			return rows[i].module < rows[j].module
		}
		return rows[i].name < rows[j].name
	})
	return rows
}

func init() {
	register("MsgTypes", func(c *corpus) (string, error) {
		rows := msgtypesCollect(c)
		var b strings.Builder
		b.WriteString("(* GENERATED by tools/goextract (emit_msgtypes.go) from the Go source - do not edit.\n")
		b.WriteString("   The closed list of sdk.Msg types registered by the modules under x/. *)\n")
		b.WriteString("From Coq Require Import String List.\nFrom Comdex Require Import Model.Guards.\nImport ListNotations.\nOpen Scope string_scope.\n\n")
		b.WriteString("Definition msg_types : list msg_type := [\n")
		for i, r := range rows {
			var ids []string
			for _, f := range r.idFields {
				ids = append(ids, coqString(f))
			}
			signer := "Some " + coqString(r.signer)
			if r.signerUnrecognised {
				signer = "None"
			}
			sep := ";"
			if i == len(rows)-1 {
				sep = ""
			}
			fmt.Fprintf(&b, "  mkMsgType %s %s (%s) [%s] %s%s\n", coqString(r.module), coqString(r.name), signer,
				strings.Join(ids, "; "), coqString(r.handler), sep)
		}
		b.WriteString("].\n")
		return b.String(), nil
	})
}
