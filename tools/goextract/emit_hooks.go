// Emitter HookTable: the shape of every block hook (x/<m>/abci.go BeginBlocker / EndBlocker and
// the AppModule.BeginBlock / EndBlock methods that wire them) and of the sweep functions they
// reach, as terms of the hook language of coq/Model/HookLang.v:
//
//	Seq l | ForEach items body | Wrapped body | Call name kind | Risk kind text | Unrecognised what
//	| OnErr result call
//
//   - Wrapped body      = utils.ApplyFuncIfNoError(ctx, func(ctx) error { body })
//   - Call name Reads   = a repository function that (transitively) writes nothing
//   - Call name Writes  = a repository function / outside keeper method that writes state; leaf
//   - Call name Expand  = a repository function that has its own row in the table (it contains,
//     transitively, an ApplyFuncIfNoError, or — outside every wrap — a loop whose body writes)
//   - Risk kind text    = a construct that can panic by itself and stands OUTSIDE every wrap:
//     slice expression, index expression on a slice/array/string, integer division/modulo,
//     explicit panic()
//   - OnErr r c         = (inside a closure only) the call c yields an error and the closure treats it as r =
//     ReturnsCallErr | SwallowsErr | UnrecognisedErr what   (emit_hooks_errflow.go)
//   - Unrecognised      = go / select / goto / labelled statement / function literal that is not
//     the argument of ApplyFuncIfNoError / ApplyFuncIfNoError with a non-literal argument:
//     the Coq table theorems fail on such a row.
//
// Conditionals are flattened (both branches in sequence): the table says WHERE a call stands
// (inside which wrap, inside which loop), not when it runs.
package main

import (
	"bytes"
	"fmt"
	"go/ast"
	"go/printer"
	"go/token"
	"go/types"
	"sort"
	"strings"

	"golang.org/x/tools/go/packages"
)

type hooksNode struct {
	kind  string // Seq ForEach Wrapped Call Risk Unrecognised
	text  string
	ckind string
	kids  []*hooksNode
}

type hooksWalker struct {
	g     *hooksGraph
	rows  map[string]*hooksNode
	names []string
	queue []*hooksFn
	done  map[*types.Func]bool
	errs  *hooksErrAnalysis // error flow of the ApplyFuncIfNoError closure being walked (nil outside closures)
}

func hooksText(fset *token.FileSet, n ast.Node) string {
	var b bytes.Buffer
	printer.Fprint(&b, fset, n)
	s := strings.Join(strings.Fields(b.String()), " ")
	if len(s) > 120 {
		s = s[:120] + "..."
	}
	return s
}

func (w *hooksWalker) walkFn(fn *hooksFn) *hooksNode {
	w.errs = nil
	return w.block(fn, fn.decl.Body.List, false)
}

// inside a closure: a Call node whose call expression yields an error carries how the closure treats it
func (w *hooksWalker) onErr(fn *hooksFn, e *ast.CallExpr, n *hooksNode) *hooksNode {
	if w.errs == nil || !hooksHasErrResult(fn.pkg.TypesInfo, e) {
		return n
	}
	h := w.errs.handling(e)
	return &hooksNode{kind: "OnErr", ckind: h.kind, text: h.what, kids: []*hooksNode{n}}
}

func (w *hooksWalker) block(fn *hooksFn, list []ast.Stmt, wrapped bool) *hooksNode {
	n := &hooksNode{kind: "Seq"}
	for _, s := range list {
		n.kids = append(n.kids, w.stmt(fn, s, wrapped)...)
	}
	return n
}

func (w *hooksWalker) unrec(fn *hooksFn, n ast.Node, what string) *hooksNode {
	pos := fn.pkg.Fset.Position(n.Pos())
	return &hooksNode{kind: "Unrecognised", text: fmt.Sprintf("%s:%s: %s", w.g.c.rel(pos.Filename), hooksName(fn.obj), what)}
}

func (w *hooksWalker) stmt(fn *hooksFn, s ast.Stmt, wrapped bool) []*hooksNode {
	var out []*hooksNode
	ex := func(e ast.Expr) {
		if e != nil {
			out = append(out, w.expr(fn, e, wrapped)...)
		}
	}
	st := func(x ast.Stmt) {
		if x != nil {
			out = append(out, w.stmt(fn, x, wrapped)...)
		}
	}
	switch s := s.(type) {
	case nil, *ast.EmptyStmt, *ast.BranchStmt:
		if b, ok := s.(*ast.BranchStmt); ok && (b.Tok == token.GOTO || b.Label != nil) {
			out = append(out, w.unrec(fn, s, "goto / labelled branch"))
		}
	case *ast.BlockStmt:
		for _, x := range s.List {
			st(x)
		}
	case *ast.ExprStmt:
		ex(s.X)
	case *ast.AssignStmt:
		for _, e := range s.Rhs {
			ex(e)
		}
		for _, e := range s.Lhs {
			ex(e)
		}
		if (s.Tok == token.QUO_ASSIGN || s.Tok == token.REM_ASSIGN) && !wrapped {
			out = append(out, &hooksNode{kind: "Risk", ckind: "div", text: hooksText(fn.pkg.Fset, s)})
		}
	case *ast.DeclStmt:
		if gd, ok := s.Decl.(*ast.GenDecl); ok {
			for _, sp := range gd.Specs {
				if vs, ok := sp.(*ast.ValueSpec); ok {
					for _, e := range vs.Values {
						ex(e)
					}
				}
			}
		}
	case *ast.ReturnStmt:
		for _, e := range s.Results {
			ex(e)
		}
	case *ast.IncDecStmt:
		ex(s.X)
	case *ast.SendStmt:
		out = append(out, w.unrec(fn, s, "channel send"))
	case *ast.IfStmt:
		st(s.Init)
		ex(s.Cond)
		st(s.Body)
		st(s.Else)
	case *ast.ForStmt:
		st(s.Init)
		label := "for"
		if s.Cond != nil {
			label = "for " + hooksText(fn.pkg.Fset, s.Cond)
		}
		body := &hooksNode{kind: "Seq"}
		if s.Cond != nil {
			body.kids = append(body.kids, w.expr(fn, s.Cond, wrapped)...)
		}
		body.kids = append(body.kids, w.stmt(fn, s.Body, wrapped)...)
		if s.Post != nil {
			body.kids = append(body.kids, w.stmt(fn, s.Post, wrapped)...)
		}
		out = append(out, &hooksNode{kind: "ForEach", text: label, kids: []*hooksNode{body}})
	case *ast.RangeStmt:
		ex(s.X)
		body := &hooksNode{kind: "Seq", kids: w.stmt(fn, s.Body, wrapped)}
		out = append(out, &hooksNode{kind: "ForEach", text: hooksText(fn.pkg.Fset, s.X), kids: []*hooksNode{body}})
	case *ast.SwitchStmt:
		st(s.Init)
		ex(s.Tag)
		for _, c := range s.Body.List {
			cc := c.(*ast.CaseClause)
			for _, e := range cc.List {
				ex(e)
			}
			for _, x := range cc.Body {
				st(x)
			}
		}
	case *ast.TypeSwitchStmt:
		st(s.Init)
		st(s.Assign)
		for _, c := range s.Body.List {
			cc := c.(*ast.CaseClause)
			for _, x := range cc.Body {
				st(x)
			}
		}
	case *ast.DeferStmt:
		ex(s.Call)
	case *ast.GoStmt:
		out = append(out, w.unrec(fn, s, "go statement"))
	case *ast.SelectStmt:
		out = append(out, w.unrec(fn, s, "select statement"))
	case *ast.LabeledStmt:
		out = append(out, w.unrec(fn, s, "labelled statement"))
		st(s.Stmt)
	default:
		out = append(out, w.unrec(fn, s, fmt.Sprintf("statement %T", s)))
	}
	return out
}

func hooksIsInteger(t types.Type) bool {
	b, ok := t.Underlying().(*types.Basic)
	return ok && b.Info()&types.IsInteger != 0
}

// expr lists, in evaluation order, what an expression contributes
func (w *hooksWalker) expr(fn *hooksFn, e ast.Expr, wrapped bool) []*hooksNode {
	var out []*hooksNode
	info := fn.pkg.TypesInfo
	sub := func(x ast.Expr) {
		if x != nil {
			out = append(out, w.expr(fn, x, wrapped)...)
		}
	}
	switch e := e.(type) {
	case nil, *ast.Ident, *ast.BasicLit:
	case *ast.ParenExpr:
		sub(e.X)
	case *ast.SelectorExpr:
		sub(e.X)
	case *ast.StarExpr:
		sub(e.X)
	case *ast.UnaryExpr:
		sub(e.X)
	case *ast.KeyValueExpr:
		sub(e.Key)
		sub(e.Value)
	case *ast.CompositeLit:
		for _, x := range e.Elts {
			sub(x)
		}
	case *ast.TypeAssertExpr:
		sub(e.X)
	case *ast.BinaryExpr:
		sub(e.X)
		sub(e.Y)
		if (e.Op == token.QUO || e.Op == token.REM) && !wrapped {
			dv, dok := info.Types[e.Y]
			nonzeroConst := dok && dv.Value != nil && dv.Value.String() != "0"
			if tv, ok := info.Types[e]; ok && hooksIsInteger(tv.Type) && tv.Value == nil && !nonzeroConst {
				out = append(out, &hooksNode{kind: "Risk", ckind: "div", text: hooksText(fn.pkg.Fset, e)})
			}
		}
	case *ast.SliceExpr:
		sub(e.X)
		sub(e.Low)
		sub(e.High)
		sub(e.Max)
		if !wrapped {
			out = append(out, &hooksNode{kind: "Risk", ckind: "slice", text: hooksText(fn.pkg.Fset, e)})
		}
	case *ast.IndexExpr:
		sub(e.X)
		sub(e.Index)
		if tv, ok := info.Types[e.X]; ok && tv.IsValue() && !wrapped {
			switch tv.Type.Underlying().(type) {
			case *types.Map:
			default:
				out = append(out, &hooksNode{kind: "Risk", ckind: "index", text: hooksText(fn.pkg.Fset, e)})
			}
		}
	case *ast.FuncLit:
		out = append(out, w.unrec(fn, e, "function literal outside ApplyFuncIfNoError"))
	case *ast.CallExpr:
		out = append(out, w.call(fn, e, wrapped)...)
	default:
		// types, ellipsis, generic instantiation: contribute nothing
	}
	return out
}

func hooksCallee(info *types.Info, e *ast.CallExpr) (*types.Func, *types.Builtin) {
	var id *ast.Ident
	switch f := ast.Unparen(e.Fun).(type) {
	case *ast.Ident:
		id = f
	case *ast.SelectorExpr:
		id = f.Sel
	case *ast.IndexExpr: // generic instantiation
		switch g := f.X.(type) {
		case *ast.Ident:
			id = g
		case *ast.SelectorExpr:
			id = g.Sel
		}
	}
	if id == nil {
		return nil, nil
	}
	switch o := info.Uses[id].(type) {
	case *types.Func:
		return o, nil
	case *types.Builtin:
		return nil, o
	}
	return nil, nil
}

func (w *hooksWalker) call(fn *hooksFn, e *ast.CallExpr, wrapped bool) []*hooksNode {
	var out []*hooksNode
	info := fn.pkg.TypesInfo
	f, bi := hooksCallee(info, e)
	if hooksIsApply(f) {
		if len(e.Args) == 2 {
			out = append(out, w.expr(fn, e.Args[0], wrapped)...)
			if lit, ok := e.Args[1].(*ast.FuncLit); ok {
				prev := w.errs
				w.errs = hooksAnalyseClosure(fn, lit)
				body := w.block(fn, lit.Body.List, true)
				w.errs = prev
				out = append(out, &hooksNode{kind: "Wrapped", kids: []*hooksNode{body}})
				return out
			}
		}
		return append(out, w.unrec(fn, e, "ApplyFuncIfNoError whose argument is not a function literal"))
	}
	// receiver / function expression and arguments first (evaluation order)
	if sel, ok := ast.Unparen(e.Fun).(*ast.SelectorExpr); ok {
		out = append(out, w.expr(fn, sel.X, wrapped)...)
	} else if _, ok := ast.Unparen(e.Fun).(*ast.FuncLit); ok {
		out = append(out, w.unrec(fn, e, "immediately invoked function literal"))
	}
	for _, a := range e.Args {
		out = append(out, w.expr(fn, a, wrapped)...)
	}
	if bi != nil {
		if bi.Name() == "panic" && !wrapped {
			out = append(out, &hooksNode{kind: "Risk", ckind: "panic", text: hooksText(fn.pkg.Fset, e)})
		}
		return out
	}
	if f == nil {
		// conversion, or a call through a function value
		if tv, ok := info.Types[e.Fun]; ok && !tv.IsType() {
			// package-level function variables of a library (sdk.NewInt = sdkmath.NewInt …) are
			// plain library calls
			var id *ast.Ident
			switch x := ast.Unparen(e.Fun).(type) {
			case *ast.Ident:
				id = x
			case *ast.SelectorExpr:
				id = x.Sel
			}
			if id != nil {
				if v, ok := info.Uses[id].(*types.Var); ok && !v.IsField() && v.Pkg() != nil && !hooksIsRepo(v) && v.Parent() == v.Pkg().Scope() {
					return out
				}
			}
			if _, isSig := tv.Type.Underlying().(*types.Signature); isSig {
				out = append(out, w.unrec(fn, e, "call through a function value "+hooksText(fn.pkg.Fset, e.Fun)))
			}
		}
		return out
	}
	rs := w.g.resolve(f)
	if len(rs) == 0 {
		if w.g.externalWrite(f) {
			name := f.Name()
			if f.Pkg() != nil {
				parts := strings.Split(f.Pkg().Path(), "/")
				name = parts[len(parts)-1] + "." + name
			}
			if sel, ok := ast.Unparen(e.Fun).(*ast.SelectorExpr); ok {
				name = hooksText(fn.pkg.Fset, sel.X) + "." + f.Name()
			}
			out = append(out, w.onErr(fn, e, &hooksNode{kind: "Call", text: name, ckind: "Writes"}))
		}
		return out
	}
	if len(rs) > 1 {
		sort.Slice(rs, func(i, j int) bool { return hooksName(rs[i]) < hooksName(rs[j]) })
	}
	for _, r := range rs {
		t := w.g.fns[r]
		kind := "Reads"
		if t.writes {
			kind = "Writes"
		}
		if w.done[r] || t.containsWrap || (!wrapped && t.writes && t.writingLoop) {
			kind = "Expand"
			if !w.done[r] {
				w.done[r] = true
				w.queue = append(w.queue, t)
			}
		}
		out = append(out, w.onErr(fn, e, &hooksNode{kind: "Call", text: hooksName(r), ckind: kind}))
	}
	return out
}

func (n *hooksNode) coq(ind string) string {
	switch n.kind {
	case "Seq":
		if len(n.kids) == 0 {
			return ind + "Seq []"
		}
		var parts []string
		for _, k := range n.kids {
			parts = append(parts, k.coq(ind+"  "))
		}
		return ind + "Seq [\n" + strings.Join(parts, ";\n") + "]"
	case "ForEach":
		return ind + "ForEach " + coqString(n.text) + " (\n" + n.kids[0].coq(ind+"  ") + ")"
	case "Wrapped":
		return ind + "Wrapped (\n" + n.kids[0].coq(ind+"  ") + ")"
	case "Call":
		return ind + "Call " + coqString(n.text) + " " + n.ckind
	case "OnErr":
		r := n.ckind
		if r == "UnrecognisedErr" {
			r = "(UnrecognisedErr " + coqString(n.text) + ")"
		}
		return ind + "OnErr " + r + " (" + strings.TrimSpace(n.kids[0].coq(ind)) + ")"
	case "Risk":
		return ind + "Risk " + coqString(n.ckind) + " " + coqString(n.text)
	default:
		return ind + "Unrecognised " + coqString(n.text)
	}
}

func hooksFindPkg(c *corpus, path string) *packages.Package { return c.pkgs[hooksModule+"/"+path] }

func init() {
	register("HookTable", func(c *corpus) (string, error) {
		g := hooksBuildGraph(c)
		w := &hooksWalker{g: g, rows: map[string]*hooksNode{}, done: map[*types.Func]bool{}}
		// roots: BeginBlocker / EndBlocker of every x/<module> package, and the AppModule methods
		var roots []*hooksFn
		var wiring []string
		for _, fn := range g.order {
			path := strings.TrimPrefix(fn.obj.Pkg().Path(), hooksModule+"/")
			if !strings.HasPrefix(path, "x/") || strings.Count(path, "/") != 1 {
				continue
			}
			name := fn.obj.Name()
			recv := hooksRecvNamed(fn.obj)
			if recv == nil && (name == "BeginBlocker" || name == "EndBlocker") {
				roots = append(roots, fn)
			}
			if recv != nil && recv.Obj().Name() == "AppModule" && (name == "BeginBlock" || name == "EndBlock") {
				roots = append(roots, fn)
			}
		}
		sort.Slice(roots, func(i, j int) bool { return hooksName(roots[i].obj) < hooksName(roots[j].obj) })
		for _, r := range roots {
			w.done[r.obj] = true
		}
		w.queue = append(w.queue, roots...)
		for len(w.queue) > 0 {
			fn := w.queue[0]
			w.queue = w.queue[1:]
			name := hooksName(fn.obj)
			if _, dup := w.rows[name]; dup {
				w.rows[name] = &hooksNode{kind: "Unrecognised", text: "two functions share the table name " + name}
				continue
			}
			w.rows[name] = w.walkFn(fn)
			w.names = append(w.names, name)
		}
		sort.Strings(w.names)
		// which hook function does each AppModule method reach (wiring)
		for _, r := range roots {
			if recv := hooksRecvNamed(r.obj); recv != nil {
				for _, ref := range r.refs {
					if ref.Name() == "BeginBlocker" || ref.Name() == "EndBlocker" {
						wiring = append(wiring, fmt.Sprintf("(%s, %s)", coqString(hooksName(r.obj)), coqString(hooksName(ref))))
					}
				}
			}
		}
		sort.Strings(wiring)
		var b strings.Builder
		b.WriteString("(* GENERATED by tools/goextract (emit_hooks.go) from the repository source - do not edit.\n")
		b.WriteString("   Shape of the block hooks and of the sweep functions they reach. *)\n")
		b.WriteString("From Coq Require Import List String.\nFrom Comdex Require Import Model.HookLang.\nImport ListNotations.\nOpen Scope string_scope.\n\n")
		b.WriteString("Definition hook_table : list (string * hook) := [\n")
		for i, n := range w.names {
			b.WriteString("  (" + coqString(n) + ",\n" + w.rows[n].coq("    ") + ")")
			if i+1 < len(w.names) {
				b.WriteString(";")
			}
			b.WriteString("\n")
		}
		b.WriteString("].\n\n")
		b.WriteString("(* AppModule.BeginBlock / EndBlock -> the hook function it calls (absent = not wired) *)\n")
		b.WriteString("Definition hook_wiring : list (string * string) := [\n  " + strings.Join(wiring, ";\n  ") + "\n].\n\n")
		b.WriteString("(* types/utils.go ApplyFuncIfNoError, statement by statement (emit_hooks_errflow.go) *)\n")
		b.WriteString("Definition apply_func_shape : list apply_stmt :=\n  " + hooksApplyShape(g) + ".\n")
		return b.String(), nil
	})
}
