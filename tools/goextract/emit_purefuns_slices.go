// emit_purefuns_slices: the part of tie (C) that goes beyond straight-line scalar arithmetic
// (docs/TIE_C.md section 2b):
//   - slices of 64-bit natives as lists of Z: len, index (out of range = Panic), element
//     assignment, append, s[:0], literals
//   - counted loops  for i := a; i < b; i++ {..}  and  for i, x := range s {..}  as the GoSem
//     combinators for_range / range_loop over the tuple of the outer variables the body assigns
//   - math/bits Add64 / Sub64 / Mul64 / Div64
//   - struct values built or modified in the body (field assignment on a local copy of a struct
//     input, struct literals), passed to translated callees through their fields
//   - one store cell per function (spec.cell): Get..(ctx, key) / Set..(ctx, rec) of the same key are
//     a read-after-write variable; the initial content is an input, the final content an output
//   - ctx.BlockHeight() as an input; event emission as a no-op.
package main

import (
	"fmt"
	"go/ast"
	"go/token"
	"go/types"
	"strings"
)

// ---------------------------------------------------------------------------------------------
// struct values

const pfStPrefix = "\x00st:" // env marker: a struct value of the table t.structs

type pfStruct struct {
	origin string            // key of the struct-valued input the unassigned fields come from; "" = zero value
	base   string            // base name of the inputs discovered for unassigned fields
	over   map[string]string // field path -> atom, for the fields assigned in the body
}

// pfCellSpec: a keeper store cell.  get(ctx, key) returns (record, found); set(ctx, record) stores the
// record under the key held by its field keyField.
type pfCellSpec struct {
	get, set, keyField string
}

type pfCellState struct {
	key   string   // atom of the key the cell was first read with
	found string   // atom: does the cell hold a record
	rec   string   // env value (struct) of the record
	eq    []string // atoms already tested equal to the key on this path
}

const pfCellPrefix = "\x00cell:"
const pfOptPrefix = "\x00opt:" // env marker: an option Z (a result of a translated function that may be a nil Int / Dec)

func pfOpaque(v string) bool { return strings.HasPrefix(v, "\x00") }

func pfZero(kd string) string {
	switch kd {
	case "int", "dec":
		return pfNil
	case "bool":
		return "false"
	case "list":
		return "(@nil Z)"
	}
	return "0"
}

func (t *pfTr) newStruct(s *pfStruct) string {
	t.structs = append(t.structs, s)
	return fmt.Sprintf("%s%d", pfStPrefix, len(t.structs)-1)
}

// structOf: the struct behind an env value (a struct-valued input or a struct of the table)
func (t *pfTr) structOf(v string) *pfStruct {
	switch {
	case strings.HasPrefix(v, pfStPrefix):
		var i int
		fmt.Sscanf(v[len(pfStPrefix):], "%d", &i)
		return t.structs[i]
	case strings.HasPrefix(v, pfInPrefix):
		key := v[len(pfInPrefix):]
		base := strings.TrimPrefix(key, "param ")
		if b, ok := t.f.extraK["\x00base "+key]; ok {
			base = b
		}
		return &pfStruct{origin: key, base: base, over: map[string]string{}}
	}
	return nil
}

func (t *pfTr) structField(v string, path []string, kd string) (string, bool) {
	st := t.structOf(v)
	if st == nil {
		return "", false
	}
	key := strings.Join(path, ".")
	if a, ok := st.over[key]; ok {
		return a, true
	}
	if st.origin != "" {
		return t.input(st.origin+"."+key, st.base+"_"+strings.Join(path, "_"), kd), true
	}
	return pfZero(kd), true
}

// scalar fields of a struct type, in declaration order
func pfStructFields(tp types.Type) (names, kinds []string) {
	tp = types.Unalias(tp)
	if p, ok := tp.(*types.Pointer); ok {
		tp = types.Unalias(p.Elem())
	}
	st, ok := tp.Underlying().(*types.Struct)
	if !ok {
		return nil, nil
	}
	for i := 0; i < st.NumFields(); i++ {
		if kd := pfKind(st.Field(i).Type()); pfScalar(kd) {
			names = append(names, st.Field(i).Name())
			kinds = append(kinds, kd)
		}
	}
	return
}

// compositeLit: []uint64{a, b} and T{F: e, ..}
func (t *pfTr) compositeLit(x *ast.CompositeLit, en pfEnv, k func(string) string) string {
	tp := t.pkg.TypesInfo.TypeOf(x)
	if pfKind(tp) == "list" {
		var es []ast.Expr
		for _, e := range x.Elts {
			if _, kv := e.(*ast.KeyValueExpr); kv {
				return t.unrec(x, "keyed slice literal")
			}
			es = append(es, e)
		}
		return t.exprs(es, en, func(as []string) string {
			if len(as) == 0 {
				return k("(@nil Z)")
			}
			return k("[" + strings.Join(as, "; ") + "]")
		})
	}
	if _, ok := types.Unalias(tp).Underlying().(*types.Struct); ok {
		var names []string
		var es []ast.Expr
		for _, e := range x.Elts {
			kv, ok := e.(*ast.KeyValueExpr)
			if !ok {
				return t.unrec(x, "positional struct literal")
			}
			id, ok := kv.Key.(*ast.Ident)
			if !ok || !pfScalar(t.kindOf(kv.Value)) {
				return t.unrec(kv, "struct literal field of untranslated type")
			}
			names = append(names, id.Name)
			es = append(es, kv.Value)
		}
		return t.exprs(es, en, func(as []string) string {
			st := &pfStruct{over: map[string]string{}}
			pre := ""
			for i, a := range as {
				if strings.HasPrefix(a, pfInPrefix) || strings.HasPrefix(a, pfStPrefix) || strings.HasPrefix(a, pfFnPrefix) {
					return t.unrec(x, "struct literal field holding a struct")
				}
				if !pfSimpleAtom(a) && !pfOpaque(a) {
					n := t.fresh(names[i])
					pre += "let " + n + " := " + a + " in\n"
					a = n
				}
				st.over[names[i]] = a
			}
			return pre + k(t.newStruct(st))
		})
	}
	return t.unrec(x, "composite literal")
}

// ---------------------------------------------------------------------------------------------
// slices

// s[i]: run-time panic unless 0 <= i < len(s)
func (t *pfTr) indexExpr(x *ast.IndexExpr, en pfEnv, hint string, k func(string) string) string {
	if t.kindOf(x.X) != "list" {
		return t.unrec(x, "index of a value that is not a slice of 64-bit integers")
	}
	if ik := t.kindOf(x.Index); ik != "i64" && ik != "u64" {
		return t.unrec(x, "index of untranslated type")
	}
	return t.expr(x.X, en, "", func(s string) string {
		return t.expr(x.Index, en, "", func(i string) string {
			return t.mop(x, "g_index "+s+" "+i, hint, k)
		})
	})
}

// s[:0] (always in range: 0 <= 0 <= cap): the empty slice.  Any other slice expression depends on the
// capacity, which a list does not have.
func (t *pfTr) sliceExpr(x *ast.SliceExpr, en pfEnv, k func(string) string) string {
	if t.kindOf(x.X) != "list" || x.Low != nil || x.Max != nil || x.High == nil || !t.sliceOK[x] {
		return t.unrec(x, "slice expression")
	}
	if c, ok := t.constOf(x.High); !ok || c != "0" {
		return t.unrec(x, "slice expression with a bound other than the constant 0")
	}
	return t.expr(x.X, en, "", func(string) string { return k("(@nil Z)") })
}

func (t *pfTr) builtinCall(x *ast.CallExpr, name string, en pfEnv, one func(string) string) string {
	switch name {
	case "len":
		if len(x.Args) == 1 && t.kindOf(x.Args[0]) == "list" {
			return t.expr(x.Args[0], en, "", func(a string) string { return one("(zlen " + a + ")") })
		}
		// len(b.Text(10)) for a *big.Int b: the number of characters of its decimal representation
		if len(x.Args) == 1 {
			if c, ok := ast.Unparen(x.Args[0]).(*ast.CallExpr); ok && len(c.Args) == 1 {
				if sel, ok := c.Fun.(*ast.SelectorExpr); ok && sel.Sel.Name == "Text" && t.kindOf(sel.X) == "big" {
					if base, ok := t.constOf(c.Args[0]); ok && base == "10" {
						return t.expr(sel.X, en, "", func(a string) string {
							if pfOpaque(a) {
								return t.unrec(x, "Text of an untranslated value")
							}
							return one("(dec_text_len " + a + ")")
						})
					}
				}
			}
		}
	case "append":
		if len(x.Args) >= 1 && t.kindOf(x.Args[0]) == "list" && t.sliceOK[x] {
			for _, a := range x.Args[1:] {
				if kd := t.kindOf(a); kd != "i64" && kd != "u64" {
					return t.unrec(x, "append of a value of untranslated type")
				}
			}
			return t.exprs(x.Args, en, func(as []string) string {
				if len(as) == 1 {
					return one(as[0])
				}
				return one("(" + as[0] + " ++ [" + strings.Join(as[1:], "; ") + "])")
			})
		}
		return t.unrec(x, "append whose result is not assigned back to its first argument")
	}
	return t.unrec(x, "builtin")
}

// pfSliceTyped: does a value of this type hold a slice (directly or in a field)
func pfSliceTyped(tp types.Type) bool {
	if tp == nil {
		return false
	}
	switch u := types.Unalias(tp).Underlying().(type) {
	case *types.Slice:
		return true
	case *types.Struct:
		for i := 0; i < u.NumFields(); i++ {
			if _, ok := types.Unalias(u.Field(i).Type()).Underlying().(*types.Slice); ok {
				return true
			}
		}
	}
	return false
}

// pfBigTyped: a *big.Int
func pfBigTyped(tp types.Type) bool { return tp != nil && pfKind(tp) == "big" }

// bigExpStmt: the statement  z.Exp(z, y, nil)  on a local *big.Int variable z that is not a parameter:
// z = z**y, or 1 when y <= 0 (math/big int.go:554).  Pointers to big.Int are only translated while
// they cannot be shared: a *big.Int variable is only ever assigned from a call that allocates
// (big.NewInt, Int.BigInt) - see sliceCopy - and this is the only mutation.
func (t *pfTr) bigExpStmt(c *ast.CallExpr, en pfEnv, k func(pfEnv) string) (string, bool) {
	sel, ok := c.Fun.(*ast.SelectorExpr)
	if !ok || sel.Sel.Name != "Exp" || t.kindOf(sel.X) != "big" {
		return "", false
	}
	z, ok := ast.Unparen(sel.X).(*ast.Ident)
	if !ok || len(c.Args) != 3 || !t.sameLvalue(z, c.Args[0]) || t.rootIsParam(z) || t.kindOf(c.Args[1]) != "big" {
		return t.unrec(c, "big.Int.Exp that is not  z.Exp(z, y, nil)  on a local variable"), true
	}
	if id, ok := ast.Unparen(c.Args[2]).(*ast.Ident); !ok || id.Name != "nil" {
		return t.unrec(c, "big.Int.Exp with a modulus"), true
	}
	if t.loop > 0 || t.closure > 0 {
		return t.unrec(c, "big.Int.Exp inside a loop or closure"), true
	}
	return t.expr(z, en, "", func(a string) string {
		return t.expr(c.Args[1], en, "", func(y string) string {
			if pfOpaque(a) || pfOpaque(y) {
				return t.unrec(c, "big.Int.Exp on an untranslated value")
			}
			n := t.fresh(z.Name)
			return "let " + n + " := (big_exp " + a + " " + y + ") in\n" + k(en.with(t.objOf(z), n))
		})
	}), true
}

// sliceCopy: value semantics for slices is only right while no two live variables share a backing
// array that one of them changes (s[i] = v, append in place).  Hence: a slice (or a struct holding
// one) may be assigned only from a call (fresh: store read, translated function), a literal, nil,
// x = append(x, ..) or x = x[:0] with the SAME l-value on both sides.  Returns "" when the
// assignment is admissible (and marks the admissible append / slice expressions), else the reason.
func (t *pfTr) sliceCopy(x *ast.AssignStmt) string {
	if len(x.Lhs) != len(x.Rhs) {
		return "" // a, b = f(): results of a call are fresh
	}
	for i, r := range x.Rhs {
		if pfBigTyped(t.pkg.TypesInfo.TypeOf(r)) {
			// a *big.Int may only come from a call (an allocation): no second pointer to the same number
			if _, ok := ast.Unparen(r).(*ast.CallExpr); ok {
				continue
			}
			return "copy of a *big.Int pointer (aliasing)"
		}
		if !pfSliceTyped(t.pkg.TypesInfo.TypeOf(r)) {
			continue
		}
		r = ast.Unparen(r)
		switch y := r.(type) {
		case *ast.CompositeLit:
			continue
		case *ast.Ident:
			if y.Name == "nil" {
				continue
			}
		case *ast.SliceExpr:
			if t.sameLvalue(x.Lhs[i], y.X) {
				t.sliceOK[y] = true
				continue
			}
			return "slice expression assigned to another variable (aliasing)"
		case *ast.CallExpr:
			if id, ok := y.Fun.(*ast.Ident); ok {
				if b, ok := t.objOf(id).(*types.Builtin); ok && b.Name() == "append" {
					if len(y.Args) >= 1 && t.sameLvalue(x.Lhs[i], y.Args[0]) {
						t.sliceOK[y] = true
						continue
					}
					return "append whose result is not assigned back to its first argument (aliasing)"
				}
			}
			continue
		}
		return "copy of a slice or of a struct holding one (aliasing)"
	}
	return ""
}

// sameLvalue: the same variable, or the same field path of the same variable
func (t *pfTr) sameLvalue(a, b ast.Expr) bool {
	a, b = ast.Unparen(a), ast.Unparen(b)
	switch x := a.(type) {
	case *ast.Ident:
		y, ok := b.(*ast.Ident)
		return ok && x.Name != "_" && t.objOf(x) != nil && t.objOf(x) == t.objOf(y)
	case *ast.SelectorExpr:
		y, ok := b.(*ast.SelectorExpr)
		if !ok {
			return false
		}
		sx, sy := t.pkg.TypesInfo.Selections[x], t.pkg.TypesInfo.Selections[y]
		return sx != nil && sy != nil && sx.Kind() == types.FieldVal && sx.Obj() == sy.Obj() && t.sameLvalue(x.X, y.X)
	}
	return false
}

func pfHasSliceMutation(n ast.Node) bool {
	r := false
	ast.Inspect(n, func(m ast.Node) bool {
		switch s := m.(type) {
		case *ast.AssignStmt:
			for _, l := range s.Lhs {
				if _, ok := ast.Unparen(l).(*ast.IndexExpr); ok {
					r = true
				}
			}
		case *ast.IncDecStmt:
			if _, ok := ast.Unparen(s.X).(*ast.IndexExpr); ok {
				r = true
			}
		case *ast.CallExpr:
			if id, ok := s.Fun.(*ast.Ident); ok && (id.Name == "append" || id.Name == "copy") {
				r = true
			}
		}
		return true
	})
	return r
}

// ---------------------------------------------------------------------------------------------
// assignment to a field of a struct value / an element of a slice

func (t *pfTr) assignLvalues(x *ast.AssignStmt, en pfEnv, k func(pfEnv) string) string {
	if x.Tok != token.ASSIGN && x.Tok != token.DEFINE {
		return t.unrec(x, "operator assignment to a field or an element")
	}
	if bad := t.sliceCopy(x); bad != "" {
		return t.unrec(x, bad)
	}
	if len(x.Rhs) == 1 && len(x.Lhs) > 1 {
		c, ok := ast.Unparen(x.Rhs[0]).(*ast.CallExpr)
		if !ok {
			return t.unrec(x, "multi-value assignment from a non-call")
		}
		for _, l := range x.Lhs {
			if _, ok := l.(*ast.IndexExpr); ok {
				return t.unrec(x, "multi-value assignment to a slice element")
			}
		}
		t.callHints, t.callHintsFor = nil, c
		for _, l := range x.Lhs {
			h := "_"
			switch y := l.(type) {
			case *ast.Ident:
				h = y.Name
			case *ast.SelectorExpr:
				h = y.Sel.Name
			}
			t.callHints = append(t.callHints, h)
		}
		return t.call(c, en, "", func(rs []string) string {
			if len(rs) != len(x.Lhs) {
				return t.unrec(x, "arity of a multi-value assignment")
			}
			return t.storeAll(x.Lhs, rs, en, k)
		})
	}
	if len(x.Lhs) != len(x.Rhs) {
		return t.unrec(x, "assignment arity")
	}
	if len(x.Lhs) == 1 {
		if ix, ok := x.Lhs[0].(*ast.IndexExpr); ok {
			return t.indexAssign(ix, x.Rhs[0], en, k)
		}
		hint := ""
		if se, ok := x.Lhs[0].(*ast.SelectorExpr); ok {
			hint = se.Sel.Name
		}
		return t.expr(x.Rhs[0], en, hint, func(a string) string { return t.storeAll(x.Lhs, []string{a}, en, k) })
	}
	for _, l := range x.Lhs {
		if _, ok := l.(*ast.IndexExpr); ok {
			return t.unrec(x, "tuple assignment to a slice element")
		}
	}
	return t.exprs(x.Rhs, en, func(as []string) string { return t.storeAll(x.Lhs, as, en, k) })
}

func (t *pfTr) storeAll(lhs []ast.Expr, vals []string, en pfEnv, k func(pfEnv) string) string {
	if len(lhs) == 0 {
		return k(en)
	}
	return t.storeTo(lhs[0], vals[0], en, func(e2 pfEnv) string { return t.storeAll(lhs[1:], vals[1:], e2, k) })
}

// storeTo: l = v for an already evaluated v; l is a variable or a field (path) of a struct-valued variable
func (t *pfTr) storeTo(l ast.Expr, v string, en pfEnv, k func(pfEnv) string) string {
	switch y := ast.Unparen(l).(type) {
	case *ast.Ident:
		if y.Name == "_" {
			return k(en)
		}
		o := t.objOf(y)
		if o == nil {
			return t.unrec(l, "unresolved assignment target")
		}
		if pfOpaque(v) || t.adopt(v, y.Name) || pfSimpleAtom(v) {
			return k(en.with(o, v))
		}
		n := t.fresh(y.Name)
		return "let " + n + " := " + v + " in\n" + k(en.with(o, n))
	case *ast.SelectorExpr:
		sel := t.pkg.TypesInfo.Selections[y]
		if sel == nil || sel.Kind() != types.FieldVal {
			return t.unrec(l, "assignment to a qualified identifier")
		}
		kd := t.kindOf(y)
		if !pfScalar(kd) {
			return t.unrec(l, "assignment to a field of untranslated type")
		}
		path, root := t.fieldPath(y)
		if root == nil {
			return t.unrec(l, "assignment to a field of a computed value")
		}
		ro := t.objOf(root)
		cur, ok := en[ro]
		if !ok || ro == t.f.recvObj || !(strings.HasPrefix(cur, pfInPrefix) || strings.HasPrefix(cur, pfStPrefix)) {
			return t.unrec(l, "assignment to a field of a value that is not a local struct")
		}
		if _, ptr := types.Unalias(ro.Type()).(*types.Pointer); ptr {
			return t.unrec(l, "assignment through a pointer")
		}
		if strings.HasPrefix(v, pfInPrefix) || strings.HasPrefix(v, pfStPrefix) || strings.HasPrefix(v, pfFnPrefix) {
			return t.unrec(l, "assignment of a struct to a field")
		}
		pre := ""
		if !pfSimpleAtom(v) && !pfOpaque(v) && !t.adopt(v, y.Sel.Name) {
			n := t.fresh(y.Sel.Name)
			pre = "let " + n + " := " + v + " in\n"
			v = n
		}
		old := t.structOf(cur)
		st := &pfStruct{origin: old.origin, base: old.base, over: map[string]string{}}
		for kk, vv := range old.over {
			st.over[kk] = vv
		}
		st.over[strings.Join(path, ".")] = v
		return pre + k(en.with(ro, t.newStruct(st)))
	}
	return t.unrec(l, "assignment target")
}

// s[i] = v.  Go evaluates the operands of the index expression, then the right-hand side, then
// assigns (run-time panic when i is out of range).
func (t *pfTr) indexAssign(ix *ast.IndexExpr, rhs ast.Expr, en pfEnv, k func(pfEnv) string) string {
	if t.kindOf(ix.X) != "list" {
		return t.unrec(ix, "element assignment on a value that is not a slice of 64-bit integers")
	}
	if ik := t.kindOf(ix.Index); ik != "i64" && ik != "u64" {
		return t.unrec(ix, "index of untranslated type")
	}
	if kd := t.kindOf(rhs); kd != "i64" && kd != "u64" {
		return t.unrec(rhs, "element of untranslated type")
	}
	switch ast.Unparen(ix.X).(type) {
	case *ast.Ident, *ast.SelectorExpr:
	default:
		return t.unrec(ix, "element assignment on a computed slice")
	}
	if t.rootIsParam(ix.X) {
		// the backing array belongs to the caller: the assignment is an effect outside the results
		return t.unrec(ix, "element assignment through a parameter (visible to the caller)")
	}
	return t.expr(ix.X, en, "", func(s string) string {
		return t.expr(ix.Index, en, "", func(i string) string {
			return t.expr(rhs, en, "", func(v string) string {
				hint := "s"
				switch y := ast.Unparen(ix.X).(type) {
				case *ast.Ident:
					hint = y.Name
				case *ast.SelectorExpr:
					hint = y.Sel.Name
				}
				return t.mop(ix, "g_set_index "+s+" "+i+" "+v, hint, func(s2 string) string {
					return t.storeTo(ix.X, s2, en, k)
				})
			})
		})
	})
}

// rootIsParam: the variable at the root of x / x.f.g is a parameter or the receiver of the function
func (t *pfTr) rootIsParam(e ast.Expr) bool {
	for {
		switch y := ast.Unparen(e).(type) {
		case *ast.SelectorExpr:
			e = y.X
			continue
		case *ast.Ident:
			o := t.objOf(y)
			sig := t.f.obj.Type().(*types.Signature)
			if o == nil || (sig.Recv() != nil && sig.Recv() == o) {
				return true
			}
			for i := 0; i < sig.Params().Len(); i++ {
				if sig.Params().At(i) == o {
					return true
				}
			}
			return false
		default:
			return true
		}
	}
}

// ---------------------------------------------------------------------------------------------
// math/bits

func (t *pfTr) bitsCall(x *ast.CallExpr, name string, en pfEnv, k func([]string) string) string {
	for _, a := range x.Args {
		if t.kindOf(a) != "u64" {
			return t.unrec(x, "math/bits call on operands that are not uint64")
		}
	}
	return t.exprs(x.Args, en, func(as []string) string {
		switch {
		case name == "Add64" && len(as) == 3:
			// the carry input must be 0 or 1 (otherwise the documentation leaves the result undefined)
			if as[2] == "0" || as[2] == "1" {
				return k([]string{"(add64_sum " + strings.Join(as, " ") + ")", "(add64_carry " + strings.Join(as, " ") + ")"})
			}
			return t.mop2(x, "g_add64 "+strings.Join(as, " "), "sum", "carry", k)
		case name == "Sub64" && len(as) == 3:
			if as[2] == "0" || as[2] == "1" {
				return k([]string{"(sub64_diff " + strings.Join(as, " ") + ")", "(sub64_borrow " + strings.Join(as, " ") + ")"})
			}
			return t.mop2(x, "g_sub64 "+strings.Join(as, " "), "diff", "borrow", k)
		case name == "Mul64" && len(as) == 2:
			return k([]string{"(mul64_hi " + as[0] + " " + as[1] + ")", "(mul64_lo " + as[0] + " " + as[1] + ")"})
		case name == "Div64" && len(as) == 3:
			return t.mop2(x, "g_div64 "+strings.Join(as, " "), "quo", "rem", k)
		}
		return t.unrec(x, "math/bits function")
	})
}

// mop2: an operation that can panic and has two results
func (t *pfTr) mop2(at *ast.CallExpr, op, h1, h2 string, k func([]string) string) string {
	if t.pure > 0 {
		return t.unrec(at, "operation that can panic in a constant initialiser")
	}
	if t.callHintsFor == at && len(t.callHints) == 2 {
		if t.callHints[0] != "_" {
			h1 = t.callHints[0]
		}
		if t.callHints[1] != "_" {
			h2 = t.callHints[1]
		}
	}
	a, b := t.fresh(h1), t.fresh(h2)
	t.binder[a], t.binder[b] = true, true
	return pfBind(op, "'("+a+", "+b+")", k([]string{a, b}))
}

// ---------------------------------------------------------------------------------------------
// context, events

// isCtxParam: the identifier is a context parameter of the function that was never re-assigned
// (parameters of kind ctx are dropped: they are not in the environment unless assigned)
func (t *pfTr) isCtxParam(id *ast.Ident, en pfEnv) bool {
	o := t.objOf(id)
	if o == nil {
		return false
	}
	if _, assigned := en[o]; assigned {
		return false
	}
	sig := t.f.obj.Type().(*types.Signature)
	for i := 0; i < sig.Params().Len(); i++ {
		if sig.Params().At(i) == o {
			return pfKind(o.Type()) == "ctx"
		}
	}
	return false
}

// isEventEmit: <ctx>.EventManager().EmitEvent(..) / EmitEvents(..) / EmitTypedEvent.. whose arguments are inert
func (t *pfTr) isEventEmit(c *ast.CallExpr) bool {
	sel, ok := c.Fun.(*ast.SelectorExpr)
	if !ok || (sel.Sel.Name != "EmitEvent" && sel.Sel.Name != "EmitEvents") {
		return false
	}
	inner, ok := sel.X.(*ast.CallExpr)
	if !ok || len(inner.Args) != 0 {
		return false
	}
	isel, ok := inner.Fun.(*ast.SelectorExpr)
	if !ok || isel.Sel.Name != "EventManager" || t.kindOf(isel.X) != "ctx" {
		return false
	}
	if _, ok := isel.X.(*ast.Ident); !ok {
		return false
	}
	for _, a := range c.Args {
		if !t.inert(a) {
			return false
		}
	}
	return true
}

// inert: an expression that cannot panic and has no effect: literals, variables, field selections of
// variables, composite literals, sdk.NewEvent / sdk.NewAttribute / strconv.Format* of inert arguments
func (t *pfTr) inert(e ast.Expr) bool {
	switch x := e.(type) {
	case *ast.BasicLit:
		return true
	case *ast.Ident:
		return true
	case *ast.ParenExpr:
		return t.inert(x.X)
	case *ast.SelectorExpr:
		if t.pkg.TypesInfo.Selections[x] == nil {
			return true // qualified identifier
		}
		if s := t.pkg.TypesInfo.Selections[x]; s.Kind() != types.FieldVal || s.Indirect() {
			return false
		}
		return t.inert(x.X)
	case *ast.KeyValueExpr:
		return t.inert(x.Value)
	case *ast.CompositeLit:
		for _, el := range x.Elts {
			if !t.inert(el) {
				return false
			}
		}
		return true
	case *ast.CallExpr:
		if tv, ok := t.pkg.TypesInfo.Types[x.Fun]; ok && tv.IsType() {
			// conversions between basic types cannot panic
			if _, basic := types.Unalias(tv.Type).Underlying().(*types.Basic); !basic || len(x.Args) != 1 {
				return false
			}
			return t.inert(x.Args[0])
		}
		sel, ok := x.Fun.(*ast.SelectorExpr)
		if !ok || t.pkg.TypesInfo.Selections[sel] != nil {
			return false
		}
		f, ok := t.pkg.TypesInfo.Uses[sel.Sel].(*types.Func)
		if !ok || f.Pkg() == nil {
			return false
		}
		full := f.Pkg().Path() + "." + f.Name()
		switch full {
		case "github.com/cosmos/cosmos-sdk/types.NewEvent", "github.com/cosmos/cosmos-sdk/types.NewAttribute",
			"strconv.FormatUint", "strconv.FormatInt", "strconv.Itoa", "strconv.FormatBool":
		default:
			return false
		}
		for _, a := range x.Args {
			if !t.inert(a) {
				return false
			}
		}
		return true
	}
	return false
}

// onlyEvents: an if statement all of whose branches only emit events
func (t *pfTr) onlyEvents(x *ast.IfStmt) bool {
	blockOK := func(b *ast.BlockStmt) bool {
		if len(b.List) == 0 {
			return false
		}
		for _, s := range b.List {
			es, ok := s.(*ast.ExprStmt)
			if !ok {
				return false
			}
			c, ok := es.X.(*ast.CallExpr)
			if !ok || !t.isEventEmit(c) {
				return false
			}
		}
		return true
	}
	if x.Init != nil || !blockOK(x.Body) || t.kindOf(x.Cond) != "bool" {
		return false
	}
	switch e := x.Else.(type) {
	case nil:
		return true
	case *ast.BlockStmt:
		return blockOK(e)
	case *ast.IfStmt:
		return false
	}
	return false
}

// noMerge: the statement changes state that is not a plain variable (a field of a struct value, the
// store cell): the branches are not merged into a tuple, the rest of the function is duplicated
func (t *pfTr) noMerge(n ast.Node) bool {
	r := false
	ast.Inspect(n, func(m ast.Node) bool {
		switch s := m.(type) {
		case *ast.AssignStmt:
			for _, l := range s.Lhs {
				switch y := ast.Unparen(l).(type) {
				case *ast.SelectorExpr:
					r = true
				case *ast.IndexExpr:
					if _, ok := ast.Unparen(y.X).(*ast.Ident); !ok {
						r = true
					}
				case *ast.Ident:
					// re-assignment of a whole struct variable
					if o := t.objOf(y); o != nil && y.Name != "_" {
						if _, isStruct := types.Unalias(o.Type()).Underlying().(*types.Struct); isStruct && pfKind(o.Type()) == "" {
							r = true
						}
					}
				}
			}
		case *ast.CallExpr:
			if t.isCellCall(s) {
				r = true
			}
		}
		return true
	})
	return r
}

// ---------------------------------------------------------------------------------------------
// the store cell

func (t *pfTr) isCellCall(c *ast.CallExpr) bool {
	cs := t.f.spec.cell
	if cs == nil || !t.f.keeper {
		return false
	}
	sel, ok := c.Fun.(*ast.SelectorExpr)
	if !ok || (sel.Sel.Name != cs.get && sel.Sel.Name != cs.set) || !t.keeperRooted(sel.X) {
		return false
	}
	s := t.pkg.TypesInfo.Selections[sel]
	return s != nil && s.Kind() == types.MethodVal
}

func (t *pfTr) cellState(en pfEnv) *pfCellState {
	v, ok := en[t.cellObj]
	if !ok {
		return nil
	}
	var i int
	fmt.Sscanf(v[len(pfCellPrefix):], "%d", &i)
	return t.cells[i]
}

func (t *pfTr) withCell(en pfEnv, s *pfCellState) pfEnv {
	t.cells = append(t.cells, s)
	return en.with(t.cellObj, fmt.Sprintf("%s%d", pfCellPrefix, len(t.cells)-1))
}

// cellArgs: the arguments of a cell call without the context
func (t *pfTr) cellArgs(c *ast.CallExpr) []ast.Expr {
	var out []ast.Expr
	for _, a := range c.Args {
		if t.kindOf(a) != "ctx" {
			out = append(out, a)
		}
	}
	return out
}

// cellRead: rec, found := k.Get(ctx, key).  The first read fixes the key and makes the content of
// the cell an input (every scalar field of the record in declaration order, then found); later reads
// of the same key return what the cell holds then.
func (t *pfTr) cellRead(c *ast.CallExpr, ids []*ast.Ident, en pfEnv, k func(pfEnv) string) (string, bool) {
	cs := t.f.spec.cell
	if cs == nil || !t.isCellCall(c) || c.Fun.(*ast.SelectorExpr).Sel.Name != cs.get {
		return "", false
	}
	if t.loop > 0 || t.closure > 0 {
		return t.unrec(c, "store cell read inside a loop or closure"), true
	}
	args := t.cellArgs(c)
	tup, ok := t.pkg.TypesInfo.TypeOf(c).(*types.Tuple)
	if len(args) != 1 || !ok || tup.Len() != 2 || len(ids) != 2 || pfKind(tup.At(1).Type()) != "bool" {
		return t.unrec(c, "store cell read that is not  rec, found := Get(ctx, key)"), true
	}
	key, okp := t.pureExpr(args[0], en)
	if !okp || !pfSimpleAtom(key) {
		return t.unrec(c, "store cell key that is not a variable or constant"), true
	}
	st := t.cellState(en)
	e2 := en
	if st == nil {
		names, kinds := pfStructFields(tup.At(0).Type())
		if len(names) == 0 {
			return t.unrec(c, "store cell record without translatable fields"), true
		}
		rk := cs.get + "(" + key + ")"
		base := ids[0].Name
		if base == "_" {
			base = "rec"
		}
		t.f.extraK["\x00base "+rk+"#0"] = base
		for i, n := range names {
			t.input(rk+"#0."+n, base+"_"+n, kinds[i])
		}
		fb := ids[1].Name
		if fb == "_" {
			fb = "found"
		}
		found := t.input(rk+"#1", fb, "bool")
		if t.f.cellFields == nil {
			t.f.cellFields, t.f.cellKinds, t.f.cellType = names, kinds, tup.At(0).Type()
		}
		st = &pfCellState{key: key, found: found, rec: pfInPrefix + rk + "#0"}
		e2 = t.withCell(e2, st)
	} else if st.key != key {
		return t.unrec(c, "store cell read with a second key"), true
	}
	if ids[0].Name != "_" {
		e2 = e2.with(t.objOf(ids[0]), st.rec)
	}
	if ids[1].Name != "_" {
		e2 = e2.with(t.objOf(ids[1]), st.found)
	}
	return k(e2), true
}

// cellWrite: k.Set(ctx, rec).  The record is stored under the key held by its key field; when that is
// not literally the key the cell was read with, the write is guarded: another key is outside the cell.
func (t *pfTr) cellWrite(c *ast.CallExpr, en pfEnv, k func(pfEnv) string) (string, bool) {
	cs := t.f.spec.cell
	if cs == nil || !t.isCellCall(c) || c.Fun.(*ast.SelectorExpr).Sel.Name != cs.set {
		return "", false
	}
	if t.loop > 0 || t.closure > 0 {
		return t.unrec(c, "store cell write inside a loop or closure"), true
	}
	args := t.cellArgs(c)
	st := t.cellState(en)
	if len(args) != 1 || st == nil {
		return t.unrec(c, "store cell write before the cell was read"), true
	}
	id, ok := ast.Unparen(args[0]).(*ast.Ident)
	if !ok || !types.Identical(t.pkg.TypesInfo.TypeOf(id), t.f.cellType) {
		return t.unrec(c, "store cell write of a value that is not a record variable"), true
	}
	v, ok := en[t.objOf(id)]
	if !ok || !(strings.HasPrefix(v, pfInPrefix) || strings.HasPrefix(v, pfStPrefix)) {
		return t.unrec(c, "store cell write of an unknown record"), true
	}
	kf := ""
	for i, n := range t.f.cellFields {
		if n == cs.keyField {
			kf, _ = t.structField(v, []string{n}, t.f.cellKinds[i])
		}
	}
	if kf == "" {
		return t.unrec(c, "store cell record without its key field"), true
	}
	known := kf == st.key
	for _, a := range st.eq {
		if a == kf {
			known = true
		}
	}
	if known {
		return k(t.withCell(en, &pfCellState{key: st.key, found: "true", rec: v, eq: st.eq})), true
	}
	e2 := t.withCell(en, &pfCellState{key: st.key, found: "true", rec: v, eq: append(append([]string{}, st.eq...), kf)})
	return "(if (" + kf + " =? " + st.key + ") then\n\x01" + k(e2) + "\x02\nelse\n\x01out_of_cell\x02)", true
}

// cellOutputs: what a return adds to the results: found, then the fields of the record the cell holds
func (t *pfTr) cellOutputs(en pfEnv) ([]string, string) {
	if t.f.spec.cell == nil {
		return nil, ""
	}
	st := t.cellState(en)
	if st == nil {
		return nil, "return before the store cell was read"
	}
	out := []string{st.found}
	for i, n := range t.f.cellFields {
		a, ok := t.structField(st.rec, []string{n}, t.f.cellKinds[i])
		if !ok || pfOpaque(a) {
			return nil, "store cell field " + n + " holds a nil or untranslated value"
		}
		out = append(out, a)
	}
	return out, ""
}

// ---------------------------------------------------------------------------------------------
// loops

// pureExpr: translate an expression that must not contain an operation that can panic
func (t *pfTr) pureExpr(e ast.Expr, en pfEnv) (string, bool) {
	t.pure++
	mark := len(t.f.unrec)
	out, got := "", false
	r := t.expr(e, en, "", func(a string) string { out, got = a, true; return "" })
	t.pure--
	if r != "" || !got || len(t.f.unrec) != mark || pfOpaque(out) {
		t.f.unrec = t.f.unrec[:mark]
		return "", false
	}
	return out, true
}

// loopBodyOK: no jump out of the body, no assignment to the loop variables, no state other than plain
// variables (fields of struct values, the store cell)
func (t *pfTr) loopBodyOK(body *ast.BlockStmt, loopVars []types.Object, allowIndexAssign bool) string {
	bad := ""
	ast.Inspect(body, func(m ast.Node) bool {
		switch s := m.(type) {
		case *ast.BranchStmt, *ast.ReturnStmt, *ast.GoStmt, *ast.DeferStmt, *ast.LabeledStmt, *ast.FuncLit, *ast.SelectStmt:
			bad = "jump, closure or return inside a loop"
		case *ast.AssignStmt:
			for _, l := range s.Lhs {
				switch y := ast.Unparen(l).(type) {
				case *ast.Ident:
					for _, lv := range loopVars {
						if t.objOf(y) == lv {
							bad = "assignment to the loop variable"
						}
					}
				case *ast.IndexExpr:
					if _, ok := ast.Unparen(y.X).(*ast.Ident); !ok || !allowIndexAssign {
						bad = "element assignment inside this loop"
					}
				default:
					bad = "assignment to a field inside a loop"
				}
			}
		case *ast.IncDecStmt:
			id, ok := s.X.(*ast.Ident)
			if !ok {
				bad = "inc/dec of a field or element inside a loop"
				break
			}
			for _, lv := range loopVars {
				if t.objOf(id) == lv {
					bad = "assignment to the loop variable"
				}
			}
		case *ast.UnaryExpr:
			if s.Op == token.AND {
				bad = "address taken inside a loop"
			}
		case *ast.CallExpr:
			if t.isCellCall(s) {
				bad = "store cell access inside a loop"
			}
		}
		return true
	})
	return bad
}

// loopCore: obind (<header> (fun <binders> <state> => body) init) (fun state' => rest); the state is
// the tuple of the outer variables the body assigns, in declaration order
func (t *pfTr) loopCore(at ast.Node, header string, loopVars []types.Object, body *ast.BlockStmt, en pfEnv, k func(pfEnv) string) string {
	vars := t.assignedOuter([]ast.Node{body}, at.Pos(), at.End())
	var init []string
	for _, v := range vars {
		a, ok := en[v]
		if vv, isVar := v.(*types.Var); !ok || pfOpaque(a) || !isVar || vv.IsField() || !pfScalar(pfKind(v.Type())) {
			return t.unrec(at, "loop that assigns "+v.Name()+", which is not a plain initialised variable")
		}
		init = append(init, a)
	}
	e2 := en
	var binders []string
	for _, lv := range loopVars {
		if lv == nil {
			binders = append(binders, "_")
			continue
		}
		n := t.fresh(lv.Name())
		binders = append(binders, n)
		e2 = e2.with(lv, n)
	}
	stIn := make([]string, len(vars))
	for i, v := range vars {
		stIn[i] = t.fresh(v.Name())
		e2 = e2.with(v, stIn[i])
	}
	t.loop++
	okAll := true
	bodyT := t.block(body.List, e2, func(eb pfEnv) string {
		outs := make([]string, len(vars))
		for i, v := range vars {
			a, ok := eb[v]
			if !ok || pfOpaque(a) {
				okAll = false
				a = "0"
			}
			outs[i] = a
		}
		_, ex := pfTuple(outs)
		return "Ok " + ex
	})
	t.loop--
	if !okAll {
		return t.unrec(at, "loop body leaves a variable nil")
	}
	e3 := en
	stOut := make([]string, len(vars))
	for i, v := range vars {
		stOut[i] = t.fresh(v.Name())
		e3 = e3.with(v, stOut[i])
	}
	patIn, _ := pfTuple(stIn)
	patOut, _ := pfTuple(stOut)
	_, initE := pfTuple(init)
	m := header + " (fun " + strings.Join(binders, " ") + " " + patIn + " =>\n\x01" + bodyT + "\x02) " + initE
	return "obind (" + m + ") (fun " + patOut + " =>\n" + k(e3) + ")"
}

// for i := a; i < b; i++ { body }  with b free of panics and of the variables the loop assigns
func (t *pfTr) forStmt(x *ast.ForStmt, en pfEnv, k func(pfEnv) string) string {
	if t.closure > 0 {
		return t.unrec(x, "loop inside a closure")
	}
	init, ok1 := x.Init.(*ast.AssignStmt)
	cond, ok2 := x.Cond.(*ast.BinaryExpr)
	post, ok3 := x.Post.(*ast.IncDecStmt)
	if !ok1 || !ok2 || !ok3 || init.Tok != token.DEFINE || len(init.Lhs) != 1 || len(init.Rhs) != 1 ||
		cond.Op != token.LSS || post.Tok != token.INC {
		return t.unrec(x, "loop that is not  for i := a; i < b; i++")
	}
	id, okI := init.Lhs[0].(*ast.Ident)
	cid, okC := ast.Unparen(cond.X).(*ast.Ident)
	pid, okP := ast.Unparen(post.X).(*ast.Ident)
	if !okI || !okC || !okP {
		return t.unrec(x, "loop that is not  for i := a; i < b; i++")
	}
	iv := t.pkg.TypesInfo.Defs[id]
	if iv == nil || t.objOf(cid) != iv || t.objOf(pid) != iv {
		return t.unrec(x, "loop whose condition or step is not on the loop variable")
	}
	kd := pfKind(iv.Type())
	if (kd != "i64" && kd != "u64") || t.kindOf(cond.Y) != kd {
		return t.unrec(x, "loop variable of untranslated type")
	}
	if bad := t.loopBodyOK(x.Body, []types.Object{iv}, true); bad != "" {
		return t.unrec(x, bad)
	}
	vars := t.assignedOuter([]ast.Node{x.Body}, x.Pos(), x.End())
	if t.mentions(cond.Y, append(append([]types.Object{}, vars...), iv)) {
		return t.unrec(x, "loop bound that the loop changes")
	}
	return t.expr(init.Rhs[0], en, "", func(a string) string {
		b, ok := t.pureExpr(cond.Y, en)
		if !ok {
			return t.unrec(cond.Y, "loop bound that can panic")
		}
		return t.loopCore(x, "for_range "+a+" "+b, []types.Object{iv}, x.Body, en, k)
	})
}

// for i, v := range s { body }  over a slice of 64-bit integers; the body assigns no slice element (the
// element values are those at the start of the loop)
func (t *pfTr) rangeStmt(x *ast.RangeStmt, en pfEnv, k func(pfEnv) string) string {
	if t.closure > 0 {
		return t.unrec(x, "loop inside a closure")
	}
	if t.kindOf(x.X) != "list" {
		return t.unrec(x, "range over a value that is not a slice of 64-bit integers")
	}
	if x.Tok != token.DEFINE && !(x.Key == nil && x.Value == nil) {
		return t.unrec(x, "range loop that assigns existing variables")
	}
	var lvs []types.Object
	for _, e := range []ast.Expr{x.Key, x.Value} {
		if e == nil {
			lvs = append(lvs, nil)
			continue
		}
		id, ok := e.(*ast.Ident)
		if !ok {
			return t.unrec(x, "range loop variable")
		}
		if id.Name == "_" {
			lvs = append(lvs, nil)
			continue
		}
		lvs = append(lvs, t.pkg.TypesInfo.Defs[id])
	}
	var real []types.Object
	for _, lv := range lvs {
		if lv != nil {
			real = append(real, lv)
		}
	}
	if bad := t.loopBodyOK(x.Body, real, false); bad != "" {
		return t.unrec(x, bad)
	}
	return t.expr(x.X, en, "", func(s string) string {
		return t.loopCore(x, "range_loop "+s+" 0", lvs, x.Body, en, k)
	})
}

// ---------------------------------------------------------------------------------------------
// struct results, results that may be nil

// flattenResults: the per-result values of a return as the components of the generated tuple
func (t *pfTr) flattenResults(vals []string) ([]string, string) {
	g := t.f
	if len(vals) != len(g.resShape) {
		return nil, "return arity"
	}
	var flat []string
	for i, v := range vals {
		switch {
		case g.isResPtr(i):
			a, bad := t.ptrResult(v, i)
			if bad != "" {
				return nil, bad
			}
			flat = append(flat, a)
		case g.resShape[i] != nil:
			if !(strings.HasPrefix(v, pfInPrefix) || strings.HasPrefix(v, pfStPrefix)) {
				return nil, fmt.Sprintf("result %d is not a struct value", i)
			}
			for j, fn := range g.resShape[i] {
				a, ok := t.structField(v, []string{fn}, g.resFieldK[i][j])
				if !ok || pfOpaque(a) {
					return nil, fmt.Sprintf("field %s of result %d is nil or untranslated", fn, i)
				}
				flat = append(flat, a)
			}
		case g.resNil[i]:
			switch {
			case v == pfNil:
				flat = append(flat, "None")
			case strings.HasPrefix(v, pfOptPrefix):
				flat = append(flat, v[len(pfOptPrefix):])
			case pfOpaque(v):
				return nil, fmt.Sprintf("result %d is an untranslated value", i)
			default:
				flat = append(flat, "(Some "+v+")")
			}
		default:
			if pfOpaque(v) {
				return nil, fmt.Sprintf("result %d is a nil / untranslated value", i)
			}
			flat = append(flat, v)
		}
	}
	return flat, ""
}

// pfReturnsNilLit: does some return of the function give the literal T{} (a nil Int / Dec) for result i
func pfReturnsNilLit(fd *ast.FuncDecl, nres, i int) bool {
	r := false
	ast.Inspect(fd.Body, func(m ast.Node) bool {
		switch s := m.(type) {
		case *ast.FuncLit:
			return false
		case *ast.ReturnStmt:
			if len(s.Results) == nres {
				if cl, ok := ast.Unparen(s.Results[i]).(*ast.CompositeLit); ok && len(cl.Elts) == 0 {
					r = true
				}
			}
		}
		return true
	})
	return r
}

// derefOpt: all[i] is an option Z; the operation dereferences it (nil pointer = Panic)
func (t *pfTr) derefOpt(at ast.Node, all []string, i int, k func([]string) string) string {
	if t.pure > 0 {
		return t.unrec(at, "operation that can panic in a constant initialiser")
	}
	r := all[i][len(pfOptPrefix):]
	v := t.fresh(r)
	all2 := append([]string{}, all...)
	all2[i] = v
	for j, a := range all2 {
		if j != i && a == all[i] {
			all2[j] = v
		}
	}
	for _, a := range all2 {
		if strings.HasPrefix(a, pfOptPrefix) {
			return t.unrec(at, "two values that may be nil in one operation")
		}
	}
	return "obind (lift_pan " + r + ") (fun " + v + " =>\n" + k(all2) + ")"
}

// intDecMethod: the tables of Int / Dec methods applied to evaluated operands
func (t *pfTr) intDecMethod(x *ast.CallExpr, rk, name string, all []string, hint string, one func(string) string) string {
	pure, mon := pfDecPure, pfDecMon
	if rk == "int" {
		pure, mon = pfIntPure, pfIntMon
	}
	if f, ok := pure[name]; ok {
		if s, ok := pfFormat(f, all); ok {
			return one(s)
		}
	}
	if op, ok := mon[name]; ok {
		return t.mop(x, op+" "+strings.Join(all, " "), hint, one)
	}
	return t.unrec(x, "method of "+rk)
}

// isFreshAlloc: a call of an argument-free Int / Dec constructor (a freshly allocated big.Int)
func (t *pfTr) isFreshAlloc(e ast.Expr) bool {
	c, ok := ast.Unparen(e).(*ast.CallExpr)
	if !ok || len(c.Args) != 0 {
		return false
	}
	sel, ok := c.Fun.(*ast.SelectorExpr)
	if !ok || t.pkg.TypesInfo.Selections[sel] != nil {
		return false
	}
	// a function of cosmossdk.io/math, or its alias variable in cosmos-sdk/types (var ZeroDec = math.LegacyZeroDec)
	f := t.pkg.TypesInfo.Uses[sel.Sel]
	if f == nil || f.Pkg() == nil || !pfIsMathPkg(f.Pkg().Path()) || f.Parent() != f.Pkg().Scope() {
		return false
	}
	if _, isSig := f.Type().Underlying().(*types.Signature); !isSig {
		return false
	}
	switch f.Name() {
	case "ZeroInt", "OneInt", "LegacyZeroDec", "ZeroDec", "LegacyOneDec", "OneDec", "LegacySmallestDec", "SmallestDec":
		return true
	}
	return false
}
