// goextract: the translator of tie (B).  It loads /repo type-checked (go/packages) and runs every
// registered emitter; each emitter writes one coq/Gen/<Name>.v as plain Gallina data.  Emitters
// live in their own emit_*.go file and register themselves in init().  A shape an emitter does
// not recognise must be emitted as an explicit "Unrecognised" row so that the Coq theorem over the
// table fails rather than passes.  Files are rewritten only when their content changes.
package main

import (
	"flag"
	"fmt"
	"os"
	"path/filepath"
	"sort"
	"strings"

	"golang.org/x/tools/go/packages"
)

type emitter struct {
	name string // Gen/<name>.v
	run  func(c *corpus) (string, error)
}

var emitters []emitter

func register(name string, run func(c *corpus) (string, error)) {
	emitters = append(emitters, emitter{name, run})
}

// corpus: all loaded packages of the repository (non-test files), by import path
type corpus struct {
	repo string
	pkgs map[string]*packages.Package
	all  []*packages.Package
}

// rel returns the path of a file relative to the repository root
func (c *corpus) rel(path string) string {
	r, err := filepath.Rel(c.repo, path)
	if err != nil {
		return path
	}
	return r
}

// coqString escapes a Go string as a Coq string literal
func coqString(s string) string { return "\"" + strings.ReplaceAll(s, "\"", "\"\"") + "\"" }

func main() {
	repo := flag.String("repo", "/repo", "repository root")
	out := flag.String("out", "", "output directory (coq/Gen)")
	only := flag.String("only", "", "comma-separated emitter names (default all)")
	flag.Parse()
	if *out == "" {
		fmt.Fprintln(os.Stderr, "need -out")
		os.Exit(2)
	}
	cfg := &packages.Config{
		Mode: packages.NeedName | packages.NeedFiles | packages.NeedSyntax | packages.NeedTypes | packages.NeedTypesInfo | packages.NeedImports | packages.NeedDeps,
		Dir:  *repo,
		Env:  append(os.Environ(), "GOFLAGS=-mod=mod", "GOPROXY=off", "GOSUMDB=off", "GOTOOLCHAIN=local"),
	}
	pkgs, err := packages.Load(cfg, "./x/...", "./types/...", "./app/...")
	if err != nil {
		fmt.Fprintln(os.Stderr, "load:", err)
		os.Exit(1)
	}
	c := &corpus{repo: *repo, pkgs: map[string]*packages.Package{}}
	nerr := 0
	for _, p := range pkgs {
		for _, e := range p.Errors {
			nerr++
			if nerr <= 10 {
				fmt.Fprintln(os.Stderr, "package error:", e)
			}
		}
		c.pkgs[p.PkgPath] = p
		c.all = append(c.all, p)
	}
	if nerr > 0 {
		// the repository does not type-check: the tables cannot be trusted
		os.Exit(1)
	}
	sort.Slice(c.all, func(i, j int) bool { return c.all[i].PkgPath < c.all[j].PkgPath })
	want := map[string]bool{}
	for _, n := range strings.Split(*only, ",") {
		if n != "" {
			want[n] = true
		}
	}
	os.MkdirAll(*out, 0o755)
	for _, e := range emitters {
		if len(want) > 0 && !want[e.name] {
			continue
		}
		txt, err := e.run(c)
		if err != nil {
			fmt.Fprintf(os.Stderr, "emitter %s: %v\n", e.name, err)
			os.Exit(1)
		}
		path := filepath.Join(*out, e.name+".v")
		old, _ := os.ReadFile(path)
		if string(old) != txt {
			if err := os.WriteFile(path, []byte(txt), 0o644); err != nil {
				fmt.Fprintln(os.Stderr, err)
				os.Exit(1)
			}
			fmt.Printf("regenerated %s (%d bytes)\n", path, len(txt))
		} else {
			fmt.Printf("unchanged %s\n", path)
		}
	}
}
