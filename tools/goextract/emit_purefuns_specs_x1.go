// emit_purefuns_specs_x1: tie (C) specs of the lend loan-to-value rule (C08) and of the generation-1
// dutch-auction price functions (C10).  Kept in its own file; appended to the shared list before
// the emitter runs.
package main

func init() {
	pureFunSpecs = append(pureFunSpecs,
		// x/lend/keeper/rates.go (C08).  reads = market.CalcAssetPrice, called through the
		// keeper's Market interface: its two results are inputs.  Error code = Model/Lend.v (Err 30)
		pfSpec{pkg: "x/lend/keeper", recv: "Keeper", fn: "CalculateCollateralizationRatio",
			coq: "gen_lend_CalculateCollateralizationRatio", reads: []string{"CalcAssetPrice"}},
		pfSpec{pkg: "x/lend/keeper", recv: "Keeper", fn: "VerifyCollateralizationRatio",
			coq:  "gen_lend_VerifyCollateralizationRatio",
			errs: map[string]int{"types.ErrorInvalidCollateralizationRatio": 30}},
		// x/auction/keeper/math.go (C10, generation 1)
		pfSpec{pkg: "x/auction/keeper", fn: "Multiply", coq: "gen_auction_Multiply"},
		pfSpec{pkg: "x/auction/keeper", recv: "Keeper", fn: "getOutflowTokenInitialPrice", coq: "gen_auction_InitialPrice"},
		pfSpec{pkg: "x/auction/keeper", recv: "Keeper", fn: "getOutflowTokenEndPrice", coq: "gen_auction_EndPrice"},
		pfSpec{pkg: "x/auction/keeper", recv: "Keeper", fn: "getPriceFromLinearDecreaseFunction", coq: "gen_auction_LinearPrice"},
	)
}
