// emit_genesis_validate: part (7) of the genesis table (property C20).  InitGenesis of a module may
// VALIDATE the imported state before it stores anything (liquidity: `if err := genState.Validate();
// err != nil { panic(err) }`), and AppModuleBasic.ValidateGenesis runs the same function on a genesis
// file.  A validation that rejects a state the module itself exported makes the chain unable to start
// from its own export, so the table has to know what that validation looks at.  For every DeFi
// module this file reads
//
//	(7a) the entry points: does InitGenesis (the root function and the keeper method it delegates to)
//	     call types.GenesisState.Validate / types.ValidateGenesis, and what does it do with the error
//	     (panic / return / ignore); which function AppModuleBasic.ValidateGenesis calls;
//	(7b) the validation function itself, statement by statement:
//	     - the exported collections it ranges over (nested: AppGenesisState -> Pairs) and the item
//	       validators (`x.Validate()`: a method without parameters - a condition over the item alone);
//	     - the maps it builds (`pairMap[pair.Id] = pair`: a map of Pair records keyed by Pair.Id; a
//	       `map[..]struct{}` or a nested one is a duplicate-detection set);
//	     - every LOOKUP in such a map (`pool, ok := poolMap[req.PoolId]`, `pair := pairMap[pool.PairId]`):
//	       the kind of record the map holds, the record whose field is the key, that field, and where
//	       that record came from (the item of the loop, or another lookup) - the cross references;
//	     - every condition that rejects (`if <cond> { return error }`) with the fields it compares
//	       ("DepositRequest.MintedPoolCoin.Denom" against "Pool.PoolCoinDenom").
//
// Anything else - a statement shape that is not one of those, an identifier that is not a tracked
// record / map / local derived from tracked records - becomes a row of [validation_unread], which the
// Coq theorem requires to be empty: fail closed.
package main

import (
	"fmt"
	"go/ast"
	"go/token"
	"go/types"
	"sort"
	"strings"
)

type valOut struct {
	entries, colls, maps, xrefs, checks, items, unread []string
}

type valVar struct {
	kind string // named type of the record ("Pool"), "" when not a record
	from string // "root", "item:<collection>", "map:<map name>", "index:<collection>"
}

type valMap struct {
	name    string
	kind    string // record kind of the values; "" for a set (struct{} / nested map / bool)
	depth   int    // nesting depth of the map type
	aliasOf *valMap
	first   string // for an alias of the inner map of a nested set: the first key
}

type valWalker struct {
	m      *genesisMod
	info   *types.Info
	out    *valOut
	vars   map[types.Object]valVar
	maps   map[types.Object]*valMap
	locals map[types.Object][]string // plain locals derived from tracked fields (selectors they came from)
	benign map[types.Object]bool     // loop indexes, err, ok
	fn     string
}

func (w *valWalker) unread(n ast.Node, format string, a ...interface{}) {
	pos := w.m.typesPkg.Fset.Position(n.Pos())
	file := pos.Filename
	if i := strings.LastIndex(file, "/x/"); i >= 0 {
		file = file[i+1:]
	}
	w.out.unread = append(w.out.unread, fmt.Sprintf("mkU %s %s", coqString(w.m.name),
		coqString(fmt.Sprintf("%s:%d (%s): %s", file, pos.Line, w.fn, fmt.Sprintf(format, a...)))))
}

func valKindOf(t types.Type) string {
	if p, ok := t.(*types.Pointer); ok {
		t = p.Elem()
	}
	if nt, ok := t.(*types.Named); ok {
		if _, isStruct := nt.Underlying().(*types.Struct); isStruct {
			return nt.Obj().Name()
		}
	}
	return ""
}

func (w *valWalker) obj(id *ast.Ident) types.Object {
	if o := w.info.Defs[id]; o != nil {
		return o
	}
	return w.info.Uses[id]
}

// path of a selector chain of FIELDS rooted in a tracked record: ("Pool.PairId", owner variable)
func (w *valWalker) fieldPath(e ast.Expr) (string, types.Object, bool) {
	var names []string
	cur := e
	for {
		switch x := cur.(type) {
		case *ast.ParenExpr:
			cur = x.X
			continue
		case *ast.StarExpr:
			cur = x.X
			continue
		case *ast.SelectorExpr:
			sel := w.info.Selections[x]
			if sel == nil || sel.Kind() != types.FieldVal {
				return "", nil, false
			}
			names = append([]string{x.Sel.Name}, names...)
			cur = x.X
			continue
		case *ast.IndexExpr: // coll[i] where coll is a ranged collection accessed by index
			if o := w.indexedItem(x); o != nil {
				v := w.vars[o]
				if len(names) == 0 {
					return v.kind, o, true
				}
				return v.kind + "." + strings.Join(names, "."), o, true
			}
			return "", nil, false
		case *ast.Ident:
			o := w.obj(x)
			v, ok := w.vars[o]
			if !ok || v.kind == "" {
				return "", nil, false
			}
			if len(names) == 0 {
				return v.kind, o, true
			}
			return v.kind + "." + strings.Join(names, "."), o, true
		}
		return "", nil, false
	}
}

// `root.Coll[i]` inside `for i := range root.Coll`: the pseudo variable of the item
var valIndexItems = map[string]types.Object{}

func (w *valWalker) indexedItem(x *ast.IndexExpr) types.Object {
	id, ok := x.Index.(*ast.Ident)
	if !ok {
		return nil
	}
	if !w.benign[w.obj(id)] {
		return nil
	}
	p, _, ok := w.fieldPath(x.X)
	if !ok {
		return nil
	}
	return valIndexItems[w.m.name+"/"+p+"/"+id.Name]
}

// all tracked field paths used in an expression; reports identifiers that are not understood
func (w *valWalker) selectors(e ast.Expr, at ast.Node) []string {
	set := map[string]bool{}
	var visit func(e ast.Expr)
	visit = func(e ast.Expr) {
		switch x := e.(type) {
		case nil:
		case *ast.BasicLit:
		case *ast.ParenExpr:
			visit(x.X)
		case *ast.UnaryExpr:
			visit(x.X)
		case *ast.StarExpr:
			visit(x.X)
		case *ast.BinaryExpr:
			visit(x.X)
			visit(x.Y)
		case *ast.IndexExpr:
			if p, _, ok := w.fieldPath(x); ok {
				set[p] = true
				return
			}
			visit(x.X)
			visit(x.Index)
		case *ast.CallExpr:
			for _, a := range x.Args {
				visit(a)
			}
			switch f := x.Fun.(type) {
			case *ast.SelectorExpr:
				if id, ok := f.X.(*ast.Ident); ok {
					if _, isPkg := w.info.Uses[id].(*types.PkgName); isPkg {
						return // fmt.Errorf, sdk.ValidateDenom ...: a package function of its arguments
					}
				}
				if sel := w.info.Selections[f]; sel != nil && sel.Kind() == types.MethodVal {
					visit(f.X) // a method of a tracked value
					return
				}
				visit(f)
			case *ast.Ident:
				if _, ok := w.info.Uses[f].(*types.Builtin); ok {
					return
				}
				if _, ok := w.info.Uses[f].(*types.TypeName); ok {
					return
				}
				if fn, ok := w.info.Uses[f].(*types.Func); ok && fn.Pkg() == w.m.typesPkg.Types {
					return // a function of the types package applied to tracked arguments
				}
				w.unread(at, "call of %s not understood", f.Name)
			default:
				w.unread(at, "call shape not understood")
			}
		case *ast.SelectorExpr:
			if p, _, ok := w.fieldPath(x); ok {
				set[p] = true
				return
			}
			if id, ok := x.X.(*ast.Ident); ok {
				if _, isPkg := w.info.Uses[id].(*types.PkgName); isPkg {
					return // a constant / variable of another package
				}
			}
			visit(x.X)
		case *ast.Ident:
			o := w.obj(x)
			switch oo := o.(type) {
			case *types.Const, *types.Nil, *types.Builtin, *types.TypeName:
				return
			case *types.Var:
				if w.benign[oo] {
					return
				}
				if v, ok := w.vars[oo]; ok {
					if v.kind != "" {
						set[v.kind] = true
					}
					return
				}
				if ss, ok := w.locals[oo]; ok {
					for _, s := range ss {
						set[s] = true
					}
					return
				}
				if _, ok := w.maps[oo]; ok {
					return
				}
				w.unread(at, "identifier %s is not a tracked record, map or derived local", x.Name)
			case nil:
				if x.Name == "_" {
					return
				}
				w.unread(at, "identifier %s unresolved", x.Name)
			}
		case *ast.CompositeLit:
			for _, el := range x.Elts {
				visit(el)
			}
		case *ast.KeyValueExpr:
			visit(x.Value)
		default:
			w.unread(at, "expression shape %T not understood", e)
		}
	}
	visit(e)
	var out []string
	for s := range set {
		out = append(out, s)
	}
	sort.Strings(out)
	return out
}

func valIsErrNil(e ast.Expr) bool { // err != nil
	be, ok := e.(*ast.BinaryExpr)
	if !ok || be.Op != token.NEQ {
		return false
	}
	x, ok1 := be.X.(*ast.Ident)
	y, ok2 := be.Y.(*ast.Ident)
	return ok1 && ok2 && x.Name == "err" && y.Name == "nil"
}

// x.Validate() with x a tracked record or a field of one -> the path of x
func (w *valWalker) validateCall(e ast.Expr) (string, string, bool) {
	call, ok := e.(*ast.CallExpr)
	if !ok || len(call.Args) != 0 {
		return "", "", false
	}
	sel, ok := call.Fun.(*ast.SelectorExpr)
	if !ok {
		return "", "", false
	}
	s := w.info.Selections[sel]
	if s == nil || s.Kind() != types.MethodVal {
		return "", "", false
	}
	p, _, ok := w.fieldPath(sel.X)
	if !ok {
		return "", "", false
	}
	fn, _ := s.Obj().(*types.Func)
	callee := sel.Sel.Name
	if fn != nil {
		if sig, ok := fn.Type().(*types.Signature); ok && sig.Recv() != nil {
			callee = valRecvName(sig.Recv().Type()) + "." + fn.Name()
		}
	}
	return p, callee, true
}

func valRecvName(t types.Type) string {
	if p, ok := t.(*types.Pointer); ok {
		t = p.Elem()
	}
	if nt, ok := t.(*types.Named); ok {
		if nt.Obj().Pkg() != nil {
			return nt.Obj().Pkg().Name() + "." + nt.Obj().Name()
		}
		return nt.Obj().Name()
	}
	return t.String()
}

func (w *valWalker) itemRow(coll, path, callee string) {
	w.out.items = append(w.out.items, fmt.Sprintf("mkVI %s %s %s %s", coqString(w.m.name), coqString(coll), coqString(path), coqString(callee)))
}

// map index expression m[k] (or m[k1][k2]) on a tracked map: the map, the key expressions
func (w *valWalker) mapIndex(e ast.Expr) (*valMap, []ast.Expr, bool) {
	ix, ok := e.(*ast.IndexExpr)
	if !ok {
		return nil, nil, false
	}
	switch x := ix.X.(type) {
	case *ast.Ident:
		if mp, ok := w.maps[w.obj(x)]; ok {
			return mp, []ast.Expr{ix.Index}, true
		}
	case *ast.IndexExpr:
		if mp, ks, ok := w.mapIndex(x); ok {
			return mp, append(ks, ix.Index), true
		}
	}
	return nil, nil, false
}

// one key of a lookup / population: ("Pool", owner provenance, "PairId") or a derived local
func (w *valWalker) keyDesc(k ast.Expr, at ast.Node) (ownerKind, ownerFrom, field string, ok bool) {
	if p, o, ok := w.fieldPath(k); ok && o != nil {
		v := w.vars[o]
		return v.kind, v.from, strings.TrimPrefix(p, v.kind+"."), true
	}
	if id, isID := k.(*ast.Ident); isID {
		if ss, isLocal := w.locals[w.obj(id)]; isLocal {
			// a local built from fields of tracked records (fmt.Sprintf("%s-%d", x.A, x.B)): composite key
			kinds := map[string]bool{}
			for _, s := range ss {
				kinds[strings.SplitN(s, ".", 2)[0]] = true
			}
			if len(kinds) == 1 {
				for kd := range kinds {
					var froms []string
					for _, v := range w.vars {
						if v.kind == kd {
							froms = append(froms, v.from)
						}
					}
					sort.Strings(froms) // "item:..." sorts before "map:..."
					from := ""
					if len(froms) > 0 {
						from = froms[0]
					}
					return kd, from, "(" + strings.Join(ss, ",") + ")", true
				}
			}
		}
	}
	w.unread(at, "map key is not a field of a tracked record")
	return "", "", "", false
}

func (w *valWalker) lookupRow(coll string, mp *valMap, keys []ast.Expr, how string, at ast.Node) {
	root := mp
	var pre []string
	if mp.aliasOf != nil {
		root = mp.aliasOf
		pre = []string{mp.first}
	}
	var kinds, froms, fields []string
	for _, k := range keys {
		ok, of, f, good := w.keyDesc(k, at)
		if !good {
			return
		}
		kinds, froms, fields = append(kinds, ok), append(froms, of), append(fields, f)
	}
	for i := range kinds {
		if kinds[i] != kinds[0] || froms[i] != froms[0] {
			w.unread(at, "keys of one lookup in %s come from different records", root.name)
			return
		}
	}
	allFields := append(pre, fields...)
	w.out.xrefs = append(w.out.xrefs, fmt.Sprintf("mkVX %s %s %s %s %s %s %s %s", coqString(w.m.name), coqString(coll), coqString(root.name),
		coqString(root.kind), coqString(kinds[0]), coqString(froms[0]), genesisStrList(allFields), coqString(how)))
}

func (w *valWalker) isErrorReturnBlock(b *ast.BlockStmt) bool {
	if b == nil || len(b.List) != 1 {
		return false
	}
	rs, ok := b.List[0].(*ast.ReturnStmt)
	if !ok || len(rs.Results) != 1 {
		return false
	}
	if id, ok := rs.Results[0].(*ast.Ident); ok && id.Name == "nil" {
		return false
	}
	w.selectors(rs.Results[0], rs) // the message may only mention tracked things
	return true
}

func (w *valWalker) walkBlock(coll string, stmts []ast.Stmt) {
	for _, st := range stmts {
		w.walkStmt(coll, st)
	}
}

func (w *valWalker) define(coll string, lhs []ast.Expr, rhs []ast.Expr, tok token.Token, at ast.Node) {
	// m := map[K]V{}
	if len(lhs) == 1 && len(rhs) == 1 {
		if cl, ok := rhs[0].(*ast.CompositeLit); ok {
			if mt, ok := w.info.TypeOf(cl).Underlying().(*types.Map); ok && len(cl.Elts) == 0 {
				if mp, ks, ok := w.mapIndex(lhs[0]); ok { // set[k] = map[..]struct{}{} : a fresh inner set
					_ = mt
					w.lookupRow(coll, mp, ks, "init-inner", at)
					return
				}
				id, ok := lhs[0].(*ast.Ident)
				if !ok {
					w.unread(at, "map literal assigned to a non-identifier")
					return
				}
				depth, vt := 1, mt.Elem()
				for {
					if inner, ok := vt.Underlying().(*types.Map); ok {
						depth++
						vt = inner.Elem()
						continue
					}
					break
				}
				mp := &valMap{name: id.Name, kind: valKindOf(vt), depth: depth}
				w.maps[w.obj(id)] = mp
				w.out.maps = append(w.out.maps, fmt.Sprintf("mkVM %s %s %s %d", coqString(w.m.name), coqString(id.Name), coqString(mp.kind), depth))
				return
			}
			if st, ok := w.info.TypeOf(cl).Underlying().(*types.Struct); ok && st.NumFields() == 0 && len(lhs) == 1 {
				// m[k1][k2] = struct{}{} : insertion into a set
				if mp, ks, ok := w.mapIndex(lhs[0]); ok {
					w.lookupRow(coll, mp, ks, "insert", at)
					return
				}
			}
		}
	}
	// m[k] = v (population of a record map)
	if len(lhs) == 1 && len(rhs) == 1 && tok == token.ASSIGN {
		if mp, ks, ok := w.mapIndex(lhs[0]); ok {
			if p, _, ok := w.fieldPath(rhs[0]); ok && p == mp.kind {
				w.lookupRow(coll, mp, ks, "populate", at)
				return
			}
			w.unread(at, "value stored in map %s is not a record of its kind", mp.name)
			return
		}
	}
	// v, ok := m[k]   |   v := m[k]
	if len(rhs) == 1 && (len(lhs) == 1 || len(lhs) == 2) {
		if mp, ks, ok := w.mapIndex(rhs[0]); ok {
			how := "fetch"
			if len(lhs) == 2 {
				if id, ok := lhs[1].(*ast.Ident); ok && id.Name != "_" {
					w.benign[w.obj(id)] = true
				}
				how = "fetch-checked"
			}
			if id, ok := lhs[0].(*ast.Ident); ok {
				if id.Name == "_" {
					how = "exists"
				} else {
					o := w.obj(id)
					root := mp
					if mp.aliasOf != nil {
						root = mp.aliasOf
					}
					consumed := len(ks)
					if mp.aliasOf != nil {
						consumed++
					}
					if consumed < root.depth { // the inner map of a nested set
						if len(ks) != 1 {
							w.unread(at, "partial index of nested map %s", mp.name)
							return
						}
						_, _, f, good := w.keyDesc(ks[0], at)
						if !good {
							return
						}
						w.maps[o] = &valMap{name: id.Name, aliasOf: root, first: f, depth: root.depth - 1}
						how = "inner"
					} else if root.kind != "" {
						w.vars[o] = valVar{kind: root.kind, from: "map:" + root.name}
					} else {
						w.benign[o] = true
					}
				}
			} else {
				w.unread(at, "lookup result assigned to a non-identifier")
				return
			}
			w.lookupRow(coll, mp, ks, how, at)
			return
		}
	}
	// plain locals derived from tracked fields: x := fmt.Sprintf(..., a.F, b.G); a, b = p.X, p.Y
	if len(lhs) == len(rhs) {
		for i := range lhs {
			id, ok := lhs[i].(*ast.Ident)
			if !ok {
				w.unread(at, "assignment to a non-identifier")
				continue
			}
			if id.Name == "_" {
				w.selectors(rhs[i], at)
				continue
			}
			o := w.obj(id)
			if _, tracked := w.vars[o]; tracked {
				w.unread(at, "tracked record %s is re-assigned", id.Name)
				continue
			}
			if id.Name == "err" {
				w.benign[o] = true
				w.selectors(rhs[i], at)
				continue
			}
			w.locals[o] = append(w.locals[o], w.selectors(rhs[i], at)...)
		}
		return
	}
	w.unread(at, "assignment shape not understood")
}

func (w *valWalker) walkStmt(coll string, st ast.Stmt) {
	switch s := st.(type) {
	case *ast.ReturnStmt:
		if len(s.Results) != 1 {
			w.unread(s, "return with %d results", len(s.Results))
			return
		}
		if id, ok := s.Results[0].(*ast.Ident); ok && (id.Name == "nil" || id.Name == "err") {
			return
		}
		if p, callee, ok := w.validateCall(s.Results[0]); ok { // return gs.Params.Validate()
			w.itemRow(coll, p, callee)
			return
		}
		w.selectors(s.Results[0], s)
	case *ast.DeclStmt:
		gd, ok := s.Decl.(*ast.GenDecl)
		if !ok || gd.Tok != token.VAR {
			w.unread(s, "declaration not understood")
			return
		}
		for _, sp := range gd.Specs {
			vs := sp.(*ast.ValueSpec)
			if len(vs.Values) > 0 {
				var lhs []ast.Expr
				for _, n := range vs.Names {
					lhs = append(lhs, n)
				}
				w.define(coll, lhs, vs.Values, token.DEFINE, s)
				continue
			}
			for _, n := range vs.Names {
				if b, ok := w.info.Defs[n].Type().Underlying().(*types.Basic); ok && b != nil {
					w.locals[w.info.Defs[n]] = nil
				} else {
					w.unread(s, "variable %s of a non-basic type declared without a value", n.Name)
				}
			}
		}
	case *ast.AssignStmt:
		w.define(coll, s.Lhs, s.Rhs, s.Tok, s)
	case *ast.RangeStmt:
		p, owner, ok := w.fieldPath(s.X)
		if !ok || owner == nil {
			w.unread(s, "range over something that is not a field of a tracked record")
			return
		}
		var elem types.Type
		switch t := w.info.TypeOf(s.X).Underlying().(type) {
		case *types.Slice:
			elem = t.Elem()
		default:
			w.unread(s, "range over a non-slice")
			return
		}
		sub := p
		kind := valKindOf(elem)
		w.out.colls = append(w.out.colls, fmt.Sprintf("mkVC %s %s %s %s", coqString(w.m.name), coqString(sub), coqString(kind), coqString(coll)))
		if k, ok := s.Key.(*ast.Ident); ok && k.Name != "_" {
			w.benign[w.obj(k)] = true
			if s.Value == nil && kind != "" {
				// for i := range root.Coll { root.Coll[i]... } : the item is addressed by index
				pseudo := types.NewVar(token.NoPos, nil, "item", elem)
				w.vars[pseudo] = valVar{kind: kind, from: "item:" + sub}
				valIndexItems[w.m.name+"/"+p+"/"+k.Name] = pseudo
			}
		}
		if v, ok := s.Value.(*ast.Ident); ok && v.Name != "_" {
			if kind == "" {
				w.benign[w.obj(v)] = true // a slice of scalars
			} else {
				w.vars[w.obj(v)] = valVar{kind: kind, from: "item:" + sub}
			}
		}
		w.walkBlock(sub, s.Body.List)
	case *ast.IfStmt:
		if s.Init != nil {
			as, ok := s.Init.(*ast.AssignStmt)
			if !ok {
				w.unread(s, "if-initialiser not understood")
				return
			}
			// if err := x.Validate(); err != nil { return ... }
			if len(as.Lhs) == 1 && len(as.Rhs) == 1 && valIsErrNil(s.Cond) {
				if p, callee, ok := w.validateCall(as.Rhs[0]); ok {
					if id, ok := as.Lhs[0].(*ast.Ident); ok {
						w.benign[w.obj(id)] = true
					}
					if !w.isErrorReturnBlock(s.Body) || s.Else != nil {
						w.unread(s, "item validation whose error is not returned")
					}
					w.itemRow(coll, p, callee)
					return
				}
			}
			w.define(coll, as.Lhs, as.Rhs, as.Tok, s)
		}
		sels := w.selectors(s.Cond, s)
		rejecting := w.isErrorReturnBlock(s.Body)
		if len(sels) > 0 {
			how := "guard"
			if rejecting {
				how = "reject"
			}
			w.out.checks = append(w.out.checks, fmt.Sprintf("mkVK %s %s %s %s", coqString(w.m.name), coqString(coll), coqString(how), genesisStrList(sels)))
		}
		if !rejecting {
			w.walkBlock(coll, s.Body.List)
		}
		switch e := s.Else.(type) {
		case nil:
		case *ast.BlockStmt:
			w.walkBlock(coll, e.List)
		case *ast.IfStmt:
			w.walkStmt(coll, e)
		}
	case *ast.SwitchStmt:
		if s.Init != nil {
			w.unread(s, "switch with an initialiser")
			return
		}
		sels := w.selectors(s.Tag, s)
		if len(sels) > 0 {
			w.out.checks = append(w.out.checks, fmt.Sprintf("mkVK %s %s %s %s", coqString(w.m.name), coqString(coll), coqString("switch"), genesisStrList(sels)))
		}
		for _, c := range s.Body.List {
			cc := c.(*ast.CaseClause)
			for _, e := range cc.List {
				w.selectors(e, cc)
			}
			w.walkBlock(coll, cc.Body)
		}
	case *ast.BlockStmt:
		w.walkBlock(coll, s.List)
	default:
		w.unread(st, "statement shape %T not understood", st)
	}
}

// the validation function of the module: method Validate of types.GenesisState, or types.ValidateGenesis
func valFindValidator(m *genesisMod) (*ast.FuncDecl, string) {
	for _, f := range m.typesPkg.Syntax {
		if strings.HasSuffix(m.typesPkg.Fset.Position(f.Pos()).Filename, ".pb.go") {
			continue
		}
		for _, d := range f.Decls {
			fd, ok := d.(*ast.FuncDecl)
			if !ok || fd.Body == nil {
				continue
			}
			if fd.Recv != nil && fd.Name.Name == "Validate" && len(fd.Recv.List) == 1 {
				if valKindOf(m.typesPkg.TypesInfo.TypeOf(fd.Recv.List[0].Type)) == "GenesisState" {
					return fd, "GenesisState.Validate"
				}
			}
			if fd.Recv == nil && fd.Name.Name == "ValidateGenesis" {
				return fd, "ValidateGenesis"
			}
		}
	}
	return nil, ""
}

// (7a) does fn (a function of the root / keeper package) call the module's validator, and how does it react
func valEntryCalls(m *genesisMod, gf *genesisFunc, validator *types.Func) (called bool, reaction string) {
	info := gf.pkg.TypesInfo
	var stack []ast.Node
	ast.Inspect(gf.decl.Body, func(n ast.Node) bool {
		if n == nil {
			stack = stack[:len(stack)-1]
			return true
		}
		stack = append(stack, n)
		call, ok := n.(*ast.CallExpr)
		if !ok {
			return true
		}
		var o types.Object
		switch f := call.Fun.(type) {
		case *ast.SelectorExpr:
			o = info.Uses[f.Sel]
		case *ast.Ident:
			o = info.Uses[f]
		}
		if o == nil || o != types.Object(validator) {
			return true
		}
		called = true
		reaction = "ignored"
		for i := len(stack) - 2; i >= 0; i-- {
			switch p := stack[i].(type) {
			case *ast.ReturnStmt:
				reaction = "return"
			case *ast.IfStmt:
				ast.Inspect(p.Body, func(x ast.Node) bool {
					switch y := x.(type) {
					case *ast.ReturnStmt:
						if reaction == "ignored" {
							reaction = "return"
						}
					case *ast.CallExpr:
						if id, ok := y.Fun.(*ast.Ident); ok && id.Name == "panic" {
							reaction = "panic"
						}
					}
					return true
				})
			}
			if reaction != "ignored" {
				break
			}
		}
		return true
	})
	return
}

func genesisValidation(c *corpus, m *genesisMod, out *valOut) {
	fd, vname := valFindValidator(m)
	if fd == nil {
		out.unread = append(out.unread, fmt.Sprintf("mkU %s %s", coqString(m.name), coqString("no GenesisState.Validate / ValidateGenesis in the types package")))
		return
	}
	vobj, _ := m.typesPkg.TypesInfo.Defs[fd.Name].(*types.Func)
	// (7a) entry points
	seenInit := false
	var names []string
	byName := map[string]*genesisFunc{}
	for _, gf := range m.funcs {
		n := gf.obj.Name()
		if n != "InitGenesis" && n != "ValidateGenesis" {
			continue
		}
		key := gf.pkg.Types.Name() + "." + n
		if gf.decl.Recv != nil && len(gf.decl.Recv.List) == 1 {
			key = valRecvName(gf.pkg.TypesInfo.TypeOf(gf.decl.Recv.List[0].Type)) + "." + n
		}
		names = append(names, key)
		byName[key] = gf
	}
	sort.Strings(names)
	for _, key := range names {
		gf := byName[key]
		called, reaction := valEntryCalls(m, gf, vobj)
		if !called {
			continue
		}
		if gf.obj.Name() == "InitGenesis" {
			seenInit = true
		}
		out.entries = append(out.entries, fmt.Sprintf("mkVE %s %s %s %s %s", coqString(m.name), coqString(gf.obj.Name()), coqString(key), coqString(vname), coqString(reaction)))
	}
	_ = seenInit
	// (7b) the validator body
	w := &valWalker{m: m, info: m.typesPkg.TypesInfo, out: out, vars: map[types.Object]valVar{}, maps: map[types.Object]*valMap{},
		locals: map[types.Object][]string{}, benign: map[types.Object]bool{}, fn: vname}
	bind := func(fl *ast.FieldList) {
		if fl == nil {
			return
		}
		for _, f := range fl.List {
			for _, nm := range f.Names {
				o := w.info.Defs[nm]
				if o == nil {
					continue
				}
				if k := valKindOf(o.Type()); k != "" {
					w.vars[o] = valVar{kind: k, from: "root"}
				}
			}
		}
	}
	bind(fd.Recv)
	bind(fd.Type.Params)
	w.walkBlock("", fd.Body.List)
}
