// emit_purefuns_specs: the functions translated by tie (C), callees before callers is not required.
package main

var pureFunSpecs = []pfSpec{
	{pkg: "x/liquidity/amm", fn: "Deposit", coq: "gen_amm_Deposit"},
	{pkg: "x/liquidity/amm", fn: "Withdraw", coq: "gen_amm_Withdraw"},
	{pkg: "x/liquidity/amm", fn: "InitialPoolCoinSupply", coq: "gen_amm_InitialPoolCoinSupply"},
	{pkg: "x/liquidity/amm", fn: "inv", coq: "gen_amm_inv"},
	{pkg: "x/liquidity/amm", fn: "DeriveTranslation", coq: "gen_amm_DeriveTranslation"},
	{pkg: "x/liquidity/amm", fn: "ValidateRangedPoolParams", coq: "gen_amm_ValidateRangedPoolParams"},
	{pkg: "x/liquidity/amm", fn: "NewRangedPool", coq: "gen_amm_NewRangedPool"},
	{pkg: "x/liquidity/amm", fn: "CreateRangedPool", coq: "gen_amm_CreateRangedPool"},
	{pkg: "x/liquidity/amm", recv: "RangedPool", fn: "Price", coq: "gen_amm_RangedPool_Price"},
	{pkg: "x/liquidity/amm", recv: "RangedPool", fn: "BuyAmountOver", coq: "gen_amm_RangedPool_BuyAmountOver"},
	{pkg: "x/liquidity/amm", recv: "RangedPool", fn: "SellAmountUnder", coq: "gen_amm_RangedPool_SellAmountUnder"},
	// x/lend/keeper/maths.go (C18).  reads = keeper methods whose results are inputs
	{pkg: "x/lend/keeper", recv: "Keeper", fn: "GetUtilisationRatioByPoolIDAndAssetID", coq: "gen_lend_GetUtilisationRatio",
		reads: []string{"GetPool", "GetAsset", "ModuleBalance", "GetAssetStatsByPoolIDAndAssetID"}},
	{pkg: "x/lend/keeper", recv: "Keeper", fn: "GetBorrowAPRByAssetID", coq: "gen_lend_GetBorrowAPR",
		reads: []string{"GetAssetRatesParams"}},
	{pkg: "x/lend/keeper", recv: "Keeper", fn: "GetLendAPRByAssetIDAndPoolID", coq: "gen_lend_GetLendAPR",
		reads: []string{"GetAssetRatesParams"}},
	{pkg: "x/lend/keeper", recv: "Keeper", fn: "UpdateAPR", coq: "gen_lend_UpdateAPR",
		reads: []string{"GetAssetStatsByPoolIDAndAssetID"}},
	{pkg: "x/lend/keeper", recv: "Keeper", fn: "GetAverageBorrowRate", coq: "gen_lend_GetAverageBorrowRate",
		errs: map[string]int{"types.ErrAverageBorrowRate": 8}},
	{pkg: "x/lend/keeper", recv: "Keeper", fn: "GetSavingRate", coq: "gen_lend_GetSavingRate",
		reads: []string{"GetAssetRatesParams"}},
	{pkg: "x/lend/keeper", recv: "Keeper", fn: "GetReserveRate", coq: "gen_lend_GetReserveRate"},
	// x/auctionsV2/keeper/maths.go (C10)
	{pkg: "x/auctionsV2/keeper", fn: "Multiply", coq: "gen_auctionsV2_Multiply"},
	{pkg: "x/auctionsV2/keeper", recv: "Keeper", fn: "GetCollalteralTokenInitialPrice", coq: "gen_auctionsV2_InitialPrice"},
	{pkg: "x/auctionsV2/keeper", recv: "Keeper", fn: "GetPriceFromLinearDecreaseFunction", coq: "gen_auctionsV2_LinearPrice"},
	{pkg: "x/auctionsV2/keeper", recv: "Keeper", fn: "GetCollateralTokenEndPrice", coq: "gen_auctionsV2_EndPrice"},
	// x/vault/keeper/vault.go, x/market/keeper/oracle.go (C03).  Error codes are those of Model/Vault.v
	{pkg: "x/vault/keeper", recv: "Keeper", fn: "CalculateCollateralizationRatio", coq: "gen_vault_CalculateCollateralizationRatio",
		reads: []string{"GetPairsVault", "GetPair", "GetAsset", "GetESMStatus", "GetSnapshotOfPrices", "CalcAssetPrice"},
		errs: map[string]int{"types.ErrorExtendedPairVaultDoesNotExists": 3, "types.ErrorPairDoesNotExist": 3, "types.ErrorAssetDoesNotExist": 3,
			"types.ErrorPriceDoesNotExist": 10, "types.ErrorInvalidAmountIn": 6, "types.ErrorInvalidAmountOut": 6}},
	{pkg: "x/vault/keeper", recv: "Keeper", fn: "VerifyCollaterlizationRatio", coq: "gen_vault_VerifyCollaterlizationRatio",
		errs: map[string]int{"types.ErrorInvalidCollateralizationRatio": 9}},
	{pkg: "x/market/keeper", recv: "Keeper", fn: "CalcAssetPrice", coq: "gen_market_CalcAssetPrice",
		reads: []string{"GetAsset", "GetTwa"},
		errs:  map[string]int{"assetTypes.ErrorAssetDoesNotExist": 3, "types.ErrorPriceNotActive": 10}},
	// x/market/keeper/oracle.go (C17).  cell = the Twa record of the asset: read, rewritten and re-read
	{pkg: "x/market/keeper", recv: "Keeper", fn: "CalculateTwa", coq: "gen_market_CalculateTwa"},
	{pkg: "x/market/keeper", recv: "Keeper", fn: "UpdatePriceList", coq: "gen_market_UpdatePriceList",
		cell: &pfCellSpec{get: "GetTwa", set: "SetTwa", keyField: "AssetID"}},
	{pkg: "x/market/keeper", recv: "Keeper", fn: "GetLatestPrice", coq: "gen_market_GetLatestPrice",
		reads: []string{"GetTwa"}, errs: map[string]int{"types.ErrorPriceNotActive": 1}},
	// x/rewards/keeper/utils.go (C19), x/liquidationsV2/types/offset.go (C15, C09)
	{pkg: "x/rewards/keeper", fn: "SplitTotalAmountPerEpoch", coq: "gen_rewards_SplitTotalAmountPerEpoch"},
	{pkg: "x/liquidationsV2/types", fn: "GetSliceStartEndForLiquidations", coq: "gen_liquidationsV2_GetSliceStartEnd"},
	{pkg: "x/liquidation/types", fn: "GetSliceStartEndForLiquidations", coq: "gen_liquidation_GetSliceStartEnd"},
	// x/vault/keeper/vault.go (C03, C10)
	{pkg: "x/vault/keeper", recv: "Keeper", fn: "GetAmountOfOtherToken", coq: "gen_vault_GetAmountOfOtherToken",
		reads: []string{"GetAsset"}, errs: map[string]int{"assettypes.ErrorAssetDoesNotExist": 3}},
	// x/liquidity/amm/util.go (C05).  reads = getters of the amm.Order interface = inputs
	{pkg: "x/liquidity/amm", fn: "MatchableAmount", coq: "gen_amm_MatchableAmount",
		reads: []string{"GetDirection", "GetOfferCoinAmount", "GetPaidOfferCoinAmount", "GetOpenAmount"}},
}
