// emit_purefuns_specs: the functions translated by tie (C), callees before callers is not required.
package main

var pureFunSpecs = []pfSpec{
	{pkg: "x/liquidity/amm", fn: "Deposit", coq: "gen_amm_Deposit"},
	{pkg: "x/liquidity/amm", fn: "Withdraw", coq: "gen_amm_Withdraw"},
}
