// Error flow of the ApplyFuncIfNoError closures, and the shape of ApplyFuncIfNoError itself
// (part of emitter HookTable, see emit_hooks.go).
//
// (1) Inside every closure handed to utils.ApplyFuncIfNoError, every call that becomes a Call node
// of the table AND has an `error` as its last result is wrapped in
//
//	OnErr ReturnsCallErr (Call ...)     the closure returns a non-nil error whenever the call did:
//	                                      return f(..)
//	                                      [x,] err := f(..)  followed by  if err != nil { ...; return E }
//	                                      if [x,] err := f(..); err != nil { ...; return E }
//	                                      [x,] err := f(..)  followed by  return err
//	                                    where E is the error itself, fmt.Errorf / errors.New (a fresh non-nil
//	                                    error), a Wrap of the error, or a package-level error variable, and the
//	                                    `if` body contains no other return / continue / break / goto
//	OnErr SwallowsErr (Call ...)        the error is discarded: assigned to _, the call is an expression
//	                                    statement, or the `if err != nil` body only logs / emits, ends in
//	                                    `return nil`, `continue` or `break`, or falls through
//	OnErr (UnrecognisedErr "..") (..)   anything else (compound condition, error checked later, nested use,
//	                                    a closure with a defer statement or a named result)
//
// A call without an error result gets no frame: it has nothing to report.
//
// (2) types/utils.go ApplyFuncIfNoError is read statement by statement into the little language
// apply_stmt of coq/Model/HookLang.v (ADeferRecover, ACacheCtx, ARunOnCache, ARunOnParent, AWrite,
// AIfErrNil yes no, ALog, AReturnErr, AReturnNil, AUnrecognised) whose interpreter is in
// coq/Model/Hooks.v: the theorem over it says the function IS Lib/Atomic.apply.
package main

import (
	"go/ast"
	"go/token"
	"go/types"
	"strings"
)

type hooksErrHandling struct {
	kind string // ReturnsCallErr SwallowsErr UnrecognisedErr
	what string
}

type hooksErrAnalysis struct {
	fn     *hooksFn
	info   *types.Info
	m      map[*ast.CallExpr]hooksErrHandling
	poison string // the closure can change its result behind the statements read here (defer, named result)
}

var hooksErrorType = types.Universe.Lookup("error").Type()

// does the call expression yield an error as its (last) result?
func hooksHasErrResult(info *types.Info, e *ast.CallExpr) bool {
	tv, ok := info.Types[e]
	if !ok || tv.Type == nil {
		return false
	}
	t := tv.Type
	if tup, ok := t.(*types.Tuple); ok {
		if tup.Len() == 0 {
			return false
		}
		t = tup.At(tup.Len() - 1).Type()
	}
	return types.Identical(t, hooksErrorType)
}

func hooksAnalyseClosure(fn *hooksFn, lit *ast.FuncLit) *hooksErrAnalysis {
	a := &hooksErrAnalysis{fn: fn, info: fn.pkg.TypesInfo, m: map[*ast.CallExpr]hooksErrHandling{}}
	if lit.Type.Results != nil {
		for _, f := range lit.Type.Results.List {
			if len(f.Names) > 0 {
				a.poison = "closure with a named result"
			}
		}
	}
	for _, s := range lit.Body.List {
		ast.Inspect(s, func(n ast.Node) bool {
			switch n.(type) {
			case *ast.FuncLit:
				return false
			case *ast.DeferStmt:
				a.poison = "closure with a defer statement"
			}
			return true
		})
	}
	a.block(lit.Body.List)
	return a
}

func (a *hooksErrAnalysis) handling(e *ast.CallExpr) hooksErrHandling {
	if a.poison != "" {
		return hooksErrHandling{"UnrecognisedErr", a.pos(e) + ": " + a.poison}
	}
	if h, ok := a.m[e]; ok {
		return h
	}
	return hooksErrHandling{"UnrecognisedErr", a.pos(e) + ": error result used in a way the translator does not read"}
}

func (a *hooksErrAnalysis) pos(n ast.Node) string {
	p := a.fn.pkg.Fset.Position(n.Pos())
	parts := strings.Split(p.Filename, "/x/")
	return "x/" + parts[len(parts)-1]
}

func (a *hooksErrAnalysis) block(list []ast.Stmt) {
	for i, s := range list {
		var next ast.Stmt
		if i+1 < len(list) {
			next = list[i+1]
		}
		a.stmt(s, next)
	}
}

func (a *hooksErrAnalysis) errCall(e ast.Expr) *ast.CallExpr {
	c, ok := ast.Unparen(e).(*ast.CallExpr)
	if !ok || !hooksHasErrResult(a.info, c) {
		return nil
	}
	return c
}

func (a *hooksErrAnalysis) stmt(s ast.Stmt, next ast.Stmt) {
	switch s := s.(type) {
	case *ast.AssignStmt:
		if len(s.Rhs) == 1 {
			if c := a.errCall(s.Rhs[0]); c != nil && len(s.Lhs) >= 1 {
				a.m[c] = a.assigned(s.Lhs[len(s.Lhs)-1], next)
			}
		}
	case *ast.ExprStmt:
		if c := a.errCall(s.X); c != nil {
			a.m[c] = hooksErrHandling{"SwallowsErr", "result discarded"}
		}
	case *ast.ReturnStmt:
		if len(s.Results) == 1 {
			if c := a.errCall(s.Results[0]); c != nil {
				if tv, ok := a.info.Types[c]; ok {
					if _, tuple := tv.Type.(*types.Tuple); !tuple {
						a.m[c] = hooksErrHandling{"ReturnsCallErr", ""}
					}
				}
			}
		}
	case *ast.IfStmt:
		if as, ok := s.Init.(*ast.AssignStmt); ok && len(as.Rhs) == 1 {
			if c := a.errCall(as.Rhs[0]); c != nil && len(as.Lhs) >= 1 {
				a.m[c] = a.assigned(as.Lhs[len(as.Lhs)-1], &ast.IfStmt{Cond: s.Cond, Body: s.Body, Else: s.Else})
			}
		}
		a.block(s.Body.List)
		if s.Else != nil {
			a.stmt(s.Else, nil)
		}
	case *ast.BlockStmt:
		a.block(s.List)
	case *ast.ForStmt:
		a.block(s.Body.List)
	case *ast.RangeStmt:
		a.block(s.Body.List)
	case *ast.SwitchStmt:
		for _, c := range s.Body.List {
			a.block(c.(*ast.CaseClause).Body)
		}
	case *ast.TypeSwitchStmt:
		for _, c := range s.Body.List {
			a.block(c.(*ast.CaseClause).Body)
		}
	case *ast.LabeledStmt:
		a.stmt(s.Stmt, next)
	}
}

// the error of a call was assigned to lhs; next is the statement that follows
func (a *hooksErrAnalysis) assigned(lhs ast.Expr, next ast.Stmt) hooksErrHandling {
	id, ok := ast.Unparen(lhs).(*ast.Ident)
	if !ok {
		return hooksErrHandling{"UnrecognisedErr", a.pos(lhs) + ": error stored in a non-variable"}
	}
	if id.Name == "_" {
		return hooksErrHandling{"SwallowsErr", "assigned to _"}
	}
	obj := a.info.ObjectOf(id)
	if obj == nil {
		return hooksErrHandling{"UnrecognisedErr", a.pos(lhs) + ": no object for the error variable"}
	}
	switch n := next.(type) {
	case *ast.ReturnStmt:
		if len(n.Results) == 1 && a.isObj(n.Results[0], obj) {
			return hooksErrHandling{"ReturnsCallErr", ""}
		}
	case *ast.IfStmt:
		if n.Init == nil && a.isNotNilTest(n.Cond, obj) {
			return a.ifBody(n.Body, obj)
		}
	}
	return hooksErrHandling{"UnrecognisedErr", a.pos(lhs) + ": the statement after the call is not `if " + id.Name + " != nil` / `return " + id.Name + "`"}
}

func (a *hooksErrAnalysis) isObj(e ast.Expr, obj types.Object) bool {
	id, ok := ast.Unparen(e).(*ast.Ident)
	return ok && a.info.ObjectOf(id) == obj
}

func (a *hooksErrAnalysis) isNil(e ast.Expr) bool {
	id, ok := ast.Unparen(e).(*ast.Ident)
	if !ok {
		return false
	}
	_, isNil := a.info.ObjectOf(id).(*types.Nil)
	return isNil
}

func (a *hooksErrAnalysis) isNotNilTest(cond ast.Expr, obj types.Object) bool {
	b, ok := ast.Unparen(cond).(*ast.BinaryExpr)
	if !ok || b.Op != token.NEQ {
		return false
	}
	return (a.isObj(b.X, obj) && a.isNil(b.Y)) || (a.isObj(b.Y, obj) && a.isNil(b.X))
}

// body of `if err != nil { ... }`
func (a *hooksErrAnalysis) ifBody(body *ast.BlockStmt, obj types.Object) hooksErrHandling {
	// returns / branches / re-assignments of the error anywhere in the body except its last statement
	var last ast.Stmt
	if len(body.List) > 0 {
		last = body.List[len(body.List)-1]
	}
	inner := 0
	reassigned := false
	for _, s := range body.List {
		ast.Inspect(s, func(n ast.Node) bool {
			switch x := n.(type) {
			case *ast.FuncLit:
				return false
			case *ast.ReturnStmt:
				if ast.Stmt(x) != last {
					inner++
				}
			case *ast.BranchStmt:
				if ast.Stmt(x) != last {
					inner++
				}
			case *ast.AssignStmt:
				for _, l := range x.Lhs {
					if a.isObj(l, obj) {
						reassigned = true
					}
				}
			}
			return true
		})
	}
	if inner > 0 {
		return hooksErrHandling{"UnrecognisedErr", a.pos(body) + ": return / branch nested inside the error branch"}
	}
	switch l := last.(type) {
	case *ast.ReturnStmt:
		if len(l.Results) != 1 {
			return hooksErrHandling{"UnrecognisedErr", a.pos(l) + ": return with several results in the error branch"}
		}
		r := l.Results[0]
		if a.isNil(r) {
			return hooksErrHandling{"SwallowsErr", "error branch returns nil"}
		}
		if !reassigned && a.nonNilError(r, obj) {
			return hooksErrHandling{"ReturnsCallErr", ""}
		}
		return hooksErrHandling{"UnrecognisedErr", a.pos(l) + ": the error branch returns " + hooksText(a.fn.pkg.Fset, r)}
	case *ast.BranchStmt:
		if l.Tok == token.CONTINUE || l.Tok == token.BREAK {
			return hooksErrHandling{"SwallowsErr", "error branch ends in " + l.Tok.String()}
		}
		return hooksErrHandling{"UnrecognisedErr", a.pos(l) + ": " + l.Tok.String() + " in the error branch"}
	default:
		return hooksErrHandling{"SwallowsErr", "error branch falls through (error only logged)"}
	}
}

// is e a non-nil error, given that obj (an error variable) is non-nil here?
func (a *hooksErrAnalysis) nonNilError(e ast.Expr, obj types.Object) bool {
	e = ast.Unparen(e)
	if a.isObj(e, obj) {
		return true
	}
	// a package-level error variable (registered module errors: types.ErrX, assettypes.AppIdsDoesntExist)
	pkgVar := func(x ast.Expr) bool {
		var id *ast.Ident
		switch y := ast.Unparen(x).(type) {
		case *ast.Ident:
			id = y
		case *ast.SelectorExpr:
			id = y.Sel
		}
		if id == nil {
			return false
		}
		v, ok := a.info.ObjectOf(id).(*types.Var)
		return ok && !v.IsField() && v.Pkg() != nil && v.Parent() == v.Pkg().Scope()
	}
	if pkgVar(e) {
		return true
	}
	c, ok := e.(*ast.CallExpr)
	if !ok {
		return false
	}
	f, _ := hooksCallee(a.info, c)
	if f == nil || f.Pkg() == nil {
		return false
	}
	path, name := f.Pkg().Path(), f.Name()
	switch {
	case path == "fmt" && name == "Errorf", path == "errors" && name == "New":
		return true
	case (path == "cosmossdk.io/errors" || strings.HasSuffix(path, "/types/errors")) && (name == "Wrap" || name == "Wrapf"):
		// a function Wrap(err, ..) is non-nil when its first argument is; a method ErrX.Wrap(..) when the receiver is
		if sel, ok := ast.Unparen(c.Fun).(*ast.SelectorExpr); ok && hooksRecvNamed(f) != nil {
			return pkgVar(sel.X) || a.isObj(sel.X, obj)
		}
		return len(c.Args) >= 1 && (a.isObj(c.Args[0], obj) || pkgVar(c.Args[0]))
	}
	return false
}

// ---------- the shape of ApplyFuncIfNoError itself ----------

type hooksApplyReader struct {
	fn               *hooksFn
	info             *types.Info
	ctx, f           types.Object
	cache, write, er types.Object
}

func (r *hooksApplyReader) unrec(n ast.Node) string {
	return "AUnrecognised " + coqString(hooksText(r.fn.pkg.Fset, n))
}

func (r *hooksApplyReader) obj(e ast.Expr) types.Object {
	id, ok := ast.Unparen(e).(*ast.Ident)
	if !ok {
		return nil
	}
	return r.info.ObjectOf(id)
}

func (r *hooksApplyReader) list(l []ast.Stmt) string {
	var parts []string
	for _, s := range l {
		parts = append(parts, r.stmt(s))
	}
	return "[" + strings.Join(parts, "; ") + "]"
}

// a statement that only logs: ctx.Logger()....(..) or a call of a repository function that neither
// writes nor touches f / the cache context / the write-back function
func (r *hooksApplyReader) isLog(g *hooksGraph, c *ast.CallExpr) bool {
	touches := false
	ast.Inspect(c, func(n ast.Node) bool {
		if id, ok := n.(*ast.Ident); ok {
			o := r.info.ObjectOf(id)
			if o != nil && (o == r.f || o == r.cache || o == r.write) {
				touches = true
			}
		}
		return true
	})
	if touches {
		return false
	}
	// root of the selector chain
	x := ast.Expr(c)
	sawLogger := false
	for {
		switch y := ast.Unparen(x).(type) {
		case *ast.CallExpr:
			x = y.Fun
			continue
		case *ast.SelectorExpr:
			if y.Sel.Name == "Logger" {
				sawLogger = true
			}
			x = y.X
			continue
		}
		break
	}
	if sawLogger && r.obj(x) == r.ctx {
		return true
	}
	if f, _ := hooksCallee(r.info, c); f != nil {
		if t := g.fns[f.Origin()]; t != nil && !t.writes && !t.containsWrap {
			return true
		}
	}
	return false
}

var hooksApplyGraph *hooksGraph

func (r *hooksApplyReader) stmt(s ast.Stmt) string {
	switch s := s.(type) {
	case *ast.DeferStmt:
		lit, ok := ast.Unparen(s.Call.Fun).(*ast.FuncLit)
		if !ok || len(s.Call.Args) != 0 {
			return r.unrec(s)
		}
		recovers, bad := false, false
		for _, st := range lit.Body.List {
			ast.Inspect(st, func(n ast.Node) bool {
				switch x := n.(type) {
				case *ast.FuncLit:
					return false
				case *ast.CallExpr:
					if _, bi := hooksCallee(r.info, x); bi != nil {
						switch bi.Name() {
						case "recover":
							recovers = true
						case "panic":
							bad = true // re-panics
						}
					}
					if id, ok := ast.Unparen(x.Fun).(*ast.Ident); ok {
						if o := r.info.ObjectOf(id); o != nil && (o == r.write || o == r.f) {
							bad = true // the deferred function writes the cache / runs f
						}
					}
				}
				return true
			})
		}
		if recovers && !bad {
			return "ADeferRecover"
		}
		return r.unrec(s)
	case *ast.AssignStmt:
		if len(s.Rhs) != 1 {
			return r.unrec(s)
		}
		c, ok := ast.Unparen(s.Rhs[0]).(*ast.CallExpr)
		if !ok {
			return r.unrec(s)
		}
		if sel, ok := ast.Unparen(c.Fun).(*ast.SelectorExpr); ok && sel.Sel.Name == "CacheContext" && r.obj(sel.X) == r.ctx && len(s.Lhs) == 2 && len(c.Args) == 0 {
			r.cache, r.write = r.obj(s.Lhs[0]), r.obj(s.Lhs[1])
			if r.cache == nil || r.write == nil {
				return r.unrec(s)
			}
			return "ACacheCtx"
		}
		if fo := r.obj(c.Fun); fo != nil && fo == r.f && len(c.Args) == 1 && len(s.Lhs) == 1 {
			eo := r.obj(s.Lhs[0])
			if eo == nil {
				return r.unrec(s)
			}
			if r.er != nil && r.er != eo {
				return r.unrec(s)
			}
			r.er = eo
			switch ao := r.obj(c.Args[0]); {
			case ao != nil && ao == r.cache:
				return "ARunOnCache"
			case ao != nil && ao == r.ctx:
				return "ARunOnParent"
			}
		}
		return r.unrec(s)
	case *ast.ExprStmt:
		c, ok := ast.Unparen(s.X).(*ast.CallExpr)
		if !ok {
			return r.unrec(s)
		}
		if fo := r.obj(c.Fun); fo != nil && fo == r.write && len(c.Args) == 0 {
			return "AWrite"
		}
		if r.isLog(hooksApplyGraph, c) {
			return "ALog"
		}
		return r.unrec(s)
	case *ast.IfStmt:
		if s.Init != nil {
			return r.unrec(s)
		}
		b, ok := ast.Unparen(s.Cond).(*ast.BinaryExpr)
		if !ok || (b.Op != token.EQL && b.Op != token.NEQ) || r.er == nil {
			return r.unrec(s)
		}
		isNil := func(e ast.Expr) bool {
			id, ok := ast.Unparen(e).(*ast.Ident)
			if !ok {
				return false
			}
			_, n := r.info.ObjectOf(id).(*types.Nil)
			return n
		}
		if !((r.obj(b.X) == r.er && isNil(b.Y)) || (r.obj(b.Y) == r.er && isNil(b.X))) {
			return r.unrec(s)
		}
		yes := r.list(s.Body.List)
		no := "[]"
		switch e := s.Else.(type) {
		case nil:
		case *ast.BlockStmt:
			no = r.list(e.List)
		default:
			no = "[" + r.stmt(e) + "]"
		}
		if b.Op == token.NEQ {
			yes, no = no, yes
		}
		return "AIfErrNil " + yes + " " + no
	case *ast.ReturnStmt:
		if len(s.Results) == 0 {
			return "AReturnErr" // bare return of the named result
		}
		if len(s.Results) == 1 {
			if r.er != nil && r.obj(s.Results[0]) == r.er {
				return "AReturnErr"
			}
			if id, ok := ast.Unparen(s.Results[0]).(*ast.Ident); ok {
				if _, n := r.info.ObjectOf(id).(*types.Nil); n {
					return "AReturnNil"
				}
			}
		}
		return r.unrec(s)
	}
	return r.unrec(s)
}

// hooksApplyShape reads types/utils.go ApplyFuncIfNoError
func hooksApplyShape(g *hooksGraph) string {
	hooksApplyGraph = g
	for _, fn := range g.order {
		if !hooksIsApply(fn.obj) {
			continue
		}
		sig := fn.obj.Type().(*types.Signature)
		if sig.Params().Len() != 2 || sig.Results().Len() != 1 {
			return "[AUnrecognised \"ApplyFuncIfNoError: unexpected signature\"]"
		}
		r := &hooksApplyReader{fn: fn, info: fn.pkg.TypesInfo, ctx: sig.Params().At(0), f: sig.Params().At(1)}
		if res := sig.Results().At(0); res.Name() != "" && res.Name() != "_" {
			r.er = res
		}
		return r.list(fn.decl.Body.List)
	}
	return "[AUnrecognised \"types.ApplyFuncIfNoError not found\"]"
}
