// emit_guards: Gen/GuardTable.v.  For every method of every module's msgServer the ORDERED list of
// what the handler does at the top level of its body (following the delegation msg_server ->
// keeper function, and inlining non-writing validation helpers whose error is propagated):
// guard checks (ESM, circuit breaker, owner equality, lookups keyed by the signer, existence,
// admin, price lookups, other conditions), state writes (store Set/Delete, bank send/mint/burn,
// or any call that transitively reaches one), early successful returns, and anything the walker
// does not recognise as an explicit IUnrecognised item.  Also, per handler, whether it can reach
// bank.MintCoins and every oracle price call site it can reach with the way the error is handled
// at the site and along the call chain.
package main

import (
	"fmt"
	"go/ast"
	"go/token"
	"go/types"
	"regexp"
	"sort"
	"strings"

	"golang.org/x/tools/go/packages"
)

// ------------------------------------------------------------------------------------------
// shared analysis: declarations, callee resolution, transitive "writes" / "mints"

type guardsDecl struct {
	decl *ast.FuncDecl
	pkg  *packages.Package
}

type guardsAn struct {
	c            *corpus
	decls        map[*types.Func]guardsDecl
	keeperByName map[string][]*types.Func
	writes       map[*types.Func]bool
	mints        map[*types.Func]bool
	price        map[*types.Func]bool // transitively reaches a price call
	ctl          map[*types.Func]bool // transitively reads the circuit breaker / ESM status
	callees      map[*types.Func][]*types.Func
	// `x, _ := k.market.GetTwa(ctx, id)`: a raw read of the oracle record that discards the found flag
	// (and so cannot be followed by a check of it): treated as a price call site whose error is ignored
	rawTwa map[*ast.CallExpr]bool
}

var guardsShared *guardsAn

var guardsBankWrite = regexp.MustCompile(`^(Send|Mint|Burn|Delegate|Undelegate|InputOutput)`)
var guardsPriceFns = map[string]bool{"CalcAssetPrice": true, "GetLatestPrice": true}

func guardsAnalysis(c *corpus) *guardsAn {
	if guardsShared != nil {
		return guardsShared
	}
	an := &guardsAn{c: c, decls: map[*types.Func]guardsDecl{}, keeperByName: map[string][]*types.Func{},
		writes: map[*types.Func]bool{}, mints: map[*types.Func]bool{}, price: map[*types.Func]bool{}, ctl: map[*types.Func]bool{}, callees: map[*types.Func][]*types.Func{},
		rawTwa: map[*ast.CallExpr]bool{}}
	for _, p := range c.all {
		for _, f := range p.Syntax {
			for _, d := range f.Decls {
				fd, ok := d.(*ast.FuncDecl)
				if !ok || fd.Body == nil {
					continue
				}
				obj, ok := p.TypesInfo.Defs[fd.Name].(*types.Func)
				if !ok {
					continue
				}
				an.decls[obj] = guardsDecl{fd, p}
				if fd.Recv != nil && len(fd.Recv.List) > 0 {
					rt := p.TypesInfo.TypeOf(fd.Recv.List[0].Type)
					if pt, ok := rt.(*types.Pointer); ok {
						rt = pt.Elem()
					}
					if nt, ok := rt.(*types.Named); ok && nt.Obj().Name() == "Keeper" {
						an.keeperByName[fd.Name.Name] = append(an.keeperByName[fd.Name.Name], obj)
					}
				}
			}
		}
	}
	for _, l := range an.keeperByName {
		sort.Slice(l, func(i, j int) bool { return l[i].FullName() < l[j].FullName() })
	}
	// direct facts + call edges
	for fn, d := range an.decls {
		seen := map[*types.Func]bool{}
		ast.Inspect(d.decl.Body, func(n ast.Node) bool {
			if sel, ok := n.(*ast.SelectorExpr); ok {
				if sel.Sel.Name == "BreakerEnable" {
					an.ctl[fn] = true
				}
				if sel.Sel.Name == "Status" {
					if t := d.pkg.TypesInfo.TypeOf(sel.X); t != nil && strings.HasSuffix(t.String(), "ESMStatus") {
						an.ctl[fn] = true
					}
				}
			}
			if as, ok := n.(*ast.AssignStmt); ok && len(as.Rhs) == 1 && len(as.Lhs) == 2 {
				if c, ok := as.Rhs[0].(*ast.CallExpr); ok && guardsCalleeName(c) == "GetTwa" {
					if id, ok := as.Lhs[1].(*ast.Ident); ok && id.Name == "_" && !strings.Contains(d.pkg.PkgPath, "/x/market") {
						an.rawTwa[c] = true
						an.price[fn] = true
					}
				}
			}
			call, ok := n.(*ast.CallExpr)
			if !ok {
				return true
			}
			if an.directWrite(d.pkg, call) {
				an.writes[fn] = true
			}
			if an.directMint(d.pkg, call) {
				an.mints[fn] = true
			}
			if guardsPriceFns[guardsCalleeName(call)] && !guardsPriceFns[fn.Name()] {
				an.price[fn] = true
			}
			for _, cal := range an.calleesOf(d.pkg, call) {
				if !seen[cal] {
					seen[cal] = true
					an.callees[fn] = append(an.callees[fn], cal)
				}
			}
			return true
		})
	}
	// the market keeper's own price functions are the price sources
	for fn := range an.decls {
		if guardsPriceFns[fn.Name()] {
			an.price[fn] = true
		}
	}
	for _, m := range []map[*types.Func]bool{an.writes, an.mints, an.price, an.ctl} {
		for changed := true; changed; {
			changed = false
			for fn, cs := range an.callees {
				if m[fn] {
					continue
				}
				for _, cal := range cs {
					if m[cal] {
						m[fn] = true
						changed = true
						break
					}
				}
			}
		}
	}
	guardsShared = an
	return an
}

func guardsCalleeName(call *ast.CallExpr) string {
	switch f := call.Fun.(type) {
	case *ast.Ident:
		return f.Name
	case *ast.SelectorExpr:
		return f.Sel.Name
	}
	return ""
}

func (an *guardsAn) calleeObj(pkg *packages.Package, call *ast.CallExpr) *types.Func {
	var id *ast.Ident
	switch f := call.Fun.(type) {
	case *ast.Ident:
		id = f
	case *ast.SelectorExpr:
		id = f.Sel
	default:
		return nil
	}
	obj, _ := pkg.TypesInfo.Uses[id].(*types.Func)
	if obj != nil {
		obj = obj.Origin()
	}
	return obj
}

// calleesOf: the declared function, or for an interface method every Keeper method of that name
func (an *guardsAn) calleesOf(pkg *packages.Package, call *ast.CallExpr) []*types.Func {
	obj := an.calleeObj(pkg, call)
	if obj == nil {
		return nil
	}
	if _, has := an.decls[obj]; has {
		return []*types.Func{obj}
	}
	if sig, ok := obj.Type().(*types.Signature); ok && sig.Recv() != nil && types.IsInterface(sig.Recv().Type()) {
		return an.keeperByName[obj.Name()]
	}
	return nil
}

func (an *guardsAn) directWrite(pkg *packages.Package, call *ast.CallExpr) bool {
	sel, ok := call.Fun.(*ast.SelectorExpr)
	if !ok {
		return false
	}
	name := sel.Sel.Name
	if name == "Set" || name == "Delete" {
		if t := pkg.TypesInfo.TypeOf(sel.X); t != nil {
			s := t.String()
			if strings.Contains(s, "KVStore") || strings.Contains(s, "prefix.Store") || strings.Contains(s, "/store/") {
				return true
			}
		}
	}
	if obj := an.calleeObj(pkg, call); obj != nil && guardsBankWrite.MatchString(name) {
		if sig, ok := obj.Type().(*types.Signature); ok && sig.Recv() != nil {
			rs := sig.Recv().Type().String()
			if strings.Contains(rs, "BankKeeper") || strings.Contains(rs, "x/bank/keeper") {
				return true
			}
		}
	}
	return false
}

func (an *guardsAn) directMint(pkg *packages.Package, call *ast.CallExpr) bool {
	sel, ok := call.Fun.(*ast.SelectorExpr)
	if !ok || sel.Sel.Name != "MintCoins" {
		return false
	}
	return an.directWrite(pkg, call)
}

func (an *guardsAn) callWrites(pkg *packages.Package, call *ast.CallExpr) bool {
	if an.directWrite(pkg, call) {
		return true
	}
	for _, cal := range an.calleesOf(pkg, call) {
		if an.writes[cal] {
			return true
		}
	}
	return false
}

// ------------------------------------------------------------------------------------------
// msgServer methods

type guardsHandler struct {
	module  string
	pkg     *packages.Package
	decl    *ast.FuncDecl
	fn      *types.Func
	msgType string
}

func guardsMsgServerMethods(c *corpus) []guardsHandler {
	var out []guardsHandler
	for _, p := range c.all {
		if !strings.Contains(p.PkgPath, "/x/") || !strings.HasSuffix(p.PkgPath, "/keeper") {
			continue
		}
		mod := msgtypesModuleOf(p.PkgPath)
		for _, f := range p.Syntax {
			for _, d := range f.Decls {
				fd, ok := d.(*ast.FuncDecl)
				if !ok || fd.Body == nil || fd.Recv == nil || len(fd.Recv.List) == 0 {
					continue
				}
				rt := p.TypesInfo.TypeOf(fd.Recv.List[0].Type)
				if pt, ok := rt.(*types.Pointer); ok {
					rt = pt.Elem()
				}
				nt, ok := rt.(*types.Named)
				if !ok || !strings.Contains(strings.ToLower(nt.Obj().Name()), "msgserver") {
					continue
				}
				obj, _ := p.TypesInfo.Defs[fd.Name].(*types.Func)
				if obj == nil {
					continue
				}
				sig := obj.Type().(*types.Signature)
				if sig.Params().Len() != 2 || sig.Results().Len() != 2 {
					continue
				}
				if !strings.HasSuffix(sig.Params().At(0).Type().String(), "context.Context") {
					continue
				}
				pt, ok := sig.Params().At(1).Type().(*types.Pointer)
				if !ok {
					continue
				}
				mt, ok := pt.Elem().(*types.Named)
				if !ok {
					continue
				}
				out = append(out, guardsHandler{module: mod, pkg: p, decl: fd, fn: obj, msgType: mt.Obj().Name()})
			}
		}
	}
	sort.Slice(out, func(i, j int) bool {
		if out[i].module != out[j].module {
			return out[i].module < out[j].module
		}
		return out[i].decl.Name.Name < out[j].decl.Name.Name
	})
	return out
}

// ------------------------------------------------------------------------------------------
// the walker

type guardsLookup struct {
	callee string
	keyed  bool // one of the arguments derives from the message signer
}

type guardsEnv struct {
	an      *guardsAn
	pkg     *packages.Package
	subst   map[types.Object]string
	structs map[types.Object]map[string]string // local message values built from a composite literal: field -> text
	found   map[types.Object]guardsLookup
	esmVars map[types.Object]bool
	brkVars map[types.Object]string
	signer  string // "msg.<Field>" ("" when unknown)
	sfield  string
	depth   int
	stack   map[*types.Func]bool
	items   *[]string
	helpers map[string][]string
	curDecl *ast.FuncDecl
	module  string
	helper  bool
	stop    bool
	ctlOpq  *bool // set when a writing call that is not walked into reads the breaker / ESM status itself
	// provenance of fetched records: variable -> the lookup that produced it and what it was keyed by
	recs map[types.Object]*guardsRec
	prov *[]guardsOwnerCmp // every owner comparison met while walking this handler (shared by the sub-walks)
	// a parameter of an inlined callee: how the caller obtained the argument
	pkeys map[types.Object]guardsKey
	// owner comparisons met inside a helper row (a helper row is walked once and shared by its callers)
	hprov map[string][]guardsOwnerCmp
}

type guardsKey struct {
	key    string
	parent *guardsRec
}

// guardsRec: `x, found := k.<callee>(ctx, keys...)`; each key is "msg.<Field>" (a field of the message),
// "<RecordType>.<Field>" (a field of another fetched record, whose own provenance is `parents`), or "?<text>"
type guardsRec struct {
	callee  string
	keys    []string
	parents []*guardsRec
}

type guardsOwnerCmp struct {
	field string // "<RecordType>.<OwnerField>"
	chain []*guardsRec
}

// keyOf: how a lookup argument was obtained
func (e *guardsEnv) keyOf(a ast.Expr) (string, *guardsRec) {
	if id, ok := a.(*ast.Ident); ok && e.pkeys != nil {
		if o := e.objOf(id); o != nil {
			if k, ok := e.pkeys[o]; ok {
				return k.key, k.parent
			}
		}
	}
	t := e.txt(a)
	if strings.HasPrefix(t, "msg.") {
		t = strings.TrimSuffix(strings.TrimPrefix(t, "msg."), "()")
		t = strings.TrimPrefix(t, "Get")
		return "msg." + t, nil
	}
	if s, ok := a.(*ast.SelectorExpr); ok {
		if tn := e.typeNameOf(s.X); tn != "" {
			var parent *guardsRec
			if o := e.objOf(s.X); o != nil && e.recs != nil {
				parent = e.recs[o]
			}
			return tn + "." + s.Sel.Name, parent
		}
	}
	return "?" + t, nil
}

func (e *guardsEnv) noteRec(lhs ast.Expr, call *ast.CallExpr) {
	o := e.objOf(lhs)
	if o == nil {
		return
	}
	if e.recs == nil {
		e.recs = map[types.Object]*guardsRec{}
	}
	r := &guardsRec{callee: guardsCalleeName(call)}
	for i, a := range call.Args {
		if i == 0 {
			continue // ctx
		}
		k, parent := e.keyOf(a)
		r.keys = append(r.keys, k)
		if parent != nil {
			r.parents = append(r.parents, parent)
		}
	}
	e.recs[o] = r
}

// chainOf: the record and, transitively, the records its keys were read from (first parent first)
func guardsChainOf(r *guardsRec) []*guardsRec {
	var out []*guardsRec
	seen := map[*guardsRec]bool{}
	var visit func(x *guardsRec)
	visit = func(x *guardsRec) {
		if x == nil || seen[x] || len(out) > 8 {
			return
		}
		seen[x] = true
		out = append(out, x)
		for _, p := range x.parents {
			visit(p)
		}
	}
	visit(r)
	return out
}

const guardsMaxDepth = 5

func (e *guardsEnv) emit(s string) { *e.items = append(*e.items, s) }

func (e *guardsEnv) txt(x ast.Expr) string {
	switch v := x.(type) {
	case *ast.Ident:
		if o := e.pkg.TypesInfo.Uses[v]; o != nil {
			if s, ok := e.subst[o]; ok {
				return s
			}
		}
		if o := e.pkg.TypesInfo.Defs[v]; o != nil {
			if s, ok := e.subst[o]; ok {
				return s
			}
		}
		return v.Name
	case *ast.SelectorExpr:
		if m := e.structView(v.X); m != nil {
			if t, ok := m[v.Sel.Name]; ok {
				return t
			}
		}
		return e.txt(v.X) + "." + v.Sel.Name
	case *ast.CallExpr:
		var as []string
		for _, a := range v.Args {
			as = append(as, e.txt(a))
		}
		return e.txt(v.Fun) + "(" + strings.Join(as, ", ") + ")"
	case *ast.UnaryExpr:
		return v.Op.String() + e.txt(v.X)
	case *ast.BinaryExpr:
		return e.txt(v.X) + " " + v.Op.String() + " " + e.txt(v.Y)
	case *ast.ParenExpr:
		return "(" + e.txt(v.X) + ")"
	case *ast.BasicLit:
		return v.Value
	case *ast.StarExpr:
		return "*" + e.txt(v.X)
	case *ast.IndexExpr:
		return e.txt(v.X) + "[" + e.txt(v.Index) + "]"
	}
	return types.ExprString(x)
}

// structView: the field map of a variable (or &variable) that was built from a composite literal
func (e *guardsEnv) structView(x ast.Expr) map[string]string {
	switch v := x.(type) {
	case *ast.ParenExpr:
		return e.structView(v.X)
	case *ast.UnaryExpr:
		if v.Op == token.AND {
			return e.structView(v.X)
		}
	case *ast.StarExpr:
		return e.structView(v.X)
	case *ast.Ident:
		if o := e.objOf(v); o != nil && e.structs != nil {
			return e.structs[o]
		}
	}
	return nil
}

func (e *guardsEnv) litView(x ast.Expr) map[string]string {
	if u, ok := x.(*ast.UnaryExpr); ok && u.Op == token.AND {
		x = u.X
	}
	cl, ok := x.(*ast.CompositeLit)
	if !ok {
		return nil
	}
	m := map[string]string{}
	for _, el := range cl.Elts {
		kv, ok := el.(*ast.KeyValueExpr)
		if !ok {
			return nil
		}
		k, ok := kv.Key.(*ast.Ident)
		if !ok {
			return nil
		}
		m[k.Name] = e.txt(kv.Value)
	}
	return m
}

func (e *guardsEnv) signerDerived(t string) bool {
	if e.signer == "" {
		return false
	}
	return strings.Contains(t, e.signer) || strings.Contains(t, "msg.Get"+e.sfield+"()")
}

func (e *guardsEnv) typeNameOf(x ast.Expr) string {
	t := e.pkg.TypesInfo.TypeOf(x)
	if t == nil {
		return ""
	}
	if pt, ok := t.(*types.Pointer); ok {
		t = pt.Elem()
	}
	if nt, ok := t.(*types.Named); ok {
		return nt.Obj().Name()
	}
	return ""
}

func (e *guardsEnv) objOf(x ast.Expr) types.Object {
	id, ok := x.(*ast.Ident)
	if !ok {
		return nil
	}
	if o := e.pkg.TypesInfo.Defs[id]; o != nil {
		return o
	}
	return e.pkg.TypesInfo.Uses[id]
}

func guardsIsNil(x ast.Expr) bool {
	id, ok := x.(*ast.Ident)
	return ok && id.Name == "nil"
}

// kind of a return statement: "ok" (last result nil), "err" (last result non-nil), "bare"
func guardsReturnKind(r *ast.ReturnStmt) string {
	if len(r.Results) == 0 {
		return "bare"
	}
	if guardsIsNil(r.Results[len(r.Results)-1]) {
		return "ok"
	}
	return "err"
}

// returns found in a subtree (not descending into function literals)
func guardsReturns(n ast.Node, errCtx bool) (ok, err bool) {
	ast.Inspect(n, func(m ast.Node) bool {
		switch v := m.(type) {
		case *ast.FuncLit:
			return false
		case *ast.IfStmt:
			// `if err != nil { return }` : a bare return there is an error return
			if guardsIsErrNotNil(v.Cond) {
				o1, e1 := guardsReturns(v.Body, true)
				ok, err = ok || o1, err || e1
				if v.Else != nil {
					o2, e2 := guardsReturns(v.Else, errCtx)
					ok, err = ok || o2, err || e2
				}
				if v.Init != nil {
					o3, e3 := guardsReturns(v.Init, errCtx)
					ok, err = ok || o3, err || e3
				}
				return false
			}
		case *ast.ReturnStmt:
			switch guardsReturnKind(v) {
			case "ok":
				ok = true
			case "err":
				err = true
			default:
				if errCtx {
					err = true
				} else {
					ok = true
				}
			}
		}
		return true
	})
	return
}

func guardsIsErrNotNil(c ast.Expr) bool {
	b, ok := c.(*ast.BinaryExpr)
	if !ok || b.Op != token.NEQ || !guardsIsNil(b.Y) {
		return false
	}
	id, ok := b.X.(*ast.Ident)
	return ok && strings.HasPrefix(strings.ToLower(id.Name), "err")
}

// writing calls in a subtree (function literals included: callbacks run inside the call)
func (e *guardsEnv) writingCalls(n ast.Node) []*ast.CallExpr {
	var out []*ast.CallExpr
	ast.Inspect(n, func(m ast.Node) bool {
		if c, ok := m.(*ast.CallExpr); ok && e.an.callWrites(e.pkg, c) {
			out = append(out, c)
		}
		return true
	})
	return out
}

func (e *guardsEnv) anySignerArg(c *ast.CallExpr) bool {
	for _, a := range c.Args {
		if e.signerDerived(e.txt(a)) {
			return true
		}
	}
	return false
}

func (e *guardsEnv) writeItem(calls []*ast.CallExpr, prefix string) string {
	all := true
	for _, c := range calls {
		if e.ctlOpq != nil {
			for _, cal := range e.an.calleesOf(e.pkg, c) {
				if e.an.ctl[cal] {
					*e.ctlOpq = true
				}
			}
		}
		if !e.anySignerArg(c) {
			all = false
		}
	}
	name := prefix + guardsCalleeName(calls[0])
	if all {
		return "IWriteSigner " + coqString(name)
	}
	return "IWrite " + coqString(name)
}

// track `x = esmStatus.Status` assignments anywhere in a subtree
func (e *guardsEnv) trackEsmAssign(n ast.Node) {
	ast.Inspect(n, func(m ast.Node) bool {
		as, ok := m.(*ast.AssignStmt)
		if !ok || len(as.Lhs) != 1 || len(as.Rhs) != 1 {
			return true
		}
		if e.isEsmStatusExpr(as.Rhs[0]) {
			if o := e.objOf(as.Lhs[0]); o != nil {
				e.esmVars[o] = true
			}
		}
		return true
	})
}

func (e *guardsEnv) isEsmStatusExpr(x ast.Expr) bool {
	switch v := x.(type) {
	case *ast.ParenExpr:
		return e.isEsmStatusExpr(v.X)
	case *ast.Ident:
		o := e.objOf(v)
		return o != nil && e.esmVars[o]
	case *ast.SelectorExpr:
		return v.Sel.Name == "Status" && e.typeNameOf(v.X) == "ESMStatus"
	case *ast.BinaryExpr:
		// found && esmStatus.Status
		if v.Op == token.LAND {
			if id, ok := v.X.(*ast.Ident); ok && strings.Contains(strings.ToLower(id.Name), "found") {
				return e.isEsmStatusExpr(v.Y)
			}
		}
	}
	return false
}

func (e *guardsEnv) isBreakerExpr(x ast.Expr) (string, bool) {
	switch v := x.(type) {
	case *ast.ParenExpr:
		return e.isBreakerExpr(v.X)
	case *ast.SelectorExpr:
		if v.Sel.Name == "BreakerEnable" && e.typeNameOf(v.X) == "KillSwitchParams" {
			app := "?"
			if o := e.objOf(v.X); o != nil {
				if a, ok := e.brkVars[o]; ok {
					app = a
				}
			}
			return app, true
		}
	}
	return "", false
}

func guardsFlatten(x ast.Expr, op token.Token) []ast.Expr {
	if p, ok := x.(*ast.ParenExpr); ok {
		return guardsFlatten(p.X, op)
	}
	if b, ok := x.(*ast.BinaryExpr); ok && b.Op == op {
		return append(guardsFlatten(b.X, op), guardsFlatten(b.Y, op)...)
	}
	return []ast.Expr{x}
}

func (e *guardsEnv) mentionsControl(x ast.Expr) bool {
	hit := false
	ast.Inspect(x, func(m ast.Node) bool {
		if s, ok := m.(*ast.SelectorExpr); ok {
			if s.Sel.Name == "BreakerEnable" || (s.Sel.Name == "Status" && e.typeNameOf(s.X) == "ESMStatus") {
				hit = true
			}
		}
		if id, ok := m.(*ast.Ident); ok {
			if o := e.objOf(id); o != nil && e.esmVars[o] {
				hit = true
			}
		}
		return true
	})
	return hit
}

// classifyCond: the guard expressed by `if cond { return error }`
func (e *guardsEnv) classifyCond(cond ast.Expr) string {
	text := e.txt(cond)
	if app, ok := e.isBreakerExpr(cond); ok {
		return "IGuard (GBreaker " + coqString(app) + ")"
	}
	if e.isEsmStatusExpr(cond) {
		return "IGuard GEsm"
	}
	// disjunction of breaker / esm
	if parts := guardsFlatten(cond, token.LOR); len(parts) == 2 {
		_, b0 := e.isBreakerExpr(parts[0])
		_, b1 := e.isBreakerExpr(parts[1])
		if (b0 && e.isEsmStatusExpr(parts[1])) || (b1 && e.isEsmStatusExpr(parts[0])) {
			return "IGuard GEsmOrBreaker"
		}
	}
	// cool-off: ctx.BlockTime().After(esmStatus.EndTime) && status
	if parts := guardsFlatten(cond, token.LAND); len(parts) == 2 {
		for i := 0; i < 2; i++ {
			if e.isEsmStatusExpr(parts[i]) {
				if c, ok := parts[1-i].(*ast.CallExpr); ok {
					t := e.txt(c)
					if strings.Contains(t, "BlockTime().After(") && strings.Contains(t, ".EndTime") {
						return "IGuard GEsmCoolOff"
					}
					if strings.Contains(t, "BlockTime().Before(") && strings.Contains(t, ".EndTime") {
						return "IGuard GEsmCoolOffRemains"
					}
				}
			}
		}
	}
	if e.mentionsControl(cond) {
		return "IUnrecognised " + coqString("control condition: "+text)
	}
	// !found [&& !found2 ...]
	for _, op := range []token.Token{token.LAND, token.LOR} {
		parts := guardsFlatten(cond, op)
		allFound, allKeyed := true, true
		var names []string
		for _, p := range parts {
			u, ok := p.(*ast.UnaryExpr)
			if !ok || u.Op != token.NOT {
				allFound = false
				break
			}
			o := e.objOf(u.X)
			lk, ok := e.found[o]
			if o == nil || !ok {
				allFound = false
				break
			}
			names = append(names, lk.callee)
			if !lk.keyed {
				allKeyed = false
			}
		}
		if allFound && len(names) > 0 {
			if allKeyed {
				return "IGuard (GKeyedBySigner " + coqString(strings.Join(names, "+")) + ")"
			}
			return "IGuard (GExists " + coqString(strings.Join(names, "+")) + ")"
		}
	}
	// !k.Admin(ctx, msg.From)
	if u, ok := cond.(*ast.UnaryExpr); ok && u.Op == token.NOT {
		if c, ok := u.X.(*ast.CallExpr); ok && guardsCalleeName(c) == "Admin" && len(c.Args) >= 2 {
			return "IGuard (GAdmin " + coqString(e.txt(c.Args[len(c.Args)-1])) + ")"
		}
	}
	// record.Field != signer
	if b, ok := cond.(*ast.BinaryExpr); ok && b.Op == token.NEQ {
		l, r := e.txt(b.X), e.txt(b.Y)
		var rec ast.Expr
		var sg string
		if e.signerDerived(l) && !e.signerDerived(r) {
			rec, sg = b.Y, l
		} else if e.signerDerived(r) && !e.signerDerived(l) {
			rec, sg = b.X, r
		}
		if rec != nil {
			if s, ok := rec.(*ast.SelectorExpr); ok {
				if tn := e.typeNameOf(s.X); tn != "" {
					if e.prov != nil {
						var chain []*guardsRec
						if o := e.objOf(s.X); o != nil && e.recs != nil && e.recs[o] != nil {
							chain = guardsChainOf(e.recs[o])
						} else {
							chain = []*guardsRec{{callee: "?", keys: []string{"?" + e.txt(s.X)}}}
						}
						*e.prov = append(*e.prov, guardsOwnerCmp{field: tn + "." + s.Sel.Name, chain: chain})
					}
					return "IGuard (GOwnerEq " + coqString(tn+"."+s.Sel.Name) + " " + coqString(sg) + ")"
				}
			}
		}
	}
	return "IGuard (GOther " + coqString(text) + ")"
}

// the single call on the right-hand side of an assignment / expression statement
func guardsSingleCall(s ast.Stmt) (*ast.CallExpr, []ast.Expr) {
	switch v := s.(type) {
	case *ast.ExprStmt:
		if c, ok := v.X.(*ast.CallExpr); ok {
			return c, nil
		}
	case *ast.AssignStmt:
		if len(v.Rhs) == 1 {
			if c, ok := v.Rhs[0].(*ast.CallExpr); ok {
				return c, v.Lhs
			}
		}
	}
	return nil, nil
}

// does statement `next` check the error variable bound by lhs?   if err != nil { ... return ... }
func (e *guardsEnv) errCheckedBy(lhs []ast.Expr, next ast.Stmt) bool {
	if len(lhs) == 0 || next == nil {
		return false
	}
	last, ok := lhs[len(lhs)-1].(*ast.Ident)
	if !ok || last.Name == "_" {
		return false
	}
	t := e.pkg.TypesInfo.TypeOf(last)
	if t == nil || t.String() != "error" {
		return false
	}
	ifs, ok := next.(*ast.IfStmt)
	if !ok || ifs.Init != nil {
		return false
	}
	hit := false
	for _, part := range guardsFlatten(ifs.Cond, token.LOR) {
		b, ok := part.(*ast.BinaryExpr)
		if !ok || b.Op != token.NEQ || !guardsIsNil(b.Y) {
			continue
		}
		if id, ok := b.X.(*ast.Ident); ok && id.Name == last.Name {
			hit = true
		}
	}
	if !hit {
		return false
	}
	_, er := guardsReturns(ifs.Body, true)
	return er
}

func (e *guardsEnv) walkBlock(stmts []ast.Stmt) {
	for i := 0; i < len(stmts); i++ {
		var next ast.Stmt
		if i+1 < len(stmts) {
			next = stmts[i+1]
		}
		if e.walkStmt(stmts[i], next) {
			i++ // the following `if err != nil` was consumed
		}
		if e.stop {
			return
		}
	}
}

// walkStmt returns true when it consumed `next`
func (e *guardsEnv) walkStmt(s ast.Stmt, next ast.Stmt) bool {
	switch v := s.(type) {
	case *ast.EmptyStmt, *ast.IncDecStmt:
		return false
	case *ast.DeclStmt:
		if ws := e.writingCalls(v); len(ws) > 0 {
			e.emit(e.writeItem(ws, ""))
		}
		return false
	case *ast.ExprStmt, *ast.AssignStmt:
		call, lhs := guardsSingleCall(s)
		if call == nil {
			e.simpleAssign(s)
			return false
		}
		checked := e.errCheckedBy(lhs, next)
		e.handleCall(call, lhs, checked, s)
		return checked
	case *ast.ReturnStmt:
		// tail call:  return k.F(...)   /   return x, k.F(...)
		if len(v.Results) > 0 {
			if c, ok := v.Results[len(v.Results)-1].(*ast.CallExpr); ok && len(e.an.calleesOf(e.pkg, c)) > 0 {
				e.handleCall(c, nil, true, s)
				return false
			}
		}
		if ws := e.writingCalls(v); len(ws) > 0 {
			e.emit(e.writeItem(ws, ""))
		}
		return false
	case *ast.IfStmt:
		e.handleIf(v)
		return false
	case *ast.ForStmt, *ast.RangeStmt, *ast.SwitchStmt, *ast.TypeSwitchStmt, *ast.BlockStmt:
		e.handleNested(s, "")
		return false
	}
	e.emit("IUnrecognised " + coqString(fmt.Sprintf("statement %T in %s", s, e.curDecl.Name.Name)))
	return false
}

func (e *guardsEnv) simpleAssign(s ast.Stmt) {
	if ws := e.writingCalls(s); len(ws) > 0 {
		e.emit(e.writeItem(ws, ""))
	}
	as, ok := s.(*ast.AssignStmt)
	if !ok {
		return
	}
	e.trackEsmAssign(as)
	if len(as.Lhs) == 1 && len(as.Rhs) == 1 {
		if o := e.objOf(as.Lhs[0]); o != nil {
			if m := e.litView(as.Rhs[0]); m != nil {
				e.structs[o] = m
				return
			}
			if _, isField := as.Lhs[0].(*ast.Ident); isField {
				t := e.txt(as.Rhs[0])
				if strings.Contains(t, "msg.") {
					e.subst[o] = t
				}
			}
		}
	}
}

func (e *guardsEnv) handleCall(call *ast.CallExpr, lhs []ast.Expr, checked bool, s ast.Stmt) {
	name := guardsCalleeName(call)
	cals := e.an.calleesOf(e.pkg, call)
	writes := e.an.callWrites(e.pkg, call)
	// nested calls in the arguments that write (rare)
	if !writes {
		if ws := e.writingCalls(call); len(ws) > 0 {
			// the writes happen in a callback / argument of this call: attribute them to the call
			e.emit(e.writeItem([]*ast.CallExpr{call}, "callback:"))
			return
		}
	}
	if guardsPriceFns[name] {
		if checked {
			e.emit("IGuard (GPrice " + coqString(name) + ")")
		} else {
			e.emit("IPriceUnchecked " + coqString(name))
		}
		return
	}
	if writes {
		// delegation msg_server -> keeper function (one level), only from the msgServer method itself
		if e.depth == 0 && len(cals) == 1 && checked {
			if d, ok := e.an.decls[cals[0]]; ok && !e.stack[cals[0]] && !e.an.directWrite(e.pkg, call) && d.pkg == e.pkg {
				e.inlineAs(cals[0], d, call, lhs, false)
				return
			}
		}
		if e.depth >= 1 && e.depth < guardsMaxDepth && len(cals) == 1 && checked && !e.helper {
			if d, ok := e.an.decls[cals[0]]; ok && !e.stack[cals[0]] && !e.an.directWrite(e.pkg, call) && d.pkg == e.pkg {
				e.emit(fmt.Sprintf("ICallSub %s %v", coqString(e.subRow(cals[0], d, call)), e.anySignerArg(call)))
				return
			}
		}
		e.emit(e.writeItem([]*ast.CallExpr{call}, ""))
		return
	}
	// non-writing call
	switch name {
	case "GetKillSwitchData":
		if len(lhs) >= 1 && len(call.Args) >= 2 {
			if o := e.objOf(lhs[0]); o != nil {
				e.brkVars[o] = e.txt(call.Args[1])
			}
		}
		return
	case "GetESMStatus":
		// the record variable is recognised by its type; remember the found flag as a plain lookup
	}
	if len(cals) == 1 && checked && e.depth < guardsMaxDepth {
		if d, ok := e.an.decls[cals[0]]; ok && !e.stack[cals[0]] {
			before := len(*e.items)
			e.inlineAs(cals[0], d, call, lhs, true)
			if len(*e.items) == before {
				e.emit("IGuard (GCallErr " + coqString(name) + ")")
			}
			if len(lhs) == 2 {
				e.noteRec(lhs[0], call)
			}
			return
		}
	}
	if checked {
		e.emit("IGuard (GCallErr " + coqString(name) + ")")
	}
	// x, found := k.GetFoo(ctx, ...)
	if len(lhs) == 2 {
		e.noteRec(lhs[0], call)
	}
	if len(lhs) == 2 && !checked {
		if o := e.objOf(lhs[1]); o != nil {
			if t := e.pkg.TypesInfo.TypeOf(lhs[1]); t != nil && t.String() == "bool" {
				e.found[o] = guardsLookup{callee: name, keyed: e.anySignerArg(call)}
			}
		}
	}
	// alias for values computed from the message by library calls (AccAddressFromBech32, String() ...)
	if len(cals) == 0 && len(lhs) >= 1 {
		if o := e.objOf(lhs[0]); o != nil {
			t := e.txt(call)
			if strings.Contains(t, "msg.") {
				e.subst[o] = t
			}
		}
	}
}

// inline the body of a callee (delegation or validation helper) with parameters substituted
func (e *guardsEnv) inline(fn *types.Func, d guardsDecl, call *ast.CallExpr, lhs []ast.Expr) {
	e.inlineAs(fn, d, call, lhs, e.helper)
}

// helper = true: a non-writing validation helper; its early successful return only ends the helper,
// so the helper's remaining checks do not dominate what follows in the caller: the walk of the
// helper stops there.
func (e *guardsEnv) inlineAs(fn *types.Func, d guardsDecl, call *ast.CallExpr, lhs []ast.Expr, helper bool) {
	sub := &guardsEnv{prov: e.prov, hprov: e.hprov, pkeys: map[types.Object]guardsKey{}, recs: map[types.Object]*guardsRec{}, helper: helper || e.helper, ctlOpq: e.ctlOpq, an: e.an, pkg: d.pkg, subst: map[types.Object]string{}, structs: map[types.Object]map[string]string{}, found: map[types.Object]guardsLookup{},
		esmVars: map[types.Object]bool{}, brkVars: map[types.Object]string{}, signer: e.signer, sfield: e.sfield,
		depth: e.depth + 1, stack: e.stack, items: e.items, helpers: e.helpers, curDecl: d.decl, module: e.module}
	i := 0
	for _, f := range d.decl.Type.Params.List {
		for _, n := range f.Names {
			if i < len(call.Args) {
				if o := d.pkg.TypesInfo.Defs[n]; o != nil {
					t := e.txt(call.Args[i])
					sub.subst[o] = t
					if m := e.structView(call.Args[i]); m != nil {
						sub.structs[o] = m
					}
					// a bool parameter carrying the ESM status
					if e.isEsmStatusExpr(call.Args[i]) {
						sub.esmVars[o] = true
					}
					if k, parent := e.keyOf(call.Args[i]); !strings.HasPrefix(k, "?") {
						sub.pkeys[o] = guardsKey{k, parent}
					}
					// a fetched record handed on to the callee keeps its provenance
					if ao := e.objOf(call.Args[i]); ao != nil && e.recs != nil && e.recs[ao] != nil {
						sub.recs[o] = e.recs[ao]
					}
				}
			}
			i++
		}
	}
	e.stack[fn] = true
	sub.walkBlock(d.decl.Body.List)
	delete(e.stack, fn)
	// first result of the callee's final return, as an alias of the caller's first lhs
	if len(lhs) >= 2 {
		if o := e.objOf(lhs[0]); o != nil {
			n := len(d.decl.Body.List)
			if n > 0 {
				if r, ok := d.decl.Body.List[n-1].(*ast.ReturnStmt); ok && len(r.Results) >= 2 {
					t := sub.txt(r.Results[0])
					if strings.Contains(t, "msg.") {
						e.subst[o] = t
					}
				}
			}
		}
	}
}

func (e *guardsEnv) handleIf(v *ast.IfStmt) {
	// if err := CALL; err != nil { return ... }
	if v.Init != nil && v.Else == nil {
		if call, lhs := guardsSingleCall(v.Init); call != nil && guardsIsErrNotNil(v.Cond) {
			if _, er := guardsReturns(v.Body, true); er && len(e.writingCalls(v.Body)) == 0 {
				e.handleCall(call, lhs, true, v)
				return
			}
		}
	}
	if v.Init == nil && v.Else == nil {
		okRet, errRet := guardsReturns(v.Body, false)
		if errRet && !okRet && len(e.writingCalls(v)) == 0 && e.endsWithReturn(v.Body) {
			e.emit(e.classifyCond(v.Cond))
			return
		}
	}
	e.handleNested(v, e.txt(v.Cond))
}

// subRow walks callee fn (called from this site, parameters substituted) into its own helper row
// and returns the row key "<module>.<Func>(<argument texts>)".
func (e *guardsEnv) subRow(fn *types.Func, d guardsDecl, call *ast.CallExpr) string {
	var as []string
	for i, a := range call.Args {
		if i == 0 {
			continue // ctx
		}
		as = append(as, e.txt(a))
	}
	key := e.module + "." + fn.Name() + "(" + strings.Join(as, ", ") + ")"
	if _, done := e.helpers[key]; done {
		if e.prov != nil && e.hprov != nil {
			*e.prov = append(*e.prov, e.hprov[key]...)
		}
		return key
	}
	var items []string
	e.helpers[key] = nil
	provStart := 0
	if e.prov != nil {
		provStart = len(*e.prov)
	}
	sub := &guardsEnv{prov: e.prov, hprov: e.hprov, pkeys: e.pkeys, recs: e.recs, ctlOpq: e.ctlOpq, an: e.an, pkg: e.pkg, subst: e.subst, structs: e.structs, found: e.found, esmVars: e.esmVars, brkVars: e.brkVars,
		signer: e.signer, sfield: e.sfield, depth: e.depth, stack: e.stack, items: &items, helpers: e.helpers,
		curDecl: e.curDecl, module: e.module}
	sub.inlineAs(fn, d, call, nil, false)
	e.helpers[key] = items
	if e.prov != nil && e.hprov != nil {
		e.hprov[key] = append([]guardsOwnerCmp{}, (*e.prov)[provStart:]...)
	}
	return key
}

func (e *guardsEnv) endsWithReturn(b *ast.BlockStmt) bool {
	if len(b.List) == 0 {
		return false
	}
	_, ok := b.List[len(b.List)-1].(*ast.ReturnStmt)
	return ok
}

// viaShape:  if cond { err = k.F(args); if err != nil { return err }; return nil }
func (e *guardsEnv) viaShape(v *ast.IfStmt) (*ast.CallExpr, bool) {
	if v.Else != nil || v.Init != nil || len(v.Body.List) != 3 {
		return nil, false
	}
	call, lhs := guardsSingleCall(v.Body.List[0])
	if call == nil || !e.errCheckedBy(lhs, v.Body.List[1]) {
		return nil, false
	}
	r, ok := v.Body.List[2].(*ast.ReturnStmt)
	if !ok || guardsReturnKind(r) != "ok" {
		return nil, false
	}
	if len(e.an.calleesOf(e.pkg, call)) != 1 {
		return nil, false
	}
	return call, true
}

func (e *guardsEnv) handleNested(s ast.Stmt, cond string) {
	e.trackEsmAssign(s)
	ws := e.writingCalls(s)
	okRet, errRet := guardsReturns(s, false)
	desc := cond
	if desc == "" {
		desc = fmt.Sprintf("%T", s)
	}
	if okRet && e.helper {
		e.emit("IGuard (GOther " + coqString("helper "+e.curDecl.Name.Name+" may return early: "+desc) + ")")
		e.stop = true
		return
	}
	if okRet {
		if ifs, isIf := s.(*ast.IfStmt); isIf {
			if call, ok := e.viaShape(ifs); ok {
				fn := e.an.calleesOf(e.pkg, call)[0]
				d := e.an.decls[fn]
				hname := e.subRow(fn, d, call)
				e.emit("IEarlyOkVia " + coqString(hname))
				return
			}
		}
		if len(ws) > 0 {
			e.emit(e.writeItem(ws, "nested:"))
		}
		e.emit("IEarlyOk " + coqString(desc))
		return
	}
	if len(ws) > 0 {
		e.emit(e.writeItem(ws, "nested:"))
		return
	}
	// price lookups inside a conditional block: conditional price guards
	hd := e.an.errHandling(guardsDecl{e.curDecl, e.pkg})
	seenP := map[string]bool{}
	ast.Inspect(s, func(m ast.Node) bool {
		if c, ok := m.(*ast.CallExpr); ok && guardsPriceFns[guardsCalleeName(c)] {
			n := guardsCalleeName(c)
			if hd[c] == "PChecked" {
				if !seenP[n] {
					seenP[n] = true
					e.emit("IGuard (GPriceCond " + coqString(n) + ")")
				}
			} else {
				e.emit("IPriceUnchecked " + coqString(n))
			}
		}
		return true
	})
	if errRet {
		e.emit("IGuard (GOther " + coqString("nested: "+desc) + ")")
	}
}

func (e *guardsEnv) mentionsControlStmt(s ast.Stmt) bool {
	hit := false
	ast.Inspect(s, func(m ast.Node) bool {
		if ifs, ok := m.(*ast.IfStmt); ok && e.mentionsControl(ifs.Cond) {
			// an `if found { status = esm.Status }` has no return inside: not a guard
			if _, er := guardsReturns(ifs.Body, false); er {
				hit = true
			}
		}
		return true
	})
	return hit
}

// ------------------------------------------------------------------------------------------
// price call sites reachable from a handler, with the handling of the error at every link

// handling of the error result of each call expression of a function body
func (an *guardsAn) errHandling(d guardsDecl) map[*ast.CallExpr]string {
	out := map[*ast.CallExpr]string{}
	env := &guardsEnv{an: an, pkg: d.pkg}
	var visitList func(stmts []ast.Stmt)
	classify := func(call *ast.CallExpr, lhs []ast.Expr, next ast.Stmt) {
		if len(lhs) > 0 {
			if id, ok := lhs[len(lhs)-1].(*ast.Ident); ok && id.Name == "_" {
				out[call] = "PIgnored"
				return
			}
		}
		if env.errCheckedBy(lhs, next) {
			out[call] = "PChecked"
			return
		}
		out[call] = "POther"
	}
	visitList = func(stmts []ast.Stmt) {
		for i, s := range stmts {
			var next ast.Stmt
			if i+1 < len(stmts) {
				next = stmts[i+1]
			}
			if call, lhs := guardsSingleCall(s); call != nil {
				classify(call, lhs, next)
			}
			switch v := s.(type) {
			case *ast.IfStmt:
				if v.Init != nil {
					if call, _ := guardsSingleCall(v.Init); call != nil {
						if _, er := guardsReturns(v.Body, true); guardsIsErrNotNil(v.Cond) && er {
							out[call] = "PChecked"
						} else {
							out[call] = "POther"
						}
					}
				}
			case *ast.ReturnStmt:
				for _, r := range v.Results {
					if c, ok := r.(*ast.CallExpr); ok {
						out[c] = "PChecked" // returned to the caller as is
					}
				}
			}
		}
	}
	ast.Inspect(d.decl.Body, func(n ast.Node) bool {
		switch v := n.(type) {
		case *ast.BlockStmt:
			visitList(v.List)
		case *ast.CaseClause:
			visitList(v.Body)
		case *ast.CommClause:
			visitList(v.Body)
		}
		return true
	})
	return out
}

type guardsPriceUse struct{ inFn, callee, handling string }

func (an *guardsAn) priceUses(root *types.Func) []guardsPriceUse {
	var out []guardsPriceUse
	seen := map[*types.Func]bool{}
	dedup := map[guardsPriceUse]bool{}
	var visit func(fn *types.Func, depth int)
	visit = func(fn *types.Func, depth int) {
		if seen[fn] || depth > 10 {
			return
		}
		seen[fn] = true
		d, ok := an.decls[fn]
		if !ok {
			return
		}
		hd := an.errHandling(d)
		fname := guardsShortName(fn)
		ast.Inspect(d.decl.Body, func(n ast.Node) bool {
			call, ok := n.(*ast.CallExpr)
			if !ok {
				return true
			}
			name := guardsCalleeName(call)
			h := hd[call]
			if h == "" {
				h = "POther"
			}
			if an.rawTwa[call] {
				u := guardsPriceUse{fname, "GetTwa", "PIgnored"}
				if !dedup[u] {
					dedup[u] = true
					out = append(out, u)
				}
				return true
			}
			if guardsPriceFns[name] && !guardsPriceFns[fn.Name()] {
				u := guardsPriceUse{fname, name, h}
				if !dedup[u] {
					dedup[u] = true
					out = append(out, u)
				}
				return true
			}
			for _, cal := range an.calleesOf(d.pkg, call) {
				if an.price[cal] && !guardsPriceFns[cal.Name()] {
					u := guardsPriceUse{fname, guardsShortName(cal), h}
					if !dedup[u] {
						dedup[u] = true
						out = append(out, u)
					}
					visit(cal, depth+1)
				}
			}
			return true
		})
	}
	visit(root, 0)
	return out
}

func guardsShortName(fn *types.Func) string {
	mod := msgtypesModuleOf(fn.Pkg().Path())
	if mod == "" {
		mod = fn.Pkg().Name()
	}
	return mod + "." + fn.Name()
}

// ------------------------------------------------------------------------------------------

func guardsList(items []string, indent string) string {
	if len(items) == 0 {
		return "[]"
	}
	return "[\n" + indent + strings.Join(items, ";\n"+indent) + "]"
}

func init() {
	register("GuardTable", func(c *corpus) (string, error) {
		an := guardsAnalysis(c)
		signers := map[string]string{}
		for _, r := range msgtypesCollect(c) {
			if !r.signerUnrecognised {
				signers[r.module+"."+r.name] = r.signer
			}
		}
		helpers := map[string][]string{}
		var ownerCmps []string
		ownerCmpSeen := map[string]bool{}
		hprov := map[string][]guardsOwnerCmp{}
		var b strings.Builder
		b.WriteString("(* GENERATED by tools/goextract (emit_guards.go) from the Go source - do not edit.\n")
		b.WriteString("   One row per msgServer method: what its body does, in order, at the top level (delegation and\n")
		b.WriteString("   error-propagating validation helpers inlined). *)\n")
		b.WriteString("From Coq Require Import String List.\nFrom Comdex Require Import Model.Guards.\nImport ListNotations.\nOpen Scope string_scope.\n\n")
		b.WriteString("Definition handlers : list handler := [\n")
		hs := guardsMsgServerMethods(c)
		for i, h := range hs {
			var items []string
			var prov []guardsOwnerCmp
			ctlOpq := false
			sf := signers[h.module+"."+h.msgType]
			env := &guardsEnv{prov: &prov, hprov: hprov, pkeys: map[types.Object]guardsKey{}, recs: map[types.Object]*guardsRec{}, ctlOpq: &ctlOpq, an: an, pkg: h.pkg, subst: map[types.Object]string{}, structs: map[types.Object]map[string]string{}, found: map[types.Object]guardsLookup{},
				esmVars: map[types.Object]bool{}, brkVars: map[types.Object]string{}, depth: 0, stack: map[*types.Func]bool{h.fn: true},
				items: &items, helpers: helpers, curDecl: h.decl, module: h.module, sfield: sf}
			if sf != "" {
				env.signer = "msg." + sf
			}
			// the message parameter is called "msg" in every row
			if ps := h.decl.Type.Params.List; len(ps) >= 2 && len(ps[1].Names) == 1 {
				if o := h.pkg.TypesInfo.Defs[ps[1].Names[0]]; o != nil {
					env.subst[o] = "msg"
				}
			}
			env.walkBlock(h.decl.Body.List)
			for _, oc := range prov {
				var links []string
				for _, r := range oc.chain {
					var ks []string
					for _, k := range r.keys {
						ks = append(ks, coqString(k))
					}
					links = append(links, fmt.Sprintf("(%s, [%s])", coqString(r.callee), strings.Join(ks, "; ")))
				}
				row := fmt.Sprintf("mkOwnerCmp %s %s [%s]", coqString(h.module+"."+h.decl.Name.Name), coqString(oc.field), strings.Join(links, "; "))
				if !ownerCmpSeen[row] {
					ownerCmpSeen[row] = true
					ownerCmps = append(ownerCmps, row)
				}
			}
			var pus []string
			for _, u := range an.priceUses(h.fn) {
				pus = append(pus, fmt.Sprintf("mkPriceUse %s %s %s", coqString(u.inFn), coqString(u.callee), u.handling))
			}
			sep := ";"
			if i == len(hs)-1 {
				sep = ""
			}
			fmt.Fprintf(&b, "  mkHandler %s %s %s %v %v\n    %s\n    %s%s\n", coqString(h.module), coqString(h.module+"."+h.decl.Name.Name),
				coqString(h.msgType), an.mints[h.fn], ctlOpq, guardsList(items, "     "), guardsList(pus, "     "), sep)
		}
		b.WriteString("].\n\n")
		// helper rows: functions an early successful return delegates to
		var hn []string
		for n := range helpers {
			hn = append(hn, n)
		}
		sort.Strings(hn)
		b.WriteString("Definition helper_rows : list (string * list item) := [\n")
		for i, n := range hn {
			sep := ";"
			if i == len(hn)-1 {
				sep = ""
			}
			fmt.Fprintf(&b, "  (%s, %s)%s\n", coqString(n), guardsList(helpers[n], "     "), sep)
		}
		b.WriteString("].\n\n")
		// owner comparisons: which record's owner field is compared with the signer, and how that record
		// was fetched - the chain of lookups from the compared record back to the fields of the message
		b.WriteString("(* every `record.OwnerField != signer` comparison met on a handler's walk: the compared field and the chain of\n")
		b.WriteString("   lookups that produced the record, each with its keys: \"msg.<Field>\", \"<RecordType>.<Field>\" (a field of the\n")
		b.WriteString("   record fetched by the next link), or \"?<text>\" *)\n")
		b.WriteString("Definition owner_cmps : list owner_cmp := " + guardsList(ownerCmps, "  ") + ".\n")
		return b.String(), nil
	})
}
