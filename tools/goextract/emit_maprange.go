// Emitters MapRangeTable and AmbientTable (C16: the places where Go may be nondeterministic).
//
// MapRangeTable: every `for … range <expression of map type>` in the non-test, non-generated
// (.pb.go / .pb.gw.go) code of x/, types/ and app/ (the whole app package, app/wasm included), with
// file, enclosing function, the ranged expression and a hash of the loop's source text as printed
// by go/printer (insensitive to line numbers and surrounding code, sensitive to any edit of the
// loop).  Also the other ways of enumerating a map in unspecified order (reflect MapKeys /
// MapRange, x/exp/maps Keys / Values) as rows with kind "mapkeys".
//
// AmbientTable: go statements, select statements, and references to wall clock / randomness /
// process environment (time.Now/Since/Until, math/rand, crypto/rand, os.Getenv/Environ/Hostname/
// Getpid, runtime.NumCPU/NumGoroutine/GOMAXPROCS) in the same scope EXCLUDING packages whose path
// contains /simulation, /client/, /testutil, module_simulation.go files and the test support files
// app/test_helpers.go, app/test_suite.go (CLI, simulation and test-support code never runs
// inside the state machine); each row lists the enclosing function and all its transitive callers in the
// repository's non-test code (reference graph of emit_hooks_callgraph.go), so that Coq can check
// that only registered helper functions, reached by nothing else, are involved.  Two further scans
// (emit_maprange_state.go) add rows of the kinds procstate / procstate-ext / procstate-local /
// procstate-unrecognised (memory of the process that the state machine writes: not rolled back with
// the store, not shared between processes) and localtime (a Time in the zone of the process used
// before a UTC conversion).  A whole-program alias scan (emit_maprange_alias.go) adds rows of the kinds
// procstate-alias / procstate-alias-src: a COPY of a package-level (or keeper-held) sdk.Dec / Int / Coin(s) /
// big.Int value - it shares the big.Int with the original - handed by address to a decoder or used
// as the receiver of an in-place method.
package main

import (
	"bytes"
	"crypto/sha256"
	"encoding/hex"
	"fmt"
	"go/ast"
	"go/printer"
	"go/types"
	"sort"
	"strings"

	"golang.org/x/tools/go/packages"
)

type maprangeSite struct {
	file, fn, expr, hash, kind string
	line                       int
}

func maprangeInScope(c *corpus, p *packages.Package, file string) bool {
	rel := c.rel(file)
	if hooksIsGenerated(rel) {
		return false
	}
	return strings.HasPrefix(rel, "x/") || strings.HasPrefix(rel, "types/") || strings.HasPrefix(rel, "app/")
}

func maprangeAmbientExcluded(rel string) bool {
	return strings.Contains(rel, "/simulation/") || strings.Contains(rel, "/client/") || strings.Contains(rel, "/testutil/") ||
		strings.HasSuffix(rel, "module_simulation.go") || strings.HasPrefix(rel, "app/test_")
}

func maprangeFuncName(p *packages.Package, fd *ast.FuncDecl) string {
	if fd == nil {
		return "<package level>"
	}
	if obj, ok := p.TypesInfo.Defs[fd.Name].(*types.Func); ok {
		return hooksName(obj)
	}
	return fd.Name.Name
}

func maprangeHash(p *packages.Package, n ast.Node) string {
	var b bytes.Buffer
	printer.Fprint(&b, p.Fset, n)
	norm := strings.Join(strings.Fields(b.String()), " ")
	h := sha256.Sum256([]byte(norm))
	return hex.EncodeToString(h[:])[:16]
}

func maprangeSites(c *corpus) []maprangeSite {
	var out []maprangeSite
	for _, p := range c.all {
		for _, file := range p.Syntax {
			fname := p.Fset.Position(file.Pos()).Filename
			if !maprangeInScope(c, p, fname) {
				continue
			}
			var cur *ast.FuncDecl
			ast.Inspect(file, func(n ast.Node) bool {
				switch x := n.(type) {
				case *ast.FuncDecl:
					cur = x
				case *ast.RangeStmt:
					if tv, ok := p.TypesInfo.Types[x.X]; ok {
						if _, isMap := tv.Type.Underlying().(*types.Map); isMap {
							out = append(out, maprangeSite{file: c.rel(fname), fn: maprangeFuncName(p, cur), expr: hooksText(p.Fset, x.X),
								hash: maprangeHash(p, x), kind: "range", line: p.Fset.Position(x.Pos()).Line})
						}
					}
				case *ast.CallExpr:
					if f, _ := hooksCallee(p.TypesInfo, x); f != nil && f.Pkg() != nil {
						path, name := f.Pkg().Path(), f.Name()
						if (path == "reflect" && (name == "MapKeys" || name == "MapRange")) ||
							(strings.HasSuffix(path, "/maps") || path == "maps") && (name == "Keys" || name == "Values" || name == "All") {
							out = append(out, maprangeSite{file: c.rel(fname), fn: maprangeFuncName(p, cur), expr: hooksText(p.Fset, x),
								hash: maprangeHash(p, x), kind: "mapkeys", line: p.Fset.Position(x.Pos()).Line})
						}
					}
				}
				return true
			})
		}
	}
	sort.Slice(out, func(i, j int) bool {
		if out[i].file != out[j].file {
			return out[i].file < out[j].file
		}
		return out[i].line < out[j].line
	})
	return out
}

type maprangeAmbient struct {
	file, fn, kind, what string
	callers              []string
	line                 int
}

func maprangeAmbientKind(f types.Object) string {
	if f == nil || f.Pkg() == nil {
		return ""
	}
	path, name := f.Pkg().Path(), f.Name()
	if fn, ok := f.(*types.Func); ok && path != "math/rand" && path != "math/rand/v2" {
		// only package-level functions of time / os / runtime (time.Time.After is a pure method)
		if sig, _ := fn.Type().(*types.Signature); sig != nil && sig.Recv() != nil {
			return ""
		}
	}
	switch {
	case path == "time" && (name == "Now" || name == "Since" || name == "Until" || name == "After" || name == "Tick" || name == "NewTimer" || name == "NewTicker" || name == "Sleep"):
		return "clock"
	case path == "math/rand" || path == "math/rand/v2" || path == "crypto/rand":
		return "random"
	case path == "os" && (name == "Getenv" || name == "LookupEnv" || name == "Environ" || name == "Hostname" || name == "Getpid" || name == "Getwd"):
		return "environment"
	case path == "runtime" && (name == "NumCPU" || name == "NumGoroutine" || name == "GOMAXPROCS"):
		return "environment"
	}
	return ""
}

func maprangeAmbients(c *corpus) []maprangeAmbient {
	g := hooksBuildGraph(c)
	var out []maprangeAmbient
	for _, p := range c.all {
		for _, file := range p.Syntax {
			fname := p.Fset.Position(file.Pos()).Filename
			rel := c.rel(fname)
			if !maprangeInScope(c, p, fname) || maprangeAmbientExcluded(rel) {
				continue
			}
			var cur *ast.FuncDecl
			add := func(n ast.Node, kind, what string) {
				a := maprangeAmbient{file: rel, fn: maprangeFuncName(p, cur), kind: kind, what: what, line: p.Fset.Position(n.Pos()).Line}
				if cur != nil {
					if obj, ok := p.TypesInfo.Defs[cur.Name].(*types.Func); ok {
						for _, cl := range g.transitiveCallers(obj) {
							a.callers = append(a.callers, hooksName(cl))
						}
					}
				} else {
					a.callers = []string{"<package initialisation>"}
				}
				out = append(out, a)
			}
			ast.Inspect(file, func(n ast.Node) bool {
				switch x := n.(type) {
				case *ast.FuncDecl:
					cur = x
				case *ast.GoStmt:
					add(x, "goroutine", "go statement")
				case *ast.SelectStmt:
					add(x, "select", "select statement")
				case *ast.Ident:
					// any reference (call or value) to an ambient function, or to a type of math/rand
					o := p.TypesInfo.Uses[x]
					if k := maprangeAmbientKind(o); k != "" {
						add(x, k, o.Pkg().Path()+"."+o.Name())
					}
				}
				return true
			})
		}
	}
	// one row per (file, function, kind, what)
	seen := map[string]bool{}
	var uniq []maprangeAmbient
	for _, a := range out {
		k := a.file + "|" + a.fn + "|" + a.kind + "|" + a.what
		if !seen[k] {
			seen[k] = true
			uniq = append(uniq, a)
		}
	}
	sort.Slice(uniq, func(i, j int) bool {
		if uniq[i].file != uniq[j].file {
			return uniq[i].file < uniq[j].file
		}
		return uniq[i].line < uniq[j].line
	})
	return uniq
}

// one row per (file, function, kind, what), ordered by file and line
func maprangeSortRows(rows []maprangeAmbient) []maprangeAmbient {
	seen := map[string]bool{}
	var uniq []maprangeAmbient
	for _, a := range rows {
		k := a.file + "|" + a.fn + "|" + a.kind + "|" + a.what
		if !seen[k] {
			seen[k] = true
			uniq = append(uniq, a)
		}
	}
	sort.SliceStable(uniq, func(i, j int) bool {
		if uniq[i].file != uniq[j].file {
			return uniq[i].file < uniq[j].file
		}
		return uniq[i].line < uniq[j].line
	})
	return uniq
}

func init() {
	register("MapRangeTable", func(c *corpus) (string, error) {
		sites := maprangeSites(c)
		var b strings.Builder
		b.WriteString("(* GENERATED by tools/goextract (emit_maprange.go) from the repository source - do not edit.\n")
		b.WriteString("   Every enumeration of a Go map in unspecified order in x/, types/, app/ (non-test, non-generated). *)\n")
		b.WriteString("From Coq Require Import List String.\nImport ListNotations.\nOpen Scope string_scope.\n\n")
		b.WriteString("Record map_site := mkSite { ms_file : string; ms_func : string; ms_expr : string; ms_kind : string; ms_hash : string }.\n\n")
		b.WriteString("Definition map_range_table : list map_site := [\n")
		for i, s := range sites {
			fmt.Fprintf(&b, "  mkSite %s %s %s %s %s", coqString(s.file), coqString(s.fn), coqString(s.expr), coqString(s.kind), coqString(s.hash))
			if i+1 < len(sites) {
				b.WriteString(";")
			}
			fmt.Fprintf(&b, "  (* line %d *)\n", s.line)
		}
		b.WriteString("].\n")
		return b.String(), nil
	})
	register("AmbientTable", func(c *corpus) (string, error) {
		rows := maprangeAmbients(c)
		rows = append(rows, maprangeSortRows(maprangeProcState(c))...)
		rows = append(rows, maprangeSortRows(maprangeLocalTime(c))...)
		rows = append(rows, maprangeSortRows(maprangeDefaultAlias(c))...)
		var b strings.Builder
		b.WriteString("(* GENERATED by tools/goextract (emit_maprange.go) from the repository source - do not edit.\n")
		b.WriteString("   Goroutines, select, wall clock, randomness, process environment in x/, types/, app/\n")
		b.WriteString("   (non-test, non-generated; packages under /simulation, /client/, /testutil and\n")
		b.WriteString("   module_simulation.go and app/test_*.go files are NOT scanned:\n")
		b.WriteString("   they never run inside the state machine).\n")
		b.WriteString("   Kinds: goroutine select clock random environment (emit_maprange.go);\n")
		b.WriteString("   procstate procstate-ext procstate-local procstate-unrecognised localtime (emit_maprange_state.go:\n")
		b.WriteString("   writes to memory of the process through fields of state-machine structs / package-level\n")
		b.WriteString("   variables, the external types such structs hold, the context-taking types that never leave\n")
		b.WriteString("   the call stack, aliases the scan cannot follow; Times in the zone of the process used or\n")
		b.WriteString("   let out of a function before .UTC());\n")
		b.WriteString("   procstate-alias procstate-alias-src (emit_maprange_alias.go: a copy of a package-level / keeper-held\n")
		b.WriteString("   Dec / Int / Coin(s) / big.Int value - sharing its big.Int - handed by address to a function that may\n")
		b.WriteString("   decode into it, or the receiver of an in-place method; the variables the analysis follows).\n")
		b.WriteString("   am_callers = transitive callers of am_func in the non-test code (for procstate-ext: the fields\n")
		b.WriteString("   that hold the type; for procstate-alias-src: the functions whose result is an alias of the variable). *)\n")
		b.WriteString("From Coq Require Import List String.\nImport ListNotations.\nOpen Scope string_scope.\n\n")
		b.WriteString("Record ambient_site := mkAmbient { am_file : string; am_func : string; am_kind : string; am_what : string; am_callers : list string }.\n\n")
		b.WriteString("Definition ambient_table : list ambient_site := [\n")
		for i, a := range rows {
			var cs []string
			for _, x := range a.callers {
				cs = append(cs, coqString(x))
			}
			fmt.Fprintf(&b, "  mkAmbient %s %s %s %s [%s]", coqString(a.file), coqString(a.fn), coqString(a.kind), coqString(a.what), strings.Join(cs, "; "))
			if i+1 < len(rows) {
				b.WriteString(";")
			}
			b.WriteString("\n")
		}
		b.WriteString("].\n")
		return b.String(), nil
	})
}
