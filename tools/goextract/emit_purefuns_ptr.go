// emit_purefuns_ptr: results of type *S, S a struct whose fields are all scalars (Int, Dec, 64-bit
// integers, bool) - amm.NewRangedPool / amm.CreateRangedPool.
//
// The result is ONE component of type  option (field_1 * ... * field_n)  (declaration order):
//
//	nil            -> None
//	&S{F: e, ..}   -> Some (f_1, .., f_n)   (unassigned fields: the zero value; a nil Int/Dec field is
//	                                          Unrecognised)
//	g(..)          -> the component of the translated callee g, handed on unchanged
//
// Only these three forms, and only as the operand of a return (or bound to a variable that is then
// returned): the pointer is never dereferenced, compared or written through in the translated subset,
// so the sharing Go's pointer would give cannot be observed.  Everything else on such a value is
// Unrecognised.
package main

import (
	"fmt"
	"go/ast"
	"go/types"
	"strings"
)

const pfPtrPrefix = "\x00ptr:" // env marker: a pointer-to-struct result of a translated callee; the rest is its Coq name
const pfPtrKindPrefix = "ptr:" // result kind: ptr:<kind>,<kind>,..

// pfPtrStruct: *S with S a struct all of whose fields are scalars
func pfPtrStruct(rt types.Type) bool {
	p, ok := types.Unalias(rt).(*types.Pointer)
	if !ok {
		return false
	}
	st, ok := types.Unalias(p.Elem()).Underlying().(*types.Struct)
	if !ok || st.NumFields() == 0 {
		return false
	}
	for i := 0; i < st.NumFields(); i++ {
		if !pfScalar(pfKind(st.Field(i).Type())) || pfKind(st.Field(i).Type()) == "list" {
			return false
		}
	}
	return true
}

func pfPtrKind(kinds []string) string { return pfPtrKindPrefix + strings.Join(kinds, ",") }

func pfPtrCoqType(kind string) string {
	var ts []string
	for _, k := range strings.Split(kind[len(pfPtrKindPrefix):], ",") {
		ts = append(ts, pfCoqType(k))
	}
	if len(ts) == 1 {
		return "option " + ts[0]
	}
	return "option (" + strings.Join(ts, " * ") + ")"
}

func (g *pfFun) setResPtr(i int) {
	if g.resPtr == nil {
		g.resPtr = map[int]bool{}
	}
	g.resPtr[i] = true
}

func (g *pfFun) isResPtr(i int) bool { return g.resPtr[i] }

// addrOf: &S{..} - the struct value (see the head of the file for why the pointer can stand for it)
func (t *pfTr) addrOf(x *ast.UnaryExpr, en pfEnv, k func(string) string) string {
	cl, ok := ast.Unparen(x.X).(*ast.CompositeLit)
	if !ok || !pfPtrStruct(t.pkg.TypesInfo.TypeOf(x)) {
		return t.unrec(x, "address of a value that is not a struct literal of scalar fields")
	}
	return t.compositeLit(cl, en, k)
}

// ptrResult: the component for result i (a pointer to a struct) from the value v of the return operand
func (t *pfTr) ptrResult(v string, i int) (string, string) {
	g := t.f
	switch {
	case v == "0":
		return "None", ""
	case strings.HasPrefix(v, pfPtrPrefix):
		return v[len(pfPtrPrefix):], ""
	case strings.HasPrefix(v, pfStPrefix):
		var fs []string
		for j, fn := range g.resShape[i] {
			a, ok := t.structField(v, []string{fn}, g.resFieldK[i][j])
			if !ok || pfOpaque(a) {
				return "", fmt.Sprintf("field %s of result %d is nil or untranslated", fn, i)
			}
			fs = append(fs, a)
		}
		_, ex := pfTuple(fs)
		return "(Some " + ex + ")", ""
	}
	return "", fmt.Sprintf("result %d is not nil, a struct literal or the result of a translated function", i)
}
