// emit_wasmtable (a file named *_wasm.go would be excluded by the GOARCH=wasm file-name constraint): Gen/WasmTable.v.  The closed list of custom contract-to-chain message variants
// (fields of bindings.ComdexMessages), the handler DispatchMsg routes each one to, and each
// handler's leading
//
//	if ctx.ChainID() == "comdex-1" { if contractAddr.String() != X { return unauthorized } }
//	else if ctx.ChainID() == "comdex-test3" { ... }
//
// ladder as data (chain id, designated address, index into the address array).  Any other shape is
// emitted with wasm_recognised = false.
package main

import (
	"fmt"
	"go/ast"
	"go/token"
	"go/types"
	"strconv"
	"strings"

	"golang.org/x/tools/go/packages"
)

type wasmRung struct {
	chain, addr string
	index       int
}

type wasmRow struct {
	variant, handler string
	ladder           []wasmRung
	recognised       bool
	note             string
}

func wasmPkg(c *corpus) *packages.Package {
	for _, p := range c.all {
		if strings.HasSuffix(p.PkgPath, "/app/wasm") {
			return p
		}
	}
	return nil
}

// package-level  var name = []string{"a", "b"}
func wasmStringArrays(p *packages.Package) map[string][]string {
	out := map[string][]string{}
	for _, f := range p.Syntax {
		for _, d := range f.Decls {
			gd, ok := d.(*ast.GenDecl)
			if !ok || gd.Tok != token.VAR {
				continue
			}
			for _, s := range gd.Specs {
				vs := s.(*ast.ValueSpec)
				for i, n := range vs.Names {
					if i >= len(vs.Values) {
						continue
					}
					cl, ok := vs.Values[i].(*ast.CompositeLit)
					if !ok {
						continue
					}
					var vals []string
					good := true
					for _, e := range cl.Elts {
						bl, ok := e.(*ast.BasicLit)
						if !ok || bl.Kind != token.STRING {
							good = false
							break
						}
						v, err := strconv.Unquote(bl.Value)
						if err != nil {
							good = false
							break
						}
						vals = append(vals, v)
					}
					if good {
						out[n.Name] = vals
					}
				}
			}
		}
	}
	return out
}

func wasmEndsWithErrorReturn(b *ast.BlockStmt) bool {
	if len(b.List) != 1 {
		return false
	}
	r, ok := b.List[0].(*ast.ReturnStmt)
	if !ok || len(r.Results) == 0 {
		return false
	}
	return !guardsIsNil(r.Results[len(r.Results)-1])
}

// one rung:  cond = ctx.ChainID() == "<lit>" ; body = { if contractAddr.String() != arr[i] { return ..., err } }
func wasmRungOf(ifs *ast.IfStmt, senderParam string, arrays map[string][]string) (wasmRung, string) {
	var r wasmRung
	b, ok := ifs.Cond.(*ast.BinaryExpr)
	if !ok || b.Op != token.EQL {
		return r, "chain condition is not =="
	}
	if types.ExprString(b.X) != "ctx.ChainID()" {
		return r, "chain condition does not read ctx.ChainID()"
	}
	lit, ok := b.Y.(*ast.BasicLit)
	if !ok || lit.Kind != token.STRING {
		return r, "chain id is not a literal"
	}
	r.chain, _ = strconv.Unquote(lit.Value)
	if len(ifs.Body.List) != 1 {
		return r, "rung body is not a single check"
	}
	in, ok := ifs.Body.List[0].(*ast.IfStmt)
	if !ok || in.Else != nil || in.Init != nil {
		return r, "rung body is not a plain if"
	}
	c, ok := in.Cond.(*ast.BinaryExpr)
	if !ok || c.Op != token.NEQ {
		return r, "address comparison is not !="
	}
	if types.ExprString(c.X) != senderParam+".String()" {
		return r, "left side is not the sender address"
	}
	ix, ok := c.Y.(*ast.IndexExpr)
	if !ok {
		return r, "right side is not arr[i]"
	}
	arr, ok := ix.X.(*ast.Ident)
	il, ok2 := ix.Index.(*ast.BasicLit)
	if !ok || !ok2 {
		return r, "right side is not arr[literal]"
	}
	vals, ok := arrays[arr.Name]
	i, err := strconv.Atoi(il.Value)
	if !ok || err != nil || i < 0 || i >= len(vals) {
		return r, "address array not resolved"
	}
	r.addr, r.index = vals[i], i
	if !wasmEndsWithErrorReturn(in.Body) {
		return r, "mismatch branch does not return an error"
	}
	return r, ""
}

func wasmCollect(c *corpus) ([]wasmRow, error) {
	p := wasmPkg(c)
	if p == nil {
		return nil, fmt.Errorf("package app/wasm not loaded")
	}
	arrays := wasmStringArrays(p)
	// variants: fields of bindings.ComdexMessages
	var variants []string
	for _, q := range c.all {
		if !strings.HasSuffix(q.PkgPath, "/app/wasm/bindings") {
			continue
		}
		if o := q.Types.Scope().Lookup("ComdexMessages"); o != nil {
			if st, ok := o.Type().Underlying().(*types.Struct); ok {
				for i := 0; i < st.NumFields(); i++ {
					variants = append(variants, st.Field(i).Name())
				}
			}
		}
	}
	if len(variants) == 0 {
		return nil, fmt.Errorf("bindings.ComdexMessages not found")
	}
	// DispatchMsg: variant -> handler
	methods := map[string]*ast.FuncDecl{}
	for _, f := range p.Syntax {
		for _, d := range f.Decls {
			if fd, ok := d.(*ast.FuncDecl); ok && fd.Recv != nil && fd.Body != nil {
				methods[fd.Name.Name] = fd
			}
		}
	}
	route := map[string]string{}
	if dm := methods["DispatchMsg"]; dm != nil {
		ast.Inspect(dm.Body, func(n ast.Node) bool {
			ifs, ok := n.(*ast.IfStmt)
			if !ok {
				return true
			}
			b, ok := ifs.Cond.(*ast.BinaryExpr)
			if !ok || b.Op != token.NEQ || !guardsIsNil(b.Y) {
				return true
			}
			sel, ok := b.X.(*ast.SelectorExpr)
			if !ok || len(ifs.Body.List) != 1 {
				return true
			}
			r, ok := ifs.Body.List[0].(*ast.ReturnStmt)
			if !ok || len(r.Results) != 1 {
				return true
			}
			call, ok := r.Results[0].(*ast.CallExpr)
			if !ok {
				return true
			}
			if fs, ok := call.Fun.(*ast.SelectorExpr); ok {
				if _, dup := route[sel.Sel.Name]; !dup {
					route[sel.Sel.Name] = fs.Sel.Name
				}
			}
			return true
		})
	}
	var rows []wasmRow
	for _, v := range variants {
		row := wasmRow{variant: v, handler: route[v]}
		fd := methods[row.handler]
		if row.handler == "" || fd == nil {
			row.note = "variant is not dispatched to a handler"
			rows = append(rows, row)
			continue
		}
		// second parameter = sender contract address
		sender := ""
		np := 0
		for _, f := range fd.Type.Params.List {
			for _, n := range f.Names {
				if np == 1 {
					sender = n.Name
				}
				np++
			}
		}
		if len(fd.Body.List) == 0 {
			row.note = "empty handler"
			rows = append(rows, row)
			continue
		}
		first, ok := fd.Body.List[0].(*ast.IfStmt)
		if !ok {
			row.note = "first statement is not the chain-id ladder"
			rows = append(rows, row)
			continue
		}
		row.recognised = true
		for cur := first; cur != nil; {
			r, note := wasmRungOf(cur, sender, arrays)
			if note != "" {
				row.recognised, row.note = false, note
				break
			}
			row.ladder = append(row.ladder, r)
			switch e := cur.Else.(type) {
			case nil:
				cur = nil
			case *ast.IfStmt:
				cur = e
			default:
				row.recognised, row.note = false, "ladder ends in a plain else"
				cur = nil
			}
		}
		rows = append(rows, row)
	}
	return rows, nil
}

func init() {
	register("WasmTable", func(c *corpus) (string, error) {
		rows, err := wasmCollect(c)
		if err != nil {
			return "", err
		}
		var b strings.Builder
		b.WriteString("(* GENERATED by tools/goextract (emit_wasmtable.go) from app/wasm/message_plugin.go - do not edit.\n")
		b.WriteString("   variant -> handler of CustomMessenger.DispatchMsg and each handler's leading chain-id / sender ladder. *)\n")
		b.WriteString("From Coq Require Import String List.\nFrom Comdex Require Import Model.Guards.\nImport ListNotations.\nOpen Scope string_scope.\n\n")
		b.WriteString("Definition wasm_table : list wasm_row := [\n")
		for i, r := range rows {
			var ls []string
			for _, g := range r.ladder {
				ls = append(ls, fmt.Sprintf("mkRung %s %s %d", coqString(g.chain), coqString(g.addr), g.index))
			}
			sep := ";"
			if i == len(rows)-1 {
				sep = ""
			}
			fmt.Fprintf(&b, "  mkWasmRow %s %s %v %s\n    [%s]%s\n", coqString(r.variant), coqString(r.handler), r.recognised, coqString(r.note),
				strings.Join(ls, ";\n     "), sep)
		}
		b.WriteString("].\n")
		return b.String(), nil
	})
}
