// Further rows of AmbientTable (C16), emitted by emit_maprange.go:
//
// ALIASES OF PROCESS-WIDE POINTER-CARRYING VALUES (kinds "procstate-alias", "procstate-alias-src").
// sdk.Dec / sdkmath.LegacyDec, sdk.Int / Uint, sdk.Coin(s) / DecCoin(s) and big.Int are structs around
// a *big.Int (or slices / structs of such).  Copying the VALUE copies the pointer: the copy and the
// original share one big.Int.  The value API (Add, Mul, Quo, LT, String ...) never writes through that
// pointer, but the decoding API does - LegacyDec.Unmarshal / UnmarshalJSON / UnmarshalAmino, Int.Unmarshal
// ..., the generated proto Unmarshal of every struct with such a field, codec.Unmarshal, json.Unmarshal,
// the params subspace's GetParamSet - and so do *Mut / Set* and every mutating math/big method.  When the
// original is a package-level variable (DefaultSwapFeeBurnRate ...) or a field of a state-machine
// struct, one such write changes the value for the whole PROCESS: not rolled back with the store,
// not shared between processes - the second replay in one process differs from the first.
//
// The scan is a flow-insensitive, field-insensitive taint analysis over the whole repository
// (non-test, non-generated code of x/, types/, app/, outside simulation / client / testutil):
//   sources      every read of a package-level variable of the repository, or of a field of a
//                state-machine struct (emit_maprange_state.go), whose type holds a big.Int pointer
//                (the types above; pointers, slices, arrays, maps of them; structs with such a field),
//                and every field / element / dereference of it;
//   propagation  assignment and := to a local, a parameter, a named result (also through a field /
//                element / pointer of it: the holder becomes an alias); composite literals; & and *;
//                conversions; append; range; calls of repository functions (arguments to parameters, the
//                receiver, results back; interface methods resolved to every implementer; pointer /
//                slice / map parameters written inside the callee taint the caller's argument);
//                results of methods of Coin / Coins / DecCoin(s) and other external structs on an
//                aliased receiver, and of external functions given an aliased argument (MinDec,
//                NewCoin, NewCoins ... return their argument's pointer), except the ones known to
//                build a fresh value; results of the value API of Dec / Int / Uint / big are fresh;
//   rows         "procstate-alias": an alias (a)/(c) handed BY ADDRESS (a pointer to it, or &alias) to a
//                function the scan cannot look into and that is not known to only read (anything
//                but Marshal* / MustMarshal* / Size / String / Get* / Validate* / fmt printing ...):
//                codec Unmarshal, json.Unmarshal, GetParamSet, Scan, Decode ...; (a) used as the
//                receiver of a pointer-receiver method of such a function set (generated proto
//                Unmarshal / Reset / XXX_*, Dec.Unmarshal*), of Set* / *Mut of Dec / Int / Uint, or of
//                a mutating math/big method; (b) returning the variable needs no row of its own: the
//                result of the function is an alias and every use of it in the repository is
//                followed as above.
//                "procstate-alias-src": one row per source variable / field the scan follows (what the
//                analysis ranges over; informational, always accepted).
// Exempt: `init` functions and package-level initialisers (one process-wide value aliasing another).
package main

import (
	"go/ast"
	"go/token"
	"go/types"
	"sort"
	"strings"
)

type aliasFn struct {
	*procFn
	params []types.Object // flattened parameter objects (nil for unnamed / blank)
	recv   types.Object
	named  []types.Object // named results
}

type aliasScan struct {
	c       *corpus
	g       *hooksGraph
	ps      *procScan
	fns     []*aliasFn
	byObj   map[*types.Func]*aliasFn
	taint   map[types.Object]string // local / parameter / receiver / named result -> source it may alias
	out     map[types.Object]string // pointer-like parameter (or receiver) written inside its function
	ret     map[*types.Func]string  // function whose result may alias a source
	srcs    map[string]string       // source -> file of its declaration
	pcMemo  map[types.Type]int      // 0 unknown, 1 in progress / false, 2 true
	changed bool
	rows    []maprangeAmbient
}

func aliasIsCoinType(t types.Type) bool {
	n, _ := t.(*types.Named)
	if n == nil || n.Obj().Pkg() == nil || n.Obj().Pkg().Path() != "github.com/cosmos/cosmos-sdk/types" {
		return false
	}
	switch n.Obj().Name() {
	case "Coin", "DecCoin", "Coins", "DecCoins":
		return true
	}
	return false
}

// pc: a value of the type can hold a *big.Int (directly or inside)
func (a *aliasScan) pc(t types.Type) bool {
	if t == nil {
		return false
	}
	switch a.pcMemo[t] {
	case 1:
		return false
	case 2:
		return true
	}
	a.pcMemo[t] = 1
	r := false
	switch x := t.(type) {
	case *types.Named:
		switch {
		case maprangeIsSdkNum(x) || maprangeIsBigType(x) || aliasIsCoinType(x):
			r = true
		case types.IsInterface(x):
			r = false
		default:
			r = a.pc(x.Underlying())
		}
	case *types.Pointer:
		r = a.pc(x.Elem())
	case *types.Slice:
		r = a.pc(x.Elem())
	case *types.Array:
		r = a.pc(x.Elem())
	case *types.Map:
		r = a.pc(x.Elem())
	case *types.Struct:
		for i := 0; i < x.NumFields() && !r; i++ {
			r = a.pc(x.Field(i).Type())
		}
	}
	if r {
		a.pcMemo[t] = 2
	} else {
		a.pcMemo[t] = 0
	}
	return r
}

// carries: a variable of the type can be an alias (pc, or an interface that may box one)
func (a *aliasScan) carries(t types.Type) bool {
	if t == nil {
		return false
	}
	if types.IsInterface(t) {
		if n, ok := t.(*types.Named); ok && n.Obj().Pkg() == nil { // error
			return false
		}
		return true
	}
	return a.pc(t)
}

func aliasPointerLike(t types.Type) bool {
	if t == nil {
		return false
	}
	switch t.Underlying().(type) {
	case *types.Pointer, *types.Slice, *types.Map, *types.Interface:
		return true
	}
	return false
}

func aliasPkgVar(o types.Object) *types.Var {
	v, ok := o.(*types.Var)
	if !ok || v.Pkg() == nil || v.Parent() != v.Pkg().Scope() || !hooksIsRepo(v) {
		return nil
	}
	return v
}

func (a *aliasScan) pkgVarSource(v *types.Var, fset *token.FileSet) string {
	if !a.pc(v.Type()) {
		return ""
	}
	s := "package variable " + strings.TrimPrefix(v.Pkg().Path(), hooksModule+"/") + "." + v.Name()
	if _, ok := a.srcs[s]; !ok {
		a.srcs[s] = a.c.rel(fset.Position(v.Pos()).Filename) + "|" + maprangeTypeName(v.Type())
	}
	return s
}

// a field of a state-machine struct is a source when its type holds a big.Int pointer and is not an
// object of another module (keepers, BaseApp ...: procstate-ext rows)
func (a *aliasScan) fieldSource(t types.Type) bool {
	if !a.pc(t) {
		return false
	}
	n := maprangeNamed(t)
	return n == nil || hooksIsRepo(n.Obj()) || maprangeIsSdkNum(n) || maprangeIsBigType(n) || aliasIsCoinType(n)
}

// every source the analysis ranges over, whether or not it is read today
func (a *aliasScan) collectSources() {
	for _, p := range a.c.all {
		scope := p.Types.Scope()
		for _, name := range scope.Names() {
			v, ok := scope.Lookup(name).(*types.Var)
			if !ok || !hooksIsRepo(v) {
				continue
			}
			fname := p.Fset.Position(v.Pos()).Filename
			if !maprangeInScope(a.c, p, fname) || maprangeAmbientExcluded(a.c.rel(fname)) {
				continue
			}
			a.pkgVarSource(v, p.Fset)
		}
	}
	for tn := range a.ps.sm {
		st, ok := tn.Type().Underlying().(*types.Struct)
		if !ok {
			continue
		}
		for i := 0; i < st.NumFields(); i++ {
			if fl := st.Field(i); a.fieldSource(fl.Type()) {
				s := "field " + maprangeTypeName(tn.Type()) + "." + fl.Name()
				if _, ok := a.srcs[s]; !ok {
					a.srcs[s] = "<types>|" + maprangeTypeName(fl.Type())
				}
			}
		}
	}
}

// fresh: external functions with a pc result that never hand back (part of) an argument
var aliasFreshFuncs = map[string]bool{
	"NewDecFromInt": true, "NewDecFromBigInt": true, "NewDecFromIntWithPrec": true, "NewDecFromBigIntWithPrec": true,
	"LegacyNewDecFromInt": true, "LegacyNewDecFromBigInt": true, "LegacyNewDecFromIntWithPrec": true, "LegacyNewDecFromBigIntWithPrec": true,
	"NewIntFromBigInt": true, "NewIntFromUint64": true, "NewUintFromBigInt": true, "NewDecCoinFromCoin": true, "NewDecCoinsFromCoins": true,
	"NewDec": true, "NewInt": true, "NewDecWithPrec": true, "NewIntWithDecimal": true, "NewInt64Coin": true, "NewInt64DecCoin": true,
	"MustNewDecFromStr": true, "NewDecFromStr": true, "NewIntFromString": true, "ParseCoinNormalized": true, "ParseCoinsNormalized": true,
	"ParseDecCoin": true, "ParseDecCoins": true, "TokensFromConsensusPower": true,
}

func aliasIsNumPkg(f *types.Func) bool {
	if f == nil || f.Pkg() == nil {
		return false
	}
	p := f.Pkg().Path()
	return p == "math/big" || p == "cosmossdk.io/math"
}

// the callee only reads what it is given
func aliasReadOnlyCallee(f *types.Func) bool {
	if f == nil {
		return false
	}
	name := f.Name()
	if f.Pkg() != nil {
		switch f.Pkg().Path() {
		case "fmt":
			return !strings.Contains(name, "scan") && !strings.Contains(name, "Scan")
		case "errors", "cosmossdk.io/errors", "github.com/cosmos/cosmos-sdk/types/errors", "strings", "strconv", "bytes",
			"cosmossdk.io/log", "github.com/cometbft/cometbft/libs/log":
			return true
		case "reflect":
			return name == "TypeOf" || name == "DeepEqual"
		}
	}
	for _, p := range []string{"Marshal", "MustMarshal", "Get", "Validate", "Is", "Has", "Sprint", "Fprint", "Print", "Wrap", "Equal", "XXX_Marshal", "XXX_Size"} {
		if strings.HasPrefix(name, p) {
			return true
		}
	}
	switch name {
	case "Size", "String", "ProtoMessage", "Descriptor", "Error", "Errorf", "Route", "Type", "Compare", "Len", "Less", "Empty", "Info", "Debug", "Warn",
		"EmitTypedEvent", "EmitTypedEvents", "PackAny", "NewAnyWithValue", "MessageName", "XXX_MessageName", "XXX_DiscardUnknown":
		return true
	}
	return false
}

func (a *aliasScan) mark(m map[types.Object]string, o types.Object, src string) {
	if o == nil || src == "" {
		return
	}
	if _, ok := m[o]; !ok {
		m[o] = src
		a.changed = true
	}
}

// results of the repository functions a call may reach
func (a *aliasScan) calleeRet(fn *types.Func) string {
	for _, r := range a.g.resolve(fn) {
		if s := a.ret[r]; s != "" {
			return s
		}
	}
	return ""
}

// taintOf: the source the value of e may share a big.Int with ("" = none)
func (a *aliasScan) taintOf(f *aliasFn, e ast.Expr) string {
	info := f.p.TypesInfo
	if e == nil {
		return ""
	}
	tv, ok := info.Types[e]
	if ok && tv.IsType() {
		return ""
	}
	if ok && tv.Type != nil && !a.carries(tv.Type) {
		if _, isTuple := tv.Type.(*types.Tuple); !isTuple {
			return ""
		}
	}
	switch x := ast.Unparen(e).(type) {
	case *ast.Ident:
		o := info.Uses[x]
		if o == nil {
			o = info.Defs[x]
		}
		if v := aliasPkgVar(o); v != nil {
			return a.pkgVarSource(v, f.p.Fset)
		}
		return a.taint[o]
	case *ast.SelectorExpr:
		if sel, ok := info.Selections[x]; ok {
			if sel.Kind() != types.FieldVal {
				return ""
			}
			if a.ps.isSM(sel.Recv()) && a.fieldSource(sel.Type()) {
				s := "field " + maprangeTypeName(maprangeDeref(sel.Recv())) + "." + x.Sel.Name
				if _, ok := a.srcs[s]; !ok {
					a.srcs[s] = "<types>|" + maprangeTypeName(sel.Type())
				}
				return s
			}
			return a.taintOf(f, x.X)
		}
		if v := aliasPkgVar(info.Uses[x.Sel]); v != nil {
			return a.pkgVarSource(v, f.p.Fset)
		}
		return ""
	case *ast.IndexExpr:
		if _, isSig := info.TypeOf(x.X).(*types.Signature); isSig {
			return ""
		}
		return a.taintOf(f, x.X)
	case *ast.SliceExpr:
		return a.taintOf(f, x.X)
	case *ast.StarExpr:
		return a.taintOf(f, x.X)
	case *ast.TypeAssertExpr:
		return a.taintOf(f, x.X)
	case *ast.UnaryExpr:
		if x.Op == token.AND {
			return a.taintOf(f, x.X)
		}
		return ""
	case *ast.CompositeLit:
		for _, el := range x.Elts {
			if kv, ok := el.(*ast.KeyValueExpr); ok {
				el = kv.Value
			}
			if s := a.taintOf(f, el); s != "" {
				return s
			}
		}
		return ""
	case *ast.CallExpr:
		if ftv, ok := info.Types[x.Fun]; ok && ftv.IsType() {
			if len(x.Args) == 1 {
				return a.taintOf(f, x.Args[0])
			}
			return ""
		}
		fn, bi := hooksCallee(info, x)
		if bi != nil {
			if bi.Name() == "append" {
				for _, arg := range x.Args {
					if s := a.taintOf(f, arg); s != "" {
						return s
					}
				}
			}
			return ""
		}
		if fn == nil {
			// a function-valued variable (sdk.MinDec, sdk.NewDecFromInt ... are variables of the SDK's types
			// package) or a local closure: like a function the scan cannot look into
			if id := maprangeCalleeIdent(x); id != nil && aliasFreshFuncs[id.Name] {
				return ""
			}
			for _, arg := range x.Args {
				if s := a.taintOf(f, arg); s != "" {
					return s
				}
			}
			return ""
		}
		if rs := a.g.resolve(fn); len(rs) > 0 {
			return a.calleeRet(fn)
		}
		// a function the scan cannot look into
		sig, _ := fn.Type().(*types.Signature)
		if sig == nil {
			return ""
		}
		if sig.Recv() != nil {
			sel, ok := ast.Unparen(x.Fun).(*ast.SelectorExpr)
			if !ok {
				return ""
			}
			rt := sig.Recv().Type()
			if maprangeIsSdkNum(rt) || maprangeIsBigType(rt) {
				if fn.Name() == "BigIntMut" {
					return a.taintOf(f, sel.X)
				}
				return "" // the value API builds a fresh big.Int
			}
			return a.taintOf(f, sel.X)
		}
		if aliasFreshFuncs[fn.Name()] && (aliasIsNumPkg(fn) || fn.Pkg() != nil && fn.Pkg().Path() == "github.com/cosmos/cosmos-sdk/types") {
			return ""
		}
		for _, arg := range x.Args {
			if s := a.taintOf(f, arg); s != "" {
				return s
			}
		}
		return ""
	}
	return ""
}

// markLHS: the holder at the bottom of the left-hand side becomes an alias
func (a *aliasScan) markLHS(f *aliasFn, lhs ast.Expr, src string) {
	if src == "" {
		return
	}
	info := f.p.TypesInfo
	root := maprangeRootIdent(lhs)
	if root == nil || root.Name == "_" {
		return
	}
	o := info.Defs[root]
	if o == nil {
		o = info.Uses[root]
	}
	v, ok := o.(*types.Var)
	if !ok || v.Pkg() == nil || v.Parent() == v.Pkg().Scope() || v.IsField() {
		return // a package variable: the write itself is a procstate row
	}
	if !a.carries(v.Type()) {
		return
	}
	a.mark(a.taint, o, src)
	if ast.Unparen(lhs) != ast.Expr(root) && aliasPointerLike(v.Type()) {
		// written through a pointer / slice / map the function was given: the caller's value is an alias too
		if o == f.recv {
			a.mark(a.out, o, src)
		}
		for _, p := range f.params {
			if p == o {
				a.mark(a.out, o, src)
			}
		}
	}
}

func (a *aliasScan) paramAt(t *aliasFn, sig *types.Signature, i int) types.Object {
	n := len(t.params)
	if n == 0 {
		return nil
	}
	if sig.Variadic() && i >= n-1 {
		return t.params[n-1]
	}
	if i < n {
		return t.params[i]
	}
	return nil
}

func (a *aliasScan) propagateCall(f *aliasFn, call *ast.CallExpr) {
	info := f.p.TypesInfo
	fn, _ := hooksCallee(info, call)
	if fn == nil {
		return
	}
	rs := a.g.resolve(fn)
	if len(rs) == 0 {
		return
	}
	var recvX ast.Expr
	if sel, ok := ast.Unparen(call.Fun).(*ast.SelectorExpr); ok {
		if s, ok := info.Selections[sel]; ok && s.Kind() == types.MethodVal {
			recvX = sel.X
		}
	}
	for _, r := range rs {
		t := a.byObj[r]
		if t == nil {
			continue
		}
		sig := r.Type().(*types.Signature)
		if recvX != nil && t.recv != nil {
			a.mark(a.taint, t.recv, a.taintOf(f, recvX))
			if s := a.out[t.recv]; s != "" {
				a.markLHS(f, recvX, s)
			}
		}
		for i, arg := range call.Args {
			p := a.paramAt(t, sig, i)
			if p == nil {
				continue
			}
			if a.carries(p.Type()) {
				a.mark(a.taint, p, a.taintOf(f, arg))
			}
			if s := a.out[p]; s != "" {
				arg = ast.Unparen(arg)
				if u, ok := arg.(*ast.UnaryExpr); ok && u.Op == token.AND {
					arg = u.X
				}
				a.markLHS(f, arg, s)
			}
		}
	}
}

func (a *aliasScan) propagate(f *aliasFn) {
	info := f.p.TypesInfo
	exempt := f.fd.Name.Name == "init" && f.fd.Recv == nil
	if exempt {
		return
	}
	var lits []*ast.FuncLit
	inLit := func(n ast.Node) bool {
		for _, l := range lits {
			if n.Pos() >= l.Pos() && n.End() <= l.End() {
				return true
			}
		}
		return false
	}
	ast.Inspect(f.fd.Body, func(n ast.Node) bool {
		switch x := n.(type) {
		case *ast.FuncLit:
			lits = append(lits, x)
		case *ast.AssignStmt:
			if len(x.Lhs) == len(x.Rhs) {
				for i := range x.Lhs {
					a.markLHS(f, x.Lhs[i], a.taintOf(f, x.Rhs[i]))
				}
			} else if len(x.Rhs) == 1 {
				if s := a.taintOf(f, x.Rhs[0]); s != "" {
					for _, l := range x.Lhs {
						a.markLHS(f, l, s)
					}
				}
			}
		case *ast.ValueSpec:
			if len(x.Names) == len(x.Values) {
				for i := range x.Names {
					a.markLHS(f, x.Names[i], a.taintOf(f, x.Values[i]))
				}
			} else if len(x.Values) == 1 {
				if s := a.taintOf(f, x.Values[0]); s != "" {
					for _, l := range x.Names {
						a.markLHS(f, l, s)
					}
				}
			}
		case *ast.RangeStmt:
			if s := a.taintOf(f, x.X); s != "" {
				if x.Value != nil {
					a.markLHS(f, x.Value, s)
				}
				if x.Key != nil {
					if _, isMap := info.TypeOf(x.X).Underlying().(*types.Map); isMap {
						a.markLHS(f, x.Key, s)
					}
				}
			}
		case *ast.CallExpr:
			a.propagateCall(f, x)
		case *ast.TypeSwitchStmt:
			// switch v := x.(type): v is one implicit variable per clause
			if as, ok := x.Assign.(*ast.AssignStmt); ok && len(as.Rhs) == 1 {
				if s := a.taintOf(f, as.Rhs[0]); s != "" {
					for _, cl := range x.Body.List {
						if o := info.Implicits[cl]; o != nil && a.carries(o.Type()) {
							a.mark(a.taint, o, s)
						}
					}
				}
			}
		case *ast.ReturnStmt:
			if inLit(x) || f.obj == nil {
				return true
			}
			for _, r := range x.Results {
				if s := a.taintOf(f, r); s != "" && a.ret[f.obj] == "" {
					a.ret[f.obj] = s
					a.changed = true
				}
			}
		}
		return true
	})
	if f.obj != nil && a.ret[f.obj] == "" {
		for _, o := range f.named {
			if s := a.taint[o]; s != "" {
				a.ret[f.obj] = s
				a.changed = true
				break
			}
		}
	}
}

func aliasCalleeName(fn *types.Func) string {
	if fn == nil {
		return "an unresolved function value"
	}
	if n := hooksRecvNamed(fn); n != nil {
		return maprangeTypeName(n) + "." + fn.Name()
	}
	if fn.Pkg() != nil {
		return strings.TrimPrefix(fn.Pkg().Path(), hooksModule+"/") + "." + fn.Name()
	}
	return fn.Name()
}

func (a *aliasScan) sinks(f *aliasFn) {
	info := f.p.TypesInfo
	if f.fd.Name.Name == "init" && f.fd.Recv == nil {
		return
	}
	ast.Inspect(f.fd.Body, func(n ast.Node) bool {
		call, ok := n.(*ast.CallExpr)
		if !ok {
			return true
		}
		if ftv, ok := info.Types[call.Fun]; ok && ftv.IsType() {
			return true
		}
		fn, bi := hooksCallee(info, call)
		if bi != nil {
			return true
		}
		if fn != nil && len(a.g.resolve(fn)) > 0 && !hooksIsInterfaceMethod(fn) {
			return true // followed into the callee (an interface method may also have implementers the scan
			// does not look into - generated code, other modules: judged like an external function as well)
		}
		// (1) the receiver
		if fn != nil {
			if sig, _ := fn.Type().(*types.Signature); sig != nil && sig.Recv() != nil {
				if sel, ok := ast.Unparen(call.Fun).(*ast.SelectorExpr); ok {
					if s := a.taintOf(f, sel.X); s != "" {
						rt := sig.Recv().Type()
						_, ptrRecv := rt.(*types.Pointer)
						name := fn.Name()
						switch {
						case maprangeIsSdkNum(rt):
							if strings.HasPrefix(name, "Set") || strings.HasPrefix(name, "Unmarshal") || strings.HasSuffix(name, "Mut") {
								a.ps.add(f.procFn, call, "procstate-alias", "in-place "+aliasCalleeName(fn)+" on an alias of "+s)
							}
						case maprangeIsBigType(rt):
							if ptrRecv && !maprangeBigRead[name] {
								a.ps.add(f.procFn, call, "procstate-alias", "in-place "+aliasCalleeName(fn)+" on an alias of "+s)
							}
						case ptrRecv && !types.IsInterface(rt) && !aliasReadOnlyCallee(fn):
							a.ps.add(f.procFn, call, "procstate-alias", "pointer-receiver method "+aliasCalleeName(fn)+" on an alias of "+s)
						case types.IsInterface(rt) && !aliasReadOnlyCallee(fn) && aliasPointerLike(info.TypeOf(sel.X)) && a.pc(info.TypeOf(sel.X)):
							a.ps.add(f.procFn, call, "procstate-alias", "interface method "+aliasCalleeName(fn)+" on an alias of "+s)
						}
					}
				}
			}
		}
		// (2) arguments handed over by address
		if aliasIsNumPkg(fn) || aliasReadOnlyCallee(fn) {
			return true
		}
		for _, arg := range call.Args {
			t := info.TypeOf(arg)
			if t == nil {
				continue
			}
			switch t.Underlying().(type) {
			case *types.Pointer, *types.Interface: // an address, or a box that may hold one
			default:
				continue
			}
			if s := a.taintOf(f, arg); s != "" {
				a.ps.add(f.procFn, arg, "procstate-alias", "passed by address to "+aliasCalleeName(fn)+": an alias of "+s)
			}
		}
		return true
	})
}

func maprangeDefaultAlias(c *corpus) []maprangeAmbient {
	ps := &procScan{c: c, g: hooksBuildGraph(c)}
	ps.collectSM()
	ps.rows = nil
	a := &aliasScan{c: c, g: ps.g, ps: ps, byObj: map[*types.Func]*aliasFn{}, taint: map[types.Object]string{}, out: map[types.Object]string{},
		ret: map[*types.Func]string{}, srcs: map[string]string{}, pcMemo: map[types.Type]int{}}
	for _, p := range c.all {
		for _, file := range p.Syntax {
			fname := p.Fset.Position(file.Pos()).Filename
			rel := c.rel(fname)
			if !maprangeInScope(c, p, fname) || maprangeAmbientExcluded(rel) {
				continue
			}
			for _, d := range file.Decls {
				fd, ok := d.(*ast.FuncDecl)
				if !ok || fd.Body == nil {
					continue
				}
				obj, _ := p.TypesInfo.Defs[fd.Name].(*types.Func)
				f := &aliasFn{procFn: &procFn{p: p, fd: fd, obj: obj, file: rel}}
				if fd.Recv != nil && len(fd.Recv.List) > 0 && len(fd.Recv.List[0].Names) > 0 {
					f.recv = p.TypesInfo.Defs[fd.Recv.List[0].Names[0]]
				}
				for _, fl := range fd.Type.Params.List {
					if len(fl.Names) == 0 {
						f.params = append(f.params, nil)
					}
					for _, nm := range fl.Names {
						f.params = append(f.params, p.TypesInfo.Defs[nm])
					}
				}
				if fd.Type.Results != nil {
					for _, fl := range fd.Type.Results.List {
						for _, nm := range fl.Names {
							if o := p.TypesInfo.Defs[nm]; o != nil {
								f.named = append(f.named, o)
							}
						}
					}
				}
				a.fns = append(a.fns, f)
				if obj != nil {
					a.byObj[obj] = f
				}
			}
		}
	}
	a.collectSources()
	for a.changed = true; a.changed; {
		a.changed = false
		for _, f := range a.fns {
			a.propagate(f)
		}
	}
	for _, f := range a.fns {
		a.sinks(f)
	}
	rows := ps.rows
	// what the analysis ranges over, and who hands it out
	var names []string
	for s := range a.srcs {
		names = append(names, s)
	}
	sort.Strings(names)
	for _, s := range names {
		parts := strings.SplitN(a.srcs[s], "|", 2)
		var holders []string
		for fn, src := range a.ret {
			if src == s {
				holders = append(holders, hooksName(fn))
			}
		}
		sort.Strings(holders)
		var uniq []string
		for i, h := range holders {
			if i == 0 || holders[i-1] != h {
				uniq = append(uniq, h)
			}
		}
		holders = uniq
		rows = append(rows, maprangeAmbient{file: parts[0], fn: s, kind: "procstate-alias-src", what: parts[1], callers: holders})
	}
	return rows
}
