// emit_purefuns_driver: the list of translated functions, the per-function driver and the printer
// of Gen/PureFuns.v (the translation itself is in emit_purefuns.go).
package main

import (
	"fmt"
	"go/ast"
	"go/token"
	"go/types"
	"sort"
	"strings"

	"golang.org/x/tools/go/packages"
)

// pfSpec names one Go function to translate.
type pfSpec struct {
	pkg   string         // import path suffix of the package
	recv  string         // receiver type name, "" for a plain function
	fn    string         // function name
	coq   string         // name of the generated definition
	reads []string       // keeper methods: the callee names (through the receiver) that are pure store reads = inputs
	errs  map[string]int // error expression (source text) -> code; any other non-nil error is 1
	cell  *pfCellSpec    // keeper methods: the store cell the function reads and writes (emit_purefuns_slices.go)
}

func pfFindFun(c *corpus, s pfSpec) (*packages.Package, *ast.FuncDecl) {
	for _, p := range c.all {
		if !strings.HasSuffix(p.PkgPath, "/"+s.pkg) {
			continue
		}
		for _, f := range p.Syntax {
			for _, d := range f.Decls {
				fd, ok := d.(*ast.FuncDecl)
				if !ok || fd.Name.Name != s.fn || fd.Body == nil {
					continue
				}
				rn := ""
				if fd.Recv != nil && len(fd.Recv.List) == 1 {
					_, rn = pfNamed(p.TypesInfo.TypeOf(fd.Recv.List[0].Type))
				}
				if rn == s.recv {
					return p, fd
				}
			}
		}
	}
	return nil, nil
}

// pfResolve reads the signature: which receiver fields / parameters become Coq parameters
func pfResolve(c *corpus, s pfSpec) *pfFun {
	g := &pfFun{spec: s, dropped: map[int]bool{}, structP: map[*types.Var]bool{}, extraK: map[string]string{}}
	p, fd := pfFindFun(c, s)
	if fd == nil {
		g.unrec = append(g.unrec, fmt.Sprintf("%s: function %s.%s not found", s.pkg, s.recv, s.fn))
		return g
	}
	g.pkg, g.decl = p, fd
	g.obj, _ = p.TypesInfo.Defs[fd.Name].(*types.Func)
	if g.obj == nil {
		g.unrec = append(g.unrec, "function object not found")
		g.decl = nil
		return g
	}
	sig := g.obj.Type().(*types.Signature)
	if sig.Variadic() || sig.TypeParams().Len() > 0 {
		g.unrec = append(g.unrec, "variadic or generic function")
		g.decl = nil
		return g
	}
	if r := sig.Recv(); r != nil {
		g.recvObj = r
		_, rn := pfNamed(r.Type())
		if rn == "Keeper" {
			g.keeper = true
		} else {
			rt := types.Unalias(r.Type())
			if pt, ok := rt.(*types.Pointer); ok {
				rt = types.Unalias(pt.Elem())
			}
			st, ok := rt.Underlying().(*types.Struct)
			if !ok {
				g.unrec = append(g.unrec, "receiver is not a struct")
				g.decl = nil
				return g
			}
			for i := 0; i < st.NumFields(); i++ {
				if pfScalar(pfKind(st.Field(i).Type())) {
					g.fields = append(g.fields, st.Field(i))
				}
			}
		}
	}
	for i := 0; i < sig.Params().Len(); i++ {
		v := sig.Params().At(i)
		kd := pfKind(v.Type())
		switch {
		case v.Name() == "_" || v.Name() == "" || kd == "ctx":
			g.dropped[i] = true
		case pfScalar(kd):
			g.params = append(g.params, v)
		default:
			_, isStruct := types.Unalias(v.Type()).Underlying().(*types.Struct)
			_, isIface := types.Unalias(v.Type()).Underlying().(*types.Interface)
			if isStruct || isIface && len(s.reads) > 0 {
				g.structP[v] = true
				g.dropped[i] = true // passed through its fields (discovered inputs)
			} else {
				g.unrec = append(g.unrec, "parameter "+v.Name()+" of untranslated type "+v.Type().String())
				g.decl = nil
				return g
			}
		}
	}
	for i := 0; i < sig.Results().Len(); i++ {
		rt := sig.Results().At(i).Type()
		kd := pfKind(rt)
		if pfScalar(kd) {
			nilable := (kd == "int" || kd == "dec") && pfReturnsNilLit(fd, sig.Results().Len(), i)
			if nilable {
				kd += "?" // some return gives the nil value T{}: the component is an option Z
			}
			g.resK = append(g.resK, kd)
			g.resShape, g.resFieldK, g.resNil = append(g.resShape, nil), append(g.resFieldK, nil), append(g.resNil, nilable)
			continue
		}
		// a struct result: one component per scalar field, in declaration order
		_, isStruct := types.Unalias(rt).Underlying().(*types.Struct)
		names, kinds := pfStructFields(rt)
		if _, ptr := types.Unalias(rt).(*types.Pointer); ptr && pfPtrStruct(rt) {
			// a pointer-to-struct result (emit_purefuns_ptr.go): one component, option of the fields
			g.resK = append(g.resK, pfPtrKind(kinds))
			g.resShape, g.resFieldK, g.resNil = append(g.resShape, names), append(g.resFieldK, kinds), append(g.resNil, false)
			g.setResPtr(i)
			continue
		}
		if _, ptr := types.Unalias(rt).(*types.Pointer); ptr || !isStruct || len(names) == 0 {
			g.unrec = append(g.unrec, "result of untranslated type "+rt.String())
			g.decl = nil
			return g
		}
		g.resK = append(g.resK, kinds...)
		g.resShape, g.resFieldK, g.resNil = append(g.resShape, names), append(g.resFieldK, kinds), append(g.resNil, false)
	}
	return g
}

func (t *pfTr) translateFun(g *pfFun) {
	if g.done || g.busy || g.decl == nil {
		return
	}
	save := t.pfState
	t.pfState = pfState{f: g, pkg: g.pkg, used: map[string]bool{}, binder: map[string]bool{}, adopted: map[string]bool{}}
	g.busy = true
	en := pfEnv{}
	for _, f := range g.fields {
		n := t.fresh(f.Name())
		en[f] = n
		g.fixed = append(g.fixed, pfParam{n, pfKind(f.Type())})
	}
	for _, p := range g.params {
		n := t.fresh(p.Name())
		en[p] = n
		g.fixed = append(g.fixed, pfParam{n, pfKind(p.Type())})
	}
	for p := range g.structP {
		en[p] = pfInPrefix + "param " + p.Name()
	}
	sig := g.obj.Type().(*types.Signature)
	for i := 0; i < sig.Results().Len(); i++ {
		r := sig.Results().At(i)
		if r.Name() == "" || r.Name() == "_" {
			continue
		}
		switch pfKind(r.Type()) {
		case "int", "dec":
			en[r] = pfNil
		case "bool":
			en[r] = "false"
		case "list":
			en[r] = "(@nil Z)"
		case "":
			if _, ptr := types.Unalias(r.Type()).(*types.Pointer); ptr {
				en[r] = "0" // a pointer result: nil
			} else {
				en[r] = t.newStruct(&pfStruct{over: map[string]string{}}) // a struct result: the zero value
			}
		default:
			en[r] = "0"
		}
	}
	g.body = t.block(g.decl.Body.List, en, func(e pfEnv) string {
		if sig.Results().Len() == 0 {
			outs, bad := t.cellOutputs(e)
			if bad != "" {
				return t.unrec(g.decl, bad)
			}
			_, ex := pfTuple(outs)
			return "Ok " + ex
		}
		return t.unrec(g.decl, "control reaches the end of the function")
	})
	g.busy = false
	g.done = true
	t.pfState = save
}

// ---------------------------------------------------------------------------------------------
// store reads of keeper methods: the results are inputs of the generated definition

// keeperRooted: k.X.Y.Method(..) with k the keeper receiver
func (t *pfTr) keeperRooted(e ast.Expr) bool {
	for {
		switch y := e.(type) {
		case *ast.SelectorExpr:
			e = y.X
		case *ast.ParenExpr:
			e = y.X
		case *ast.Ident:
			return t.f.recvObj != nil && t.objOf(y) == t.f.recvObj
		default:
			return false
		}
	}
}

// readKey: the identity of a store read = callee + its (translated or quoted) arguments
func (t *pfTr) readKey(c *ast.CallExpr, en pfEnv) (string, bool) {
	if !t.f.keeper {
		return "", false
	}
	sel, ok := c.Fun.(*ast.SelectorExpr)
	if !ok || !t.keeperRooted(sel.X) {
		return "", false
	}
	s := t.pkg.TypesInfo.Selections[sel]
	if s == nil || s.Kind() != types.MethodVal {
		return "", false
	}
	fo, _ := s.Obj().(*types.Func)
	if fo == nil {
		return "", false
	}
	if _, translated := t.funs[fo]; translated {
		return "", false
	}
	listed := false
	for _, r := range t.f.spec.reads {
		if r == sel.Sel.Name {
			listed = true
		}
	}
	if !listed {
		return "", false
	}
	var parts []string
	for _, a := range c.Args {
		if t.kindOf(a) == "ctx" {
			continue
		}
		part := ""
		if pfScalar(t.kindOf(a)) {
			// scalar argument: its translated atom when it is pure
			t.pure++
			mark := len(t.f.unrec)
			r := t.expr(a, en, "", func(x string) string { part = x; return "" })
			t.pure--
			if r != "" || len(t.f.unrec) != mark {
				t.f.unrec = t.f.unrec[:mark]
				part = ""
			}
		}
		if part == "" {
			// a field of a struct-valued input: named by that input's key
			if se, ok := a.(*ast.SelectorExpr); ok {
				if path, root := t.fieldPath(se); root != nil {
					if v, ok := en[t.objOf(root)]; ok && strings.HasPrefix(v, pfInPrefix) {
						part = "{" + v[len(pfInPrefix):] + "}." + strings.Join(path, ".")
					}
				}
			}
		}
		if part == "" {
			part = "<" + t.src(a) + ">"
		}
		parts = append(parts, part)
	}
	return sel.Sel.Name + "(" + strings.Join(parts, ",") + ")", true
}

// storeRead: ids := k.Get..(ctx, ..) for a listed read; each result becomes an input
func (t *pfTr) storeRead(c *ast.CallExpr, ids []*ast.Ident, en pfEnv, k func(pfEnv) string) (string, bool) {
	if r, ok := t.cellRead(c, ids, en, k); ok {
		return r, true
	}
	key, ok := t.readKey(c, en)
	if !ok {
		return "", false
	}
	tv := t.pkg.TypesInfo.TypeOf(c)
	var rts []types.Type
	if tup, ok := tv.(*types.Tuple); ok {
		for i := 0; i < tup.Len(); i++ {
			rts = append(rts, tup.At(i).Type())
		}
	} else {
		rts = []types.Type{tv}
	}
	if len(rts) != len(ids) {
		return t.unrec(c, "arity of a store read"), true
	}
	e2 := en
	for i, id := range ids {
		if id.Name == "_" {
			continue
		}
		o := t.objOf(id)
		if o == nil {
			return t.unrec(c, "unresolved target of a store read"), true
		}
		rk := fmt.Sprintf("%s#%d", key, i)
		kd := pfKind(rts[i])
		switch {
		case pfScalar(kd):
			e2 = e2.with(o, t.input(rk, id.Name, kd))
		default:
			if _, isStruct := types.Unalias(rts[i]).Underlying().(*types.Struct); !isStruct {
				return t.unrec(c, "store read of untranslated type"), true
			}
			if _, known := t.f.extraK["\x00base "+rk]; !known {
				t.f.extraK["\x00base "+rk] = id.Name
			}
			e2 = e2.with(o, pfInPrefix+rk)
		}
	}
	return k(e2), true
}

// structArgField: the callee g discovered the input "param <p>.<path>"; in this call it is the field
// <path> of the struct value passed for p
func (t *pfTr) structArgField(x *ast.CallExpr, g *pfFun, key, kind string, en pfEnv) (string, bool) {
	rest := strings.TrimPrefix(key, "param ")
	dot := strings.Index(rest, ".")
	if dot < 0 || strings.HasSuffix(rest, "()") {
		return "", false
	}
	pname, path := rest[:dot], strings.Split(rest[dot+1:], ".")
	sig := g.obj.Type().(*types.Signature)
	for i := 0; i < sig.Params().Len() && i < len(x.Args); i++ {
		if sig.Params().At(i).Name() != pname {
			continue
		}
		id, ok := ast.Unparen(x.Args[i]).(*ast.Ident)
		if !ok {
			return "", false
		}
		v, ok := en[t.objOf(id)]
		if !ok || !(strings.HasPrefix(v, pfInPrefix) || strings.HasPrefix(v, pfStPrefix)) {
			return "", false
		}
		a, ok := t.structField(v, path, kind)
		if !ok || pfOpaque(a) {
			return "", false
		}
		return a, true
	}
	return "", false
}

// ---------------------------------------------------------------------------------------------
// printer

func pfResultType(g *pfFun) string {
	var ts []string
	for _, k := range g.resK {
		ts = append(ts, pfCoqType(k))
	}
	if g.spec.cell != nil && g.cellFields != nil {
		// the final content of the store cell: found, then the record's fields
		ts = append(ts, "bool")
		for _, k := range g.cellKinds {
			ts = append(ts, pfCoqType(k))
		}
	}
	if len(ts) == 0 {
		return "outcome unit"
	}
	if len(ts) == 1 {
		if strings.Contains(ts[0], " ") {
			return "outcome (" + ts[0] + ")"
		}
		return "outcome " + ts[0]
	}
	return "outcome (" + strings.Join(ts, " * ") + ")"
}

// pfIndent: \x01 = one level deeper from this line on, \x02 = one level back after this line
func pfIndent(body string) string {
	depth := 0
	var out []string
	for _, l := range strings.Split(body, "\n") {
		depth += strings.Count(l, "\x01")
		txt := strings.ReplaceAll(strings.ReplaceAll(l, "\x01", ""), "\x02", "")
		out = append(out, "  "+strings.Repeat("  ", depth)+strings.TrimSpace(txt))
		depth -= strings.Count(l, "\x02")
	}
	return strings.Join(out, "\n")
}

func emitPureFuns(c *corpus) (string, error) {
	t := &pfTr{c: c, funs: map[*types.Func]*pfFun{}, pkgVarConst: map[types.Object]bool{}, sliceOK: map[ast.Node]bool{},
		cellObj: types.NewVar(token.NoPos, nil, "store cell", types.Typ[types.Invalid])}
	var all []*pfFun
	for _, s := range pureFunSpecs {
		g := pfResolve(c, s)
		all = append(all, g)
		if g.obj != nil && g.decl != nil {
			t.funs[g.obj] = g
		}
	}
	for _, g := range all {
		t.translateFun(g)
	}
	// callees first
	var order []*pfFun
	seen := map[*pfFun]bool{}
	var visit func(g *pfFun)
	visit = func(g *pfFun) {
		if seen[g] {
			return
		}
		seen[g] = true
		for _, d := range g.deps {
			visit(d)
		}
		order = append(order, g)
	}
	for _, g := range all {
		visit(g)
	}
	var b strings.Builder
	b.WriteString("(* GENERATED by tools/goextract (emit_purefuns.go) from the Go source - do not edit.\n")
	b.WriteString("   Tie (C): one shallow-embedded definition per translated Go function, in the vocabulary of\n")
	b.WriteString("   Lib/DecArith.v and Lib/GoSem.v.  Ok v = normal return, Err 0 = overflow-class panic,\n")
	b.WriteString("   Panic = any other panic.  coq/Properties/TieC*.v prove each one equal to the hand-written\n")
	b.WriteString("   model for all inputs.  Translation rules: docs/TIE_C.md. *)\n")
	b.WriteString("From Coq Require Import String.\n")
	b.WriteString("From Comdex Require Import Lib.Base Lib.DecArith Lib.GoSem.\n")
	b.WriteString("Local Open Scope Z_scope.\n")
	for _, g := range order {
		b.WriteString("\n")
		if g.decl == nil {
			fmt.Fprintf(&b, "(* %s %s.%s: not translated *)\n", g.spec.pkg, g.spec.recv, g.spec.fn)
			fmt.Fprintf(&b, "Definition %s : outcome unit :=\n  Unrecognised %s%%string.\n", g.spec.coq, coqString(strings.Join(g.unrec, "; ")))
		} else {
			pos := g.pkg.Fset.Position(g.decl.Pos())
			recv := ""
			if g.spec.recv != "" {
				recv = "(" + g.spec.recv + ") "
			}
			fmt.Fprintf(&b, "(* %s:%d  func %s%s", c.rel(pos.Filename), pos.Line, recv, g.spec.fn)
			if len(g.extra) > 0 {
				b.WriteString("\n   inputs read in the body:")
				keys := map[string]string{}
				for k, n := range g.extraK {
					if !strings.HasPrefix(k, "\x00") {
						keys[n] = k
					}
				}
				for _, e := range g.extra {
					fmt.Fprintf(&b, "\n     %s = %s", e.name, strings.ReplaceAll(keys[e.name], "*)", "* )"))
				}
			}
			if g.spec.cell != nil && g.cellFields != nil {
				fmt.Fprintf(&b, "\n   store cell %s/%s: after the results, the content of the cell on return:\n     found", g.spec.cell.get, g.spec.cell.set)
				for _, n := range g.cellFields {
					b.WriteString(", " + n)
				}
			}
			b.WriteString(" *)\n")
			fmt.Fprintf(&b, "Definition %s", g.spec.coq)
			for _, p := range append(append([]pfParam{}, g.fixed...), g.extra...) {
				fmt.Fprintf(&b, " (%s : %s)", p.name, pfCoqType(p.kind))
			}
			fmt.Fprintf(&b, "\n  : %s :=\n%s.\n", pfResultType(g), pfIndent(g.body))
		}
		fmt.Fprintf(&b, "Definition %s_unrecognised : list string :=", g.spec.coq)
		if len(g.unrec) == 0 {
			b.WriteString(" [].\n")
		} else {
			u := append([]string{}, g.unrec...)
			sort.Strings(u)
			b.WriteString("\n  [")
			for i, m := range u {
				if i > 0 {
					b.WriteString(";\n   ")
				}
				b.WriteString(coqString(m) + "%string")
			}
			b.WriteString("].\n")
		}
	}
	return b.String(), nil
}
