// emit_hooks_loopexits: Gen/HookLoopExits.v.  The hook language (Model/HookLang.v) gives a loop over
// wrapped units the meaning "the unit runs for EVERY item" (theorem c15_remaining_units_processed).
// That reading is only right when nothing in the loop body leaves the loop.  This table lists, for
// every loop of the x/ modules whose body calls utils.ApplyFuncIfNoError directly (outside function
// literals), every statement that leaves the loop: a `return`, or an unlabelled `break` that belongs to
// this loop, with its position relative to the first wrapped unit of the body ("before-unit": a
// pre-check, the unit of this item has not run; "after-unit": the loop is left although a unit has
// run - e.g. `if err := ApplyFuncIfNoError(..); err != nil { return err }`) and the condition of the
// innermost enclosing `if` (no line numbers: a harmless edit elsewhere does not change a row).
// Labelled branches and gotos are Unrecognised rows (fail closed).
package main

import (
	"fmt"
	"go/ast"
	"go/token"
	"sort"
	"strings"
)

type loopExitRow struct{ fn, loop, kind, when, cond string }

func loopExitsIsApply(call *ast.CallExpr) bool {
	switch f := call.Fun.(type) {
	case *ast.SelectorExpr:
		return f.Sel.Name == "ApplyFuncIfNoError"
	case *ast.Ident:
		return f.Name == "ApplyFuncIfNoError"
	}
	return false
}

// position of the first direct ApplyFuncIfNoError call in n (function literals are not entered:
// what runs inside the wrapped closure is the unit itself); token.NoPos if none
func loopExitsFirstApply(n ast.Node) token.Pos {
	first := token.NoPos
	ast.Inspect(n, func(x ast.Node) bool {
		switch v := x.(type) {
		case *ast.FuncLit:
			return false
		case *ast.CallExpr:
			if loopExitsIsApply(v) && (first == token.NoPos || v.Pos() < first) {
				first = v.Pos()
			}
		}
		return true
	})
	return first
}

func init() {
	register("HookLoopExits", func(c *corpus) (string, error) {
		var rows []loopExitRow
		for _, p := range c.all {
			if !strings.HasPrefix(p.PkgPath, "github.com/comdex-official/comdex/x/") {
				continue
			}
			mod := strings.Split(strings.TrimPrefix(p.PkgPath, "github.com/comdex-official/comdex/x/"), "/")[0]
			for _, f := range p.Syntax {
				if strings.HasSuffix(p.Fset.Position(f.Pos()).Filename, "_test.go") {
					continue
				}
				for _, d := range f.Decls {
					fd, ok := d.(*ast.FuncDecl)
					if !ok || fd.Body == nil {
						continue
					}
					fname := mod + "." + fd.Name.Name
					var visitLoop func(loop ast.Stmt, body *ast.BlockStmt, header string)
					// walk statements of a function body, finding loops (function literals are entered as
					// separate bodies: a loop inside a wrapped closure is a loop of the unit, it is listed too
					// when it wraps units of its own)
					var walk func(n ast.Node)
					walk = func(n ast.Node) {
						ast.Inspect(n, func(x ast.Node) bool {
							switch v := x.(type) {
							case *ast.ForStmt:
								h := "for"
								if v.Cond != nil {
									h = "for " + hooksText(p.Fset, v.Cond)
								}
								visitLoop(v, v.Body, h)
							case *ast.RangeStmt:
								visitLoop(v, v.Body, "range "+hooksText(p.Fset, v.X))
							}
							return true
						})
					}
					visitLoop = func(loop ast.Stmt, body *ast.BlockStmt, header string) {
						first := loopExitsFirstApply(body)
						if first == token.NoPos {
							return
						}
						// exits of THIS loop: descend, tracking the innermost if-condition and whether an
						// unlabelled break would belong to a nested breakable statement
						var scan func(n ast.Node, cond string, nestedBreakable bool)
						scan = func(n ast.Node, cond string, nestedBreakable bool) {
							if n == nil {
								return
							}
							switch v := n.(type) {
							case *ast.FuncLit:
								return
							case *ast.ReturnStmt:
								when := "before-unit"
								if v.Pos() > first {
									when = "after-unit"
								}
								rows = append(rows, loopExitRow{fname, header, "return", when, cond})
								return
							case *ast.BranchStmt:
								if v.Label != nil || v.Tok == token.GOTO {
									rows = append(rows, loopExitRow{fname, header, "Unrecognised", "labelled-branch", hooksText(p.Fset, v)})
								} else if v.Tok == token.BREAK && !nestedBreakable {
									when := "before-unit"
									if v.Pos() > first {
										when = "after-unit"
									}
									rows = append(rows, loopExitRow{fname, header, "break", when, cond})
								}
								return
							case *ast.LabeledStmt:
								rows = append(rows, loopExitRow{fname, header, "Unrecognised", "label", v.Label.Name})
								scan(v.Stmt, cond, nestedBreakable)
								return
							case *ast.IfStmt:
								scan(v.Init, cond, nestedBreakable)
								c2 := hooksText(p.Fset, v.Cond)
								scan(v.Body, c2, nestedBreakable)
								if v.Else != nil {
									scan(v.Else, "else of "+c2, nestedBreakable)
								}
								return
							case *ast.ForStmt:
								scan(v.Body, cond, true)
								return
							case *ast.RangeStmt:
								scan(v.Body, cond, true)
								return
							case *ast.SwitchStmt:
								scan(v.Body, cond, true)
								return
							case *ast.TypeSwitchStmt:
								scan(v.Body, cond, true)
								return
							case *ast.SelectStmt:
								scan(v.Body, cond, true)
								return
							case *ast.BlockStmt:
								for _, s := range v.List {
									scan(s, cond, nestedBreakable)
								}
								return
							case *ast.CaseClause:
								for _, s := range v.Body {
									scan(s, cond, nestedBreakable)
								}
								return
							case *ast.CommClause:
								for _, s := range v.Body {
									scan(s, cond, nestedBreakable)
								}
								return
							}
						}
						scan(body, "unconditional", false)
					}
					walk(fd.Body)
				}
			}
		}
		sort.Slice(rows, func(i, j int) bool {
			a, b := rows[i], rows[j]
			return fmt.Sprint(a) < fmt.Sprint(b)
		})
		var b strings.Builder
		b.WriteString("(* GENERATED by tools/goextract (emit_hooks_loopexits.go) from the Go source - do not edit.\n")
		b.WriteString("   Every statement that leaves a loop whose body runs a wrapped unit (utils.ApplyFuncIfNoError):\n")
		b.WriteString("   (function, loop header, return | break | Unrecognised, before-unit | after-unit, innermost if-condition). *)\n")
		b.WriteString("From Coq Require Import String List.\nImport ListNotations.\nOpen Scope string_scope.\n\n")
		b.WriteString("Definition hook_loop_exits : list (string * string * string * string * string) :=\n  [")
		for i, r := range rows {
			if i > 0 {
				b.WriteString(";\n   ")
			}
			fmt.Fprintf(&b, "(%s, %s, %s, %s, %s)", coqString(r.fn), coqString(r.loop), coqString(r.kind), coqString(r.when), coqString(r.cond))
		}
		b.WriteString("].\n")
		return b.String(), nil
	})
}
