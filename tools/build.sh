#!/bin/sh
# build the translator (offline; x/tools v0.29.0 comes from the local module cache)
set -e
cd "$(dirname "$0")/goextract"
export GOFLAGS=-mod=mod GOPROXY=off GOSUMDB=off GOTOOLCHAIN=local
go build -o goextract.new . && mv goextract.new goextract
