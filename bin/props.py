"""Per-property configuration of bin/check: which Coq property file, which harness workloads and
runner entry, the non-triviality rule, what is modelled rather than verified."""

TRUSTED_BASE = [
    "Coq 8.16.1 kernel via coqc, full .vo build (no -vos/-vok, no native_compute; vm_compute used for table theorems and witnesses)",
    "no Axiom/Parameter/Conjecture/Admitted declared (grep gate on every run); per-theorem axioms as reported by Print Assumptions are listed in axioms_per_theorem",
    "extraction: ExtrOcamlBasic only (bool, option, list, prod, unit, sumbool -> OCaml natives); Z/N/positive/nat stay extracted inductives; no Extract Constant / Extract Inductive of our own",
    "OCaml runner (runner/*.ml, zarith for decimal<->Z conversion) and Go harness (harness/*_test.go, build tag verif): trusted for the correspondence only",
    "hand-written Gallina model follows the Go code statement by statement; the tie is the differential run against /repo's working tree on every check",
    "modelled, not verified: cosmossdk.io/math big-integer arithmetic, bank keeper, baseapp CacheContext atomicity, protobuf (de)serialisation, KV-store iteration order",
]

PROPS = {
    "C17": dict(
        coq="Properties/C17.v",
        workloads=[
            dict(name="market-random", go_test="TestC17", runner="C17",
                 env=dict(quick=dict(VERIF_CASES=400), thorough=dict(VERIF_CASES=6000))),
            dict(name="market-exhaustive", go_test="TestC17", runner="C17", tiers=("thorough",),
                 env=dict(thorough=dict(VERIF_EXHAUSTIVE=6))),
        ],
        rule="case = (window size n in 1..6, gap, 1-3 assets, 5-40 ops: direct UpdatePriceList samples and whole market.BeginBlocker runs "
             "with validation/discard flags and short rate lists; samples from {0,1,small,2^62,2^63-1,2^63,2^64-1,random}); "
             "non-trivial = some asset became active during the case; distinct by digest of (n, gap, op sequence). "
             "thorough adds every sample sequence of length <= 6 over {0,3,2^63,2^64-1} for n in 1..3, gap in {0,40}",
        modelled=["band oracle packet handling (samples are injected by writing the fetch result)", "uint64 arithmetic as Z with explicit mod 2^64"],
        assumptions=["window size n fixed within a case (the property fixes N)", "block heights positive and increasing"],
    ),
}
