"""Per-property configuration of bin/check: which Coq property file, which harness workloads and
runner entry, the non-triviality rule, what is modelled rather than verified."""

TRUSTED_BASE = [
    "Coq 8.16.1 kernel via coqc, full .vo build (no -vos/-vok, no native_compute; vm_compute used for table theorems and witnesses)",
    "no Axiom/Parameter/Conjecture/Admitted declared (grep gate on every run); per-theorem axioms as reported by Print Assumptions are listed in axioms_per_theorem",
    "extraction: ExtrOcamlBasic only (bool, option, list, prod, unit, sumbool -> OCaml natives); Z/N/positive/nat stay extracted inductives; no Extract Constant / Extract Inductive of our own",
    "OCaml runner (runner/*.ml, zarith for decimal<->Z conversion) and Go harness (harness/*_test.go, build tag verif): trusted for the correspondence only",
    "hand-written Gallina model follows the Go code statement by statement; the tie is the differential run against /repo's working tree on every check",
    "modelled, not verified: cosmossdk.io/math big-integer arithmetic, bank keeper, baseapp CacheContext atomicity, protobuf (de)serialisation, KV-store iteration order",
    "translator tools/goextract (Go AST / go/types): tables under coq/Gen/*.v and, for tie (C), the regenerated definitions coq/Gen/PureFuns.v (meaning of each Go construct = Lib/GoSem.v; unrecognised shapes fail closed); regenerated from /repo's working tree on every run",
    "axioms: none declared; Print Assumptions of every theorem is recorded in axioms_per_theorem (all 'Closed under the global context'); coqchk -silent -o in the thorough tier",
]

import os, glob

PROPS = {}
# every bin/props.d/Cxx.py defines PROP = dict(...) (and optionally MANIFEST = dict(...))
MANIFESTS = {}
for _f in sorted(glob.glob(os.path.join(os.path.dirname(os.path.abspath(__file__)), "props.d", "C*.py"))):
    _ns = {}
    exec(compile(open(_f).read(), _f, "exec"), _ns)
    _id = os.path.basename(_f)[:-3]
    PROPS[_id] = _ns["PROP"]
    if "MANIFEST" in _ns:
        MANIFESTS[_id] = _ns["MANIFEST"]
