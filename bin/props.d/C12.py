PROP = dict(
        coq="Properties/C12.v",
        workloads=[
            dict(name="authority-matrix", go_test="TestC12", runner="C12",
                 env=dict(quick=dict(VERIF_HIST=2), thorough=dict(VERIF_HIST=8))),
        ],
        rule="case = one message run through the MsgServiceRouter on its own store branch of a prepared state holding one position of every kind "
             "(vault, stable-mint vault, locker, lend, borrow, resting limit order, 20 market-making orders, farm position, limit bid, running auction), "
             "reached after a random short history of the owner's own operations: every method of the vault / locker / lend / liquidity / auctionsV2 msg servers "
             "x {owner, non-owner, fresh random funded account}; plus every variant of bindings.ComdexMessages (read off the Go type by reflection) through the real "
             "CustomMessenger.DispatchMsg x chain id {comdex-1, comdex-test3, verif-1, comdex-2} x sender {governance contract, emission contract, the other network's contract, random}; "
             "plus MsgKillSwitch x {admin, 5 others}. non-trivial = a non-owner run of a position message, a wasm case the ladder must reject, a non-admin kill switch; "
             "distinct by digest of (handler, signer, history length, class) / (variant, chain, sender)",
        modelled=["baseapp per-message atomicity (Lib/Atomic.v; the harness' execMsg commits the branch only on success exactly like baseapp)",
                  "handlers as guard lists: only the top-level structure of the handler body is modelled (translator trusted to read it; cross-checked by the matrix run)",
                  "wasm VM and contract execution (DispatchMsg is called directly with the contract address)"],
        assumptions=["positions of the fixture state are representative of reachable states (plus random owner histories)",
                     "the reviewed exemption list (stable-mint vault = shared pool; interest/reward calc only accrue; liquidation is permissionless) is accepted"],
    )

MANIFEST = dict(
    level_text="Finite-table proof over tables REGENERATED from the Go source on every run (registered sdk.Msg types with signer / id fields; for every msgServer method the ordered guard checks, writes and early returns with delegation inlined; DispatchMsg's variant->handler map and each handler's chain-id/sender ladder): every message type that names a position and is not in the reviewed exemption list has an owner comparison or signer-keyed lookup on every path to success (vm_compute + forallb_forall), lifted by a generic lemma to 'for every store, write effect and outcome of the other checks a non-owner is rejected and nothing is committed'; every custom wasm variant on comdex-1 / comdex-test3 is accepted only from its designated contract; MsgKillSwitch only from an admin. The tables are cross-checked against the real code by a matrix run of every handler x owner/non-owners and every wasm variant x chain x sender.",
    design_ref="DESIGN.md section 4 C12",
    level_note="Trusted: Coq kernel, the translator tools/goextract (unrecognised shapes fail closed; dynamic cross-check), extraction, OCaml runner, Go harness; baseapp atomicity modelled. On chain ids other than the two named networks the wasm ladder accepts every sender (theorem c12_wasm_other_chain_accepts). No axioms.",
    technique="Coq proof by computation over regenerated tables + generic guard-list lemma + authority matrix run against the real msg servers and the real CustomMessenger",
)
