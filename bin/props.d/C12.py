
import os as _os, subprocess as _sp


class _FocusEnv(dict):
    """search_env of bin/check's directed search (it runs only after a table theorem or the correspondence
    broke and the ordinary run showed no failing input).  Evaluated when the search starts - the tables are
    regenerated and the runner is rebuilt by then: asks the runner (entry C12-focus) which handlers' regenerated
    rows fail a table check and hands their names to the harness as VERIF_FOCUS; with no broken row to name
    (a sweep, a closed-world check, a correspondence mismatch) the static part alone applies."""

    def items(self):
        out = dict(self)
        root = _os.path.dirname(_os.path.dirname(_os.path.dirname(_os.path.abspath(_FocusEnv.items.__code__.co_filename))))
        try:
            p = _sp.run([_os.path.join(root, "runner", "runner"), "C12-focus", "/dev/null"], stdout=_sp.PIPE, stderr=_sp.DEVNULL,
                        timeout=120, text=True)
            names = [l.split()[1] for l in p.stdout.splitlines() if l.startswith("FOCUS ") and len(l.split()) == 2]
        except Exception:
            names = []
        if names:
            out["VERIF_FOCUS"] = ",".join(sorted(set(names)))
            out.update(self.focused)
        else:
            out.update(self.unfocused)
        return out.items()


_search_env = _FocusEnv(dict(VERIF_HIST=6), VERIF_DIRECTED=1)
_search_env.focused = dict(VERIF_HIST=24)
_search_env.unfocused = dict()

PROP = dict(
        coq="Properties/C12.v",
        workloads=[
            dict(name="authority-matrix", go_test="TestC12", runner="C12",
                 env=dict(quick=dict(VERIF_HIST=2), thorough=dict(VERIF_HIST=8))),
            dict(name="liquidation-auction-authority", go_test="TestC12X", runner="C12X",
                 env=dict(quick=dict(VERIF_HIST=2), thorough=dict(VERIF_HIST=12))),
        ],
        search_env=_search_env,
        rule="case = one message run through the MsgServiceRouter on its own store branch of a prepared state in which THREE accounts each hold one position of every kind "
             "(vault, locker, two lend positions, borrow, resting limit order, market-making orders, farm position, limit bid; one shared stable-mint vault, a running auction) "
             "with the numeric ids of the different kinds deliberately misaligned across owners (vault #n, lend #n, borrow #n belong to three different accounts; borrow #n sits on lend #n+3), "
             "reached after a random short history of the owner's own operations: every method of the vault / locker / lend / liquidity / auctionsV2 msg servers naming the positions of EVERY owner "
             "x signer {the owner, each of the two other position owners (who own a position of another kind with the same numeric id and one of the same kind with another id), an account owning nothing, "
             "a fresh random funded account}; observed: result class, digest of all DeFi stores + bank before/after, digest of the named owner's balances and position records before/after; "
             "the runner demands that every position message of the regenerated table was run by its owner successfully, by another position owner, and (id-naming messages) by a signer owning the same id of another kind; plus every variant of bindings.ComdexMessages (read off the Go type by reflection) through the real "
             "CustomMessenger.DispatchMsg x chain id {comdex-1, comdex-test3, verif-1, comdex-2} x sender {governance contract, emission contract, the other network's contract, random}; "
             "plus MsgKillSwitch x {admin, 5 others}. non-trivial = a non-owner run of a position message, a wasm case the ladder must reject, a non-admin kill switch; "
             "distinct by digest of (handler, signer, history length, class) / (variant, chain, sender). "
             "Workload liquidation-auction-authority (TestC12X): the same on the EXTENDED state - one block after a fall of the collateral price (every owner's vault and borrow unhealthy, "
             "not yet seized), running auctions of every kind a message can bid on (generation-2 dutch of a vault and of a borrow, generation-2 english surplus and debt, generation-1 dutch "
             "started through MsgLiquidateVault, generation-1 lend dutch started through MsgLiquidateBorrow, generation-1 surplus / debt started by calling the unwired auction.BeginBlocker), "
             "reserve funds, the shutdown deposit target reached, one genesis token unminted; and the state after MsgExecuteESM + snapshot + cool-off + redemption set-up: every msgServer method of the "
             "liquidation / auction / liquidationsV2 / auctionsV2 / esm / rewards / collector / tokenmint modules (list computed from the regenerated registry: GuardsCheck.x_matrix_handlers) naming the "
             "positions of every owner x the same five signers, after a random history of other messages of the list; observed in addition: digest of the balances and records of the position owners that are neither "
             "signer nor named owner (bystanders); the runner demands that every such method succeeded WITH an effect for the named owner and was attempted by another owner and a stranger; "
             "plus every custom wasm variant with a payload whose accepted run changes state x chain x sender (a rejected one must leave the branch it ran on untouched)",
        modelled=["baseapp per-message atomicity (Lib/Atomic.v; the harness' execMsg commits the branch only on success exactly like baseapp)",
                  "handlers as guard lists: only the top-level structure of the handler body is modelled (translator trusted to read it; cross-checked by the matrix run)",
                  "wasm VM and contract execution (DispatchMsg is called directly with the contract address)"],
        assumptions=["positions of the fixture state are representative of reachable states (plus random owner histories)",
                     "the reviewed id kinds of lookups and key fields (GuardsCheck.lookup_info / key_kind / owner_fields) are right; a write is recorded by callee name only, so the table does not say that the compared record is the very record later mutated - the chain from the message's own id field to the compared record stands for it",
                     "the reviewed exemption list (stable-mint vault = shared pool; interest/reward calc only accrue; liquidation is permissionless) is accepted",
                     "the reviewed list GuardsCheck.no_position_msgs (messages that name no existing position of any user: openings, fundings, bids, shutdown, genesis mint - each with its reason) and "
                     "GuardsCheck.third_party_effect (flows by which a non-position message may pay an account that did not sign: outbid bidder, refund list, genesis recipient) are accepted",
                     "generation-1 surplus / debt auctions exist in the extended fixture only because the harness calls auction.BeginBlocker, which this tree does not wire"],
    )

MANIFEST = dict(
    level_text="Finite-table proof over tables REGENERATED from the Go source on every run (registered sdk.Msg types with signer / id fields; for every msgServer method the ordered guard checks, writes and early returns with delegation inlined; DispatchMsg's variant->handler map and each handler's chain-id/sender ladder): every message type that names a position and is not in the reviewed exemption list has an owner comparison or signer-keyed lookup on every path to success (vm_compute + forallb_forall), and every owner comparison on its walk is made on a record fetched through a chain of lookups keyed, link by link, by an id of the kind the lookup expects and starting at a position-id field of the message itself (the translator records which record's owner field is compared and how the record was obtained; a lend looked up by a borrow's own id fails), lifted by a generic lemma to 'for every store, write effect and outcome of the other checks a non-owner is rejected and nothing is committed'; every custom wasm variant on comdex-1 / comdex-test3 is accepted only from its designated contract; MsgKillSwitch only from an admin. Every registered message of a DeFi module is classified (owner-guarded / signer-keyed / exempt / names no position / admin: c12_classification_closed) and belongs to one of the two matrices (c12_matrices_cover_registry). The tables are cross-checked against the real code by a matrix run of every handler, naming the positions of each of three owners whose position ids are deliberately misaligned across kinds, x {owner, the two other position owners, an account owning nothing, a fresh account} and every wasm variant x chain x sender; and by the extended matrix (liquidation, bids on running auctions of both generations, reserve funds, shutdown, reward programmes, refund, genesis mint; custom messages with effect payloads) on a state with unhealthy positions and running auctions, where additionally no message may change the balances or records of an account that neither signed it nor is named by it except through the reviewed flows.",
    design_ref="DESIGN.md section 4 C12",
    level_note="Trusted: Coq kernel, the translator tools/goextract (unrecognised shapes fail closed; dynamic cross-check), extraction, OCaml runner, Go harness; baseapp atomicity modelled. On chain ids other than the two named networks the wasm ladder accepts every sender (theorem c12_wasm_other_chain_accepts). No axioms.",
    technique="Coq proof by computation over regenerated tables + generic guard-list lemma + authority matrix run against the real msg servers and the real CustomMessenger",
)
