PROP = dict(
        coq="Properties/C05.v",
        tie_coq=["Properties/TieC05.v"],
        workloads=[
            dict(name="amm-random", go_test="TestC05", runner="C05",
                 env=dict(quick=dict(VERIF_CASES=3000), thorough=dict(VERIF_CASES=20000))),
            dict(name="keeper-orders", go_test="TestC05Keeper", runner="C05-keeper",
                 env=dict(quick=dict(VERIF_CASES=8), thorough=dict(VERIF_CASES=200))),
            dict(name="keeper-f1", go_test="TestC05KeeperHunt", runner="C05-keeper",
                 env=dict(quick=dict(VERIF_CASES=3), thorough=dict(VERIF_CASES=40))),
            dict(name="amm-exhaustive", go_test="TestC05Exhaustive", runner="C05", tiers=("thorough",),
                 env=dict(thorough=dict(VERIF_C05_EXH=2))),
            dict(name="amm-exhaustive3", go_test="TestC05Exhaustive", runner="C05", tiers=("thorough",),
                 env=dict(thorough=dict(VERIF_C05_EXH=3, VERIF_C05_STRIDE=997))),
            dict(name="amm-exhaustive-single", go_test="TestC05Exhaustive", runner="C05", tiers=("thorough",),
                 env=dict(thorough=dict(VERIF_C05_EXH=2, VERIF_C05_EXH_KIND="single", VERIF_C05_EXH_AMAX=4))),
            dict(name="amm-exhaustive-low", go_test="TestC05Exhaustive", runner="C05", tiers=("thorough",),
                 env=dict(thorough=dict(VERIF_C05_EXH=2, VERIF_C05_EXH_KIND="single", VERIF_C05_EXH_TICKS="low", VERIF_C05_EXH_AMAX=5, VERIF_C05_EXH_NT=3))),
        ],
        rule="case = one call of the real amm package on a fresh order book: 0-12 user orders (types.UserOrder: batch ids 0-3, order ids with collisions, "
             "offer coin exact / +1 / x2 / -1 / half) on ticks around a base price (tick precision 1-4, base prices 10^-6 .. 10^6, 35% in the region "
             "where quote amounts round to zero), amounts 1 .. 10^30, optionally the pool orders amm.PoolOrders generates for 1-2 basic/ranged pools; "
             "entry points as in keeper/swap.go:672: OrderBook.Match(lastPrice) (55%), FindMatchPrice(book view + pool views)+pool orders at the match price+"
             "MatchAtSinglePrice (15%), MatchAtSinglePrice at a tick (10%), SortOrders+DistributeOrderAmountToOrders on one tick's orders (20%); "
             "14% of the cases are DIRECTED at the drop loop of FindMatchableAmountAtSinglePrice: a price p < 1 whose inverse is NOT an integer (20 prices from 0.00033 to 0.999), one side "
             "ending in a MARGINAL tick (the last eligible tick, filled only in part) whose residue - what is left for it once the other ticks of its side are used up - is floor(1/p), "
             "ceil(1/p), one less / one more, 0, 1, or a multiple (a marginal sell tick whose residue is worth zero quote coin must be dropped, one worth a quote coin must be matched; "
             "the purely random books hit residue = floor(1/p) with probability ~1/amount and prices with an integer inverse cannot tell floor from ceil), marginal tick on the sell side "
             "(60%), the buy side, or both, through MatchAtSinglePrice at p, Match with p as last price and FindMatchPrice+MatchAtSinglePrice; "
             "6 fixed regression cases first (the C05-F1 witness at three levels), then 12 marginal-tick books (inner sell tick 100, marginal sell tick, residue floor / ceil of 1/p at "
             "0.102, 0.3, 0.9, single-price and Match). non-trivial = the call produced at least one fill; distinct by digest "
             "of (entry point, orders, price). thorough adds every book with <=2 orders per side (and every 997th with <=3), amounts 1..6, four "
             "neighbouring ticks 0.48-0.51, against each tick as last price; every such book with amounts 1..4 through MatchAtSinglePrice at each of the four ticks (amm-exhaustive-single: inverses 1.96-2.08, "
             "the amounts straddle floor / ceil of 1/p), and every book with <=2 orders per side, amounts 1..5, over the ticks 0.30-0.32 (inverses strictly between 3 and 4) through "
             "MatchAtSinglePrice at each tick (amm-exhaustive-low). keeper-orders: case = the C07 order history through the REAL msg server / EndBlocker (pools on 15% of the pairs), 85% of the "
             "cases with the order-life scenario (a long-lived order partially matched in its first batch, the last price moved past it, then matched again tick by tick by ladders of small counter orders "
             "in later batches); before every EndBlocker the book of every pair is observed through the real types.NewUserOrder and keeper.Match (pool orders included) and replayed on AMM.run_match / "
             "run_single_price: every order's (open, paid, received), matched flag, match price, quoteCoinDiff are diffed, the holds_C05_* predicates judge the implementation's book, and holds_C05_life judges "
             "every stored order's fill against its record: payment <= REMAINING offer coin, matched <= open amount; non-trivial = some order was filled and a block boundary was crossed. keeper-f1: the known finding C05-F1 THROUGH THE KEEPER by a directed search: pairs at prices 0.0005-0.01 with a basic and two "
             "ranged pools that the creator shrinks by withdrawals until their orders on a tick are worth a few quote units; before each batch the search takes the ticks on which two or more pools have "
             "an order and tries, on a throw-away cache context through the real keeper.Match, single limit orders that consume such a tick only in part; the first order whose batch does not conserve "
             "the base coin is placed for real and the real EndBlocker runs on it (C05-F1: holds_C05_base fails inside kf_C05_1; C05-F2: when the escrow cannot cover the deficit the app's batch is rolled "
             "back at every following block - endblock_batch_executed fails inside kf_C05_2_stall; the runner hands the engine's fills to the model, which rolls back as well)",
        modelled=["sdk.Int/sdk.Dec 256/315-bit overflow panics (not modelled; amounts < 2^100)",
                  "FindMatchPrice and the pool order generators PoolBuyOrders/PoolSellOrders are NOT modelled: their outputs (match price, pool orders) "
                  "are taken from the implementation as inputs; the property predicates do not depend on how the price or the orders were chosen",
                  "sort.Search over sorted ticks/groups as a linear first-true scan; sort.SliceStable as stable insertion sort (HasPriority is a strict weak order)",
                  "the random Go map iteration order of the final fill loop (fills touch distinct orders, sums commute)"],
        assumptions=["positive prices and amounts (dom_ok; the keeper validates both)", "each order pointer occurs once in the book",
                     "no 256-bit overflow: amounts < 2^100"],
    )

MANIFEST = dict(
    level_text="Executable Gallina model of the whole matching engine (MatchableAmount, FillOrder, batch grouping, stable sort, "
               "DistributeOrderAmountToOrders with its retry, DistributeOrderAmountToTick, FindMatchableAmountAtSinglePrice, MatchAtSinglePrice, "
               "PriceDirection, Match) with proofs over all prices/amounts/books; base-coin conservation is proved outside the known-finding class "
               "and refuted inside it by a witness that is replayed on the real package. Through the keeper: for every stored order handed to the engine as NewUserOrder builds it (offer bound = REMAINING offer "
               "coin) the fill is within the remaining offer coin and the open amount, in any book; a counter-example shows that the original offer coin as the bound lets a carried-over order overpay. The model is tied to /repo by a differential run of the "
               "real amm package on every check and the extracted property predicates judge the implementation's outputs.",
    design_ref="DESIGN.md section 4 C05",
    level_note="Trusted: Coq kernel, extraction (ExtrOcamlBasic), OCaml runner, Go harness. FindMatchPrice and pool order generation enter as inputs. "
               "No axioms (Closed under the global context).",
    technique="Coq proof (algebraic fill laws + induction over the fill list) + model/implementation correspondence run",
)
