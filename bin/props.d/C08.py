PROP = dict(
        coq="Properties/C08.v",
        workloads=[
            dict(name="lend-histories", go_test="TestC08", runner="C08",
                 env=dict(quick=dict(VERIF_CASES=250), thorough=dict(VERIF_CASES=4000))),
            # scripted regression corpus: the witness of the repaired finding C08-F1
            dict(name="lend-witness", go_test="TestC08Witness", runner="C08"),
            # scripted witness of the known finding C08-F2 (hand-over deletes a live lend record)
            dict(name="lend-handover-witness", go_test="TestC08Handover", runner="C08"),
        ],
        rule="case = one history of 20-50 messages (lend / deposit / withdraw / close-lend / borrow / borrow-alternate / deposit-borrow / draw / "
             "repay / close-borrow / calculate-interest-and-rewards, and hand-overs of positions to the liquidation auction through "
             "liquidationsV2 MsgLiquidateInternalKeeper, half of them after a crash of the collateral price) by 3 users over 2 pools x 3 assets with 12 same-pool and 5 cross-pool pairs "
             "(one e-mode pair, one isolated asset, stable borrows), oracle moves and time gaps of 0 s .. 4 years between messages; amounts "
             "boundary-directed (available +-1, LTV threshold +-1/+2, pool balance +-1, interest / reserve-share truncations +-1, exact close-out), "
             "one borrow in ten names a lend position of another asset of the pool (C08-F1); plus the scripted witnesses of C08-F1 and C08-F2; "
             "after EVERY message the full projection (pool-asset stats, every lend / borrow record, balances, cToken supplies, counters) is diffed "
             "against the model and the extracted predicates holds_C08_lend / holds_C08_borrow / holds_C08_avail / mismatched_lend (all positions) and, for a successful "
             "borrow / draw / withdraw / close-lend, holds_C08_ltv / holds_C08_ltv_new / holds_C08_pool / holds_C08_pledged judge the implementation's state; "
             "a books failure is suppressed only after a successful message of class kf_C08_2 in the same history; "
             "non-trivial = at least one borrow succeeded (or a position was handed over) in the history; distinct by digest of the message sequence",
        modelled=["interest arithmetic (CalculateLendReward / CalculateBorrowInterest / APR, C18's subject) enters as ENV values measured on a throw-away "
                  "cache context at the block time of the message (arbitrary in the theorems); what IterateLends/IterateBorrow DO with them is modelled",
                  "the liquidation hand-over (liquidationsV2 LiquidateIndividualBorrow -> UpdateLockedBorrows) is modelled as coded in its effect on the lend "
                  "books; its DECISION (ratio above the liquidation threshold, C09's subject) and the interest of IterateBorrowForLiq are ENV values the harness "
                  "measures with the keeper's own functions; CreateLockedVault / AuctionActivator write liquidation / auction state only (not projected)",
                  "not modelled, never issued by the generator: FundModAcc, FundReserveAcc (RemoveFaultyAuctions), RepayWithdraw, DeletePoolAndTransferInterest, "
                  "what happens to a handed-over position afterwards (auction close MsgCloseDutchAuctionForBorrow, CreteNewBorrow), the first-generation "
                  "liquidation, ESM kill switch, pool depreciation",
                  "reserve buy-back / AllReserveStats / FundModBal records are not projected",
                  "sort.Search (binary) modelled as first index with ids[i] >= id; equal on ascending lists, and the id lists are proved ascending (= filter of 1..n)",
                  "the pool-holds-the-loan predicate is evaluated on the message's pre-state for Draw and for a Borrow that opens a position; for DepositDraw "
                  "top-ups and BorrowAlternate the theorem speaks about the state after the deposit half, which the implementation does not expose"],
        assumptions=["amounts below 2^62 (sdk.Int 256-bit overflow and Int64() conversions of the rate arithmetic are outside the model)",
                     "plain accounts only (no vesting / blocked recipients)",
                     "governance records (pools, pairs, rate params, app mapping) constant during a history; asset decimals > 0, Ltv/ELtv >= 0 (cfg_wf)",
                     "oracle prices unsigned (uint64 Twa)",
                     "interest is counted as the code counts it: floor(InterestAccumulated) whole coins"],
    )

MANIFEST = dict(
    level_text="PARTIAL (known finding C08-F2). Both book identities (total lent = available + pledged-and-not-auctioned collateral; totals borrowed variable/stable = principal of open "
               "non-liquidated borrows; published id lists = exactly the positions of the pool-asset) proved as an inductive invariant of all eleven lend "
               "messages (same-pool and cross-pool) and of the hand-over of a position to a liquidation auction, and lifted to every finite history with arbitrary "
               "oracle prices and arbitrary interest / reward / liquidation-decision inputs OUTSIDE known-finding class kf_C08_2; inside it (the hand-over deletes a "
               "lend record that still has available-to-borrow or other open positions) the identity of total lent is proved refuted with a witness replayed on "
               "the real keepers (2 000 313 940 published vs 2 000 000 000 held by positions); AvailableToBorrow >= 0 in every reachable state; "
               "loan-to-value decision rule of Borrow / Draw / BorrowAlternate with the explicit one-ulp Quo slack (and the bridged-coin bound for new "
               "cross-pool positions), pool-holds-the-loan and pledged-collateral safety of Withdraw / CloseLend proved per message from any invariant "
               "state, hence after every history. Finding C08-F1 (BorrowAsset accepted a lend position of another asset than the pair's asset in and priced "
               "the pledged cTokens with it: loan worth 100% of the collateral at Ltv 0.5) was reproduced on the real keepers and is repaired by "
               "fixes/C08-F1; the model follows the repaired code, 'no position hangs on a lend position of another asset' is part of the proved invariant, "
               "the witness stays as a scripted workload. The model is tied to /repo by a differential run through the real lend message server on every check.",
    design_ref="DESIGN.md section 4 C08",
    level_note="Trusted: Coq kernel, extraction (ExtrOcamlBasic), OCaml runner, Go harness. Interest arithmetic is an environment input (C18). "
               "The liquidation decision is an environment input (C09); auction close / return of a handed-over position and the governance / funding "
               "messages are not modelled (listed in the evidence). No axioms (Closed under the global context).",
    technique="Coq proof (inductive invariants over message histories, decision rules with explicit Dec rounding) + model/implementation correspondence run",
)
