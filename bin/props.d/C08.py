PROP = dict(
        coq="Properties/C08.v",
        workloads=[
            dict(name="lend-histories", go_test="TestC08", runner="C08",
                 env=dict(quick=dict(VERIF_CASES=250), thorough=dict(VERIF_CASES=6000))),
            dict(name="lend-witness", go_test="TestC08Witness", runner="C08"),
        ],
        rule="case = one history of 20-50 messages (lend / deposit / withdraw / close-lend / borrow / borrow-alternate / deposit-borrow / draw / "
             "repay / close-borrow / calculate-interest-and-rewards) by 3 users over 2 pools x 3 assets with 12 same-pool and 5 cross-pool pairs "
             "(one e-mode pair, one isolated asset, stable borrows), oracle moves and time gaps of 0 s .. 4 years between messages; amounts "
             "boundary-directed (available +-1, LTV threshold +-1/+2, pool balance +-1, interest / reserve-share truncations +-1, exact close-out); "
             "non-trivial = at least one borrow succeeded in the history; distinct by digest of the message sequence",
        modelled=["interest arithmetic (CalculateLendReward / CalculateBorrowInterest / APR, C18's subject) enters as ENV values measured on a throw-away "
                  "cache context at the block time of the message; what IterateLends/IterateBorrow DO with them is modelled",
                  "not modelled, never issued by the generator: FundModAcc, FundReserveAcc (RemoveFaultyAuctions), RepayWithdraw, DeletePoolAndTransferInterest, "
                  "liquidation hand-over (UpdateLockedBorrows / CreteNewBorrow), ESM kill switch, pool depreciation",
                  "reserve buy-back / AllReserveStats / FundModBal records are not projected",
                  "sort.Search (binary) modelled as first index with ids[i] >= id; equal on ascending lists, and the id lists are proved ascending"],
        assumptions=["amounts below 2^62 (sdk.Int 256-bit overflow and Int64() conversions of the rate arithmetic are outside the model)",
                     "plain accounts only (no vesting / blocked recipients)",
                     "governance records (pools, pairs, rate params, app mapping) constant during a history"],
    )

MANIFEST = dict(
    level_text="Both book invariants (total lent = available + pledged-and-not-auctioned collateral; totals borrowed = principal of open non-liquidated "
               "borrows; id lists = exactly the open positions) proved for every finite history of the eleven lend messages with arbitrary oracle "
               "prices and arbitrary interest/reward inputs; loan-to-value decision rule with explicit Quo rounding slack, pool-holds-the-loan and "
               "pledged-collateral safety proved per message. The LTV clause is proved refuted when the lend position is of another asset than the "
               "pair's asset in (BorrowAsset never checks it) and is listed as a known finding. The model is tied to /repo by a differential run "
               "through the real lend message server on every check.",
    design_ref="DESIGN.md section 4 C08",
    level_note="Trusted: Coq kernel, extraction (ExtrOcamlBasic), OCaml runner, Go harness. Interest arithmetic is an environment input (C18).",
    technique="Coq proof (invariants by induction over histories, decision rules) + model/implementation correspondence run",
)
