PROP = dict(
        tie_coq=["Properties/TieC08.v"],
        coq="Properties/C08.v",
        workloads=[
            dict(name="lend-histories", go_test="TestC08", runner="C08",
                 env=dict(quick=dict(VERIF_CASES=250), thorough=dict(VERIF_CASES=4000))),
            # scripted regression corpus: the witness of the repaired finding C08-F1
            dict(name="lend-witness", go_test="TestC08Witness", runner="C08"),
            # scripted witness of the known finding C08-F2 (hand-over deletes a live lend record)
            dict(name="lend-handover-witness", go_test="TestC08Handover", runner="C08"),
            # scripted witnesses of the known finding C08-F3 (the generation-2 close books / forwards more than the auction
            # recovered: accrued interest; e-mode penalty) and of C10-F7 seen from the lend books (a close that can never succeed)
            dict(name="lend-close-witness", go_test="TestC08Close", runner="C08"),
        ],
        rule="case = one history of 20-50 messages (lend / deposit / withdraw / close-lend / borrow / borrow-alternate / deposit-borrow / draw / "
             "repay / close-borrow / repay-withdraw / fund-module-accounts / fund-reserve-accounts / calculate-interest-and-rewards, esm kill-switch toggles (about 1 message in 6 runs under an active switch), "
             "a pool-depreciation proposal in the second half of some histories, hand-overs of positions to the liquidation auction through "
             "liquidationsV2 MsgLiquidateInternalKeeper, two thirds of them after a crash of the collateral price, and market bids (auctionsV2 MsgPlaceMarketBid by a bidder outside the projection: "
             "closing, exact, partial, one coin, dust-leaving; half of them after the real auctionsV2 BeginBlocker) on the generation-2 auctions of the handed-over positions, the closing bid "
             "running liquidationsV2 MsgCloseDutchAuctionForBorrow on the real lend keeper) by 3 users over 2 pools x 3 assets with 12 same-pool and 5 cross-pool pairs "
             "(one e-mode pair, one isolated asset, stable borrows), oracle moves and time gaps of 0 s .. 4 years between messages; amounts "
             "boundary-directed (available +-1, LTV threshold +-1/+2, pool balance +-1, interest / reserve-share truncations +-1, exact close-out), "
             "one borrow in ten names a lend position of another asset of the pool (C08-F1); plus the scripted witnesses of C08-F1, C08-F2, C08-F3 / C10-F7 and C08-F4; "
             "after EVERY message the full projection (pool-asset stats, every lend / borrow record, balances, cToken supplies, counters) is diffed "
             "against the model and the extracted predicates holds_C08_lend / holds_C08_borrow / holds_C08_avail / mismatched_lend (all positions) and, for a successful "
             "borrow / draw / withdraw / close-lend, holds_C08_ltv / holds_C08_ltv_new / holds_C08_pool / holds_C08_pledged judge the implementation's state; "
             "for a successful close holds_C08_target (the auction's target debt is the hand-over's formula), 'the position is gone' and the close rule holds_C08_close (the pools' "
             "holdings of the asset out grow by the returning principal plus the growth of TotalInterestAccumulated; a failure counts as known only inside kf_C08_3), for a successful "
             "repay-withdraw holds_C08_pledged on the state after its CloseBorrow half (computed from the OBSERVED pre-state); "
             "a books failure is suppressed only after a successful message of class kf_C08_2 in the same history; "
             "non-trivial = at least one borrow succeeded (or a position was handed over / closed) in the history; distinct by digest of the message sequence",
        modelled=["interest arithmetic (CalculateLendReward / CalculateBorrowInterest / APR, C18's subject) enters as ENV values measured on a throw-away "
                  "cache context at the block time of the message (arbitrary in the theorems); what IterateLends/IterateBorrow DO with them is modelled",
                  "the liquidation hand-over (liquidationsV2 LiquidateIndividualBorrow -> UpdateLockedBorrows) is modelled as coded in its effect on the lend "
                  "books; its DECISION (ratio above the liquidation threshold, C09's subject) and the interest of IterateBorrowForLiq are ENV values the harness "
                  "measures with the keeper's own functions; CreateLockedVault / AuctionActivator write liquidation / auction state only (not projected)",
                  "the life of a handed-over position: market bids on its generation-2 auction that do not close it (no effect on the lend state) and the closing bid "
                  "(auctionsV2 PlaceDutchAuctionBid -> liquidationsV2 MsgCloseDutchAuctionForBorrow, modelled as coded: target debt to the asset-out pool, penalty - recomputed, e-mode "
                  "penalty for an e-mode pair - and reserve share of the interest to the reserve, cToken mint + TotalInterestAccumulated for the rest of the interest, bridged coins back to "
                  "the lend position's pool (GetLend without found check: finding C10-F7), deletion of the borrow record, tracker, published id and user-mapping id). Auction internals are "
                  "ENV values measured on the real run: accepted / rejected / closing (a failing bid is attributed to the close iff a dry run shows the bid counter advanced, the last step "
                  "before the close), the locked vault's TargetDebt (checked against the model's target_of), the owner and the unsold collateral returned to the owner; the debt coins "
                  "arrive in the pool from the auction module account, whose own ledger (bidders, app reserve top-up) is C10's subject",
                  "MsgRepayWithdraw (CloseBorrow then WithdrawAsset of the position's collateral in the lend position's denom), MsgFundModuleAccounts (FundModAcc: transfer before the "
                  "checks, cToken mint, no stats) and MsgFundReserveAccounts (FundReserveAcc) are modelled as coded; FundModBal / FundReserveBal records are not projected; "
                  "RemoveFaultyAuctions (inside FundReserveAcc) walks the generation-1 lend auctions of app 3, of which none can exist here (not modelled)",
                  "a closed position is never returned to the lend books on this tree: the generation-2 close deletes the borrow record and nothing re-opens it; lend CreteNewBorrow is "
                  "called only by the generation-1 x/liquidation UnLiquidateLockedBorrows (reached through x/auction MsgPlaceDutchLendBid)",
                  "the generation-1 hand-over message x/liquidation MsgLiquidateBorrow (still routed; the fixture gives the lend app generation-1 auction parameters) is modelled in its effect on "
                  "the lend books as coded (flag + interest, deduction from the borrow's collateral / the lend record's AmountIn / TotalLend capped by the collateral, cToken burn of the uncapped "
                  "deduction, coins to the generation-1 auction module account and penalty to the reserve, NO change of the totals borrowed: finding C08-F4); its result class, the interest "
                  "added and the three sell-off amounts are ENV values measured on a dry run of the message itself; issued in one history out of eight, in its second half, after a fall of the "
                  "collateral price to just below the position's liquidation threshold; the book predicates count as known-class failures (kf_C08_4) for the rest of such a history",
                  "not modelled, never issued by the generator: the life of a generation-1 auction (x/auction lend auctions and bids, x/liquidation UnLiquidateLockedBorrows with its "
                  "re-listing, lend CreteNewBorrow = the return of an unsold position, RemoveFaultyAuctions' loop body): a position flagged by generation 1 stays flagged in the histories; "
                  "DeletePoolAndTransferInterest (block hook at heights divisible by 14400, deletes pool records: "
                  "pools are constant configuration in the model; the harness skips those heights), limit bids / the automatic fill (C11)",
                  "the ESM kill switch of an app (esm MsgKillSwitch by an admin or - refused - by somebody else, for the lend app, another app, a missing app) and the depreciation of "
                  "a pool (lend HandlePoolDepreciateProposal, run all-or-nothing like a passed governance proposal) are state in the model; every handler's early return on them "
                  "(LendAsset, DepositAsset, WithdrawAsset, CloseLend, BorrowAsset, DepositBorrowAsset, DrawAsset, RepayAsset, CloseBorrow, BorrowAlternate, MsgCalculateBorrowInterest, "
                  "MsgCalculateLendRewards, liquidationsV2 LiquidateIndividualBorrow) is modelled at its place in the handler, so that a dropped or misplaced check shows as a "
                  "result-class or projection mismatch",
                  "reserve buy-back / AllReserveStats / FundModBal records are not projected",
                  "sort.Search (binary) modelled as first index with ids[i] >= id; equal on ascending lists, and the id lists are proved ascending (= filter of 1..n)",
                  "the pool-holds-the-loan predicate is evaluated on the message's pre-state for Draw and for a Borrow that opens a position; for DepositDraw "
                  "top-ups and BorrowAlternate the theorem speaks about the state after the deposit half, which the implementation does not expose"],
        assumptions=["amounts below 2^62 (sdk.Int 256-bit overflow and Int64() conversions of the rate arithmetic are outside the model)",
                     "plain accounts only (no vesting / blocked recipients)",
                     "governance records (pools, pairs, rate params, app mapping) constant during a history; asset decimals > 0, Ltv/ELtv >= 0 (cfg_wf)",
                     "oracle prices unsigned (uint64 Twa)",
                     "interest is counted as the code counts it: floor(InterestAccumulated) whole coins"],
    )

MANIFEST = dict(
    level_text="PARTIAL (known findings C08-F2, C08-F3, C08-F4). Both book identities (total lent = available + pledged-and-not-auctioned collateral; totals borrowed variable/stable = principal of open "
               "non-liquidated borrows; published id lists = exactly the positions of the pool-asset) proved as an inductive invariant of all eleven lend "
               "messages (same-pool and cross-pool), of MsgRepayWithdraw / MsgFundModuleAccounts / MsgFundReserveAccounts, of the hand-over of a position to a liquidation auction and of the "
               "bids on and the close of its generation-2 auction (for every target debt / owner / returned collateral the auction may supply), and lifted to every finite history with arbitrary "
               "oracle prices and arbitrary interest / reward / liquidation-decision inputs OUTSIDE the known-finding classes kf_C08_2 and kf_C08_4 (the generation-1 hand-over message "
               "x/liquidation MsgLiquidateBorrow, still routed, flags a position and leaves its principal in the totals borrowed: refuted with a witness replayed on the real keepers, "
               "total borrowed 900 000 with the only position under liquidation); inside kf_C08_2 (the hand-over deletes a "
               "lend record that still has available-to-borrow or other open positions) the identity of total lent is proved refuted with a witness replayed on "
               "the real keepers (2 000 313 940 published vs 2 000 000 000 held by positions); AvailableToBorrow >= 0 in every reachable state; "
               "the close of a handed-over position: the position is gone from records / published ids / user mapping, nothing returns to the lend position, exact flows of the asset out "
               "through the pools (c08_close_flow), and the close rule 'the pools receive the returning principal plus what the close adds to TotalInterestAccumulated' proved outside "
               "known-finding class kf_C08_3 and refuted inside it with two witnesses replayed on the real keepers (accrued interest is booked and its reserve share forwarded although the "
               "target debt carries none: pool 999 999 848 vs total lent 1 000 000 000 with nothing lent out, the lender's CloseLend refused; e-mode penalty 8 % forwarded where 5 % was "
               "collected: pool 30 000 short); a cross-pool position whose lend record the hand-over deleted can never be closed (c08_close_stuck, finding C10-F7); "
               "with the ESM kill switch on no lend message, RepayWithdraw or hand-over changes the state, a depreciated pool takes no new funds or debt (c08_kill_switch_freezes, c08_depreciated_pool_closed); "
               "loan-to-value decision rule of Borrow / Draw / BorrowAlternate with the explicit one-ulp Quo slack (and the bridged-coin bound for new "
               "cross-pool positions), pool-holds-the-loan and pledged-collateral safety of Withdraw / CloseLend / RepayWithdraw proved per message from any invariant "
               "state, hence after every history. Finding C08-F1 (BorrowAsset accepted a lend position of another asset than the pair's asset in and priced "
               "the pledged cTokens with it: loan worth 100% of the collateral at Ltv 0.5) was reproduced on the real keepers and is repaired by "
               "fixes/C08-F1; the model follows the repaired code, 'no position hangs on a lend position of another asset' is part of the proved invariant, "
               "the witness stays as a scripted workload. The model is tied to /repo by a differential run through the real lend message server on every check.",
    design_ref="DESIGN.md section 4 C08",
    level_note="Trusted: Coq kernel, extraction (ExtrOcamlBasic), OCaml runner, Go harness. Interest arithmetic is an environment input (C18). "
               "The liquidation decision is an environment input (C09); auction internals (bid acceptance, target debt, returned collateral) are environment inputs (C10); "
               "the generation-1 liquidation / auction modules and the pool-deletion block hook are not modelled (listed in the evidence). "
               "No axioms (Closed under the global context).",
    technique="Coq proof (inductive invariants over message histories, decision rules with explicit Dec rounding) + model/implementation correspondence run",
)
