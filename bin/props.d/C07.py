PROP = dict(
        coq="Properties/C07.v",
        workloads=[
            dict(name="liquidity-orders", go_test="TestC07", runner="C07",
                 env=dict(quick=dict(VERIF_CASES=40), thorough=dict(VERIF_CASES=600))),
            dict(name="keeper-f1", go_test="TestC05KeeperHunt", runner="C07",
                 env=dict(quick=dict(VERIF_CASES=2), thorough=dict(VERIF_CASES=20))),
        ],
        rule="case = (3 apps with swap fee rate drawn from {0, 0.003, 0.3} and market-making tick counts {2,3,10}, 1-3 pairs per app so that app id "
             "and pair id vary independently over {1,2,3}x{1,2,3}, optional basic pool per pair, then 3-8 batches of 10-40 ops: limit / market / "
             "market-making orders (buy and sell, prices -9%..+9% around the last price in 0.5% steps and far outside, amounts 100..5e7, offer coin "
             "exact / +1 / short, lifespans 0..100000 s), cancel / cancel-all / cancel-market-making by owners and strangers, each batch closed by the "
             "real EndBlocker and BeginBlocker with time advancing 7-20 s); 75% of the orders get an account of their own so that balance deltas are "
             "attributable per order; non-trivial = at least one order was filled and at least one block boundary was crossed; distinct by digest of the "
             "op kinds and result classes. The same pair id names DIFFERENT coins in different apps (pair definitions rotated per app) and 4% of the limit orders "
             "carry the coins of another app's pair with the same id. In 45% of the cases one pair is reserved for an ORDER-LIFE scenario: a long-lived order T "
             "(buy 65% / sell, a limit order or the single tick of a market-making order, price*amount fractional) and a counter order for 30-70% of it at T's own "
             "price (T partially matched in its first batch), next batch two orders that trade with each other 1-4% beyond T (the last price moves past T), then 1-3 "
             "ladders of 2-5 small counter orders on different ticks from T's price on (T is matched several times in ONE batch at its own price, each fill rounded "
             "on its own, the last ladder offering more than T has left); 8% of the random ops are such ladders across the price of any resting order. Before every "
             "EndBlocker the harness observes, on a throw-away cache context, what ExecuteMatching is about to compute for every pair through the REAL "
             "types.NewUserOrder and keeper.Match (the amm order built from every stored order; every order's fill), and after it whether each app's batch ids "
             "advanced (ApplyFuncIfNoError swallows errors and panics: a rolled-back batch leaves no other trace). The runner diffs NewUserOrder's output against "
             "Liquidity.user_order_amm of the stored record, the set of orders put on the book against Liquidity.on_book, the applied fills against the engine's, the "
             "executed flags against Liquidity.end_block_trace, and evaluates holds_C05_life (a batch's payment <= REMAINING offer coin before it, matched <= open "
             "amount) on the engine's and on the applied fills, holds_C07_life / holds_C07_life_step on every observed order record. Workload keeper-f1 = the directed search of C05 (known finding C05-F1 reached through the keeper by one limit order against small pools at low prices) judged by the C07 predicates: the escrow decomposition relative to the recorded fills (kf_C05_1_via_fills) and the executed flags (kf_C05_2_stall). 5% of the order ops are WRONG-COIN orders and 60% of the cases carry a battery of 5-10 of them at the prices of a resting buy and a resting sell order, followed by counter orders that cross those (limit / market orders whose coins are wrong in one position at a time: right demand coin with a foreign offer coin, right offer coin with a foreign demand coin, swapped, both foreign, the same coin twice; foreign = the third asset of the app, the fee asset, a pool coin of this or another app; the sender holds the offered coin and price / amounts are valid, so the pair check of ValidateMsgLimitOrder / ValidateMsgMarketOrder decides; all must be rejected and change nothing). The escrow decomposition and the fee-collector clause are evaluated per DENOM over the pair's two coins, every asset and every coin an accepted order offers. Cases 0 and 1 start with the regression history of C07-F1 (market-making orders in app 2 / pair 1 resp. app 1 / "
             "its highest pair: place, next batch MsgCancelMMOrder, place again, replace by a second MsgMMOrder)",
        modelled=["the matching engine (amm.Match / FindMatchPrice, C05's subject): the fills of every batch (order id, matched amount, paid offer coin, "
                  "received demand coin), the pools' net reserve changes and the dust are read off the implementation's records and enter the model as ENV; "
                  "the theorems hold for every ENV",
                  "pool share arithmetic (amm.Deposit / Withdraw / Create*Pool, C06's subject): accepted / withdrawn / minted amounts are ENV",
                  "sdk.Int 256-bit overflow panics (amounts stay below 10^40)", "gas, events, order / request indexes other than the market-making index",
                  "evaluated on the implementation but not proved: holds_C07_account (an account's balance change is explained by the records of all orders "
                  "it placed, across deletions) and holds_C07_feecoll (a pair's fee collector holds the executed-portion fees of its terminated orders); "
                  "their per-order / per-step forms are the theorems c07_settled, c07_*_on_ledger"],
        assumptions=["an app's liquidity parameters are registered once before its first pair (parameter updates by governance are outside the histories)",
                     "a rolled-back batch (endblock_batch_executed) is reported as a predicate failure: on the unchanged tree no history of the workload makes ExecuteRequests fail", "0 <= swap fee rate (enforced by the parameter validation; hypothesis params_ok of c07_cancellable)",
                     "plain accounts only (no vesting / blocked addresses)",
                     "c07_cancellable / c07_nothing_left are relative to C05: they carry the net of the recorded fills of the pair (surplus) explicitly"],
    )

MANIFEST = dict(
    level_text="Executable Gallina model of the order life cycle of x/liquidity (placement of limit / market / market-making orders with their tick and "
               "price-limit arithmetic, ApplyMatchResult, FinishOrder / FinishMMOrder, expiry and too-small sweep, Cancel, CancelAll, CancelMMOrder, "
               "DeleteOutdatedRequests) with a ghost per order (taken, returned offer, returned fee, received, forwarded fee, fills). Proved for every "
               "finite history of operations with any matching results, by a generic sweep over the model's leaf transitions: the per-order accounting "
               "identity (taken = offer + floor(offer*rate); returned = unspent offer + unattributable fee; received = sum of fills), the ledger movements "
               "behind each ghost, the exact decomposition of every pair escrow into the shares of its live orders plus the net of the recorded fills "
               "(nothing of a terminated order remains), an order's whole life across batches (each fill's payment covered by what was left before it, total paid <= offer "
               "coin, remaining offer coin = offer - paid >= 0; what a batch may book is bounded by the offer-coin bound of the amm order NewUserOrder builds from the "
               "record), the per-app executed / rolled-back trace of the end block, cancellability outside the placement batch, and completeness of the market-making index (cancel / "
               "replace cancels every live market-making order of the owner in the pair, for every app id / pair id). The defect C07-F1 (app id and pair id "
               "swapped in cancelMMOrder) was reproduced on the real keeper and repaired (fixes/C07-F1); the model follows the repaired code and the witness "
               "runs first in every check. The model is tied to /repo by a differential run of the real msg server, BeginBlocker and EndBlocker on every "
               "check, and the extracted predicates judge the implementation's balances, records and escrow / fee-collector accounts after every step.",
    design_ref="DESIGN.md section 4 C07",
    level_note="Trusted: Coq kernel, extraction (ExtrOcamlBasic), OCaml runner, Go harness. Matching results and pool share arithmetic enter as ENV "
               "(subjects of C05 / C06); the escrow clauses state their dependence on the conservation of the recorded fills explicitly. No axioms "
               "(Closed under the global context).",
    technique="Coq proof (invariants by induction over op histories through a generic leaf-transition sweep) + model/implementation correspondence run",
)
