PROP = dict(
        coq="Properties/C15.v",
        tie_coq=["Properties/TieC15.v", "Properties/TieC17.v"],  # TieC17: c15_unwrapped_total_partial rests on Market.mrun (market hook never panics)
        workloads=[
            dict(name="hooks", go_test="TestC15", runner="C15",
                 env=dict(quick=dict(VERIF_STRIDE=7), thorough=dict(VERIF_STRIDE=1)),
                 timeout=dict(quick=600, thorough=3000)),
        ],
        rule="case = (prepared state in {vaults+borrows liquidatable, V2 auctions running / expired, V1 auctions running / expired, "
             "liquidity batch executed, V2 auctions running + collector lookup table with a surplus-auction mapping}, environment fault in "
             "{none, inactive / zero / 2^64-1 prices, drained module accounts, liquidity batch size 0, liquidation batch size 2^63-1 / "
             "2^63 / 2^64-1 set through the parameter-change proposal handler after vaults were created by messages past the stored sweep "
             "offset, English auctions switched off in the app's liquidation whitelisting, and - FABRICATED, model validation only - vault "
             "counter +1 / +random / -1 set directly through the keeper}) with all 13 block hooks called directly, or a HISTORY of the unwrapped "
             "market hook (window size 1-4, accepted gap 0 / 20 / 40 / 60 blocks, oracle answers that go to zero for fewer / exactly / more "
             "blocks than the gap with the ring index anywhere in the window, refill, answer lists shorter / longer than the list of priced "
             "assets, discard requests; one hook line per block), or (hook, state) with a "
             "failure injected at store-gas consumption k of the hook run (quick: first / last / every 7th k of every ApplyFuncIfNoError "
             "instance and of every unwrapped unit; thorough: every k), or an ERROR case: a reachable state in which a unit RETURNS AN ERROR "
             "after it has written - v2.vault (a vault on a fixed-price extended pair whose debt asset has no oracle price: collateral sent, "
             "locked vault stored, then the dutch auction cannot start), v2.borrow (another borrower has taken the pool's collateral-asset "
             "liquidity: borrow marked liquidated, then the collateral transfer fails; a smaller borrow of the same sweep succeeds), "
             "v2.surplusdebt (English auctions off: lot taken from the collector, then the auction is refused; a second mapping of the same app follows in the sweep and must still be reached), v2.auction (English surplus "
             "auction with a bid past its end, app without token-mint record: lot and bid moved, then the burn fails), v2.limitbid (two limit "
             "bids at one premium of an under-collateralised auction with a tiny app reserve: the first (a quarter of the debt) is filled, the second (twice the debt) - placed on the auction as the first left it (fixes/C10-F6) - runs out of collateral and fails on the reserve), rewards.hook (two locker reward "
             "programmes, kill switch on the later one's app: first programme paid, then the step fails), esm.hook (vault app under shutdown "
             "with a vault whose debt asset has neither rate nor snapshot: earlier vaults moved and deleted, then the step fails); "
             "non-trivial = the hook changed state (env case), performed store accesses (crash case) or a unit reported failure after "
             "writing (error case); distinct by (kind, state, fault / hook / unit)",
        modelled=["recover() and CacheContext themselves (Lib/Atomic.v), validated by the crash-point runs; types/utils.go ApplyFuncIfNoError is "
                  "read statement by statement by the translator (apply_func_shape) and proved equal to Atomic.apply "
                  "(c15_apply_func_is_atomic); the runner evaluates the same shape on a two-point store (Hooks.table_says_apply_atomic)",
                  "how every ApplyFuncIfNoError closure treats the error of each call in it (OnErr ReturnsCallErr | SwallowsErr | "
                  "UnrecognisedErr frames of the regenerated table, tools/goextract/emit_hooks_errflow.go): recognised shapes are "
                  "`return f()`, `[x,] err := f()` followed by `if err != nil { ...; return E }` or `return err`, and the if-with-init form, "
                  "with E the error itself / fmt.Errorf / errors.New / a Wrap of it / a package-level error variable; everything else that "
                  "drops the error is SwallowsErr, unread shapes are UnrecognisedErr and fail the theorem. The error flow INSIDE the per-item "
                  "functions (LiquidateIndividualVault ...) is not read: a unit 'reports failure' when its per-item call returns an error",
                  "error cases: the reference for 'the failing unit contributed nothing, every other unit everything' is the run in which "
                  "the same ApplyFuncIfNoError instance panics at its first store access; which items fail, and whether after writing, is "
                  "established without the hook by calling the unit's exported per-item function on a branch of the store (for the two "
                  "closures written inline - AuctionIterator, LimitOrderBid - through a transcription of the closure's dispatch); the "
                  "runner compares Hooks.table_says_propagates && table_says_apply_atomic with 'the failing unit's cache was not written back'",
                  "error control flow of unwrapped code is not part of the table (conditionals are flattened)",
                  "reads, single store writes and bandoracle.FetchPrice outside wraps are taken as total (JStoreWrite / JBand)",
                  "the sweep window is modelled with Go's int64 wrap-around and the callers' int(uint64) conversions of the stored counter, "
                  "offset and batch size (Model/Sweep.v: slice_bounds, sweep_window, sweep_slice_stored); the runner compares "
                  "'model predicts the slice expression panics' (Sweep.slice_panics_stored) with 'the hook panicked' on every "
                  "liquidation hook run, in both directions",
                  "the V2 surplus / debt trigger is reached by the harness (state p2s) and judged through its own projection: the hook's "
                  "liquidate_err event, the collector module balance, the net fees, the locked-vault and auction id counters and the "
                  "mapping's active flag before / after the hook (Hooks.trigger_obs_diff), and through crash points inside it"],
        assumptions=["reachability hypothesis of the sweep theorems: the length the vault sweeps pass as sliceLen (the stored LengthOfVault "
                     "counter) does not exceed the capacity of GetVaults() - it follows from C01's invariant 'vault count = number of open "
                     "vaults' (every wired path that adds or removes a vault moves the counter with it; the only double increment, "
                     "auction/keeper/dutch.go RestartDutchAuctions, runs only from the first-generation auction BeginBlocker, which is not "
                     "wired on this tree). FALSE ALARM CORRECTED: the former finding 'counter above the capacity makes totalVaults[start:end] "
                     "panic' was reached only by setting the counter directly through the keeper (faults counter-high / counter-high-1 / "
                     "counter-low): an unreachable state is outside the property's quantifier, so it is no longer a finding; those cases are "
                     "declared 'fabricated' in the trace and only validate the model of the slice expression (theorem c15_slice_panics_iff: "
                     "the expression panics only if counter > capacity), and the runner checks counter <= capacity on every other state",
                     "every module's parameters are present in the parameter store (written by InitGenesis, also for modules added by an "
                     "upgrade; no message deletes them) - GetParams in the unwrapped prologue of the sweeps is total under it",
                     "failures are injected as panics at store accesses (out-of-gas at access k), as environment faults and as reachable "
                     "failing-late inputs (error cases); out-of-memory, stack overflow and fatal errors are outside every model",
                     "no reachable failing-late input exists for: liquidity.batch / liquidity.cleanup (ExecuteRequests, ProcessQueuedFarmers, "
                     "DeleteOutdatedRequests, ConvertAccumulatedSwapFeesWithSwapDistrToken have no error result; internal errors panic), "
                     "lend.hook (DeletePoolAndTransferInterest only fails when a transfer of a balance just read fails), UpdateDutchAuction / "
                     "RestartDutchAuction / RestartEnglishAuction (their only write is the last statement); the first-generation hooks are not "
                     "wired: their closures are tied by the table and the crash points only",
                     "esm error case: the deposit target is set through SetCurrentDepositStats (the state MsgDepositESM leaves on an app "
                     "with a governance token; the fixture's apps have none), the rest through AddESMTriggerParamsForApp / ExecuteESM / the hook",
                     "hooks are called directly with the keepers of a fresh app (the V1 liquidation / auction hooks are not wired into "
                     "AppModule.BeginBlock on this tree; Example c15_wiring)"],
    )

MANIFEST = dict(
    level_text="All-or-nothing of every ApplyFuncIfNoError unit proved generically (for every body, every behaviour of its calls, every crash "
               "point) over Lib/Atomic.v, together with 'the remaining units are still processed' and 'a hook halts only through a leaf outside "
               "every wrap'; the shape of all 13 block hooks and of the sweeps they reach is regenerated from the Go source on every check and the "
               "table theorems (EVERY unit the property names is wrapped per item - no exempted class; every unwrapped leaf is a read or "
               "registered with a justification; no unrecognised shape; no unknown hook) are proved by computation over it. The sweep window "
               "(GetSliceStartEndForLiquidations + reset + int(uint64) conversions + slice expression, int64 wrap included) is proved in range "
               "for every stored offset and every stored batch size when counter <= capacity (reachable states), and the slice expression is "
               "proved to panic only if counter > capacity. The error-return half ('or reports failure'): ApplyFuncIfNoError as read from "
               "types/utils.go is proved to be Atomic.apply; a closure that hands a call's error on leaves the store unchanged when the call "
               "reports failure after any writes (c15_error_after_writes_noop), in general no store on which a failure was reported is ever "
               "committed by a body all of whose OnErr frames hand the error on (c15_no_failure_committed), a closure that drops the error "
               "provably commits the partial store (c15_swallowed_error_commits_refuted, c15_apply_variants_refuted); over the regenerated "
               "table every call of every unit - and every non-read leaf under any wrap of the 13 hooks - hands its error on "
               "(c15_units_propagate_errors, c15_wrapped_writes_propagate). Five defects reproduced on the real code and repaired: the V2 borrow sweep not "
               "wrapped per item (C15-F1, fix C09-F3), offset+batchSize overflowing int for batch size 2^63-1 (C15-F2), the V2 surplus / debt "
               "trigger not wrapped per (app, asset) (C15-F3), the incentive hook and the emergency-shutdown hook committing the partial writes of a step "
               "that reported failure (C15-F4, C15-F5: one closure that logged / skipped the step's error); their witnesses are regression "
               "examples and harness cases. Tied to /repo by the "
               "regenerated table, by crash-point enumeration on the real hooks, by seven reachable failing-late (error-return) cases and by "
               "the slice-panic prediction on every liquidation hook run.",
    design_ref="DESIGN.md section 4 C15",
    level_note="c15_unwrapped_total_partial is partial: reads / single store writes / ibc send outside wraps are modelled as total; the sweep "
               "theorems carry the reachability hypothesis counter <= capacity (C01). No known-finding class remains. No axioms.",
    technique="Coq proof (generic atomicity over a hook language + finite table by vm_compute/forallb_forall + arithmetic lemmas) + translated "
              "hook-shape table incl. closure error flow and the shape of ApplyFuncIfNoError + crash-point enumeration and reachable "
              "error-return cases against the real hooks",
)
