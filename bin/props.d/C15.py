PROP = dict(
        coq="Properties/C15.v",
        workloads=[
            dict(name="hooks", go_test="TestC15", runner="C15",
                 env=dict(quick=dict(VERIF_STRIDE=7), thorough=dict(VERIF_STRIDE=1)),
                 timeout=dict(quick=600, thorough=3000)),
        ],
        rule="case = (prepared state in {vaults+borrows liquidatable, V2 auctions running / expired, V1 auctions running / expired, "
             "liquidity batch executed}, environment fault in {none, inactive / zero / 2^64-1 prices, drained module accounts, "
             "vault counter +1 / +random / -1, liquidity batch size 0}) with all 13 block hooks called directly, or (hook, state) "
             "with a failure injected at store-gas consumption k of the hook run (quick: first / last / every 7th k of every "
             "ApplyFuncIfNoError instance and of every unwrapped unit; thorough: every k); non-trivial = the hook changed state "
             "(env case) or performed store accesses (crash case); distinct by (kind, state, fault / hook)",
        modelled=["recover() and CacheContext themselves (Lib/Atomic.v), validated by the crash-point runs",
                  "error control flow of unwrapped code is not part of the table (conditionals are flattened)",
                  "reads, single store writes and bandoracle.FetchPrice outside wraps are taken as total (JStoreWrite / JBand)",
                  "the V2 surplus / debt trigger (kf_C15_3) is decided on the table only: the harness state has no collector lookup entry"],
        assumptions=["every module's parameters are present in the parameter store (written by InitGenesis, also for modules added by an "
                     "upgrade; no message deletes them) - GetParams in the unwrapped prologue of the sweeps is total under it",
                     "failures are injected as panics at store accesses (out-of-gas at access k) and as environment faults; "
                     "out-of-memory, stack overflow and fatal errors are outside every model",
                     "hooks are called directly with the keepers of a fresh app (the V1 liquidation / auction hooks are not wired into "
                     "AppModule.BeginBlock on this tree; Example c15_wiring)"],
    )

MANIFEST = dict(
    level_text="All-or-nothing of every ApplyFuncIfNoError unit proved generically (for every body, every behaviour of its calls, every crash "
               "point) over Lib/Atomic.v, together with 'the remaining units are still processed' and 'a hook halts only through a leaf outside "
               "every wrap'; the shape of all 13 block hooks and of the sweeps they reach is regenerated from the Go source on every check and the "
               "table theorems (every unit the property names is wrapped per item; every unwrapped leaf is a read or registered with a "
               "justification; no unrecognised shape; no unknown hook) are proved by computation over it. The sweep window "
               "(GetSliceStartEndForLiquidations + reset + slice expression, int64 wrap included) is proved in range when counter <= capacity "
               "and offset+batch does not overflow. The V2 borrow sweep, formerly not wrapped per item (C15-F1), is wrapped after fix C09-F3 and "
               "its unit is now part of the proved table theorem and of the crash-point runs. Refuted with witnesses and listed as known findings: "
               "counter > capacity and offset+batch overflow make the unwrapped slice expression panic. Tied to /repo by the regenerated table and by crash-point enumeration on the real hooks.",
    design_ref="DESIGN.md section 4 C15",
    level_note="c15_units_wrapped_partial and c15_unwrapped_total_partial are partial: class kf_C15_3 (V2 surplus/debt "
               "trigger, table only) is excluded; reads / single store writes / ibc send outside wraps are modelled as total. No axioms.",
    technique="Coq proof (generic atomicity over a hook language + finite table by vm_compute/forallb_forall + arithmetic lemmas) + translated "
              "hook-shape table + crash-point enumeration against the real hooks",
)
