PROP = dict(
        coq="Properties/C15.v",
        workloads=[
            dict(name="hooks", go_test="TestC15", runner="C15",
                 env=dict(quick=dict(VERIF_STRIDE=7), thorough=dict(VERIF_STRIDE=1)),
                 timeout=dict(quick=600, thorough=3000)),
        ],
        rule="case = (prepared state in {vaults+borrows liquidatable, V2 auctions running / expired, V1 auctions running / expired, "
             "liquidity batch executed, V2 auctions running + collector lookup table with a surplus-auction mapping}, environment fault in "
             "{none, inactive / zero / 2^64-1 prices, drained module accounts, liquidity batch size 0, liquidation batch size 2^63-1 / "
             "2^63 / 2^64-1 set through the parameter-change proposal handler after vaults were created by messages past the stored sweep "
             "offset, English auctions switched off in the app's liquidation whitelisting, and - FABRICATED, model validation only - vault "
             "counter +1 / +random / -1 set directly through the keeper}) with all 13 block hooks called directly, or (hook, state) with a "
             "failure injected at store-gas consumption k of the hook run (quick: first / last / every 7th k of every ApplyFuncIfNoError "
             "instance and of every unwrapped unit; thorough: every k); non-trivial = the hook changed state (env case) or performed store "
             "accesses (crash case); distinct by (kind, state, fault / hook)",
        modelled=["recover() and CacheContext themselves (Lib/Atomic.v), validated by the crash-point runs",
                  "error control flow of unwrapped code is not part of the table (conditionals are flattened)",
                  "reads, single store writes and bandoracle.FetchPrice outside wraps are taken as total (JStoreWrite / JBand)",
                  "the sweep window is modelled with Go's int64 wrap-around and the callers' int(uint64) conversions of the stored counter, "
                  "offset and batch size (Model/Sweep.v: slice_bounds, sweep_window, sweep_slice_stored); the runner compares "
                  "'model predicts the slice expression panics' (Sweep.slice_panics_stored) with 'the hook panicked' on every "
                  "liquidation hook run, in both directions",
                  "the V2 surplus / debt trigger is reached by the harness (state p2s) and judged through its own projection: the hook's "
                  "liquidate_err event, the collector module balance, the net fees, the locked-vault and auction id counters and the "
                  "mapping's active flag before / after the hook (Hooks.trigger_obs_diff), and through crash points inside it"],
        assumptions=["reachability hypothesis of the sweep theorems: the length the vault sweeps pass as sliceLen (the stored LengthOfVault "
                     "counter) does not exceed the capacity of GetVaults() - it follows from C01's invariant 'vault count = number of open "
                     "vaults' (every wired path that adds or removes a vault moves the counter with it; the only double increment, "
                     "auction/keeper/dutch.go RestartDutchAuctions, runs only from the first-generation auction BeginBlocker, which is not "
                     "wired on this tree). FALSE ALARM CORRECTED: the former finding 'counter above the capacity makes totalVaults[start:end] "
                     "panic' was reached only by setting the counter directly through the keeper (faults counter-high / counter-high-1 / "
                     "counter-low): an unreachable state is outside the property's quantifier, so it is no longer a finding; those cases are "
                     "declared 'fabricated' in the trace and only validate the model of the slice expression (theorem c15_slice_panics_iff: "
                     "the expression panics only if counter > capacity), and the runner checks counter <= capacity on every other state",
                     "every module's parameters are present in the parameter store (written by InitGenesis, also for modules added by an "
                     "upgrade; no message deletes them) - GetParams in the unwrapped prologue of the sweeps is total under it",
                     "failures are injected as panics at store accesses (out-of-gas at access k) and as environment faults; "
                     "out-of-memory, stack overflow and fatal errors are outside every model",
                     "hooks are called directly with the keepers of a fresh app (the V1 liquidation / auction hooks are not wired into "
                     "AppModule.BeginBlock on this tree; Example c15_wiring)"],
    )

MANIFEST = dict(
    level_text="All-or-nothing of every ApplyFuncIfNoError unit proved generically (for every body, every behaviour of its calls, every crash "
               "point) over Lib/Atomic.v, together with 'the remaining units are still processed' and 'a hook halts only through a leaf outside "
               "every wrap'; the shape of all 13 block hooks and of the sweeps they reach is regenerated from the Go source on every check and the "
               "table theorems (EVERY unit the property names is wrapped per item - no exempted class; every unwrapped leaf is a read or "
               "registered with a justification; no unrecognised shape; no unknown hook) are proved by computation over it. The sweep window "
               "(GetSliceStartEndForLiquidations + reset + int(uint64) conversions + slice expression, int64 wrap included) is proved in range "
               "for every stored offset and every stored batch size when counter <= capacity (reachable states), and the slice expression is "
               "proved to panic only if counter > capacity. Three defects reproduced on the real code and repaired: the V2 borrow sweep not "
               "wrapped per item (C15-F1, fix C09-F3), offset+batchSize overflowing int for batch size 2^63-1 (C15-F2), the V2 surplus / debt "
               "trigger not wrapped per (app, asset) (C15-F3); their witnesses are regression examples and harness cases. Tied to /repo by the "
               "regenerated table, by crash-point enumeration on the real hooks and by the slice-panic prediction on every liquidation hook run.",
    design_ref="DESIGN.md section 4 C15",
    level_note="c15_unwrapped_total_partial is partial: reads / single store writes / ibc send outside wraps are modelled as total; the sweep "
               "theorems carry the reachability hypothesis counter <= capacity (C01). No known-finding class remains. No axioms.",
    technique="Coq proof (generic atomicity over a hook language + finite table by vm_compute/forallb_forall + arithmetic lemmas) + translated "
              "hook-shape table + crash-point enumeration against the real hooks",
)
