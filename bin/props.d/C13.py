PROP = dict(
        coq="Properties/C13.v",
        workloads=[
            dict(name="locker-collector-random", go_test="TestC13", runner="C13",
                 env=dict(quick=dict(VERIF_CASES=300), thorough=dict(VERIF_CASES=12000))),
        ],
        rule="cases 0-2 = directed witnesses on the real keepers (case 0: generation-2 liquidations settled by a full dutch bid - two through MsgLiquidateInternalKeeper in apps whose KeeeperIncentive is 10 % / 2.5 % (the penalty is split keeper / collector and only the collector share may be booked), one automatic, one MsgLiquidateExternalKeeper (collector untouched); generation-2 surplus auction start/bid/close; "
             "generation-2 debt auction start/bid/close); other cases = (2 apps x 3 assets, 3 users with random balances incl. > int64, a mostly-valid setup prefix of "
             "collector lookup tables / locker + reward whitelists / auction-mapping flags, then 20-50 ops mixing locker create/deposit/withdraw/close/reward-calc "
             "(boundary amounts: 1, net balance, net balance +-1, 1e20), real vault create/draw/repay/close/deposit-and-draw messages that pay fees into the collector, "
             "plain fee inflows (coins + UpdateCollector), time advances 0 s..1 y, savings-rate changes (WasmUpdateCollectorLookupTable), ESM / breaker switches, "
             "GetAmountFromCollector / DecreaseNetFeeCollectedData / WasmMsgGetSurplusFund, and in 30 % of the cases a concentration on the real auction flows: "
             "generation-1 SurplusActivator / DebtActivator (start, restart, close with bids, close under ESM), bids, generation-2 CheckStatsForSurplusAndDebt, english bids, "
             "CloseEnglishAuction for surplus and debt initiators, generation-2 liquidations settled by a full dutch bid: automatic (LiquidateIndividualVault), MsgLiquidateInternalKeeper with a non-zero keeper incentive (twice as often), MsgLiquidateExternalKeeper); "
             "non-trivial = at least 2 successful locker money ops and 1 successful collector in/outflow in the case; "
             "distinct by digest of the op sequence (ops + env values + result classes)",
        modelled=["reward amounts: the Dec returned by rewards.CalculationOfRewards is an env input recorded by the harness by calling the real function on the operands read before the op (its arithmetic is C18's subject)",
                  "fee amounts of vault messages and the generation-2 liquidation penalty: the coins that arrived at the collector account in the message (env; the fee / penalty arithmetic is C02/C03/C18/C10's subject)",
                  "auction internals (bids, prices, winners, restarts, tokenmint burn / mint): lot / bid amounts are read from the auction record before the close (C10/C11's subject); the auction module accounts and bidders are one unconstrained outside account; a close / CheckStats call that fails for a reason inside the auction module is replayed as 'state unchanged' (projection still diffed)",
                  "the generation-1 dutch close penalty (V1Penalty) and the generation-2 TriggerEsm penalty are modelled and proved but not driven by the harness (same SetNetFeeCollectedData call shape as the driven generation-2 dutch close); esm.go's burn-and-decrease of net fees is covered only through its book half (DecreaseNetFeeCollectedData)",
                  "sdk.Int 256-bit overflow panics (amounts stay far below 2^255)"],
        assumptions=["block time never decreases", "WasmMsgGetSurplusFund is called with the coin denom of the asset it names (the contract supplies both)",
                     "DecreaseNetFeeCollectedData is never called with a negative amount (none of its call sites can)",
                     "DecreaseNetFeeCollectedData called on its own (only the harness does; in /repo it always follows a transfer or a burn out of the collector) lowers the books without moving coins: for it the flow clause is 'books fall, coins do not move' rather than equality",
                     "users are plain accounts distinct from the module accounts (model: account ids >= 0)"],
    )

MANIFEST = dict(
    level_text="Locker invariants (deposited(app,asset) = sum of the net balances of its lockers; lockerV1 custody >= the lockers' balances >= every duplicate-free sum of deposited totals; a withdrawal pays exactly the requested amount, a close exactly the post-reward net balance and removes the locker) and collector invariants (net fees never negative; per-op table of book deltas AND collector coin deltas for every op; outside the known-finding classes book and coins move by the same amount in the same asset; collectorV1 custody >= every duplicate-free sum over apps of net fees; the savings-rate change lowers net fees by exactly what the lockers are credited) proved by induction over every finite history of the 25 modelled ops. The collector backing and the exact-flow clause are proved for histories without the generation-2 surplus close (kf_C13_2) and debt close (kf_C13_3) ops, for which refutation witnesses are proved and replayed on the real keepers on every run (known findings C13-F2, C13-F3); the generation-2 penalty defect C13-F1 is repaired (fixes/C13-F1) and its class removed. The model is tied to /repo by a differential run of the real locker / vault message servers and collector / rewards / auction / auctionsV2 / liquidationsV2 keepers on every check.",
    design_ref="DESIGN.md section 4 C13",
    level_note="Trusted: Coq kernel, extraction (ExtrOcamlBasic), OCaml runner, Go harness. Reward / fee / auction amounts are environment inputs (subjects of C18, C02/C03, C10/C11). No axioms (Closed under the global context).",
    technique="Coq proof (invariants by induction over op histories, per-op delta table) + model/implementation correspondence run",
)
