PROP = dict(
        coq="Properties/C13.v",
        workloads=[
            dict(name="locker-collector-random", go_test="TestC13", runner="C13",
                 env=dict(quick=dict(VERIF_CASES=500), thorough=dict(VERIF_CASES=12000))),
        ],
        rule="case = (2 apps x 3 assets, 3 users with random balances incl. > int64, a mostly-valid setup prefix of collector lookup tables / "
             "locker + reward whitelists / auction-mapping flags, then 20-50 ops mixing locker create/deposit/withdraw/close/reward-calc "
             "(boundary amounts: 1, net balance, net balance +-1, 1e20), real vault create/draw/repay/close/deposit-and-draw messages that pay "
             "fees into the collector, time advances 0 s..1 y, savings-rate changes (WasmUpdateCollectorLookupTable), ESM / breaker switches, "
             "GetAmountFromCollector / DecreaseNetFeeCollectedData / WasmMsgGetSurplusFund, generation-1 and generation-2 surplus / debt "
             "auction starts, bids and closes and generation-2 liquidations with a full dutch bid); "
             "non-trivial = at least 2 successful locker money ops and 1 successful collector in/outflow in the case; "
             "distinct by digest of the op sequence (ops + env values + result classes)",
        modelled=["reward amounts: the Dec returned by rewards.CalculationOfRewards is an env input recorded by the harness by calling the real function on the operands read before the op (its arithmetic is C18's subject)",
                  "fee amounts of vault messages: the coins that arrived at the collector account in the message (env; the fee arithmetic is C02/C03/C18's subject)",
                  "auction internals (bids, prices, winners): lot / bid amounts are read from the auction record before the close (C10/C11's subject); the auction module accounts and bidders are one unconstrained outside account",
                  "sdk.Int 256-bit overflow panics (amounts stay far below 2^255)"],
        assumptions=["block time never decreases", "WasmMsgGetSurplusFund is called with the coin denom of the asset it names (the contract supplies both)",
                     "DecreaseNetFeeCollectedData is never called with a negative amount (none of its call sites can)"],
    )

MANIFEST = dict(
    level_text="Locker invariants (deposited(app,asset) = sum of the net balances of its lockers; lockerV1 custody >= every finite sum of deposited totals; a withdrawal pays exactly the requested amount, a close exactly the post-reward net balance) and collector invariants (net fees never negative; per-op table of net-fee deltas; collectorV1 custody >= every finite sum over apps of net fees) proved by induction over every finite history of the modelled ops; the collector backing is proved for histories without the generation-2 dutch penalty / surplus close / debt close ops, for which refutation witnesses are proved and replayed on the real keepers (known findings). The model is tied to /repo by a differential run of the real locker / vault message servers and collector / rewards / auction / liquidation keepers on every check.",
    design_ref="DESIGN.md section 4 C13",
    level_note="Trusted: Coq kernel, extraction (ExtrOcamlBasic), OCaml runner, Go harness. Reward / fee / auction amounts are environment inputs (subjects of C18, C02/C03, C10/C11). No axioms (Closed under the global context).",
    technique="Coq proof (invariants by induction over op histories, per-op delta table) + model/implementation correspondence run",
)
