PROP = dict(
        tie_coq=["Properties/TieC10.v"],
        coq="Properties/C10.v",
        workloads=[
            dict(name="dutch-price", go_test="TestC10Price", runner="C10-price",
                 env=dict(quick=dict(VERIF_CASES=300), thorough=dict(VERIF_CASES=6000))),
            dict(name="dutch-v2", go_test="TestC10", runner="C10",
                 env=dict(quick=dict(VERIF_CASES=250), thorough=dict(VERIF_CASES=5000))),
            dict(name="dutch-v2-lend", go_test="TestC10Lend", runner="C10",
                 env=dict(quick=dict(VERIF_CASES=60), thorough=dict(VERIF_CASES=1500))),
            dict(name="dutch-v1", go_test="TestC10V1", runner="C10-v1",
                 env=dict(quick=dict(VERIF_CASES=150), thorough=dict(VERIF_CASES=3000))),
            dict(name="dutch-v1-lend", go_test="TestC10V1Lend", runner="C10-v1",
                 env=dict(quick=dict(VERIF_CASES=100), thorough=dict(VERIF_CASES=2000))),
        ],
        rule="dutch-price: case = (premium, end factor, duration, oracle price) from a lattice plus random durations/factors; every "
             "case posts the price through the real UpdateDutchAuction at t = 0, 1, D-1, D and 4-11 random instants and calls "
             "GetPriceFromLinearDecreaseFunction directly on 3 random (tau, t); non-trivial = the price moved. "
             "dutch-v2: cases 0-7 = corpus (regression inputs of the repaired C10-F3 / C10-F2: external auction with keeper incentive closed by a full bid; collateral-exhausted close against a reserve of 1000; the same with a big reserve; two external auctions closed by exact / over-sized bids; "
             "of the repaired C10-F5: a limit bid above the debt of an under-collateralised auction, cut down to the collateral value; of C10-F6: two partial limit bids in one closure, then an exact one; a closing limit bid followed by another one, then a second auction; "
             "and a vault liquidated through MsgLiquidateInternalKeeper with a 10 % keeper incentive: market bid, partial fill, closing bid - penalty split keeper / collector / net-fee book), then generated: case = auction/whitelisting parameters (keeper incentive 0 / 0.5 % / 10 %), two positions (vault via MsgLiquidateInternalKeeper, vault via "
             "LiquidateIndividualVault, external via MsgLiquidateExternalKeeper) seized through the real liquidation path, app reserve "
             "none/tiny/big, then 4-15 ops: MsgPlaceMarketBid by 3 bidders (1 unit, small, 1-99 % of the remaining debt, exact, "
             "exact-1, exact+1, 3x, leaving dust, wrong denom, zero, one poor bidder), MsgDepositLimitBid by the same bidders (discount a little above / at the current discount of a live auction, 0-16, 31 = above the maximum; "
             "amount 1 unit, small, a share of / exactly / one more than / one less than / 3x the remaining debt, zero, wrong denom, unaffordable), auctionsV2.BeginBlocker ticks = price update AND the automatic fill of limit bids (dt 0, 1, 5, D/4, "
             "D/2, exactly to EndTime, EndTime+1, >2D, or - 4 of 13 - the next instant at which a live auction's discount meets a limit bid, searched with the real price update on throw-away contexts) with oracle prices moving / going inactive, start of the second auction; "
             "every observation carries the limit bids, the pool total, the user bids created by the step (the fills' automatic bids), the prices the block posted and the collector's net-fee book; "
             "non-trivial = at least one bid (market or automatic) succeeded; distinct by digest of parameters and op sequence. "
             "dutch-v2-lend: cases 0-3 = corpus (e-mode pair closed by one exact bid = regression of seeded/C10-4; e-mode pair with interest, partial bid, tick, over-sized bid; ordinary pair; e-mode pair closed through a fill), then generated: the lend fixture of the C09 borrow workload "
             "(2 pools, 13 pairs: same-pool, e-mode with ELiquidationPenalty != LiquidationPenalty, cross-pool bridged through both transit assets), a fresh user lends 0.1-50 tokens and borrows 60-100 % of the admissible loan, 0 s-30 d pass, the collateral price falls to 99.9-40 % of the price that puts the borrow on its (e-mode) threshold, "
             "the borrow is seized by MsgLiquidateInternalKeeper (liq type 1) or LiquidateIndividualBorrow, then the same bid / limit-bid / tick mix ending with an over-sized bid; the lending pool is observed as pool + reserve module accounts together. "
             "dutch-v1: case = x/auction parameters (buffer, cusp, duration), extended pair (penalty, closing fee, dust, fixed or oracle debt price), "
             "asset Decimals, collector net fees none/tiny/big, two vaults created through MsgCreate and seized by the real "
             "x/liquidation LiquidateVaults after a price drop, then 4-15 ops: MsgPlaceDutchBid by 3 bidders (collateral amounts: 1 unit, small, "
             "1-99 % of the remaining collateral or of the amount that fills the target, exactly / one off / twice that amount, all, all-1, "
             "all+1, leaving dust, wrong denom, zero, one poor bidder), auction.BeginBlocker ticks with oracle prices moving / inactive; "
             "non-trivial = at least one bid succeeded. "
             "dutch-v1-lend: case = lend auction parameters (buffer, cusp, duration), collateral asset rates (penalty, bonus), pair dust, "
             "Decimals, lend reserve none/tiny/big, two borrow positions opened through MsgBorrowAlternate and seized by the real "
             "x/liquidation LiquidateBorrows after a collateral price drop (re-liquidations inside a closing bid are picked up too), then the same "
             "bid / tick mix through MsgPlaceDutchLendBid; non-trivial = at least one bid succeeded",
        modelled=["liquidation itself (LockedVault fields and the collateral transfer are taken from the implementation at each start op)",
                  "bank keeper as a ledger over the named accounts", "ESM branch of AuctionIterator is not driven",
                  "the limit-bid book as the deposits of the auction's market (premium, bidder) -> amount and the pool total; MsgCancelLimitBid / MsgWithdrawLimitBid and their fees are C11's subject and not driven here; the order in which the store lists the bidders of one premium (by address string) is an environment input",
                  "lend-initiated close as the transfer of TargetDebt to the pool module and the bank panic of known finding C10-F7; what MsgCloseDutchAuctionForBorrow moves between the pool and the reserve module account (penalty, reserve interest), the cToken mint and the return of a bridged amount to its pool are lend-internal (C08) and observed only as the sum pool + reserve; the borrow / lend book-keeping is not modelled",
                  "the collector's net-fee book only as the record of (app, debt asset) that the vault-initiated close adds the collector's share of the penalty to",
                  "generation 1 (x/auction): vault and lend bid path, close and price update modelled (Model/DutchV1.v); not modelled: the ESM branch of RestartDutchAuctions, UpdateProtocolData / locked-vault history book-keeping, UnLiquidateLockedBorrows after a lend close",
                  "c10_bid_price / c10_conv_bounds assume asset Decimals <= 10^18 and prices of at least 10^-18 uusd per smallest unit (Decimals <= price as a Dec integer)"],
        assumptions=["block times are whole seconds and non-decreasing", "oracle prices below 2^63", "asset Decimals and prices positive"],
    )

MANIFEST = dict(
    level_text="Both auction generations. Generation-2 Dutch auction (x/auctionsV2) modelled statement by statement with exact sdk.Dec arithmetic. Proved for all inputs: the posted price is non-increasing between restarts, at most the start price and non-negative; totals over any bid/tick history (paid <= target debt, received <= collateral); per-bid amounts. Proved for every closing bid without exception class: close completeness per initiator type incl. the external keeper incentive, and that the app reserve is debited exactly the shortfall, only when it covers it, and stays backed. The end-price clause is proved refuted (truncated time-to-zero, known finding C10-F1) and proved on the complement of the executable class. The two further defects found on the original tree (reserve top-up silently skipped: C10-F2; external close panics on the empty keeper address: C10-F3) are repaired by fixes/C10-F2 and fixes/C10-F3; the model follows the repaired code, their witnesses stay in the harness corpus and as Examples, and a recurrence is reported as a plain violation. The automatic fill of limit bids (LimitOrderBid) is part of the auction's life in the model: automatic bids, the limit-bid book and pool, one closure per auction; the two defects found there (a limit bid charged min(deposit, debt) although the bid was cut down to the collateral value: C10-F5; every limit bid of a closure placed on the auction copy read before the loop: C10-F6) are repaired by fixes/C10-F6 + fixes/C10-F5 and the model follows the repaired code. Proved over any history of market bids, ticks, limit-bid deposits and fills: totals; custody (beyond the live auction, the booked fees and the limit-bid pool the auction account's balances never change); per closure: its shape (each bid on the auction as the previous one left it, nothing after a closing bid), charged = bid for every limit bid, the per-bid price predicate; for every closing bid, market or automatic: the penalty split (collector share + keeper share = penalty, net-fee book grows by the collector share). Lend-initiated auctions are driven on the real lend keepers; their close is proved refuted for cross-pool borrows whose lend position was used up (the closing bid panics, known finding C10-F7) and proved to go through on the complement of the executable class. Generation 1 (x/auction dutch.go, dutch_lend.go): totals by induction over any bid/tick history without price assumptions, per-bid price predicate, close completeness for vault and lend auctions; custody over any history; the end-price finding C10-F1 is the same arithmetic and reproduces there; for lend auctions the custody clause is proved refuted (unpaid bonus stranded in the module account, known finding C10-F4) and proved on the complement of the executable class. The models are tied to /repo by differential runs of the real liquidation paths, MsgPlaceMarketBid / MsgPlaceDutchBid and the two BeginBlockers on every check.",
    design_ref="DESIGN.md section 4 C10",
    level_note="Trusted: Coq kernel, extraction (ExtrOcamlBasic), OCaml runner, Go harness. Generation 1 (x/auction) vault and lend Dutch auctions are modelled too (bid, close, price update) and the vault ones are driven through the real x/liquidation and x/auction keepers. No axioms (Closed under the global context).",
    technique="Coq proof (monotonicity of Dec arithmetic, invariants by induction over bid/tick histories) + model/implementation correspondence run",
)
