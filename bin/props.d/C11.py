PROP = dict(
        coq="Properties/C11.v",
        workloads=[
            dict(name="english-and-limit", go_test="TestC11", runner="C11",
                 env=dict(quick=dict(VERIF_CASES=640), thorough=dict(VERIF_CASES=24000))),
        ],
        rule="case = one auction or one limit-bid book on the real keepers. English cases (6 of 8): variant in {generation 1 surplus, generation 1 debt "
             "(x/auction msg server + BeginBlocker), generation 2 surplus / generic-external / inverted debt (x/auctionsV2 msg server + BeginBlocker)}, "
             "2-5 bidders (rich, poor, unfunded), bid factor in {0, 1e-6, 0.01, 0.05, 0.1, 1/3, 1}, 8-30 ops: bids that are barely improving (exact threshold), "
             "threshold-1, equal, lower, zero, negative, unaffordable, wrong denom, wrong expected-user-token; block hooks at small steps and exactly on / one second "
             "past bid_end and end (restart without bids, close with bids), the generation 2 surplus and debt auctions are STARTED by the real liquidationsV2 CheckStatsForSurplusAndDebt (surplus: collector.GetAmountFromCollector moves the lot from a collector holding lot + {0, 7, 5000} + {0, 1, 2} lots to the generation-1 auction module account, net fees = threshold + lot + {0, 1, 5000}); closes that fail (generation 2 surplus: the lot source - the generation-1 auction module account, fix 67f334a - drained of the whole lot or of one coin before the close; tokenmint supply too small); "
             "limit cases (2 of 8, plus 8 corpus cases that always run first: the witnesses of the repaired defects C11-F1 amount, C11-F1 denom, C11-F2; "
             "the thorough-tier history in which a bid is cut down to the left-over collateral below the penalty; a record above the debt of an under-collateralised "
             "auction with a sufficient and with an insufficient app reserve (C10-F5, repaired: charged what was bid); the cut-down history with an insufficient reserve next to another depositor; two records below the debt in one closure and a record above the debt followed by a second record (C10-F6, repaired)): "
             "2-5 depositors, 3 debt denoms / markets, closing and withdrawal fee in {0, 1e-6, 0.005, 0.01, 0.1, 1}, 8-44 ops: deposit, cancel "
             "(repeated, foreign), withdraw with amount in {own, own+1, own-1, 2*own+900000, 0, 1, 2900000, own/2} and 18% foreign denoms held by the module; "
             "in 55% of the limit cases 1-2 Dutch auctions of an external initiator (debt 0.5-3 M, penalty in {0, 5, 120000}, collateral 0.5x-10x, app reserve none / too small for the shortfall / big) "
             "run on the book's market and blocks (the real auctionsV2.BeginBlocker) are aimed at the discount of live records: the automatic fill "
             "(LimitOrderBid) is exercised with records below / equal to / above the auction debt, several records per closure, committed and rolled-back closures. "
             "non-trivial = english: at least one accepted bid over a standing bid (a refund happened); limit: at least one accepted deposit and one accepted "
             "withdraw/cancel; distinct by digest of (variant, op sequence)",
        modelled=["bank keeper as a function ledger (send/mint/burn of one coin)", "tokenmint Burn/MintNewTokensForApp success is an input (tm_ok) recomputed by the harness from the tokenmint store",
                  "the automatic fill (LimitOrderBid, after fixes/C10-F6 and fixes/C10-F5) is modelled per auction closure on its book side (every limit bid the closure bid with is charged the amount "
                  "PlaceDutchAuctionBid actually bid for it, never more than it holds, deleted when used up; all-or-nothing); which closures run, the limit bids they bid with and the amounts bid are read "
                  "off the implementation (a throw-away AuctionIterator run on a cache context; the user bids the block created); the Dutch settlement (PlaceDutchAuctionBid: collateral "
                  "pay-out, burn, fees, reserve) is an environment input: only its net effect on the module's free debt-denom coins is replayed (signed: the app reserve "
                  "pays into the module when the collateral runs short)",
                  "limit-bid custody is measured on the module balance minus the proceeds that running Dutch auctions keep in the module (TargetDebt - outstanding debt) minus the penalties "
                  "of closed external auctions booked as module fees (AuctionLimitBidFeeDataExternal) minus the balance at case start",
                  "limit-bid fee bookkeeping record (the code never records a limit-bid fee under the debt asset: the variable is shadowed in the not-found branch), per-address index and bidding-id counter are not modelled"],
        assumptions=["ESM / kill-switch not triggered (the generation 1 statusEsm close path is not modelled)", "bidder accounts are plain accounts (ids >= 0), distinct from the module accounts",
                     "bid denom <> lot denom (enforced by the collector: CollectorAssetID != SecondaryAssetID)", "0 <= closing/withdrawal fee <= 1 for the limit-bid custody / own-deposit theorems",
                     "an automatic fill's Dutch settlement disburses no more of the module's debt coins than the filled records are charged (C10's concern; hypothesis fill_env of c11_limit_custody, "
                     "checked on every observed block through the custody predicate)",
                     "one auction per module account is attributed at a time: custody is measured relative to the module balance when the auction started",
                     "generation 2 surplus close as repaired by 67f334a: the lot is taken from the generation-1 auction module account (model account AUC1, observed and diffed after every step next to the auction module, collector, external initiator and tokenmint accounts); the collector net-fee record (40dff76 for the debt close) is not projected by C11: SetNetFeeCollectedData can only fail on a negative amount and the standing payment is >= 0"],
    )

MANIFEST = dict(
    level_text="Ledger invariant of the English-auction state machine proved for all five coded variants and every finite history of bids and block hooks: module custody attributable to the auction = standing payment; an accepted bid improves by at least ceil(factor*standing); the outbid bidder is whole again in the same step; after the close the last accepted bidder paid the standing payment and got the lot and every other bidder's net change is 0; the generation-2 surplus close (fix 67f334a) leaves the generation-1 auction module account, where the start put the lot, out of exactly the lot and the collector untouched. Limit bids (on the code repaired by fixes/C11-F1 and fixes/C11-F2): recorded total = sum of deposits, no negative deposit, every deposit in its market's debt denom for EVERY finite history of deposit / cancel / withdraw messages and automatic fills (no hypothesis); custody covers the deposits for every history of messages by bidder accounts and automatic fills whose Dutch settlement disburses at most what the records are charged; an accepted withdraw / cancel in any reachable state pays the sender at most its own deposit minus the fee, in the deposited denom, and nobody else. Models tied to /repo by a differential run through the real msg servers and BeginBlockers (including the automatic fill) on every check.",
    design_ref="DESIGN.md section 4 C11",
    level_note="Trusted: Coq kernel, extraction (ExtrOcamlBasic), OCaml runner, Go harness. No axioms (Closed under the global context). The two defects found on the original tree (C11-F1 withdraw without amount / denom check, C11-F2 stale BidValue after an exact automatic fill) are repaired by the patches under fixes/; the model follows the repaired code, no known-finding class is left, the witnesses stay in the harness corpus and as Examples.",
    technique="Coq proof (state-machine invariants by induction over op histories) + model/implementation correspondence run",
)
