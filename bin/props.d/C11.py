PROP = dict(
        coq="Properties/C11.v",
        workloads=[
            dict(name="english-and-limit", go_test="TestC11", runner="C11",
                 env=dict(quick=dict(VERIF_CASES=640), thorough=dict(VERIF_CASES=24000))),
        ],
        rule="case = one auction or one limit-bid book on the real keepers. English cases (5 of 8): variant in {generation 1 surplus, generation 1 debt "
             "(x/auction msg server + BeginBlocker), generation 2 surplus / generic-external / inverted debt (x/auctionsV2 msg server + BeginBlocker)}, "
             "2-5 bidders (rich, poor, unfunded), bid factor in {0, 1e-6, 0.01, 0.05, 0.1, 1/3, 1}, 8-30 ops: bids that are barely improving (exact threshold), "
             "threshold-1, equal, lower, zero, negative, unaffordable, wrong denom, wrong expected-user-token; block hooks at small steps and exactly on / one second "
             "past bid_end and end (restart without bids, close with bids), closes that fail (collector without the lot, tokenmint supply too small); "
             "limit cases (3 of 8): 2-5 depositors, 3 debt denoms / markets, closing and withdrawal fee in {0, 1e-6, 0.005, 0.01, 0.1, 1}, 8-32 ops: deposit, cancel "
             "(repeated, foreign), withdraw with amount in {own, own+1, own-1, 2*own+900000, 0, 1, 2900000, own/2} and 18% foreign denoms held by the module. "
             "non-trivial = english: at least one accepted bid over a standing bid (a refund happened); limit: at least one accepted deposit and one accepted "
             "withdraw/cancel; distinct by digest of (variant, op sequence)",
        modelled=["bank keeper as a function ledger (send/mint/burn of one coin)", "tokenmint Burn/MintNewTokensForApp success is an input (tm_ok) recomputed by the harness from the tokenmint store",
                  "the automatic fill (LimitOrderBid) is modelled per record with the Dutch settlement as an environment input; it is NOT exercised by the harness",
                  "limit-bid fee bookkeeping record, per-address index and bidding-id counter are not modelled"],
        assumptions=["ESM / kill-switch not triggered (the generation 1 statusEsm close path is not modelled)", "bidder accounts are plain accounts (ids >= 0), distinct from the module accounts",
                     "bid denom <> lot denom (enforced by the collector: CollectorAssetID != SecondaryAssetID)", "0 <= closing/withdrawal fee <= 1 for the limit-bid theorems",
                     "one auction per module account is attributed at a time: custody is measured relative to the module balance when the auction started"],
    )

MANIFEST = dict(
    level_text="Ledger invariant of the English-auction state machine proved for all five coded variants and every finite history of bids and block hooks: module custody attributable to the auction = standing payment; an accepted bid improves by at least ceil(factor*standing); the outbid bidder is whole again in the same step; after the close the last accepted bidder paid the standing payment and got the lot and every other bidder's net change is 0. Limit bids: total = sum of deposits, custody covers deposits, pay-out <= own deposit - fee in the deposited denom proved outside the executable classes kf_C11_1 / kf_C11_2, refuted inside them by computed witnesses. Models tied to /repo by a differential run through the real msg servers and BeginBlockers on every check.",
    design_ref="DESIGN.md section 4 C11",
    level_note="Trusted: Coq kernel, extraction (ExtrOcamlBasic), OCaml runner, Go harness. No axioms (Closed under the global context). The automatic fill is modelled but not exercised; kf_C11_2 is therefore not listed as a known finding.",
    technique="Coq proof (state-machine invariants by induction over op histories) + model/implementation correspondence run",
)
