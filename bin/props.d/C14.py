
import os as _os, subprocess as _sp


class _FocusEnv(dict):
    """search_env of bin/check's directed search (it runs only after a table theorem or the correspondence
    broke and the ordinary run showed no failing input).  Evaluated when the search starts - the tables are
    regenerated and the runner is rebuilt by then: asks the runner (entry C14-focus) which handlers' regenerated
    rows fail a table check and hands their names to the harness as VERIF_FOCUS; with no broken row to name
    (a sweep, a closed-world check, a correspondence mismatch) the static part alone applies."""

    def items(self):
        out = dict(self)
        root = _os.path.dirname(_os.path.dirname(_os.path.dirname(_os.path.abspath(_FocusEnv.items.__code__.co_filename))))
        try:
            p = _sp.run([_os.path.join(root, "runner", "runner"), "C14-focus", "/dev/null"], stdout=_sp.PIPE, stderr=_sp.DEVNULL,
                        timeout=120, text=True)
            names = [l.split()[1] for l in p.stdout.splitlines() if l.startswith("FOCUS ") and len(l.split()) == 2]
        except Exception:
            names = []
        if names:
            out["VERIF_FOCUS"] = ",".join(sorted(set(names)))
            out.update(self.focused)
        else:
            out.update(self.unfocused)
        return out.items()


_search_env = _FocusEnv(dict(), VERIF_DIRECTED=1)
_search_env.focused = dict()
_search_env.unfocused = dict(VERIF_SEARCH=1)

PROP = dict(
        coq="Properties/C14.v",
        workloads=[
            dict(name="control-matrix", go_test="TestC14", runner="C14",
                 env=dict(quick=dict(VERIF_ALLMASKS=0), thorough=dict(VERIF_ALLMASKS=1))),
            dict(name="liquidation-auction-controls", go_test="TestC14X", runner="C14X",
                 env=dict(quick=dict(VERIF_ALLMASKS=0, VERIF_AMOUNT_SAMPLE=2), thorough=dict(VERIF_ALLMASKS=1, VERIF_AMOUNT_SAMPLE2=3))),
        ],
        search_env=_search_env, search_rounds=1,   # the matrix is deterministic: one directed round (focused on the broken rows, or the full boundary matrix)
        rule="case = one message on its own store branch of the prepared state (one position of every kind): every method of the vault / locker / lend / liquidity / auctionsV2 msg servers, "
             "(1) with its default amount x breaker {off,on} x ESM {none, executed inside cool-off, executed after cool-off (snapshot prices recorded)} x {all prices active, none} and, without controls, "
             "EVERY one of the 16 subsets of the 4 priced assets inactive; (2) for every amount field of the message (found by reflection) every boundary amount of the state - 1, and v-1, v, v+1 for every amount v "
             "stored in any position record of the owner, the whole debts (principal + interest [+ closing fee]) and the wallet balances: the amounts that select early-return branches - "
             "x {no control, breaker, ESM in cool-off, ESM after cool-off, each single price that the run reads inactive}; thorough tier / directed search: every amount x every control state x every price subset "
             "(for the handlers of the broken rows, VERIF_FOCUS, or all). Reference of every (message, amount): the uncontrolled all-active run - its class, its resulting state, the oracle prices it READS "
             "(SDK store tracer on the market store) and, where a run succeeds with such a feed inactive, whether the reference outcome depends on the feed's value (x1000, /1000 probes); plus V2 Liquidate, V1 LiquidateVaults / LiquidateBorrows and "
             "auction.BeginBlocker after a collateral price fall x breaker {off,on}. non-trivial = some control set and the uncontrolled run of the same message succeeds, or a sweep that started something / ran under the breaker; "
             "distinct by (handler, breaker, esm, mask). "
             "Workload liquidation-auction-controls (TestC14X): the same matrix (default amount x breaker x ESM phase x every price subset; every amount field x boundary amounts of the state - also those of the running "
             "auctions, locked vaults, reserve funds, shutdown deposit - x controls x each single price the run reads; quick tier: a seed-chosen half of the boundary amounts; thorough tier: every control state x every price subset for a seed-chosen third of them, all of them in a directed search) over every msgServer method of the "
             "liquidation / auction / liquidationsV2 / auctionsV2 / esm / rewards / collector / tokenmint modules (GuardsCheck.x_matrix_handlers, from the regenerated registry) on the extended state of TestC12X "
             "(unhealthy positions, running auctions of both generations; the redemption on the executed-shutdown state); a liquidate message that succeeds under the breaker is a predicate failure; the runner "
             "demands that every such method was run where its uncontrolled run succeeds, under the breaker, with inactive prices and with boundary amounts",
        modelled=["baseapp per-message atomicity (Lib/Atomic.v)", "handlers as guard lists (top-level structure; translator trusted, cross-checked by the matrix)",
                  "ESM execution is modelled by writing the ESMStatus record + price snapshots the ESM end-blocker would write",
                  "price feeds are env inputs (Twa records written directly)"],
        assumptions=["breaker scope as in DESIGN.md: locker withdraw/close and lend repay/close are outside the listed scope (recorded in Model/GuardsCheck.v)",
                     "liquidation.MsgLiquidateBorrow and auction.MsgPlaceDutchLendBid are excluded from the price THEOREM (price errors assigned to _ on their paths); both are in the dynamic matrix, with same-pool and cross-pool (bridged asset) borrows: "
                     "the dropped errors of the health checks were reproduced (C14-F2, fixed); what remains discarded (CalcAssetPrice in liquidation.UpdateLockedBorrows and lend.CreteNewBorrow) is reached only after a checked lookup of the same feeds in the same message",
                     "breaker scope of the liquidation / auction / esm modules as reviewed in GuardsCheck.liquidation_msg_scope / x_breaker_out_of_scope: the liquidate messages must refuse; bids on running auctions, limit bids, "
                     "reserve funding, the external-keeper liquidation (collateral brought by an outside application; the code does not read the breaker) and the shutdown messages are not named by the property",
                     "'needed price' is observed, not derived: a feed the all-active run of the same message reads (SDK store trace) and whose value changes that run's outcome when scaled x1000 or /1000"],
    )

MANIFEST = dict(
    level_text="Finite-matrix proof over tables REGENERATED from the Go source on every run: every handler in the breaker scope has the breaker check before any write, every vault handler that can reach MintCoins has the ESM check before any write, vault withdraw has the cool-off check before any write, all seven sweep / auction-start functions are gated by the breaker and write nothing before reading it, the liquidate messages of both generations refuse under the breaker (generation 1: check before any write in the handler's row; generation 2: dispatch to the gated per-position sweep functions), every price call site reachable from a handler (and every link to it; a raw GetTwa read that discards the found flag counts as a site that ignores the error) propagates the error - each lifted by a generic lemma to 'for every store the handler returns the error on the untouched store'. Cross-checked by running every handler x breaker x ESM phase x every inactive-price subset, and every amount field x every boundary amount of the state (the amounts that select early-return branches) x controls, and the sweeps on the real code, and the same matrix over the liquidation / auction / shutdown / reward messages on a state with unhealthy positions and running auctions of both generations; exact error class compared with the model's prediction; an operation must fail when a feed it reads and depends on is inactive, and an inactive feed never turns a refusal into a success.",
    design_ref="DESIGN.md section 4 C14",
    level_note="Trusted: Coq kernel, translator (fails closed on unrecognised shapes), extraction, OCaml runner, Go harness. Price clause is _partial: two handlers are excluded from the theorem (price errors discarded on their paths); both are in the dynamic matrix and the discarded errors that changed an outcome were reproduced and repaired (C14-F2). The liquidate-message breaker theorem is _partial for generation 2 (opaque row + reviewed dispatch list, cross-checked dynamically). No axioms.",
    technique="Coq proof by computation over regenerated tables + generic guard-list lemmas + control matrix run against the real msg servers and block hooks",
)
