PROP = dict(
        coq="Properties/C14.v",
        workloads=[
            dict(name="control-matrix", go_test="TestC14", runner="C14",
                 env=dict(quick=dict(VERIF_ALLMASKS=0), thorough=dict(VERIF_ALLMASKS=1))),
        ],
        rule="case = one message on its own store branch of the prepared state (one position of every kind): every method of the vault / locker / lend / liquidity / auctionsV2 msg servers "
             "x breaker {off,on} x ESM {none, executed inside cool-off, executed after cool-off (snapshot prices recorded)} x inactive price subsets "
             "(quick: none, all, 2 random subsets per control state; thorough: all 16 subsets of the 4 priced assets); plus V2 Liquidate, V1 LiquidateVaults / LiquidateBorrows and "
             "auction.BeginBlocker after a collateral price fall x breaker {off,on}. non-trivial = some control set and the uncontrolled run of the same message succeeds, or a sweep that started something / ran under the breaker; "
             "distinct by (handler, breaker, esm, mask)",
        modelled=["baseapp per-message atomicity (Lib/Atomic.v)", "handlers as guard lists (top-level structure; translator trusted, cross-checked by the matrix)",
                  "ESM execution is modelled by writing the ESMStatus record + price snapshots the ESM end-blocker would write",
                  "price feeds are env inputs (Twa records written directly)"],
        assumptions=["breaker scope as in DESIGN.md: locker withdraw/close and lend repay/close are outside the listed scope (recorded in Model/GuardsCheck.v)",
                     "liquidation.MsgLiquidateBorrow and auction.MsgPlaceDutchLendBid are excluded from the price theorem (price errors assigned to _ on their paths; not reproduced dynamically)"],
    )

MANIFEST = dict(
    level_text="Finite-matrix proof over tables REGENERATED from the Go source on every run: every handler in the breaker scope has the breaker check before any write, every vault handler that can reach MintCoins has the ESM check before any write, vault withdraw has the cool-off check before any write, all seven sweep / auction-start functions are gated by the breaker and write nothing before reading it, every price call site reachable from a handler (and every link to it) propagates the error - each lifted by a generic lemma to 'for every store the handler returns the error on the untouched store'. Cross-checked by running every handler x breaker x ESM phase x inactive-price subsets and the sweeps on the real code; exact error class compared with the model's prediction.",
    design_ref="DESIGN.md section 4 C14",
    level_note="Trusted: Coq kernel, translator (fails closed on unrecognised shapes), extraction, OCaml runner, Go harness. Price clause is _partial: two handlers excluded (price error ignored on their paths, read in the code, not reproduced). No axioms.",
    technique="Coq proof by computation over regenerated tables + generic guard-list lemmas + control matrix run against the real msg servers and block hooks",
)
