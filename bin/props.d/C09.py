PROP = dict(
        coq="Properties/C09.v",
        tie_coq=["Properties/TieC15.v"],
        workloads=[
            dict(name="liquidation-sweeps", go_test="TestC09", runner="C09",
                 env=dict(quick=dict(VERIF_CASES=240), thorough=dict(VERIF_CASES=4500))),
            dict(name="borrow-liquidation", go_test="TestC09Borrow", runner="C09-borrow",
                 env=dict(quick=dict(VERIF_CASES=60), thorough=dict(VERIF_CASES=1000))),
        ],
        rule="case = (generation V1|V2, 1-2 apps enabled for liquidation, batch 1-5 (0 is rejected by the module's param validation), 1-12 vaults over 4 extended pairs / 2 collateral "
             "assets (decimals 10^6, 10^8) with ratios at, just above and far above the liquidation ratio, then 6-25 blocks of the REAL "
             "BeginBlocker each preceded by up to 2 user steps: price moves incl. threshold+-1 and inactive prices, vault create / close, "
             "MsgLiquidateInternalKeeper on open and unknown ids, accrued-interest edits, kill switch / ESM toggles, LengthOfVault edits "
             "(counter != list length, incl. wrap below zero)); every 4th case is a quiet starvation run (one price drop, then only blocks); "
             "5 directed schedules run last (the two C09-F1 witnesses on both generations, and the regression of the repaired C09-F2: "
             "2 vaults, batch 1, second unsafe, V2); the V2 projection holds both sweep offsets (key 0 vaults, key 1 borrows); "
             "the vault populations hold no lend borrows; "
             "non-trivial = at least one position was seized in the case; distinct by digest of (kind, generation, batch, per-block seized ids, messages). "
             "BORROW workload (borrow-liquidation): case = (batch 1-4, or >= population in every 3rd 'boundary' case; 2-8 REAL borrows opened through the lend "
             "message server by fresh users over 13 lend pairs of 2 pools whose main / first-transit / second-transit assets carry DIFFERENT liquidation "
             "thresholds with 18 significant decimals: same-pool pairs, cross-pool pairs bridged through the first transit asset and (larger ones, the pool holds "
             "little of the first transit asset) through the second, e-mode pairs same-pool and cross-pool, stable and variable rates, decimals 10^6 / 10^8); then "
             "8-21 blocks of the REAL liquidationsV2.BeginBlocker each preceded by up to 2 steps: price moves that put the ratio of a chosen borrow EXACTLY at, "
             "+-1, +-2, +-1000 units in the last place and far from each of the 8 thresholds the code could apply (both bases, the 4 rounded products, 2 truncated "
             "products; 3 of 5 aimed at the applicable one), ordinary price moves incl. inactive prices, MsgLiquidateInternalKeeper liq type 1 on open / liquidated "
             "/ unknown ids and type 2, new borrows (inserted inside the swept list), repay-and-close, draw / repay, time gaps up to a year (interest), kill switch, "
             "whitelisting Dutch / English toggles, liquidity withdrawal from a pool, MsgLiquidateExternalKeeper with and without reserve funds; 8 directed cases "
             "run last (the witnesses of the findings C09-F5 pool-short and C09-F6 reserve-index-zero; one borrow of each bridge kind moved to -1 / 0 / +1 of each of its three candidate thresholds; the batch sizes 2^63, 2^64-1, 2^63-1 through "
             "the governance parameter-change handler followed by blocks over unsafe borrows). Per visit the harness dumps the RAW inputs (amounts, interest as that "
             "visit computes it on a shadow branch advanced like the real sweep, prices, decimals, both thresholds of the collateral asset, e-mode flag, bridged coin, "
             "first transit denom, both transit thresholds, whitelisting flags, pool balances); the extracted model makes the case split and the decision",
        modelled=["the seizure's book-keeping beyond custody (locked-vault record fields, auction prices, interest accrual inside the seizure) "
                  "is judged by predicate on the implementation, not re-computed",
                  "capacity of the Go slice GetVaults returns is an env input measured by the harness (append growth policy)",
                  "borrow seizure: the locked vault's debt / target-debt / fee / bonus fields, the auction's prices and the interest written back to the "
                  "seized borrow are not re-computed (C10 / C18); InterestAccumulated of a visit is an env input measured with the lend keeper's own "
                  "CalculateBorrowInterestForLiquidation / ReBalanceStableRates on a shadow branch",
                  "the borrow workload holds no vaults (the vault half of the V2 hook runs on an empty list there); the first-generation borrow sweep "
                  "(x/liquidation, BeginBlocker not wired on this tree) has no workload",
                  "a pool without second transit asset / an asset without rate parameters (nil Dec in the threshold product) is not reachable through the "
                  "lend message server and not modelled",
                  "ESM price-snapshot branch of CalculateCollateralizationRatio is modelled but unreachable from the sweeps (ESM on blocks them first)"],
        assumptions=["vault ids are assigned in increasing order and the KV iteration order is by id (big-endian keys)",
                     "liveness theorems: batch >= 1 (every batch size the parameter validation admits since fix C09-F4: c09_valid_batch), counter = list "
                     "length, controls off, prices active, liquidation and its auction enabled; for a borrow additionally: its pool holds the recorded "
                     "collateral and cTokens (UpdateLockedBorrows can complete)",
                     "asset denoms are unique (a denom is identified with its asset id in the bridged-denom comparison)"],
    )

MANIFEST = dict(
    level_text="Safety (no position at or above its liquidation ratio / at or below its threshold is ever seized, by any sweep of either "
               "generation or by the liquidate message) proved for every population, offset, batch size, counter value and slice capacity; the threshold "
               "applicable to a borrow is the model's applicable_threshold, computed from the raw record fields exactly as LiquidateIndividualBorrow does (e-mode "
               "base; same pool / first transit / second transit product in sdk.Dec), and exact hand-over of a borrow seizure (collateral pool -> auction custody, "
               "cToken burn, pool statistics, lend position, IsLiquidated, one locked vault, one auction, nothing else) is proved for every world; both are replayed "
               "and judged on the REAL lend + liquidationsV2 keepers with exact-threshold price boundaries; "
               "slice bounds proved; liveness proved by induction for the single-offset sweep with an explicit bound in blocks that holds for "
               "every price path and every interleaving of creations / closes of other positions; the liquidationsV2 hook is proved to be that "
               "sweep on the vault list and an independent, per-item wrapped sweep on the borrow list (after the fixes C09-F2: own offset key, "
               "C09-F3: ApplyFuncIfNoError per borrow, C09-F4: batch size <= MaxInt64), and the borrow sweep is proved live for every verdict of the other borrows, errors and "
               "panics included (quiet chain: within (n-1)/batch+2 blocks, i.e. within the literal 'two full sweeps'; with repayments and new borrows inserted "
               "anywhere in the list: blive_bound); the literal 'two full "
               "sweeps' bound for vaults is proved refuted and listed as a known finding with witnesses replayed on the real keepers. Model "
               "tied to /repo by a differential run of the real BeginBlockers and messages on every check.",
    design_ref="DESIGN.md section 4 C09",
    level_note="Trusted: Coq kernel, extraction (ExtrOcamlBasic), OCaml runner, Go harness. No axioms (Closed under the global context).",
    technique="Coq proof (decision rule + potential-function induction over event histories) + model/implementation correspondence run",
)
