PROP = dict(
        coq="Properties/C09.v",
        workloads=[
            dict(name="liquidation-sweeps", go_test="TestC09", runner="C09",
                 env=dict(quick=dict(VERIF_CASES=240), thorough=dict(VERIF_CASES=6000))),
            dict(name="borrow-liquidation", go_test="TestC09Borrow", runner="C09-borrow",
                 env=dict(quick=dict(VERIF_CASES=60), thorough=dict(VERIF_CASES=2500))),
        ],
        rule="case = (generation V1|V2, 1-2 apps enabled for liquidation, batch 1-5 (0 is rejected by the module's param validation), 1-12 vaults over 4 extended pairs / 2 collateral "
             "assets (decimals 10^6, 10^8) with ratios at, just above and far above the liquidation ratio, then 6-25 blocks of the REAL "
             "BeginBlocker each preceded by up to 2 user steps: price moves incl. threshold+-1 and inactive prices, vault create / close, "
             "MsgLiquidateInternalKeeper on open and unknown ids, accrued-interest edits, kill switch / ESM toggles, LengthOfVault edits "
             "(counter != list length, incl. wrap below zero)); every 4th case is a quiet starvation run (one price drop, then only blocks); "
             "5 directed schedules run last (the two C09-F1 witnesses on both generations, and the regression of the repaired C09-F2: "
             "2 vaults, batch 1, second unsafe, V2); the V2 projection holds both sweep offsets (key 0 vaults, key 1 borrows); "
             "the populations hold no lend borrows (the borrow rules and the borrow sweep are proved on the model only); "
             "non-trivial = at least one position was seized in the case; distinct by digest of (kind, generation, batch, per-block seized ids, messages)",
        modelled=["the seizure's book-keeping beyond custody (locked-vault record fields, auction prices, interest accrual inside the seizure) "
                  "is judged by predicate on the implementation, not re-computed",
                  "capacity of the Go slice GetVaults returns is an env input measured by the harness (append growth policy)",
                  "the V2 borrow sweep and the borrow seize rule have no harness workload (no lend borrows in the C09 populations); C15's "
                  "crash-point run drives the real LiquidateBorrows on liquidatable borrows",
                  "ESM price-snapshot branch of CalculateCollateralizationRatio is modelled but unreachable from the sweeps (ESM on blocks them first)"],
        assumptions=["vault ids are assigned in increasing order and the KV iteration order is by id (big-endian keys)",
                     "liveness theorems: batch >= 1, counter = list length, controls off, prices active, liquidation and its auction enabled"],
    )

MANIFEST = dict(
    level_text="Safety (no position at or above its liquidation ratio / at or below its threshold is ever seized, by any sweep of either "
               "generation or by the liquidate message) proved for every population, offset, batch size, counter value and slice capacity; "
               "slice bounds proved; liveness proved by induction for the single-offset sweep with an explicit bound in blocks that holds for "
               "every price path and every interleaving of creations / closes of other positions; the liquidationsV2 hook is proved to be that "
               "sweep on the vault list and an independent, per-item wrapped sweep on the borrow list (after the fixes C09-F2: own offset key, "
               "C09-F3: ApplyFuncIfNoError per borrow), and the borrow sweep is proved live for every verdict of the other borrows, errors and "
               "panics included (quiet chain: within (n-1)/batch+2 blocks, i.e. within the literal 'two full sweeps'); the literal 'two full "
               "sweeps' bound for vaults is proved refuted and listed as a known finding with witnesses replayed on the real keepers. Model "
               "tied to /repo by a differential run of the real BeginBlockers and messages on every check.",
    design_ref="DESIGN.md section 4 C09",
    level_note="Trusted: Coq kernel, extraction (ExtrOcamlBasic), OCaml runner, Go harness. No axioms (Closed under the global context).",
    technique="Coq proof (decision rule + potential-function induction over event histories) + model/implementation correspondence run",
)
