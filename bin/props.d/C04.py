PROP = dict(
        coq="Properties/C04.v",
        workloads=[
            dict(name="liquidity-custody", go_test="TestC04", runner="C04",
                 env=dict(quick=dict(VERIF_CASES=30), thorough=dict(VERIF_CASES=700))),
            dict(name="keeper-f1", go_test="TestC05KeeperHunt", runner="C04",
                 env=dict(quick=dict(VERIF_CASES=2), thorough=dict(VERIF_CASES=20))),
        ],
        rule="case = (3 apps, 1-3 pairs per app, basic pools on 85% and ranged pools on 35% of the pairs; in 35% of the cases the creator withdraws the "
             "WHOLE pool-coin supply of a fresh pool in a batch of its own (supply 0, pool disabled); then 3-8 batches of 10-40 ops: 45% pool ops "
             "(deposit / withdraw / farm / unfarm / deposit-and-farm / unfarm-and-withdraw / extra pool creation by 5 liquidity providers, amounts from "
             "1 to the whole balance +1) interleaved with the C07 order stream (limit / market / market-making orders, cancels), each batch closed by the "
             "real EndBlocker and BeginBlocker, time advancing 7-20 s or 13 h so that farming queues mature); the module's own registered invariants are "
             "the same pair / pool ids name different coins in different apps (pair definitions rotated per app), and 18% of the pool messages are CROSS-APP attempts: the "
             "message names (app, pool id) but carries the pool coin - or, for deposits, the pair's coins - of ANOTHER app's pool with the same id, half of them sent "
             "by the creator who holds the initial shares of every pool (must fail; nothing may change); 25% of the cases carry the order-life scenario of C07; the "
             "supply clause is evaluated for EVERY pool whenever its supply changed or one of its requests was executed; workload keeper-f1 = the directed search of C05 (known finding C05-F1 reached through the keeper) judged by the C04 predicates: the pair escrow then holds less than the remaining offer coins "
             "of its live orders (kf_C05_1_via_fills) and a rolled-back batch leaves requests pending for ever (kf_C05_2_stall); the module's own invariants are "
             "run after every block as a second opinion (recorded, never substituted for the predicates); non-trivial = at least one deposit/withdraw "
             "request was executed and one farm/unfarm succeeded; distinct by digest of the op kinds and result classes. "
             "All predicates are evaluated after EVERY message (transaction), BeginBlocker and EndBlocker. In 70% of the cases a SOLE-PROVIDER scenario runs through the "
             "in-transaction execution paths (MsgDepositAndFarm / MsgUnfarmAndWithdraw execute their request inside the transaction, not in the batch): the account that holds the WHOLE "
             "pool-coin supply of a pool farms all of it (in one piece, in two pieces, across block boundaries / the maturation of the farming queue) and unfarms-and-withdraws all of it, "
             "all but one share and then the last share, one share more than farmed (refused) and then all, a part in the transaction and the rest through a withdraw request of the batch, "
             "or after a second provider joined by deposit-and-farm (the creator leaves, then the second provider: the supply reaches zero with the LAST of them); followed in the SAME "
             "block by 2-5 deposits / deposit-and-farm / withdraw requests / farm / unfarm-and-withdraw on that pool and basic / ranged pool creation attempts on its pair (a pool whose "
             "supply reached zero inside a transaction must be disabled at once: deposits are refused, a new basic pool of the pair is accepted); 8% of the random pool messages are sent by "
             "the pool creator. The order stream contains WRONG-COIN orders (5% of the order ops, and in 60% of the cases a battery of 5-10 of them around a resting buy and a resting sell "
             "order, then counter orders that cross those): limit / market orders whose coins are wrong in one position at a time - right demand coin with a foreign offer coin, right offer "
             "coin with a foreign demand coin, swapped, both foreign, the pair's other coin in the wrong position, the same coin twice; the foreign coin is the third asset of the app, the "
             "fee asset or the pool coin of a pool of this or another app - sent by accounts that HOLD the offered coin with valid price and amounts, so that the pair check of "
             "ValidateMsgLimitOrder / ValidateMsgMarketOrder decides (MsgMMOrder carries no coin denoms). The pair-escrow clause is evaluated per DENOM: for the pair's two coins, every "
             "asset and every coin an accepted order offers, escrow balance >= remaining offer coins of the pair's live orders in that denom",
        modelled=["the matching engine (C05's subject) and the pool share arithmetic (C06's subject) enter as ENV read off the implementation's records; "
                  "the theorems hold for every ENV", "sdk.Int 256-bit overflow panics (amounts stay below 10^40)",
                  "gas, events, reward gauges (farming rewards are paid by x/rewards, outside the liquidity custody accounts)",
                  "pool messages carry their coin denoms (ODeposit coins, OWithdraw / OFarm / OUnfarm / OUnfarmAndWithdraw pool-coin denom): Liquidity.pool_coin_check / "
                  "deposit_coins model ValidateMsgWithdraw / Farm / Unfarm / UnfarmAndWithdraw / Deposit", "pool-coin denoms are encoded as 1000 + 100*app + pool in the ledger (injective for pool ids < 100; the farmed-coins clause is stated per "
                  "denom, the supply / disabled clauses per pool key)",
                  "the bank keeper: SendCoins / MintCoins / BurnCoins semantics incl. the supply.Sub panic of BurnCoins"],
        assumptions=["an app's liquidity parameters are registered once before its first pair", "plain accounts only (no vesting / blocked addresses)",
                     "MinInitialPoolCoinSupply > 0 and swap fee rate >= 0 (both enforced by the parameter validation; hypotheses min_pc_ok / params_ok)",
                     "nobody sends coins directly to the custody accounts (a direct transfer only increases a balance; the exact clauses are about module-driven flows)",
                     "c04_pair_escrow is relative to C05: it carries the net of the recorded fills of the pair (surplus >= 0) as an explicit hypothesis; "
                     "c04_pair_escrow_needs_conservation shows the hypothesis cannot be dropped"],
    )

MANIFEST = dict(
    level_text="Executable Gallina model of the custody flows of x/liquidity (pair / basic / ranged pool creation, deposit and withdraw requests and their "
               "execution incl. the depleted-pool and zero-result refund paths, farm / unfarm with the LIFO queue consumption, deposit-and-farm, "
               "unfarm-and-withdraw, queued-farmer maturation, the EndBlocker with per-app atomicity) on a ledger with the global escrow, pair escrows, pool "
               "reserves and the module account. Proved for every finite history of operations with any ENV, by a generic sweep over the model's leaf "
               "transitions: global escrow = coins of the pending deposit + withdrawal requests (exactly); pair escrow >= remaining offer coins of its live "
               "orders relative to conservation of the recorded fills (with a witness that the hypothesis is needed); module account = queued + active "
               "farmed pool coins per pool-coin denom (exactly); zero pool-coin supply implies disabled; and, for every operation in every state, the supply "
               "of a pool changes only by its creation or by deposits / withdrawals executed against it. The model is tied to /repo by a differential run "
               "of the real msg server, BeginBlocker and EndBlocker on every check; the extracted predicates judge the implementation's balances and "
               "records after every step.",
    design_ref="DESIGN.md section 4 C04",
    level_note="Trusted: Coq kernel, extraction (ExtrOcamlBasic), OCaml runner, Go harness. Matching results and pool share arithmetic enter as ENV; the "
               "pair-escrow clause is stated relative to conservation of the recorded fills (C05). No axioms (Closed under the global context).",
    technique="Coq proof (custody invariants by induction over op histories through a generic leaf-transition sweep) + model/implementation correspondence run",
)
