PROP = dict(
        tie_coq=["Properties/TieC03.v"],
        coq='Properties/C03.v',
        workloads=[
            dict(name="vault-random", go_test="TestC01", runner='C03',
                 env=dict(quick=dict(VERIF_CASES=160), thorough=dict(VERIF_CASES=4000))),
        ],
        rule="case = (1-2 apps, 2-3 CDP products + usually one stable-mint product over assets with decimal pairs (6,6) (6,18) (18,6) (8,6) (18,18), draw-down fee in {0, 1e-18, 0.5%, 1%, 0.999..}, closing / stability fees zero and non-zero, min c-ratio in {1, 1+1e-18, 1.3, 1.5, 1.7, 2}, 2-4 funded users, 20-60 ops: create / deposit / withdraw / draw / repay / close / deposit-and-draw / stable-mint create-deposit-withdraw / interest-calc messages through MsgServiceRouter on a CacheContext with amounts at the keeper's own accept/reject threshold (+-1), 0, 1, dust, 2^200, malformed routing (wrong app, foreign pair, foreign vault id), time advances, price moves incl. inactive prices, breaker / ESM switches with price snapshots, unsolicited transfers to the custody account; every 25th case is the fixed C02-F1 witness history); non-trivial = a vault was created and >= 3 messages succeeded in the case; distinct by digest of (products, op sequence with env values and result classes)",
        modelled=["interest added inside a handler by rewards.CalculateVaultInterest: env value recorded by the harness with a dry run of the real function on a CacheContext (its arithmetic is C18's subject)", "collector / rewards bookkeeping behind UpdateCollector (only its error condition; the books are C13's subject)", 'liquidation seizure, auction settlement and ESM redemption / auction returns are NOT in the vault model: the theorems quantify over histories of vault messages, donations and environment changes (prices, time, ESM, breaker); the awaiting-settlement terms of the property are identically zero in such histories', 'sdk.Int 256-bit overflow panics of Add/Sub (amounts stay below the total supply < 2^256); uint64 wrap of the id counters'],
        assumptions=['users are plain accounts (no vesting / blocked addresses)', 'extended-pair and asset records are not edited while vaults are open (governance)', 'block time never decreases'],
    )

MANIFEST = dict(
    level_text="Decision rule proved for all amounts, prices and decimal scales: a successful create / draw / withdraw / deposit-and-draw outside ESM leaves the vault with Dec ratio >= min c-ratio as computed by CalculateCollateralizationRatio (three half-even Quo roundings), and hence exact rational collateral value / debt value >= min_cr - explicit slack (cr_exact_ok); debt floor on every open vault and debt ceiling on every product's published total (= real outstanding principal by C01) proved as invariants over every finite history of vault messages; an inactive required price makes the four operations fail with the state unchanged.",
    design_ref='DESIGN.md section 4 C03',
    level_note='Trusted: Coq kernel, extraction (ExtrOcamlBasic), OCaml runner, Go harness. Interest amounts are environment inputs (C18); liquidation / auction ops are not in the model. No axioms (Closed under the global context).',
    technique='Coq proof (decision rule + rounding bound + invariants by induction over op histories) + model/implementation correspondence run with threshold-directed amounts',
)
