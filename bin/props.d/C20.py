PROP = dict(
        coq="Properties/C20.v",
        workloads=[
            dict(name="genesis-roundtrip", go_test="TestC20", runner="C20",
                 env=dict(quick=dict(VERIF_CASES=12), thorough=dict(VERIF_CASES=600))),
            dict(name="genesis-roundtrip-liquidations", go_test="TestC20Liq", runner="C20",
                 env=dict(quick=dict(VERIF_CASES=8), thorough=dict(VERIF_CASES=300))),
            dict(name="genesis-roundtrip-lend", go_test="TestC20Lend", runner="C20",
                 env=dict(quick=dict(VERIF_CASES=8), thorough=dict(VERIF_CASES=200))),
            dict(name="genesis-roundtrip-rich", go_test="TestC20Rich", runner="C20",
                 env=dict(quick=dict(VERIF_CASES=16), thorough=dict(VERIF_CASES=600))),
        ],
        rule="genesis-roundtrip: case = one generated scenario (1-5 vaults on two extended pairs with a draw-down fee, optional close of the newest / a random vault, "
             "0-4 lockers with optional close, collector lookup + auction mapping, with or without the secondary asset registered as genesis token "
             "(case 0 forces every feature on; case 1 is the regression of the repaired C20-F1 / C20-F12: net fees collected, lockers, secondary asset NOT a genesis token), "
             "liquidity pairs/pool/orders/pending deposit/queued farmer, esm trigger params + kill switch, rewards whitelists + external rewards for stable-mint vaults + one stable-mint vault, liquidation V1 begin-blocker sweep with batch size 2/3/200) "
             "-> ExportGenesis of all 14 DeFi modules -> JSON -> InitGenesis into emptied module stores on a branch of the same chain -> per (module, prefix) dump comparison "
             "+ 15-30 fixed continuation steps + a random continuation on both branches (12 steps quick, 80 thorough: vault create/deposit/draw/repay/withdraw/close, "
             "locker create/deposit/withdraw/close, liquidity orders/deposits/withdrawals/cancels/end-blocker, asset registration, price moves, blocks, liquidation V1 sweeps, "
             "auction V1 begin-blocker; every operation addresses a user's objects through that chain's own lookup tables; a step is attributed to a known hole only while that hole "
             "is observably active: differing id counters, differing sweep offsets and vault sets). "
             "genesis-roundtrip-liquidations: 3-6 vaults under-collateralised by a price drop, 1..n-1 liquidated before the export through liquidationsV2 (message) + auctionsV2 "
             "(partial market bid, optional buy-out of the first auction, optional limit bid) or through the liquidation V1 sweep + auction V1 (partial bid, optional buy-out of the "
             "first or the newest auction); forced cases 0-3 are the witnesses of C20-F2/F3/F5 (V2), C20-F4/F7/F15 (V1, first auction bought out) and C20-F14 (V1, newest bought out); "
             "12-14 continuation steps (next liquidation, ids, bids on new and old auctions, limit-bid deposit/withdraw/cancel, begin-blockers). "
             "genesis-roundtrip-lend: 3-6 lend positions and 0-3 borrows in one pool, then an OLDER lend / borrow closed while younger ones stay open (a gap in the id space: forced case 0), "
             "or the newest (forced case 1), or none; fresh-ids continuation: next lend id, borrow id, pair id, pool id on both chains, the open positions afterwards, deposits into and closing of "
             "positions opened before the export (addressed through each chain's own lookup). The other workloads build the same gap histories for vaults, lockers, V1/V2 auctions and locked vaults. "
             "evaluations = prefix comparisons + import calls + continuation steps; non-trivial = at least 20 populated (module, prefix) pairs compared and at least 10 continuation steps; "
             "distinct by the scenario parameters",
        modelled=["store keys and values as opaque codes (60-bit digests); ids = trailing 8 bytes of the key",
                  "InitGenesis success path; setters that can return an error on a condition over OTHER state only mark the prefixes they (and everything after an aborting one) feed as at risk; "
                  "setters that reject on a condition over the imported item alone (collector.SetNetFeeCollectedData: negative fee; recognised by the translator as guard kind 3/4) are taken on their success path; "
                  "so are setters validating against other modules when the table shows the validation harmless (guard_harmless: sole writer of its prefixes, no read of its own store, foreign reads only of never-deleted round-tripping prefixes of modules initialised earlier: esm.SetKillSwitchData)",
                  "derived indexes (asset by denom/name, liquidity pair/pool/order indexes) as an abstract function of the exported records, with the consistency of the original state as a hypothesis",
                  "fresh chain = the DeFi module stores and parameter subspaces emptied on a branch of the populated chain (bank, auth, staking state identical by construction)"],
        assumptions=["the translator's reading of store accesses (go/types): Set/Delete/Get/Has/iterators on a KVStore with a key resolved to a declared 1-byte prefix; unresolved writes are Unrecognised rows and fail the theorem",
                     "counters recomputed as a maximum are exact only when the collection is never deleted from and the counter was its maximum id (hypothesis of c20_counters_partial)",
                     "a counter restored as the id of the LAST imported record is listed like a maximum: the bulk getters iterate the store in ascending id order (big-endian id keys); a counter among the known holes is in its class only in the listed restore shape (known_counter_shapes)",
                     "an import setter that rejects an item on a condition over the item alone accepts every record the module's own writers stored (collector net fees: both writers of the prefix reject a negative result); checked by the behavioural run (prediction 'identical' for that prefix), not proved",
                     "a record accepted by a validating setter when it was written is accepted again at import when that setter is the only writer of the prefix and the foreign state it consults only grows and is imported earlier (guard_harmless); checked by the behavioural run on the esm kill switches"],
    )

MANIFEST = dict(
    level_text="Genesis coverage of all 14 DeFi modules decided by computation over a table regenerated from the Go source on every run (store prefixes and their writers, ExportGenesis field<-getter<-prefixes read, InitGenesis setter<-fields->prefixes written, counter restore shapes, error-guarded setters and whether their error depends on the item alone or on other state) and lifted by generic lemmas: every live prefix outside 11 listed known-finding classes (3-6, 8-11, 14-16) round-trips (init (export s) = s on it) and every id counter outside them is restored to its value; fresh-id lemma for max-restored counters. Each class has a refutation theorem. The table+model's per-prefix prediction is compared with the real ExportGenesis->JSON->InitGenesis of every module on generated states, and a fixed plus a random continuation workload (user messages, block hooks, price moves) is run on both chains, comparing result classes, assigned ids and balance changes step by step.",
    design_ref="DESIGN.md section 4 C20",
    level_note="Partial: 11 known-finding classes. 10 are reproduced on the real code and listed (auctionsV2 bids/limit bids not exported, liquidation V1 locked-vault id = count, liquidationsV2 locked-vault id never restored, sweep offsets, vault StableMintVaultRewards, locker id counter, vault id counter = max live id, auction V1 biddings/histories/last-auction ids, liquidation V1 histories, rewards stable-mint external rewards/epochs): all need new GenesisState fields. 1 is read from the regenerated table only (class 11: asset genesis-token-for-app, collector refund counter, esm snapshots, lend per-pool balances, liquidationsV2 reserve tx data, rewards locker/vault external-reward ids, plus the lend/rewards counters of class 10): lend liquidation auctions, external locker/vault rewards, gauges and esm deposits are not populated by the behavioural run. Decided not a defect: the esm kill-switch import guard (former class 13: sole writer, validates against never-deleted asset apps, asset initialised before esm - read from the table as guard_deps / init_order and checked by c20_esm_guard_harmless). Four former classes are fixed with patches under fixes/ (C20-F1 net-fee export, C20-F2 auctionsV2 counters, C20-F7 auction V1 lend field, C20-F12 collector lookup import): their theorems are deleted, their witnesses are regression examples and forced harness cases. Not seen by the table: auction V1 ExportGenesis reads the lend dutch auctions of app id 3 only (GetDutchLendAuctions(ctx, 3)). Trusted: Coq kernel, the translator tools/goextract/emit_genesis.go, extraction, OCaml runner, Go harness. No axioms.",
    technique="Translator-regenerated table + Coq decision procedure proved sound against an export/init model (vm_compute + forallb_forall) + behavioural round-trip correspondence run",
)
