PROP = dict(
        coq="Properties/C20.v",
        workloads=[
            dict(name="genesis-roundtrip", go_test="TestC20", runner="C20",
                 env=dict(quick=dict(VERIF_CASES=12), thorough=dict(VERIF_CASES=300))),
            dict(name="genesis-roundtrip-liquidations", go_test="TestC20Liq", runner="C20",
                 env=dict(quick=dict(VERIF_CASES=8), thorough=dict(VERIF_CASES=200))),
        ],
        rule="case = one generated scenario (1-5 vaults on two extended pairs with a draw-down fee, optional close of the newest / a random vault, "
             "0-4 lockers with optional close, collector lookup + auction mapping, with or without the secondary asset registered as genesis token "
             "(case 0 forces every feature on; case 1 is the regression of the repaired C20-F1 / C20-F12: net fees collected, lockers, secondary asset NOT a genesis token), "
             "liquidity pair/pool/orders/pending deposit/queued farmer, esm trigger params + kill switch, rewards whitelists, liquidation begin-blocker "
             "sweep) -> ExportGenesis of all 14 DeFi modules -> JSON -> InitGenesis into emptied module stores on a branch of the same chain -> "
             "per (module, prefix) dump comparison + 15-30 continuation steps on both branches; evaluations = prefix comparisons + import calls + "
             "continuation steps; non-trivial = at least 20 populated (module, prefix) pairs compared and at least 10 continuation steps; "
             "distinct by the scenario parameters",
        modelled=["store keys and values as opaque codes (60-bit digests); ids = trailing 8 bytes of the key",
                  "InitGenesis success path; setters that can return an error on a condition over OTHER state only mark the prefixes they (and everything after an aborting one) feed as at risk; "
                  "setters that reject on a condition over the imported item alone (collector.SetNetFeeCollectedData: negative fee; recognised by the translator as guard kind 3/4) are taken on their success path",
                  "derived indexes (asset by denom/name, liquidity pair/pool/order indexes) as an abstract function of the exported records, with the consistency of the original state as a hypothesis",
                  "fresh chain = the DeFi module stores and parameter subspaces emptied on a branch of the populated chain (bank, auth, staking state identical by construction)"],
        assumptions=["the translator's reading of store accesses (go/types): Set/Delete/Get/Has/iterators on a KVStore with a key resolved to a declared 1-byte prefix; unresolved writes are Unrecognised rows and fail the theorem",
                     "counters recomputed as a maximum are exact only when the collection is never deleted from and the counter was its maximum id (hypothesis of c20_counters_partial)",
                     "an import setter that rejects an item on a condition over the item alone accepts every record the module's own writers stored (collector net fees: both writers of the prefix reject a negative result); checked by the behavioural run (prediction 'identical' for that prefix), not proved"],
    )

MANIFEST = dict(
    level_text="Genesis coverage of all 14 DeFi modules decided by computation over a table regenerated from the Go source on every run (store prefixes and their writers, ExportGenesis field<-getter<-prefixes read, InitGenesis setter<-fields->prefixes written, counter restore shapes, error-guarded setters and whether their error depends on the item alone or on other state) and lifted by generic lemmas: every live prefix outside 11 listed known-finding classes round-trips (init (export s) = s on it) and every id counter outside them is restored to its value; fresh-id lemma for max-restored counters. Each class has a refutation theorem. The table+model's per-prefix prediction is compared with the real ExportGenesis->JSON->InitGenesis of every module on generated states, and a continuation workload is run on both chains.",
    design_ref="DESIGN.md section 4 C20",
    level_note="Partial: 11 known-finding classes (3 reproduced on the real code and listed: sweep offsets, locker id counter, vault id counter - all need a GenesisState field; 8 read from the regenerated table only: lend/auction/auctionsV2/liquidation states are not populated by the behavioural run). Two former classes are fixed (C20-F1 net-fee export, C20-F12 collector lookup import): their theorems are deleted, their witnesses are regression examples and forced harness cases. Trusted: Coq kernel, the translator tools/goextract/emit_genesis.go, extraction, OCaml runner, Go harness. No axioms.",
    technique="Translator-regenerated table + Coq decision procedure proved sound against an export/init model (vm_compute + forallb_forall) + behavioural round-trip correspondence run",
)
