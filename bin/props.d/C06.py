PROP = dict(
        coq="Properties/C06.v",
        tie_coq=["Properties/TieC06.v"],
        workloads=[
            dict(name="amm-pure", go_test="TestC06Pure", runner="C06",
                 env=dict(quick=dict(VERIF_CASES=3000, VERIF_SMALL=4), thorough=dict(VERIF_CASES=25000, VERIF_SMALL=8))),
            dict(name="amm-sequences", go_test="TestC06Seq", runner="C06",
                 env=dict(quick=dict(VERIF_CASES=170), thorough=dict(VERIF_CASES=3000))),
            dict(name="amm-ranged", go_test="TestC06Ranged", runner="C06",
                 env=dict(quick=dict(VERIF_CASES=45, VERIF_C06_NEIGH=1), thorough=dict(VERIF_CASES=1500, VERIF_C06_NEIGH=4))),
            dict(name="liquidity-keeper", go_test="TestC06Keeper", runner="C06-keeper",
                 env=dict(quick=dict(VERIF_CASES=14), thorough=dict(VERIF_CASES=300))),
        ],
        exhaustive_in=dict(thorough=True),
        rule="amm-pure: case = one call of the real amm.Deposit / amm.Withdraw / InitialPoolCoinSupply; first every (rx,ry,ps,x,y) in 0..S (ps=0 is the panic path) "
             "and every withdrawal (rx,ry,ps in 0..S, pc<=ps, fee in {0,0.003,0.5,1}) with S=4 quick / S=8 thorough, then random operands of 1-133 bits incl. "
             "0, 1, 10^40, 10^40+-1, 2^133-1, powers of ten, thirds, offers in the pool's ratio, 2% malformed (negative, >200-bit, fee>1); non-trivial = the call minted shares / paid coins. "
             "amm-sequences: case = CreateBasicPool on random reserves then 5-40 deposits/withdrawals threaded exactly as ExecuteDepositRequest/ExecuteWithdrawRequest do "
             "(depleted -> fail, pc=0 -> fail, x=y=0 -> fail), incl. last-share redemptions, pc=ps-1, pc=ps+1, tiny deposits into big pools; non-trivial = at least one executed deposit and one executed withdrawal. "
             "amm-ranged: case = CreateRangedPool on an admissible (min,max,initial) triple (min from 10^-15 to 10^19, gap from exactly 0.1% to 10^10x, max up to 10^20, initial at/next to both bounds and inside; 3% inadmissible) "
             "or NewRangedPool on arbitrary reserves (one-sided, in-range ratio, arbitrary), then 3-15 deposits/withdrawals, with pool.Price() after every step and BuyAmountOver/SellAmountUnder at prices at, outside and inside the range; "
             "35% of the cases are EXACTLY BALANCED offers: the counterpart of x (and of y) at the initial price is computed with the real amm.CreateRangedPool (the other coin abundant) and the offers "
             "(x, cy-1), (x, cy), (x, cy+1), (cx-1, y), (cx, y), (cx+1, y) are made for x, y and neighbouring amounts, initial price strictly inside / one step from a bound / at min / at max; the extracted "
             "holds_C06_create judges accepted <= offered for both coins on every returned pool and ranged_roots_ok (proved from the validation: c06_validated_roots_ok) is evaluated on every triple; "
             "the first four cases are the fixed witnesses of C06-F1/C06-F2; non-trivial = a price was observed. distinct by digest of the case's inputs and operations. "
             "liquidity-keeper: 70% of the pairs get one or two ranged pools through the REAL MsgCreateRangedPool whose DepositCoins are an exactly balanced offer (or one unit off) for a tick-aligned triple, "
             "the creator holding far more than offered: holds_C06_create judges the amm amounts, the coins that LEFT THE CREATOR'S WALLET per denom (creation fee excluded) and the coins the new reserve received against DepositCoins; "
             "case = the C04 custody history through the REAL msg server / EndBlocker with three apps whose pairs and pools have the SAME ids (pair coins rotated per app), "
             "withdraw fee rates {0, 0.3%, 50%}, a warm-up batch in which liquidity providers deposit into every pool, then 3-8 batches of 8-23 ops, 80% pool ops (deposit / withdraw / farm / unfarm / "
             "deposit-and-farm / unfarm-and-withdraw), 18% of them cross-app attempts (the message names (app, pool id) with the pool coin / pair coins of another app's pool of the same id; half by the creator, "
             "who holds shares of every pool); after EVERY step and for EVERY pool the runner projects (reserve x, reserve y, share supply) from the observed reserve balances and bank supply, replays "
             "Pool.deposit / Pool.withdraw on them for every request executed on that pool (in the EndBlocker's order, after the pool's recorded swap flows) and compares accepted / minted / paid amounts, "
             "evaluates holds_C06_deposit / holds_C06_withdraw / holds_C06_value on the implementation's amounts, and holds_C06_untouched: what was observed after the step is exactly what the executed "
             "requests (and swaps) explain - a step that executes nothing on a pool leaves its reserves and supply exactly as they were; non-trivial = at least one request was executed",
        modelled=["the reserve/supply threading of keeper.ExecuteDepositRequest/ExecuteWithdrawRequest around the real amm calls (bank, escrow and request status are C04's Liquidity model)",
                  "ApproxSqrt/Power intermediate overflow panics inside the Newton loop (sizes are bounded by the admissible price range; never observed)"],
        assumptions=["amounts non-negative, 0 < pc <= ps for a withdrawal (the shares were escrowed from the withdrawer), fee rate in [0,1]",
                     "c06_create_ranged_bounded is unconditional: 0 < sqrt(min) <= sqrt(initial) <= sqrt(max) for the Newton roots the call computes (ranged_roots_ok) is PROVED from ValidateRangedPoolParams (Proofs/SqrtProofs.v: on (0, 10^20] the model of utils.DecApproxSqrt leaves its loop through the delta test, is positive, within one unit of the exact root and exactly weakly monotone); the runner still evaluates ranged_roots_ok on every replayed creation",
                     "price clause for the implemented fixed-point pipeline is measured, not proved (c06_ranged_price_ideal_partial); excursions above 10^-6 of the bound outside the two listed classes are violations"],
    )

MANIFEST = dict(
    level_text="For all non-negative integers (no size bound: the SafeMath overflow fallback is part of the model) amm.Deposit never accepts more than offered and mints shares at no better than reserves per share (exact against the offer, slack rx*ps*10^-18 against the accepted amounts, shown attained), amm.Withdraw never returns more than the pro-rata share reduced by the fee (exact), the last shares redeem the entire reserves, neither call panics on a live pool; lifted by induction to every finite history of deposits and withdrawals on a basic or ranged pool: reserves per share never fall below (1-10^-18)^n >= 1-n*10^-18 of their initial value, n = number of deposits. Creating a ranged pool never accepts more of either coin than offered, for all offers and price triples on which CreateRangedPool returns a pool (no hypothesis: that the three computed Newton square roots are positive and ordered is proved from ValidateRangedPoolParams - ApproxSqrt is exactly weakly monotone on (0, 10^20] - and still evaluated on every replayed creation; amm.CreateRangedPool and NewRangedPool are regenerated from the source and proved equal to the model for all inputs). Ranged order-book clamps never exceed the reserves. Through the keeper: a pool message that carries any pool coin other than the named pool's own (in particular the shares of another app's pool with the same pool id), or deposit coins outside the pool's pair, is rejected and changes nothing (model theorem; the keeper workload checks it on the real msg server for every pool after every step). The ranged-pool price clause is proved only for exact arithmetic (idealised square roots, over Q); for the code it is refuted by two witnesses (fresh pool 82% below min through the single-asset shortcut of DeriveTranslation; single-asset pool 15% above max) listed as known findings, and otherwise measured on every run.",
    design_ref="DESIGN.md section 4 C06",
    level_note="Trusted: Coq kernel, extraction (ExtrOcamlBasic), OCaml runner, Go harness; the model of cosmossdk.io/math (Lib/DecArith) is tied by the DEC correspondence target. No axioms (every theorem Closed under the global context). The sequence workload threads reserves through the real amm calls itself; the keeper workload observes reserves and supply on the real keeper (swaps against a pool enter as the recorded flows; they are C05's subject).",
    technique="Coq proof (algebraic laws over Z with exact sdk.Dec rounding, induction over operation histories, idealised curve lemma over Q) + model/implementation correspondence run of the real amm package with the extracted predicates judging the implementation's outputs",
)
