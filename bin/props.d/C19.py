PROP = dict(
        coq="Properties/C19.v",
        workloads=[
            dict(name="gauge-history", go_test="TestC19", runner="C19",
                 env=dict(quick=dict(VERIF_CASES=90), thorough=dict(VERIF_CASES=2000))),
            dict(name="lend-program", go_test="TestC19Lend", runner="C19",
                 env=dict(quick=dict(VERIF_CASES=25), thorough=dict(VERIF_CASES=400))),
            dict(name="split", go_test="TestC19Split", runner="C19-split",
                 env=dict(quick=dict(VERIF_CASES=1500), thorough=dict(VERIF_CASES=60000, VERIF_EXHAUSTIVE=1))),
        ],
        rule="gauge-history: case = a fresh rewards module on a fixture with 3 liquidity pools (their 3 swap-fee gauges), 6 farmers, a locker asset and a vault pair; "
             "1-5 MsgCreateGauge through the msg router (deposit: 1, = epochs, epochs-1, divisible, with remainder, 2^63-1, 2^63, 2^64-1, >= 2^64, random; epochs 0,1,2,3,5,7,11; "
             "durations 12h-1s,12h,24h,36h; start now/future/past; plain / master pools with valid and invalid child pools; unknown app / pool; under-funded creator), "
             "0-4 ActivateExternalRewardsLockers / Vault (1 .. 9e18, 2^63-1, 2^63; 1-7 days), MsgFarm / MsgUnfarm, price changes incl. price removal, lockers, vaults, "
             "swap fees arriving, a second pool on a pair, donations, then 6-20 blocks = liquidity.EndBlocker + rewards.BeginBlocker with block time advancing by 6 s .. 4.6 days "
             "(trigger, no trigger, skipped epochs); every 10th case directed at tiny allocations (class 1), at a swap-fee gauge with a failing fee transfer (class 2), at program rounding (class 3). "
             "After every step the model state is diffed against all gauge / epoch / program records and the module balances of 5 denoms, over a BeginBlocker also every watched account's balance delta "
             "and the implementation's own GetFarmingRewardsData result for the allocation that is due; predicates on the implementation: split sums, per-epoch cap, paid <= booked, share <= pro-rata*(1+1e-12), custody. "
             "non-trivial = some account was paid during the case; distinct by digest of operations and environment. "
             "lend-program: case = 1-2 ActivateExternalRewardsLend (reward denoms with oracle prices 1e-6 .. 30, 1-3 days, totals 1 .. 1e12, unknown pool, under-funded) on the C12 fixture world "
             "(one borrower farming in the master pool), donations, price changes, 4-8 BeginBlockers; same diff and predicates. "
             "split: SplitTotalAmountPerEpoch called directly: every (total <= 60, epochs <= 12) (thorough: <= 200, <= 30), boundary totals up to 2^64-1, random; non-trivial = non-empty result",
        modelled=["farmed values per active farmer (CalculateXYFromPoolCoin, CalcAssetPrice), child-pool contributions, the amount TransferFundsForSwapFeeDistribution hands over, "
                  "locker / vault populations: recorded environment values, recomputed by the harness with the keeper's own exported functions before each BeginBlocker",
                  "Dec.MustFloat64 / math.Floor / int64() as exact round-to-nearest-even binary64 (Lib/F64.v), validated value for value against GetFarmingRewardsData on every BeginBlocker",
                  "bank: plain accounts, one module account, sends fail only for insufficient funds",
                  "whole seconds for block times, start times and durations"],
        assumptions=["stable-mint external reward programs are absent (not modelled); lend programs: the borrowers' min(farmed value, borrowed value) and the reward asset's price are recorded environment values",
                     "ESM / circuit breaker off for the apps of external programs (their early returns are not modelled)",
                     "the swap-fee distribution denom parameter does not change",
                     "c19_share is proved for farmers worth at least one unit (10^18 scaled) and outside class C19-F1; the general bound is c19_share_general",
                     "custody is proved for histories that meet none of the classes C19-F2, C19-F3, C19-F4 (run_clean) and whose recorded fee transfers are non-negative (op_wf); inside the classes it is refuted by witness and on the real keepers; c19_program_safe gives an input condition (balances add up to at most the recorded total, 4 * owners * available <= 10^18) under which a program step is outside C19-F3"],
    )

MANIFEST = dict(
    level_text="Proved in Coq over an executable model of x/rewards (gauges incl. swap-fee gauges, epochs, external locker / vault / lend programs, one custody account, several denoms) and of the farming share formula with exact binary64 rounding: per-epoch allocations sum exactly to the deposit; each trigger books at most the epoch's allocation and pays at most what it books; cumulative distributed <= deposit over every history; farmer payout within 1e-12 of pro rata outside class C19-F1 (general bound for all inputs); custody >= undistributed remainder of all gauges and programs over every history that meets no known-finding class. Four defects contradict the property text, are proved as refutations with witnesses and reproduced on the real keepers on every run: C19-F1 (share rounding for tiny allocations), C19-F2 (swap-fee gauge re-distributes the same fees when the fee transfer fails, draining other gauges' funds), C19-F3 (external locker / vault program overdraws by rounding at amounts >= ~1e17), C19-F4 (lend reward program pays the reward's oracle VALUE as an AMOUNT: overdraws whenever price > days left). Tied to /repo by a differential run of the real msg handlers and rewards.BeginBlocker on every check.",
    design_ref="DESIGN.md section 4 C19",
    level_note="Trusted: Coq kernel, extraction, OCaml runner, Go harness. Environment values (farmed values, fee transfers, populations) are recorded, not modelled. Stable-mint external programs not modelled. No axioms (Closed under the global context).",
    technique="Coq proof (exact sum, induction over epoch histories, rounding bounds over exact Dec and binary64 models) + model/implementation correspondence run",
)
