PROP = dict(
        coq="Properties/C19.v",
        tie_coq=["Properties/TieC19.v"],
        workloads=[
            dict(name="gauge-history", go_test="TestC19", runner="C19",
                 env=dict(quick=dict(VERIF_CASES=60), thorough=dict(VERIF_CASES=2000))),
            dict(name="lend-program", go_test="TestC19Lend", runner="C19",
                 env=dict(quick=dict(VERIF_CASES=20), thorough=dict(VERIF_CASES=400))),
            dict(name="split", go_test="TestC19Split", runner="C19-split",
                 env=dict(quick=dict(VERIF_CASES=1000), thorough=dict(VERIF_CASES=60000, VERIF_EXHAUSTIVE=1))),
        ],
        rule="gauge-history: case = a fresh rewards module on a fixture with 3 liquidity pools (their 3 swap-fee gauges), 6 farmers, a locker asset and a vault pair; "
             "1-5 MsgCreateGauge through the msg router (deposit: 1, = epochs, epochs-1, divisible, with remainder, 2^63-1, 2^63, 2^64-1, >= 2^64, 18-decimals-token amounts with allocations between 2^53 and 2^63 where binary64 is coarser than one unit, random; epochs 0,1,2,3,5,7,11; "
             "durations 12h-1s,12h,24h,36h; start now/future/past; plain / master pools with valid and invalid child pools where none / some / all of the master pool's farmers farm in a child pool (histogram master:eligible-*); unknown app / pool; under-funded creator), "
             "0-4 ActivateExternalRewardsLockers (on two apps) / Vault (1 .. 9e18, 2^63-1, 2^63; 1-7 days), the admin's kill switch of the programs' apps turned on and off, MsgFarm / MsgUnfarm, price changes incl. price removal, lockers, vaults, "
             "swap fees arriving, a second pool on a pair, donations, then 6-20 blocks = liquidity.EndBlocker + rewards.BeginBlocker with block time advancing by 6 s .. 4.6 days "
             "(trigger, no trigger, skipped epochs; programs of 2^63 whose Int64() panics: that program step is rolled back by its own ApplyFuncIfNoError while the epoch bookkeeping, the gauge payouts and the other program steps stay - histogram hook:*; gauges of >= 2^64 whose Uint64() panics in the epoch step: the whole hook is dropped); every 10th case directed at tiny allocations (class 1), at a swap-fee gauge with a failing fee transfer (former class 2, regression), at program rounding with 1e18..9e18 over 3-6 equal lockers (former class 3, regression), at the input of fix b2d3331 (kind hookerr: locker programs on two apps and a vault program, the kill switch of the later program's app on for 2-3 blocks: DistributeExtRewardLocker pays the first program and then returns its error; histogram hook:locker-step:error-after-earlier-program-processed:rolled-back). "
             "After every step the model state is diffed against all gauge / epoch / program records and the module balances of 5 denoms, over a BeginBlocker also every watched account's balance delta "
             "and the implementation's own GetFarmingRewardsData result for the allocation that is due; predicates on the implementation: split sums, per-epoch cap, paid <= booked, share <= pro-rata*(1+1e-12) and nothing paid when nobody has an eligible value, custody. "
             "non-trivial = some account was paid during the case; distinct by digest of operations and environment. "
             "lend-program: case = 1-2 ActivateExternalRewardsLend (reward denoms with oracle prices 1e-6 .. 30, 1-3 days, totals 1 .. 1e12, unknown pool, under-funded) on the C12 fixture world "
             "(one borrower farming in the master pool), donations, price changes, the lend app's kill switch toggled, 4-8 BeginBlockers; same diff and predicates. "
             "split: SplitTotalAmountPerEpoch called directly: every (total <= 60, epochs <= 12) (thorough: <= 200, <= 30), boundary totals up to 2^64-1, random; non-trivial = non-empty result",
        modelled=["farmed values per active farmer (CalculateXYFromPoolCoin, CalcAssetPrice), child-pool contributions, the amount TransferFundsForSwapFeeDistribution hands over, "
                  "locker / vault populations: recorded environment values, recomputed by the harness with the keeper's own exported functions before each BeginBlocker",
                  "Dec.MustFloat64 / math.Floor / int64() as exact round-to-nearest-even binary64 (Lib/F64.v), validated value for value against GetFarmingRewardsData on every BeginBlocker",
                  "bank: plain accounts, one module account, sends fail only for insufficient funds",
                  "whole seconds for block times, start times and durations"],
        assumptions=["stable-mint external reward programs are absent (not modelled); lend programs: the borrowers' min(farmed value, borrowed value) and the reward asset's price are recorded environment values",
                     "the kill switch of a program's app is a recorded environment flag (xe_halt / le_halt): the distribution returns its error at that program and the whole step is rolled back; the ESM status takes the same return path and is not exercised by the harness (an executed ESM is not reversible and has effects outside this model)",
                     "rewards.BeginBlocker as repaired by b2d3331: one outer ApplyFuncIfNoError, TriggerAndUpdateEpochInfos directly in it, each program distribution in its own ApplyFuncIfNoError (c19_hook_isolation)",
                     "the model follows the repaired code of fixes/C19-F2 (SetGauge before continue) and fixes/C19-F3 (multiply before divide): against a /repo without these patches the check reports VIOLATION",
                     "the swap-fee distribution denom parameter does not change",
                     "c19_share is proved for farmers worth at least one unit (10^18 scaled) and outside class C19-F1; the general bound is c19_share_general",
                     "custody (c19_custody_gauges_programs) is proved with no class excluded for every history of gauges, swap-fee gauges and locker / vault programs whose recorded environment is well-formed (op_wf: fee transfers hand over non-negative coins; the owners' balances of a program are non-negative and add up to at most the recorded total - checked by the runner on every recorded population); with lend programs (c19_custody) for histories that do not meet class C19-F4 (run_clean); inside C19-F4 it is refuted by witness and on the real keepers"],
    )

MANIFEST = dict(
    level_text="Proved in Coq over an executable model of x/rewards (gauges incl. swap-fee gauges, epochs, external locker / vault / lend programs, one custody account, several denoms; rewards.BeginBlocker with its per-step ApplyFuncIfNoError wrapping) and of the farming share formula with exact binary64 rounding: per-epoch allocations sum exactly to the deposit; each trigger books at most the epoch's allocation and pays at most what it books (swap-fee gauges included, no exception); cumulative distributed <= deposit over every history; farmer payout within 1e-12 of pro rata outside class C19-F1 (general bound for all inputs), nothing for a farmer without eligible value; a locker / vault program never books more than it has left; custody >= undistributed remainder of all gauges and programs over EVERY history of gauges and locker / vault programs, and over every history with lend programs that does not meet class C19-F4; a failing program step never touches the gauges or stops the hook. Two defects contradict the property text, are proved as refutations with witnesses and reproduced on the real keepers on every run: C19-F1 (share rounding for tiny allocations), C19-F4 (lend reward program pays the reward's oracle VALUE as an AMOUNT: overdraws whenever price > days left). Two more were repaired (patches fixes/C19-F2: swap-fee gauge re-paid the same fees when the fee transfer failed; fixes/C19-F3: locker / vault program overdrew by rounding shares before multiplying) and the model follows the repaired code; their witnesses are regression examples. Tied to /repo by a differential run of the real msg handlers and rewards.BeginBlocker on every check.",
    design_ref="DESIGN.md section 4 C19",
    level_note="Trusted: Coq kernel, extraction, OCaml runner, Go harness. Environment values (farmed values, fee transfers, populations) are recorded, not modelled. Stable-mint external programs not modelled. No axioms (Closed under the global context).",
    technique="Coq proof (exact sum, induction over epoch histories, rounding bounds over exact Dec and binary64 models) + model/implementation correspondence run",
)
