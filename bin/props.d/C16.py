PROP = dict(
        coq="Properties/C16.v",
        workloads=[
            dict(name="replays", cmd="harness/c16_replay.sh", runner="C16",
                 env=dict(quick=dict(VERIF_CASES=24), thorough=dict(VERIF_CASES=120)),
                 timeout=dict(quick=600, thorough=3000)),
        ],
        rule="the same seeded history (fixture at Friday 2024-03-08 12:00 UTC: lends, borrows, 2 vaults, liquidity pair + pool, an app `govx` created by the asset AddApp proposal handler "
             "whose liquidity generic params are ALL set to non-default values (SwapFeeRate, WithdrawFeeRate, SwapFeeBurnRate 0.25, MaxPriceLimitRatio, "
             "MinInitialDepositAmount, MinInitialPoolCoinSupply, Pair/PoolCreationFee, MaxOrderLifespan, OrderExtraGas) by the UpdateGenericParams "
             "proposal handler, with a pair (CreateNewLiquidityPair proposal) and a pool; an external "
             "vault-reward program and an external locker-reward program (two lockers) each paying once a day; then 24 (thorough 120) blocks of 6-15 transactions: limit orders at 7 prices with repeats "
             "so that several orders share a price, pool deposits, vault create / deposit / draw, orders in govx's pair, NEW APPS THAT TAKE THE DEFAULT liquidity parameters (AddApp + CreateNewLiquidityPair "
             "proposals, then a pool and an order by a user; at most one per block, 4 + blocks/4 in all), at one third of the history a "
             "re-parametrisation of the running apps through the contract bindings of app/wasm (UpdatePairsVault, WhitelistAppIDVaultInterest, "
             "WhitelistAppIDLockerRewards, UpdateCollectorLookupTable, AddAuctionParams, WhitelistAppIDLiquidation) and governance handlers (lend "
             "AddAssetRatesParams / AddAuctionParams, auctionsV2 DutchAutoBidParams, liquidationsV2 WhitelistLiquidation, liquidity UpdateGenericParams "
             "of the swap app), after every block parameter QUERIES on a dropped branch (liquidity gRPC GenericParams of both apps, pair vault, auction, "
             "whitelisting, lend rates; govx is decoded last, so the non-default values are what the process saw last when the second in-process "
             "replay starts; the answers are part of the observation), a price drop at 2/3 of the history that triggers "
             "V2 liquidations, all wired block hooks at every block; two blocks out of three 6 s apart, the third 9 h 17 min later, so that 24 "
             "blocks span three days and cross the US daylight-saving switch of 2024-03-10 and several midnights of every zone used) replayed in "
             "2 fresh in-process applications and 4 fresh processes: GOMAXPROCS 1 / TZ=UTC, GOMAXPROCS 2 / TZ=America/New_York, GOMAXPROCS 8 / "
             "TZ=Asia/Tokyo (time/tzdata is embedded in the harness), and GOMAXPROCS 4 with DISCARDED DRY RUNS before every transaction: the "
             "same message (or proposal / new-app sequence) on a cache context that is never written (signer funded there), then the same on a second dropped branch "
             "on which liquidity generic params, all oracle prices, the extended-pair vault parameters, both auction parameter sets, the "
             "liquidation whitelistings, the lend rate parameters, the reward epoch and (every 4th) the kill switch were changed and a block 49 h "
             "in the future ran (all hooks); case = block; observation per block = SHA-256 of each of the 15 DeFi module stores, of the balances "
             "of all touched accounts + supplies, of the query answers, and each transaction's result class; non-trivial = at least 2 replays, successful "
             "transactions, replays in at least 3 different zones one of which switches its offset inside the history (the runner reads the "
             "offsets each process reports), and a dry-run replay; a difference between any two replays is a predicate failure naming block, "
             "store and replay",
        modelled=["float results are assumed reproducible on one architecture (amd64); cross-architecture determinism of math.Pow is out of reach",
                  "bank is compared through balances of the accounts the workload touches and total supplies (the genesis validator set of "
                  "app.Setup is random per application, so the raw bank store is not comparable)",
                  "the order used by sort.Strings / sort.Slice is any total antisymmetric transitive order (c16_site_1, c16_site_3)",
                  "process-state scan: objects of other modules (SDK / IBC / wasmd keepers, BaseApp, module manager, params subspace, store keys, "
                  "codec: the closed list procstate_ext_ok) are not looked into; values behind interface-typed fields and variables captured by "
                  "function literals are not followed; package-level slices / pointers handed to functions are not followed (only direct "
                  "writes, and every alias of a package-level map / channel / sync value)",
                  "alias scan (procstate-alias): whole-program, flow- and field-insensitive taint from every package-level variable / field of a "
                  "state-machine struct whose type holds a *big.Int (Dec, Int, Uint, Coin(s), DecCoin(s), big.Int, structs / slices / maps / pointers of them) "
                  "through locals, fields, literals, &, *, conversions, append, range, arguments / receivers / results of repository functions (interface "
                  "methods resolved to every implementer; pointer parameters written in the callee taint the caller's argument), results of "
                  "Coin(s) methods and of external functions given an alias (MinDec, NewCoin ...); NOT followed: values stored into fields of heap objects "
                  "reached only through other pointers (the holder variable at the bottom of the left-hand side becomes the alias), channels, "
                  "values boxed in interfaces and unboxed elsewhere than by a type assertion on the same variable, function literals called through "
                  "variables, reflection (reflect.ValueOf of an address is a row), by-VALUE arguments of functions outside the repository (trusted not "
                  "to run in-place methods on them); known read-only callees are a name list (Marshal* / MustMarshal* / Get* / Validate* / Is* / Has* / "
                  "Size / String / fmt printing / errors wrapping ...); a function is listed under the FIRST source its result aliases",
                  "local-time scan: a time.Time that arrives from outside a function (block header time, decoded store values, parameters) is "
                  "taken to be in UTC - which holds by induction because every zone-of-the-process Time that leaves a function is itself a row; "
                  "Truncate / Round work on the absolute instant and are followed, not failed"],
        assumptions=["map iteration is the only language-level source of nondeterminism besides goroutines, select, clocks, randomness, "
                     "environment reads, memory of the process outside the store and the zone of the process, whose absence outside registered "
                     "sites is the table theorem c16_no_ambient (with c16_no_process_state, c16_no_default_aliasing and c16_no_local_time)",
                     "packages under /simulation, /client/, /testutil, module_simulation.go and app/test_*.go are not scanned for ambient sources",
                     "registered harmless sites of the unchanged tree (each read; justification beside the registry in Model/MapSites.v): "
                     "(1) 14 x types.RegisterInterfaces pass &_Msg_serviceDesc (generated gRPC descriptor) to msgservice.RegisterMsgServiceDesc, "
                     "which only reads it; (2) 4 read-only methods of the external named map module.BasicManager on the package variable "
                     "app.ModuleBasics (RegisterGRPCGatewayRoutes, RegisterLegacyAminoCodec, RegisterInterfaces, DefaultGenesis); (3) the "
                     "context-taking types x/liquidity/types.BulkSendCoinsOperation (per-call batch of bank sends, filled and run inside one keeper "
                     "call) and x/asset/keeper.Migrator never leave the call stack (checked by the translator: no field, package variable, "
                     "interface conversion, external call, literal, closure or channel holds one); (4) types.ParseTime returns time.Parse's "
                     "result without .UTC() but nothing in non-test code refers to it (caller list checked empty / wiring-only); (5) two alias sites: "
                     "asset.SetParams hands &params (possibly types.DefaultParams(), whose fee Coin shares its big.Int with "
                     "types.DefaultAssetRegistrationFee) to the params subspace's SetParamSet, which copies each field out by reflection, validates "
                     "and amino-JSON-encodes it (read in cosmos-sdk v0.47.5 x/params/types/subspace.go: nothing decodes into the pointer); "
                     "liquidity.UpdateGenericParams does reflect.ValueOf(&genericParams).Elem().FieldByName(k).Set(v) on a local copy that may come from "
                     "DefaultGenericParams: Set ASSIGNS the field (replaces the struct that holds the pointer), the shared big.Int is not written"],
    )

MANIFEST = dict(
    level_text="For every `for ... range <map>` in the non-test, non-generated code of x/, types/ and app/ (4 today, found by the type-checked "
               "translator and registered by the hash of the loop text) the site result is proved independent of the enumeration order for ALL "
               "permutations: the pro-rata fill loop of amm/match.go (orders filled independently, quote differences added, panics included), the "
               "Dec sum of pool liquidities (with its 315-bit overflow panic), and the two collect-then-sort sites; c16_sites_covered fails on a new "
               "or edited map loop and on reflect / maps.Keys enumerations; c16_no_ambient establishes from the regenerated reference graph that no "
               "goroutine / select exists and randomness / wall clock / environment occur only in simulation helpers nothing else refers to; "
               "c16_no_process_state: no write to memory of the process (fields of keeper / module / app structs and what they hold, package-level "
               "variables, in-place Dec / big.Int operations, sync / atomic values) outside init, constructors and registered read-only sites, no "
               "unlisted external type held, no alias the scan cannot follow; c16_no_default_aliasing: no COPY of a package-level / keeper-held Dec / "
               "Int / Coin(s) / big.Int value (it shares the big.Int of the original; followed through the whole program) is handed by address to a "
               "decoder or used as the receiver of an in-place method outside two registered read-only sites; c16_no_local_time: no Time in the zone of the process used in a "
               "calendar / formatting operation or let out of a function before .UTC(). Tied dynamically by replaying one seeded multi-module "
               "history in 2 in-process applications and 4 processes (different GOMAXPROCS, TZ=UTC / America/New_York / Asia/Tokyo across a "
               "daylight-saving switch, and one with discarded dry runs before every transaction) and comparing per-block store digests; the history "
               "sets non-default parameters through the governance / contract-binding paths and keeps creating apps that take the defaults, so a "
               "default leaked through the memory of the process shows in the second in-process replay.",
    design_ref="DESIGN.md section 4 C16",
    level_note="Determinism of the Gallina model itself would be vacuous; the theorems are about the Go-level nondeterminism sources. Float "
               "reproducibility across architectures is assumed. The process-state and local-time theorems are closed-world table facts over "
               "the regenerated AmbientTable (finite, vm_compute + forallb_forall); an unrecognised shape is a failing row. No axioms.",
    technique="Coq proof (permutation invariance per map-range site, generic fold lemma) + translated closed-world tables (ambient sources, "
              "process-local mutable state, aliases of process-wide Dec / Int / Coin values, local time zone) + multi-process / multi-zone / dry-run replay",
)
