PROP = dict(
        coq="Properties/C16.v",
        workloads=[
            dict(name="replays", cmd="harness/c16_replay.sh", runner="C16",
                 env=dict(quick=dict(VERIF_CASES=24), thorough=dict(VERIF_CASES=120)),
                 timeout=dict(quick=600, thorough=3000)),
        ],
        rule="the same seeded history (fixture: lends, borrows, 2 vaults, liquidity pair + pool; then 24 (thorough 120) blocks of 6-15 "
             "transactions: limit orders at 7 prices with repeats so that several orders share a price, pool deposits, vault create / deposit / "
             "draw, a price drop at 2/3 of the history that triggers V2 liquidations, all wired block hooks at every block) replayed in 2 fresh "
             "in-process applications and 3 fresh processes (GOMAXPROCS 1, 2, 8); case = block; observation per block = SHA-256 of each of the 15 "
             "DeFi module stores, of the balances of all touched accounts + supplies, and each transaction's result class; non-trivial = at "
             "least 2 replays and successful transactions; a difference between any two replays is a predicate failure naming block and store",
        modelled=["float results are assumed reproducible on one architecture (amd64); cross-architecture determinism of math.Pow is out of reach",
                  "bank is compared through balances of the accounts the workload touches and total supplies (the genesis validator set of "
                  "app.Setup is random per application, so the raw bank store is not comparable)",
                  "the order used by sort.Strings / sort.Slice is any total antisymmetric transitive order (c16_site_1, c16_site_3)"],
        assumptions=["map iteration is the only language-level source of nondeterminism besides goroutines, select, clocks, randomness and "
                     "environment reads, whose absence outside registered simulation helpers is the table theorem c16_no_ambient",
                     "packages under /simulation, /client/, /testutil, module_simulation.go and app/test_*.go are not scanned for ambient sources"],
    )

MANIFEST = dict(
    level_text="For every `for ... range <map>` in the non-test, non-generated code of x/, types/ and app/ (4 today, found by the type-checked "
               "translator and registered by the hash of the loop text) the site result is proved independent of the enumeration order for ALL "
               "permutations: the pro-rata fill loop of amm/match.go (orders filled independently, quote differences added, panics included), the "
               "Dec sum of pool liquidities (with its 315-bit overflow panic), and the two collect-then-sort sites; c16_sites_covered fails on a new "
               "or edited map loop and on reflect / maps.Keys enumerations; c16_no_ambient establishes from the regenerated reference graph that no "
               "goroutine / select exists and randomness / wall clock occur only in simulation helpers nothing else refers to. Tied dynamically by "
               "replaying one seeded multi-module history in 2 in-process applications and 3 processes and comparing per-block store digests.",
    design_ref="DESIGN.md section 4 C16",
    level_note="Determinism of the Gallina model itself would be vacuous; the theorems are about the Go-level nondeterminism sources. Float "
               "reproducibility across architectures is assumed. No axioms.",
    technique="Coq proof (permutation invariance per map-range site, generic fold lemma) + translated closed-world tables + multi-process replay",
)
