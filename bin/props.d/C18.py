PROP = dict(
        tie_coq=["Properties/TieC18.v"],
        coq="Properties/C18.v",
        # directed search after a broken correspondence / proof: two more seeds at twice the quick budget
        search_rounds=2, search_env=dict(VERIF_CASES=3000),
        workloads=[
            dict(name="accrual-rates", go_test="TestC18", runner="C18",
                 env=dict(quick=dict(VERIF_CASES=1500), thorough=dict(VERIF_CASES=15000))),
            dict(name="accrual-sites", go_test="TestC18Sites", runner="C18-sites",
                 env=dict(quick=dict(VERIF_CASES=500), thorough=dict(VERIF_CASES=5000))),
            dict(name="accrual-pair-fee", go_test="TestC18Pair", runner="C18-pair",
                 env=dict(quick=dict(VERIF_CASES=300), thorough=dict(VERIF_CASES=6000))),
        ],
        rule="case = a group of 1-3 calls of one REAL function on neighbouring / consecutive inputs: CalculateLendReward, CalculateBorrowInterest, "
             "CalculateStableInterest, Rewardskeeper.CalculationOfRewards (float path; x, y, math.Pow(x,y) recorded as IEEE bit patterns), or (kind R) one set of "
             "rate parameters sent through every validation path (AssetRatesParams.Validate, AssetRatesPoolPairs.Validate, both proposals' ValidateBasic, "
             "GenesisState.Validate, the governance handler -> keeper.AddAssetRatesParams, keeper.AddAssetRatesPoolPairs) and then 7-9 ascending "
             "utilisations (0, 1 ulp, kink-1ulp, kink, random, 1) through GetUtilisationRatio/GetBorrowAPRByAssetID(both kinds)/GetLendAPR on a lend-pool fixture; "
             "case 0 is always the regression case of C18-F1 (UOptimal = 1); "
             "inputs from a lattice (amounts 1..2^62, rates 0..10 incl. 1e-18, seconds 0,1,6,86400,1y,30y, indices 0.005..2, UOptimal 0, 1e-18 .. 1-1e-18, 1, 1+1e-18, 2) mixed with random; "
             "non-trivial = some call returned ok with a non-zero amount (or the handler accepted the parameters / a rate was computed); distinct by digest of the case's lines. "
             "Workload accrual-sites: case = 1-4 consecutive calls (increasing block time, 25% zero-time repeats) of one REAL accrual site on records written with the keepers' setters: "
             "rewards.CalculateVaultInterest, asset.VaultIterateRewards, rewards.CalculateLockerRewards, lend.IterateLends, lend.IterateBorrow (variable and stable-rate, with "
             "GetAverageBorrowRate / GetReserveRate / GetBorrowAPRByAssetID observed); guards varied (app / reward whitelisting, missing pair or collector lookup, zero fee, stable-mint vault, "
             "block height 0 time base, negative elapsed time, missing or short net fees, unfunded collector, principal beyond int64); the model state (tracker, record, time base, indices) is "
             "threaded through the history and diffed after every call; predicates holds_C18_site_* judged on the implementation's records; non-trivial = some call accrued a non-zero amount. "
             "Workload accrual-pair-fee: case = a history of 8-19 steps {later block (0 s .. 2 y), MsgCreate, MsgVaultInterestCalc, MsgDeposit, MsgDraw, AssetKeeper.WasmUpdatePairsVault} through the real "
             "message router / keeper on a fresh extended pair (initial fee zero in 12%, app not whitelisted for vault interest in 8%); 40% of the cases follow the skeleton 'two vaults, fee switched off, "
             "a vault touched or not, fee switched on again, interest calculated in the same / a later block', case 0 and 10% replay the former witness of C18-F2 (repaired: fixes/C18-F2) as a regression, the rest is random; fee updates by the fee in force: "
             "zero -> 80% non-zero / 20% zero; non-zero -> 40% zero / 40% another non-zero / 20% the same fee (distribution incl. 'some vault carries its own stamp' printed as setfee:* histograms); "
             "the pair's (fee, stamps) and every vault's (AmountOut, InterestAccumulated, tracker, stamps) are diffed after every step; holds_C18_pair_charge judges what the IMPLEMENTATION charged each "
             "vault in each step against the real CalculationOfRewards at the fee in force before the step over the time since the later of the vault's last settlement and the start of that fee "
             "(zero when that fee is zero or no time has passed); non-trivial = some step accrued a non-zero amount",
        modelled=["math.Pow: its leading special cases (y == 0 || x == 1 -> 1, y == 1 -> x; src/math/pow.go) are modelled exactly (Model/Pow.v go_pow) and compared with every observation; "
                  "otherwise its observed result is an input of the model. The only assumed property is monotonicity on the operand box [1,11] x [0,100] (PowMonoBox, the explicit premise of "
                  "c18_cmp_nonneg / c18_cmp_monotone), tested on every pair of neighbouring observations; c18_cmp_zero_time / c18_cmp_zero_rate need no hypothesis. "
                  "H4 (quasi-multiplicativity over consecutive intervals, pow x y1 * pow x y2 <= (1 + en/2^53) * pow x y12, the premise of c18_cmp_subadditive) is measured on every interval "
                  "triple (en reported; en > 4096 is reported as a broken correspondence) and the proved bound is judged on the three implementation results with that en.",
                  "strconv.ParseFloat / FormatFloat as exact round-to-nearest-even (Lib/F64.v), validated bit-for-bit by the correspondence run"],
        assumptions=["pair fee histories (c18_pair_*): the sweep VaultIterateRewards stops at the first error of CalculationOfRewards (non-finite float result; negative elapsed time cannot occur) and "
                     "WasmUpdatePairsVault goes on to stamp the pair - histories with such an interrupted sweep are excluded by an explicit premise (ps_intr = false), not reproduced; block height >= 1; "
                     "the binding's AppID is the pair's app; closing / liquidating vaults and MsgRepay / MsgWithdraw (same CalculateVaultInterest + stamp shape as MsgDeposit) are not in the op set",
                     "accrual sites: the bank transfers, cToken mint and statistics of IterateLends and the reserve/buy-back bookkeeping are C08's subject and are not modelled here (the harness funds the accounts so that they succeed); "
                     "collector.LockerIterateRewards (the loop copy of the locker site) is not driven",
                     "principal 0..2^63-1, rates >= 0, global index > 0 (a zero index makes Quo panic; the model returns Panic too)",
                     "rate-model parameters are those accepted by AssetRatesParams.Validate (model: Rates.rates_valid, compared with the real Validate on every R case); "
                     "c18_rate_defined additionally bounds each rate parameter below 2^128 ulps (beyond that the 315-bit Dec limit can panic)",
                     "InitGenesis, the v2 store migration and the upgrade handlers write rate parameters with keeper.SetAssetRatesParams without validation (outside the theorems; the harness "
                     "forces such parameters into the store and still compares the rate functions with the model)",
                     "sub-additivity of the float compound accrual (c18_cmp_subadditive) is proved through both float roundings and the 18-decimal formatting with slack "
                     "amount * pow(x, y12) * (en + 5) * 2^-53 + 2 ulp: amount-relative, not one ulp",
                     "sub-additivity of the index accrual holds with slack amt*(4 + H/gi1 + H/gi2 + H/gi12) ulps, not one ulp (c18_idx_excess_witness)"],
    )

MANIFEST = dict(
    level_text="All clauses of C18 proved in Coq over an exact model of the Dec arithmetic and of binary64 rounding: non-negativity, zero over zero time, monotonicity in time/rate/principal for the index accrual, stable interest and (under the single tested hypothesis that math.Pow is monotone on the reachable operand box; zero over zero time and at zero rate unconditionally) the float compound accrual; sub-additivity over consecutive intervals for the index accrual AND for the float compound accrual (through the float roundings, under the tested quasi-multiplicativity H4 of math.Pow) with explicit principal-proportional slacks (a witness shows one-ulp slack is false); tracker carry; the accrual SITES (vault stability fee, locker savings, lend reward, borrow interest incl. stable-rate and reserve share): operand selection, conservation record+tracker, zero over zero time, whole histories; rate model over the parameters that AssetRatesParams.Validate accepts: defined on all of [0,1], base value, monotonicity across the kink, kink continuity bound, lend <= borrow. Tied to /repo by a differential run of the real keeper functions and of every validation path on every check (float path reproduced bit for bit).",
    design_ref="DESIGN.md section 4 C18",
    level_note="Trusted: Coq kernel, extraction, OCaml runner, Go harness. math.Pow monotonicity on the operand box (premise of nonneg/monotone) and H4 (premise of sub-additivity) are tested, not proved. No axioms (Closed under the global context). C18-F1 (UOptimal >= 1 accepted) is repaired: fixes/C18-F1.",
    technique="Coq proof (monotonicity / rounding bounds over exact Dec and binary64 models) + model/implementation correspondence run",
)
