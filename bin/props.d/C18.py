PROP = dict(
        coq="Properties/C18.v",
        workloads=[
            dict(name="accrual-rates", go_test="TestC18", runner="C18",
                 env=dict(quick=dict(VERIF_CASES=1500), thorough=dict(VERIF_CASES=40000))),
        ],
        rule="case = a group of 1-3 calls of one REAL function on neighbouring / consecutive inputs: CalculateLendReward, CalculateBorrowInterest, "
             "CalculateStableInterest, Rewardskeeper.CalculationOfRewards (float path; x, y, math.Pow(x,y) recorded as IEEE bit patterns), or 7-9 ascending "
             "utilisations (0, 1 ulp, kink-1ulp, kink, random, 1) through GetUtilisationRatio/GetBorrowAPRByAssetID(both kinds)/GetLendAPR on a lend-pool fixture; "
             "inputs from a lattice (amounts 1..2^62, rates 0..10 incl. 1e-18, seconds 0,1,6,86400,1y,30y, indices 0.005..2) mixed with random; "
             "non-trivial = some call returned ok with a non-zero amount (or a rate was computed); distinct by digest of the case's lines",
        modelled=["math.Pow (its observed result is an input of the model; hypotheses H1-H3 are premises of the c18_cmp_* theorems and H1-H4 are tested on every observed point, not proved)",
                  "strconv.ParseFloat / FormatFloat as exact round-to-nearest-even (Lib/F64.v), validated bit-for-bit by the correspondence run"],
        assumptions=["principal 0..2^63-1, rates >= 0, global index > 0 (a zero index makes Quo panic; the model returns Panic too)",
                     "rate-model parameters 0 < UOptimal < 1, slopes >= 0, 0 <= reserve factor <= 1 (UOptimal >= 1 is the known finding C18-F1)",
                     "c18_cmp_subadditive is proved only up to the exact core (c18_cmp_subadditive_partial); the bound through the float roundings is judged on the implementation by predicate only",
                     "sub-additivity of the index accrual holds with slack amt*(4 + H/gi1 + H/gi2 + H/gi12) ulps, not one ulp (c18_idx_excess_witness)"],
    )

MANIFEST = dict(
    level_text="All clauses of C18 proved in Coq over an exact model of the Dec arithmetic and of binary64 rounding: non-negativity, zero over zero time, monotonicity in time/rate/principal for the index accrual, stable interest and (under the tested math.Pow hypotheses H1-H3) the float compound accrual; sub-additivity over consecutive intervals with an explicit principal-proportional slack (a witness shows one-ulp slack is false); tracker carry; rate model base value, monotonicity across the kink, kink continuity bound, lend <= borrow. UOptimal = 1 is proved to panic at full utilisation and is a known finding. Tied to /repo by a differential run of the real keeper functions on every check (float path reproduced bit for bit).",
    design_ref="DESIGN.md section 4 C18",
    level_note="Trusted: Coq kernel, extraction, OCaml runner, Go harness. math.Pow hypotheses H1-H4 are tested, not proved. No axioms (Closed under the global context).",
    technique="Coq proof (monotonicity / rounding bounds over exact Dec and binary64 models) + model/implementation correspondence run",
)
