PROP = dict(
        coq="Properties/C17.v",
        tie_coq=["Properties/TieC17.v"],
        workloads=[
            dict(name="market-random", go_test="TestC17", runner="C17",
                 env=dict(quick=dict(VERIF_CASES=400), thorough=dict(VERIF_CASES=6000))),
            dict(name="market-exhaustive", go_test="TestC17", runner="C17", tiers=("thorough",),
                 env=dict(thorough=dict(VERIF_EXHAUSTIVE=7))),
            dict(name="band-pipeline", go_test="TestC17Band", runner="C17-band",
                 env=dict(quick=dict(VERIF_CASES=150), thorough=dict(VERIF_CASES=4000))),
        ],
        rule="case = (window size n in 1..6, gap, 1-3 assets, 5-40 ops: direct UpdatePriceList samples and whole market.BeginBlocker runs "
             "with validation/discard flags and short rate lists; samples from {0,1,small,2^62,2^63-1,2^63,2^64-1,random}); "
             "non-trivial = some asset became active during the case; distinct by digest of (n, gap, op sequence). "
             "thorough adds every sample sequence of length <= 7 over {0,3,2^63,2^64-1} for n in 1..3, gap in {0,40}",
        modelled=["band oracle packet handling (samples are injected by writing the fetch result)", "uint64 arithmetic as Z (the 128-bit sum of the repaired CalculateTwa is exact)"],
        assumptions=["window size n fixed within a case (the property fixes N)", "block heights positive and increasing"],
    )

MANIFEST = dict(
    level_text="Ring-refinement invariant of the price window proved for every window size n>=1 and every finite history of samples / discard resets / validation failures (no panic, activation only on a full window, published value = integer mean of the last n samples). The two defects found on the original tree (window size 1 panic, uint64 wrap of the sum) were repaired by fix: commits b0fc61e and ba7bc26; the model follows the repaired code and their witnesses stay in the corpus. The model is tied to /repo by a differential run of UpdatePriceList and market.BeginBlocker on every check.",
    design_ref="DESIGN.md section 4 C17",
    level_note="Trusted: Coq kernel, extraction (ExtrOcamlBasic), OCaml runner, Go harness; band packet handling modelled by injecting fetch results. No axioms (Closed under the global context).",
    technique="Coq proof (ring-refinement invariant by induction over histories) + model/implementation correspondence run",
)
