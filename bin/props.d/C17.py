PROP = dict(
        coq="Properties/C17.v",
        tie_coq=["Properties/TieC17.v", "Properties/TieC17Band.v"],
        workloads=[
            dict(name="market-random", go_test="TestC17", runner="C17",
                 env=dict(quick=dict(VERIF_CASES=400), thorough=dict(VERIF_CASES=6000))),
            dict(name="market-exhaustive", go_test="TestC17", runner="C17", tiers=("thorough",),
                 env=dict(thorough=dict(VERIF_EXHAUSTIVE=7))),
            dict(name="band-pipeline", go_test="TestC17Band", runner="C17-band",
                 env=dict(quick=dict(VERIF_CASES=150), thorough=dict(VERIF_CASES=4000))),
        ],
        rule="market-*: case = (window size n in 1..6, gap, 1-3 assets, 5-40 ops: direct UpdatePriceList samples and whole market.BeginBlocker runs "
             "with validation/discard flags and short rate lists; samples from {0,1,small,2^62,2^63-1,2^63,2^64-1,random}); "
             "non-trivial = some asset became active during the case; distinct by digest of (n, gap, op sequence). "
             "thorough adds every sample sequence of length <= 7 over {0,3,2^63,2^64-1} for n in 1..3, gap in {0,40}. "
             "band-pipeline: case = a block history of the whole pipeline on the real app: bandoracle.BeginBlocker + market.BeginBlocker per block "
             "(20-block checks and blocks in between), OnAcknowledgementPacket / OnRecvPacket with real packets, the fetch-price proposal "
             "(ValidateBasic + handler; n in 0..5, AcceptedHeightDiff in {-5,0,20,39,40,41,60,100}, script ids 7..9), AddAssetRecords; 30 fixed "
             "histories first (outages of AcceptedHeightDiff-20 / exactly / +20 for gap in {40,60} x n in {1,2,3}, several outages, "
             "re-registration with the same / another script and a changed window or gap, late results, check-flag reset during an outage), "
             "then random histories of 8-37 rounds; after every step the bandoracle records and every Twa record are diffed and the extracted "
             "holds_C17_pipe (window = ring of the last min(n,k) samples delivered since the last wipe, active only on a full window, "
             "avg = their integer mean) and holds_C17_fresh judge the implementation's records; non-trivial = a price became active and a "
             "band-level wipe of a non-empty store happened in the case",
        modelled=["IBC transport (the arrival of an acknowledgement / a result packet is an injected op; the packets themselves are decoded by the real callbacks)",
                  "FetchPrice (sending the next request) writes nothing the pipeline reads",
                  "uint64 arithmetic as Z (the 128-bit sum of the repaired CalculateTwa is exact)"],
        assumptions=["market-*: window size n fixed within a case (the property fixes N); band-pipeline: n changes only by a registration, which wipes every record",
                     "block heights positive", "TwaBatchSize of a proposal is a uint64; Band's request ids are unique and non-zero (c17_pipe_fresh only)"],
    )

MANIFEST = dict(
    level_text="Ring-refinement invariant of the price window proved for every window size n>=1 and every finite history of samples / discard resets / validation failures (no panic, activation only on a full window, published value = integer mean of the last n samples), and lifted to the whole pipeline block after block (Model/BandOracle.v: bandoracle.BeginBlocker with its request-id check and outage bookkeeping, then market.BeginBlocker; acknowledgements, results, fetch-price registration, asset registration): no block of any history panics, an active price is always the integer mean of N positive samples delivered after the last wipe, a registration leaves no Twa record, and the discard flag is raised exactly when the outage measured from the first silent check to the first answered check is >= AcceptedHeightDiff, in which case every stored window is reset before a sample is used. Freshness of what is delivered is proved for every history: the result of one oracle request reaches the windows at most once, the delivered request ids are distinct acknowledged ids (c17_pipe_fresh, c17_pipe_delivered_once, c17_pipe_active_fresh). Four defects found earlier were repaired by fix: commits (window size 1 panic, uint64 wrap of the sum, window size >= 2^63, and C17-F4: an already consumed oracle result was re-delivered after a check-flag reset; its witness histories are regression cases now). The models are tied to /repo by differential runs of UpdatePriceList, market.BeginBlocker and the whole block pipeline on every check, and by regenerated definitions (tie C) of CalculateTwa, UpdatePriceList, GetLatestPrice and the request-id validation.",
    design_ref="DESIGN.md section 4 C17, 10.2",
    level_note="Trusted: Coq kernel, extraction (ExtrOcamlBasic), OCaml runner, Go harness; IBC transport modelled by injecting acknowledgement / result packets into the real callbacks. No axioms (Closed under the global context).",
    technique="Coq proof (ring-refinement invariant by induction over histories; pipeline invariant by induction over block histories) + model/implementation correspondence run + regenerated definitions (tie C)",
)
