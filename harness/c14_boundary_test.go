//go:build verif

package verifharness

import (
	"bytes"
	"encoding/base64"
	"reflect"
	"sort"

	sdk "github.com/cosmos/cosmos-sdk/types"

	chain "github.com/comdex-official/comdex/app"
	markettypes "github.com/comdex-official/comdex/x/market/types"
)

// ---------------------------------------------------------------------------------------------
// boundary amounts.  Nothing here knows a handler by name: the amount fields of a message are found
// by reflection (sdk.Int / sdk.Coin / sdk.Coins fields), and the boundary values are every amount
// stored in any position record of the owner (found by reflection as well), the sums a "whole
// debt" is made of, the owner's wallet balances - each with its -1 / +1 neighbours - and 1.

var (
	c14TInt   = reflect.TypeOf(sdk.Int{})
	c14TCoin  = reflect.TypeOf(sdk.Coin{})
	c14TCoins = reflect.TypeOf(sdk.Coins{})
	c14TDec   = reflect.TypeOf(sdk.Dec{})
)

// c14AmtField: one amount-carrying field of a message struct (elem >= 0: element of a Coins field)
type c14AmtField struct {
	idx, elem int
	name      string
	denom     string // "" for a bare sdk.Int
}

func c14AmountFields(msg sdk.Msg) []c14AmtField {
	var out []c14AmtField
	rv := reflect.ValueOf(msg)
	if rv.Kind() == reflect.Ptr {
		rv = rv.Elem()
	}
	if rv.Kind() != reflect.Struct {
		return out
	}
	for i := 0; i < rv.NumField(); i++ {
		f := rv.Field(i)
		name := rv.Type().Field(i).Name
		switch f.Type() {
		case c14TInt:
			if !f.Interface().(sdk.Int).IsNil() {
				out = append(out, c14AmtField{idx: i, elem: -1, name: name})
			}
		case c14TCoin:
			c := f.Interface().(sdk.Coin)
			if !c.Amount.IsNil() {
				out = append(out, c14AmtField{idx: i, elem: -1, name: name, denom: c.Denom})
			}
		case c14TCoins:
			for j, c := range f.Interface().(sdk.Coins) {
				out = append(out, c14AmtField{idx: i, elem: j, name: name, denom: c.Denom})
			}
		}
	}
	return out
}

// c14SetAmount overwrites the amount of field f of msg (a fresh message: handlers may mutate it)
func c14SetAmount(msg sdk.Msg, f c14AmtField, v sdk.Int) {
	rv := reflect.ValueOf(msg).Elem()
	fv := rv.Field(f.idx)
	switch fv.Type() {
	case c14TInt:
		fv.Set(reflect.ValueOf(v))
	case c14TCoin:
		c := fv.Interface().(sdk.Coin)
		fv.Set(reflect.ValueOf(sdk.Coin{Denom: c.Denom, Amount: v}))
	case c14TCoins:
		cs := append(sdk.Coins{}, fv.Interface().(sdk.Coins)...)
		cs[f.elem] = sdk.Coin{Denom: cs[f.elem].Denom, Amount: v}
		fv.Set(reflect.ValueOf(cs))
	}
}

type c14Cand struct {
	val   sdk.Int
	denom string // "" = unknown / any
}

// c14Collect walks a record and appends every sdk.Int / sdk.Coin / sdk.Dec amount in it
func c14Collect(v reflect.Value, out *[]c14Cand, depth int) {
	if depth > 4 {
		return
	}
	switch v.Kind() {
	case reflect.Ptr, reflect.Interface:
		if !v.IsNil() {
			c14Collect(v.Elem(), out, depth+1)
		}
		return
	case reflect.Slice:
		if v.Type() == c14TCoins {
			for _, c := range v.Interface().(sdk.Coins) {
				*out = append(*out, c14Cand{c.Amount, c.Denom})
			}
			return
		}
		for i := 0; i < v.Len() && i < 8; i++ {
			c14Collect(v.Index(i), out, depth+1)
		}
		return
	case reflect.Struct:
	default:
		return
	}
	switch v.Type() {
	case c14TInt:
		if x := v.Interface().(sdk.Int); !x.IsNil() {
			*out = append(*out, c14Cand{x, ""})
		}
		return
	case c14TCoin:
		if c := v.Interface().(sdk.Coin); !c.Amount.IsNil() {
			*out = append(*out, c14Cand{c.Amount, c.Denom})
		}
		return
	case c14TDec:
		if d := v.Interface().(sdk.Dec); !d.IsNil() {
			*out = append(*out, c14Cand{d.TruncateInt(), ""}, c14Cand{d.Ceil().TruncateInt(), ""})
		}
		return
	}
	for i := 0; i < v.NumField(); i++ {
		if v.Type().Field(i).PkgPath == "" { // exported
			c14Collect(v.Field(i), out, depth+1)
		}
	}
}

// c14Candidates: the boundary values of the state (deduplicated, sorted; values <= 1 dropped, the
// amount 1 is always tried).  A value seen with two different denominations loses its denomination.
func c14Candidates(a *chain.App, ctx sdk.Context, w *c12World) []c14Cand {
	var raw []c14Cand
	add := func(x interface{}) { c14Collect(reflect.ValueOf(x), &raw, 0) }
	if v, ok := a.VaultKeeper.GetVault(ctx, w.VaultID); ok {
		add(v)
		// whole debt as the close / repay paths compute it
		raw = append(raw, c14Cand{v.AmountOut.Add(v.InterestAccumulated), ""}, c14Cand{v.AmountOut.Add(v.InterestAccumulated).Add(v.ClosingFeeAccumulated), ""})
	}
	if v, ok := a.VaultKeeper.GetStableMintVault(ctx, w.StableVaultID); ok {
		add(v)
	}
	if v, ok := a.LockerKeeper.GetLocker(ctx, w.LockerID); ok {
		add(v)
		raw = append(raw, c14Cand{v.NetBalance.Add(v.ReturnsAccumulated), ""})
	}
	for _, id := range []uint64{w.LendID, w.BorrowLendID} {
		if v, ok := a.LendKeeper.GetLend(ctx, id); ok {
			add(v)
		}
	}
	if v, ok := a.LendKeeper.GetBorrow(ctx, w.BorrowID); ok {
		add(v)
		raw = append(raw, c14Cand{v.AmountOut.Amount.Add(v.InterestAccumulated.TruncateInt()), v.AmountOut.Denom},
			c14Cand{v.AmountOut.Amount.Add(v.InterestAccumulated.Ceil().TruncateInt()), v.AmountOut.Denom})
	}
	if v, ok := a.LiquidityKeeper.GetOrder(ctx, w.LiqApp, w.LiqPair, w.OrderID); ok {
		add(v)
	}
	if v, ok := a.LiquidityKeeper.GetActiveFarmer(ctx, w.LiqApp, w.LiqPool, w.Owner); ok {
		add(v)
	}
	if v, ok := a.LiquidityKeeper.GetQueuedFarmer(ctx, w.LiqApp, w.LiqPool, w.Owner); ok {
		add(v)
		tot := sdk.ZeroInt()
		for _, q := range v.QueudCoins {
			tot = tot.Add(q.FarmedPoolCoin.Amount)
		}
		if af, ok := a.LiquidityKeeper.GetActiveFarmer(ctx, w.LiqApp, w.LiqPool, w.Owner); ok {
			tot = tot.Add(af.FarmedPoolCoin.Amount)
		}
		raw = append(raw, c14Cand{tot, w.PoolCoinDenom})
	}
	if v, ok := a.NewaucKeeper.GetUserLimitBidData(ctx, w.BidDebtAsset, w.BidCollateralAsset, w.BidPremium, w.Owner.String()); ok {
		add(v)
	}
	if v, err := a.NewaucKeeper.GetAuction(ctx, w.AuctionID); err == nil {
		add(v)
	}
	for _, c := range a.BankKeeper.GetAllBalances(ctx, w.Owner) {
		raw = append(raw, c14Cand{c.Amount, c.Denom})
	}
	byVal := map[string]c14Cand{}
	for _, c := range raw {
		if c.val.IsNil() || !c.val.GT(sdk.OneInt()) {
			continue
		}
		k := c.val.String()
		if old, ok := byVal[k]; ok && old.denom != c.denom {
			c.denom = ""
		}
		byVal[k] = c
	}
	out := make([]c14Cand, 0, len(byVal))
	for _, c := range byVal {
		out = append(out, c)
	}
	sort.Slice(out, func(i, j int) bool { return out[i].val.LT(out[j].val) })
	return out
}

// c14AmountsFor: the amounts tried in field f: 1, and v-1, v, v+1 for every boundary value v whose
// denomination (when known) is the field's
func c14AmountsFor(f c14AmtField, cands []c14Cand) []sdk.Int {
	seen := map[string]bool{}
	var out []sdk.Int
	put := func(x sdk.Int) {
		if x.IsPositive() && !seen[x.String()] {
			seen[x.String()] = true
			out = append(out, x)
		}
	}
	put(sdk.OneInt())
	for _, c := range cands {
		if f.denom != "" && c.denom != "" && c.denom != f.denom {
			continue
		}
		put(c.val.SubRaw(1))
		put(c.val)
		put(c.val.AddRaw(1))
	}
	return out
}

// ---------------------------------------------------------------------------------------------
// which oracle prices does a run READ?  The branch of the store the message runs on is wrapped by
// the SDK's own store tracer (store/tracekv via MultiStore.SetTracer); every Get of a
// TimeWeightedAverage record of the market store is noted.

type c14PriceReads struct {
	on   bool
	keys map[string]int // base64 of market.TwaKey(asset) -> bit index
	mask int
}

var (
	c14TraceMarket = []byte(`"store_name":"` + markettypes.StoreKey + `"`)
	c14TraceRead   = []byte(`"operation":"read"`)
	c14TraceKey    = []byte(`"key":"`)
)

func (p *c14PriceReads) Write(b []byte) (int, error) {
	if p.on && bytes.Contains(b, c14TraceRead) && bytes.Contains(b, c14TraceMarket) {
		if i := bytes.Index(b, c14TraceKey); i >= 0 {
			rest := b[i+len(c14TraceKey):]
			if j := bytes.IndexByte(rest, '"'); j >= 0 {
				if bit, ok := p.keys[string(rest[:j])]; ok {
					p.mask |= 1 << bit
				}
			}
		}
	}
	return len(b), nil
}

// c14TracedRun runs msg on a traced branch of ctx (the branch keeps the message's writes when it
// succeeds, like c12RunMsg) and returns the class and the set of price assets whose Twa was read.
func c14TracedRun(a *chain.App, ctx sdk.Context, w *c12World, msg sdk.Msg) (tctx sdk.Context, cls string, reads int) {
	pr := &c14PriceReads{keys: map[string]int{}}
	for i, id := range w.PriceAssets {
		pr.keys[base64.StdEncoding.EncodeToString(markettypes.TwaKey(id))] = i
	}
	tctx = ctx.WithMultiStore(ctx.MultiStore().SetTracer(pr).CacheMultiStore())
	pr.on = true
	cls, _, _ = execMsg(a, tctx, msg)
	pr.on = false
	return tctx, cls, pr.mask
}
