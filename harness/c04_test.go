//go:build verif

package verifharness

import "testing"

// TestC04 — custody workload: the C07 order stream interleaved with pool creation (basic and ranged),
// deposits, withdrawals, farm / unfarm / deposit-and-farm / unfarm-and-withdraw by several accounts,
// across many batches, order expirations and farming-queue maturities (driver in c07_test.go).
func TestC04(t *testing.T) { liqDrive(t, "C04") }
