//go:build verif

package verifharness

// C19: drives the REAL x/rewards keeper (MsgCreateGauge / ActivateExternalRewardsLockers /
// ActivateExternalRewardsVault through the msg router, rewards.BeginBlocker with advancing block
// time) together with the farming side of x/liquidity (MsgFarm / MsgUnfarm, liquidity.EndBlocker
// activating queued farmers, pool creation creating swap-fee gauges), lockers and vaults, and dumps
// after every step the gauge / epoch / program records, the rewards module balances and - over a
// BeginBlocker - every watched account's balance delta.  Environment values recorded per
// BeginBlocker: each gauge's farming data (farmed values per active farmer, child-pool values)
// recomputed with the keeper's own exported functions, the implementation's GetFarmingRewardsData
// result for the allocation that is due, what TransferFundsForSwapFeeDistribution hands over, and
// each program's locker / vault population.

import (
	"fmt"
	"math/big"
	"strings"
	"testing"
	"time"

	sdkmath "cosmossdk.io/math"
	abci "github.com/cometbft/cometbft/abci/types"
	sdk "github.com/cosmos/cosmos-sdk/types"

	chain "github.com/comdex-official/comdex/app"
	"github.com/comdex-official/comdex/app/wasm/bindings"
	esmtypes "github.com/comdex-official/comdex/x/esm/types"
	"github.com/comdex-official/comdex/x/liquidity"
	liqtypes "github.com/comdex-official/comdex/x/liquidity/types"
	lockertypes "github.com/comdex-official/comdex/x/locker/types"
	"github.com/comdex-official/comdex/x/rewards"
	rewardskeeper "github.com/comdex-official/comdex/x/rewards/keeper"
	rewardstypes "github.com/comdex-official/comdex/x/rewards/types"
	vaulttypes "github.com/comdex-official/comdex/x/vault/types"
)

var c19Denoms = []string{"", "ucmdx", "ucmst", "uharbor", "uatom", "ustake"}

func c19DenomCode(d string) int {
	for i, x := range c19Denoms {
		if x == d && i > 0 {
			return i
		}
	}
	return 9
}

type c19Fix struct {
	appL, appH, appV uint64
	asset            map[string]uint64
	pairs            []uint64
	pools            []uint64 // basic pools 1..3 of appL
	poolPair         map[uint64]uint64
	extPair          uint64
	nGauges          int // swap-fee gauges that exist at the start of every case
}

type c19Ext struct {
	kind int
	id   uint64
}

type c19World struct {
	t      *testing.T
	a      *chain.App
	ctx    sdk.Context
	tr     *tracer
	fx     *c19Fix
	now    time.Time
	height int64
	exts   []c19Ext
	sxs    []uint64 // stable-mint programs (ids), c19s_test.go
	ranged bool
	nacct  map[string]int
	// masterlist cases: the quote coin of the pairs is unpriced (valuation by the base coin amount)
	unpricedQuote bool
}

var c19Watched = []int{1, 2, 3, 4, 5, 6, 9, 11, 12, 13, 14, 15, 16, 21, 22, 23, 80, 81, 90}

func c19MustExec(t *testing.T, a *chain.App, ctx sdk.Context, what string, msg sdk.Msg) {
	if class, err, _ := execMsg(a, ctx, msg); class != "ok" {
		t.Fatalf("c19 base %s: %s %v", what, class, err)
	}
}

// the configuration every case starts from (built once on the base context)
func c19Base(t *testing.T, a *chain.App, ctx sdk.Context) *c19Fix {
	fx := &c19Fix{asset: map[string]uint64{}, poolPair: map[uint64]uint64{}}
	fx.appL = addAppRecord(t, a, ctx, "cswap")
	fx.appH = addAppRecord(t, a, ctx, "harbor")
	fx.appV = addAppRecord(t, a, ctx, "vaults")
	for i, d := range []string{"ucmdx", "ucmst", "uharbor", "uatom"} {
		fx.asset[d] = addAsset(t, a, ctx, []string{"CMDX", "CMST", "HARBOR", "ATOM"}[i], d, 1000000, true, d == "ucmst")
	}
	huge := sdkmath.NewIntWithDecimal(1, 30)
	lp := addrN(90)
	fund(t, a, ctx, lp, sdk.NewCoins(sdk.NewCoin("ucmdx", huge), sdk.NewCoin("ucmst", huge), sdk.NewCoin("uharbor", huge),
		sdk.NewCoin("uatom", huge), sdk.NewCoin("ustake", huge)))
	// liquidity: three pairs with one basic pool each (each pool creation makes a swap-fee gauge)
	for _, bq := range [][2]string{{"ucmdx", "ucmst"}, {"uatom", "ucmst"}, {"uharbor", "ucmst"}} {
		c19MustExec(t, a, ctx, "CreatePair", liqtypes.NewMsgCreatePair(fx.appL, lp, bq[0], bq[1]))
		p, found := a.LiquidityKeeper.GetPairByDenoms(ctx, fx.appL, bq[0], bq[1])
		if !found {
			t.Fatal("c19 base: pair not found")
		}
		fx.pairs = append(fx.pairs, p.Id)
	}
	reserves := [][2]int64{{2_000_000_000, 1_000_000_000}, {7_000_000_000_000, 700_000_000_000}, {1_000_000, 3_000_000}}
	for i, pid := range fx.pairs {
		p, _ := a.LiquidityKeeper.GetPair(ctx, fx.appL, pid)
		c19MustExec(t, a, ctx, "CreatePool", liqtypes.NewMsgCreatePool(fx.appL, lp, pid,
			sdk.NewCoins(sdk.NewInt64Coin(p.QuoteCoinDenom, reserves[i][0]), sdk.NewInt64Coin(p.BaseCoinDenom, reserves[i][1]))))
	}
	for _, pl := range a.LiquidityKeeper.GetAllPools(ctx, fx.appL) {
		fx.pools = append(fx.pools, pl.Id)
		fx.poolPair[pl.Id] = pl.PairId
		// pool coins for the farmers
		for n := 1; n <= 6; n++ {
			if err := a.BankKeeper.SendCoins(ctx, lp, addrN(n), sdk.NewCoins(sdk.NewCoin(pl.PoolCoinDenom, sdk.NewInt(100_000_000_000)))); err != nil {
				t.Fatalf("c19 base: pool coin send: %v", err)
			}
		}
	}
	if len(fx.pools) != 3 {
		t.Fatalf("c19 base: %d pools", len(fx.pools))
	}
	fx.nGauges = len(a.Rewardskeeper.GetAllGauges(ctx))
	// lockers: ucmst is a locker asset of appH (needs the collector lookup)
	if err := a.CollectorKeeper.WasmSetCollectorLookupTable(ctx, &bindings.MsgSetCollectorLookupTable{AppID: fx.appH, CollectorAssetID: fx.asset["ucmst"],
		SecondaryAssetID: fx.asset["uharbor"], SurplusThreshold: sdk.NewInt(10000000), DebtThreshold: sdk.NewInt(5000000), LockerSavingRate: sdk.ZeroDec(),
		LotSize: sdk.NewInt(2000000), BidFactor: sdk.NewDecWithPrec(1, 2), DebtLotSize: sdk.NewInt(2000000)}); err != nil {
		t.Fatalf("c19 base: collector lookup: %v", err)
	}
	if _, err := a.LockerKeeper.AddWhiteListedAsset(ctx, &lockertypes.MsgAddWhiteListedAssetRequest{From: lp.String(), AppId: fx.appH, AssetId: fx.asset["ucmst"]}); err != nil {
		t.Fatalf("c19 base: AddWhiteListedAsset: %v", err)
	}
	// a second app with the same locker asset (nobody opens a locker there): locker programs of two apps, so that
	// the kill switch of one app makes DistributeExtRewardLocker return its error AFTER programs of the other were paid
	if err := a.CollectorKeeper.WasmSetCollectorLookupTable(ctx, &bindings.MsgSetCollectorLookupTable{AppID: fx.appV, CollectorAssetID: fx.asset["ucmst"],
		SecondaryAssetID: fx.asset["uharbor"], SurplusThreshold: sdk.NewInt(10000000), DebtThreshold: sdk.NewInt(5000000), LockerSavingRate: sdk.ZeroDec(),
		LotSize: sdk.NewInt(2000000), BidFactor: sdk.NewDecWithPrec(1, 2), DebtLotSize: sdk.NewInt(2000000)}); err != nil {
		t.Fatalf("c19 base: collector lookup (second app): %v", err)
	}
	if _, err := a.LockerKeeper.AddWhiteListedAsset(ctx, &lockertypes.MsgAddWhiteListedAssetRequest{From: lp.String(), AppId: fx.appV, AssetId: fx.asset["ucmst"]}); err != nil {
		t.Fatalf("c19 base: AddWhiteListedAsset (second app): %v", err)
	}
	// vaults: appV has exactly one extended pair (ActExternalRewardsVaults accepts only that)
	setPrice(a, ctx, fx.asset["ucmdx"], 2000000, true)
	setPrice(a, ctx, fx.asset["ucmst"], 1000000, true)
	pr := addPair(t, a, ctx, fx.asset["ucmdx"], fx.asset["ucmst"])
	fx.extPair = addExtPair(t, a, ctx, extPairCfg{Name: "CMDX-V", App: fx.appV, Pair: pr, StabilityFee: sdk.NewDecWithPrec(1, 2),
		ClosingFee: sdk.ZeroDec(), LiqPenalty: sdk.NewDecWithPrec(12, 2), DrawDownFee: sdk.ZeroDec(), MinCr: sdk.NewDecWithPrec(15, 1),
		DebtCeiling: sdkmath.NewIntWithDecimal(1, 24), DebtFloor: sdk.NewInt(1000000), Active: true, OraclePrice: true,
		AssetOutPrice: 1000000, MinUsdValLeft: 100000})
	for _, n := range []int{11, 12, 13, 14, 15, 16, 21, 22, 23} {
		fund(t, a, ctx, addrN(n), sdk.NewCoins(sdk.NewCoin("ucmst", sdkmath.NewIntWithDecimal(1, 20)), sdk.NewCoin("ucmdx", sdkmath.NewIntWithDecimal(1, 20))))
	}
	return fx
}

func (w *c19World) acct(bech string) int {
	if n, ok := w.nacct[bech]; ok {
		return n
	}
	return 999
}

func (w *c19World) poolDenom(pid uint64) string { return liqtypes.PoolCoinDenom(w.fx.appL, pid) }

// the kill switch of an app (what the admin's MsgKillRequest stores): the only switch DistributeExtRewardLend reads
func (w *c19World) haltedKS(app uint64) bool {
	p, _ := w.a.EsmKeeper.GetKillSwitchData(w.ctx, app)
	return p.BreakerEnable
}

// kill switch or executed ESM: what the locker / vault distributions and every activation handler read
func (w *c19World) halted(app uint64) bool {
	st, found := w.a.EsmKeeper.GetESMStatus(w.ctx, app)
	return w.haltedKS(app) || (found && st.Status)
}

// the ESM status of an app switched on / off (the store record MsgExecuteESM writes)
func (w *c19World) opEsm(app uint64, on bool) {
	w.a.EsmKeeper.SetESMStatus(w.ctx, esmtypes.ESMStatus{AppId: app, Status: on})
	w.tr.p("env esmstatus %d %s", app, b2s(on))
}

func (w *c19World) opHalt(app uint64, on bool) {
	err := w.a.EsmKeeper.SetKillSwitchData(w.ctx, esmtypes.KillSwitchParams{AppId: app, BreakerEnable: on})
	w.tr.p("env killswitch %d %s %s", app, b2s(on), b2s(err == nil))
}

// ---------- observation ----------
func (w *c19World) st() {
	k := w.a.Rewardskeeper
	for i, g := range k.GetAllGauges(w.ctx) {
		w.tr.p("g %d %s %s %d %d %s %s %d %d %d", i, g.DepositAmount.Amount, g.DistributedAmount.Amount, g.TriggeredCount, g.TotalTriggers,
			b2s(g.IsActive), b2s(g.ForSwapFee), c19DenomCode(g.DepositAmount.Denom), int64(g.TriggerDuration/time.Second), g.StartTime.Unix())
		// the STORED liquidity metadata of the gauge record
		if meta := g.GetLiquidityMetaData(); meta != nil {
			var cl strings.Builder
			for _, c := range meta.ChildPoolIds {
				fmt.Fprintf(&cl, " %d", c)
			}
			w.tr.p("gm %d %d %s %d%s", i, meta.PoolId, b2s(meta.IsMasterPool), len(meta.ChildPoolIds), cl.String())
		}
	}
	for _, e := range k.GetAllEpochInfos(w.ctx) {
		w.tr.p("e %d %s %d %d", int64(e.Duration/time.Second), b2s(e.StartTime.IsZero()), e.CurrentEpoch, e.CurrentEpochStartTime.Unix())
	}
	for i, x := range w.exts {
		if x.kind == 0 {
			v := k.GetExternalRewardsLocker(w.ctx, x.id)
			ep, _ := k.GetEpochTime(w.ctx, v.EpochId)
			w.tr.p("x %d 0 %d %s %s %d %d", i, c19DenomCode(v.TotalRewards.Denom), v.AvailableRewards.Amount, b2s(v.IsActive), ep.Count, ep.StartingTime)
		} else if x.kind == 1 {
			for _, v := range k.GetExternalRewardVaults(w.ctx) {
				if v.Id == x.id {
					ep, _ := k.GetEpochTime(w.ctx, v.EpochId)
					w.tr.p("x %d 1 %d %s %s %d %d", i, c19DenomCode(v.TotalRewards.Denom), v.AvailableRewards.Amount, b2s(v.IsActive), ep.Count, ep.StartingTime)
				}
			}
		} else {
			v := k.GetExternalRewardLend(w.ctx, x.id)
			ep, _ := k.GetEpochTime(w.ctx, v.EpochId)
			w.tr.p("x %d 2 %d %s %s %d %d", i, c19DenomCode(v.TotalRewards.Denom), v.AvailableRewards.Amount, b2s(v.IsActive), ep.Count, ep.StartingTime)
		}
	}
	for i, id := range w.sxs {
		v, _ := k.GetExternalRewardStableVaultByApp(w.ctx, id)
		ep, _ := k.GetEpochTime(w.ctx, v.EpochId)
		w.tr.p("sx %d %d %d %s %s %d %d", i, v.AppId, c19DenomCode(v.TotalRewards.Denom), v.AvailableRewards.Amount, b2s(v.IsActive), ep.Count, ep.StartingTime)
	}
	for d := 1; d <= 5; d++ {
		w.tr.p("b %d %s", d, bal(w.a, w.ctx, modAddr(rewardstypes.ModuleName), c19Denoms[d]))
	}
	w.tr.p("end")
}

// ---------- environment of one gauge: the farming data GetFarmingRewardsData works from ----------
func (w *c19World) farmEnv(ctx sdk.Context, g rewardstypes.Gauge) string {
	k := w.a.LiquidityKeeper
	meta := g.GetLiquidityMetaData()
	if meta == nil {
		return "err"
	}
	kit, err := k.GetPoolTokenDesrializerKit(ctx, g.AppId, meta.PoolId)
	if err != nil || kit.Pool.Disabled {
		return "err"
	}
	pair := kit.Pair
	asset, err := k.GetAssetWhoseOraclePriceExists(ctx, pair.QuoteCoinDenom, pair.BaseCoinDenom)
	if err != nil {
		return "err"
	}
	var addrs []sdk.AccAddress
	var sup []sdk.Dec
	for _, af := range k.GetAllActiveFarmers(ctx, g.AppId, kit.Pool.Id) {
		addr, err := sdk.AccAddressFromBech32(af.Farmer)
		if err != nil {
			continue
		}
		x, y, err := k.CalculateXYFromPoolCoin(ctx, kit, af.FarmedPoolCoin)
		if err != nil {
			continue
		}
		amt := y
		if pair.QuoteCoinDenom == asset.Denom {
			amt = x
		}
		v, _ := k.CalcAssetPrice(ctx, asset.Id, amt)
		addrs = append(addrs, addr)
		sup = append(sup, v.Mul(sdk.NewDec(2)))
	}
	var sb strings.Builder
	if meta.IsMasterPool {
		var childIds []uint64
		if len(meta.ChildPoolIds) == 0 {
			for _, pl := range k.GetAllPools(ctx, g.AppId) {
				if pl.Id != meta.PoolId && !pl.Disabled {
					childIds = append(childIds, pl.Id)
				}
			}
		} else {
			for _, id := range meta.ChildPoolIds {
				if id != meta.PoolId {
					childIds = append(childIds, id)
				}
			}
		}
		if len(childIds) != 0 {
			m := k.GetAggregatedChildPoolContributions(ctx, g.AppId, childIds, addrs)
			fmt.Fprintf(&sb, "master %d", len(addrs))
			for i, ad := range addrs {
				c, ok := m[ad.String()]
				if !ok {
					c = sdk.ZeroDec()
				}
				fmt.Fprintf(&sb, " %d %s %s", w.acct(ad.String()), sup[i].BigInt(), c.BigInt())
			}
			return sb.String()
		}
	}
	fmt.Fprintf(&sb, "plain %d", len(addrs))
	for i, ad := range addrs {
		fmt.Fprintf(&sb, " %d %s", w.acct(ad.String()), sup[i].BigInt())
	}
	return sb.String()
}

// the same farmers with their farmed value PER POOL, independent of the gauge's stored child list:
//
//	ok <#enabled other pools> <ids..> <#farmers> { <acct> <value in the gauge's pool> <k> { <pool> <value> }*k }*
//
// the value in another pool is what GetAggregatedChildPoolContributions returns for that single pool (absent when it
// has no entry for the farmer); from these and the child list of the MESSAGE the model computes the eligibility itself
func (w *c19World) farmObs(ctx sdk.Context, g rewardstypes.Gauge) string {
	k := w.a.LiquidityKeeper
	meta := g.GetLiquidityMetaData()
	if meta == nil {
		return "err"
	}
	kit, err := k.GetPoolTokenDesrializerKit(ctx, g.AppId, meta.PoolId)
	if err != nil || kit.Pool.Disabled {
		return "err"
	}
	pair := kit.Pair
	asset, err := k.GetAssetWhoseOraclePriceExists(ctx, pair.QuoteCoinDenom, pair.BaseCoinDenom)
	if err != nil {
		return "err"
	}
	var addrs []sdk.AccAddress
	var sup []sdk.Dec
	for _, af := range k.GetAllActiveFarmers(ctx, g.AppId, kit.Pool.Id) {
		addr, err := sdk.AccAddressFromBech32(af.Farmer)
		if err != nil {
			continue
		}
		x, y, err := k.CalculateXYFromPoolCoin(ctx, kit, af.FarmedPoolCoin)
		if err != nil {
			continue
		}
		amt := y
		if pair.QuoteCoinDenom == asset.Denom {
			amt = x
		}
		v, _ := k.CalcAssetPrice(ctx, asset.Id, amt)
		addrs = append(addrs, addr)
		sup = append(sup, v.Mul(sdk.NewDec(2)))
	}
	var enabled, all []uint64
	for _, pl := range k.GetAllPools(ctx, g.AppId) {
		if pl.Id == meta.PoolId {
			continue
		}
		all = append(all, pl.Id)
		if !pl.Disabled {
			enabled = append(enabled, pl.Id)
		}
	}
	per := map[uint64]map[string]sdk.Dec{}
	for _, pid := range all {
		per[pid] = k.GetAggregatedChildPoolContributions(ctx, g.AppId, []uint64{pid}, addrs)
	}
	var sb strings.Builder
	fmt.Fprintf(&sb, "ok %d", len(enabled))
	for _, pid := range enabled {
		fmt.Fprintf(&sb, " %d", pid)
	}
	fmt.Fprintf(&sb, " %d", len(addrs))
	for i, ad := range addrs {
		var vs strings.Builder
		n := 0
		for _, pid := range all {
			if c, ok := per[pid][ad.String()]; ok {
				fmt.Fprintf(&vs, " %d %s", pid, c.BigInt())
				n++
			}
		}
		fmt.Fprintf(&sb, " %d %s %d%s", w.acct(ad.String()), sup[i].BigInt(), n, vs.String())
	}
	return sb.String()
}

// the implementation's own calculation for [coins] of gauge g (nothing is written)
func (w *c19World) calcLine(ctx sdk.Context, g rewardstypes.Gauge, coins sdk.Int) (line string, okSum sdk.Int, ok bool) {
	meta := g.GetLiquidityMetaData()
	if meta == nil {
		return "err", sdk.ZeroInt(), false
	}
	var data []rewardstypes.RewardDistributionDataCollector
	var err error
	cctx, _ := ctx.CacheContext()
	if p, _ := safely(func() {
		data, err = w.a.LiquidityKeeper.GetFarmingRewardsData(cctx, g.AppId, sdk.NewCoin(g.DepositAmount.Denom, coins), *meta)
	}); p {
		return "panic", sdk.ZeroInt(), false
	}
	if err != nil {
		return "err", sdk.ZeroInt(), false
	}
	var sb strings.Builder
	sum := sdk.ZeroInt()
	fmt.Fprintf(&sb, "ok %d", len(data))
	for _, d := range data {
		fmt.Fprintf(&sb, " %d %s", w.acct(d.RewardReceiver.String()), d.RewardCoin.Amount)
		sum = sum.Add(d.RewardCoin.Amount)
	}
	return sb.String(), sum, true
}

// ---------- BeginBlocker ----------
func (w *c19World) opBegin(dt int64) {
	k := w.a.Rewardskeeper
	liquidity.EndBlocker(w.ctx, w.a.LiquidityKeeper, w.a.AssetKeeper) // queued farmers become active
	w.now = w.now.Add(time.Duration(dt) * time.Second)
	w.height++
	w.ctx = w.ctx.WithBlockHeight(w.height).WithBlockTime(w.now)
	w.tr.p("op begin %d", w.now.Unix())
	gauges := k.GetAllGauges(w.ctx)
	// dry run of the swap-fee transfers in gauge order on a throw-away context
	dry, _ := w.ctx.CacheContext()
	for i, g := range gauges {
		w.tr.p("farm %d %s", i, w.farmEnv(w.ctx, g))
		w.tr.p("fobs %d %s", i, w.farmObs(w.ctx, g))
		if !g.ForSwapFee {
			w.tr.p("fraw %d %s", i, w.farmRaw(w.ctx, g))
			// the allocation that would be due
			if g.IsActive && g.TriggeredCount < g.TotalTriggers && g.DepositAmount.Amount.IsUint64() {
				var sp []uint64
				safely(func() { sp = rewardskeeper.SplitTotalAmountPerEpoch(g.DepositAmount.Amount.Uint64(), g.TotalTriggers) })
				if int(g.TriggeredCount) < len(sp) {
					coins := sdk.NewIntFromUint64(sp[g.TriggeredCount])
					line, _, _ := w.calcLine(w.ctx, g, coins)
					w.tr.p("calc %d %s %s", i, coins, line)
				}
			}
			continue
		}
		distOK := true
		if g.DepositAmount.IsPositive() {
			line, sum, ok := w.calcLine(w.ctx, g, g.DepositAmount.Amount)
			w.tr.p("calc %d %s %s", i, g.DepositAmount.Amount, line)
			distOK = ok && !sum.GT(g.DepositAmount.Amount)
		}
		if distOK {
			var rc sdk.Coin
			var err error
			if p, _ := safely(func() {
				rc, err = w.a.LiquidityKeeper.TransferFundsForSwapFeeDistribution(dry, g.AppId, g.GetLiquidityMetaData().PoolId)
			}); p {
				w.tr.p("recv %d panic", i)
			} else if err != nil {
				w.tr.p("recv %d err", i)
			} else {
				w.tr.p("recv %d ok %s", i, rc.Amount)
			}
		}
	}
	for i, x := range w.exts {
		var sb strings.Builder
		if x.kind == 0 {
			v := k.GetExternalRewardsLocker(w.ctx, x.id)
			if w.halted(v.AppMappingId) {
				w.tr.p("halt %d 1", i)
			}
			lk, _ := w.a.LockerKeeper.GetLockerLookupTable(w.ctx, v.AppMappingId, v.AssetId)
			n := 0
			for _, id := range lk.LockerIds {
				l, found := w.a.LockerKeeper.GetLocker(w.ctx, id)
				if !found {
					continue
				}
				n++
				fmt.Fprintf(&sb, " %d %s %d", w.acct(l.Depositor), l.NetBalance, l.CreatedAt.Unix())
			}
			tot := "0"
			if !lk.DepositedAmount.IsNil() {
				tot = lk.DepositedAmount.String()
			}
			w.tr.p("xenv %d %s %d%s", i, tot, n, sb.String())
		} else if x.kind == 2 {
			lv := k.GetExternalRewardLend(w.ctx, x.id)
			if w.haltedKS(lv.AppMappingId) {
				w.tr.p("halt %d 1", i)
			}
			w.tr.p("lenv %d %s", i, w.lendEnv(lv))
		} else {
			var v rewardstypes.VaultExternalRewards
			for _, y := range k.GetExternalRewardVaults(w.ctx) {
				if y.Id == x.id {
					v = y
				}
			}
			if w.halted(v.AppMappingId) {
				w.tr.p("halt %d 1", i)
			}
			md, _ := w.a.VaultKeeper.GetAppExtendedPairVaultMappingData(w.ctx, v.AppMappingId, v.ExtendedPairId)
			n := 0
			for _, id := range md.VaultIds {
				vt, found := w.a.VaultKeeper.GetVault(w.ctx, id)
				if !found {
					continue
				}
				n++
				fmt.Fprintf(&sb, " %d %s %d", w.acct(vt.Owner), vt.AmountOut, vt.CreatedAt.Unix())
			}
			tot := "0"
			if !md.TokenMintedAmount.IsNil() {
				tot = md.TokenMintedAmount.String()
			}
			w.tr.p("xenv %d %s %d%s", i, tot, n, sb.String())
		}
	}
	w.stableEnv()
	before := map[[2]int]sdk.Int{}
	for _, n := range c19Watched {
		for d := 1; d <= 5; d++ {
			before[[2]int{n, d}] = bal(w.a, w.ctx, addrN(n), c19Denoms[d])
		}
	}
	panicked, _ := safely(func() { rewards.BeginBlocker(w.ctx, abci.RequestBeginBlock{}, k) })
	// ApplyFuncIfNoError recovers panics itself; a recovered panic shows as "nothing changed"; it is
	// reported by re-running the body on a throw-away context
	cls := "ok"
	if panicked {
		cls = "panic"
	}
	w.tr.p("res %s", cls)
	w.stableRecs()
	for _, n := range c19Watched {
		for d := 1; d <= 5; d++ {
			delta := bal(w.a, w.ctx, addrN(n), c19Denoms[d]).Sub(before[[2]int{n, d}])
			if !delta.IsZero() {
				w.tr.p("pay %d %d %s", d, n, delta)
			}
		}
	}
	w.st()
}

// ---------- messages ----------
type c19GaugeSpec struct {
	denom                string
	dep                  sdk.Int
	total                uint64
	startOff, durS       int64
	app, pool            uint64
	master               bool
	child                []uint64
	creator              int
	short                bool // creator funded with one unit less than the deposit
}

func (w *c19World) priceActive(denom string) bool {
	id, ok := w.fx.asset[denom]
	if !ok {
		return false
	}
	tw, found := w.a.MarketKeeper.GetTwa(w.ctx, id)
	return found && tw.IsPriceActive
}

func (w *c19World) opCreateGauge(s c19GaugeSpec) {
	creator := addrN(s.creator)
	have := bal(w.a, w.ctx, creator, s.denom)
	want := s.dep
	if s.short {
		want = s.dep.SubRaw(1)
	}
	if want.IsPositive() && have.LT(want) {
		fund(w.t, w.a, w.ctx, creator, sdk.NewCoins(sdk.NewCoin(s.denom, want.Sub(have))))
	} else if have.GT(want) && have.Sub(want).IsPositive() {
		_ = w.a.BankKeeper.SendCoins(w.ctx, creator, addrN(95), sdk.NewCoins(sdk.NewCoin(s.denom, have.Sub(want))))
	}
	funds := bal(w.a, w.ctx, creator, s.denom)
	// what the metadata validation will find (computed from the inputs, not from the result)
	metaOK := s.app == w.fx.appL
	var pl liqtypes.Pool
	if metaOK {
		var found bool
		pl, found = w.a.LiquidityKeeper.GetPool(w.ctx, s.app, s.pool)
		metaOK = found
	}
	if metaOK {
		pr, _ := w.a.LiquidityKeeper.GetPair(w.ctx, s.app, pl.PairId)
		metaOK = w.priceActive(pr.BaseCoinDenom) || w.priceActive(pr.QuoteCoinDenom)
	}
	if metaOK {
		for _, c := range s.child {
			cp, found := w.a.LiquidityKeeper.GetPool(w.ctx, s.app, c)
			if c == s.pool || !found || cp.Disabled {
				metaOK = false
			}
		}
	}
	start := w.now.Add(time.Duration(s.startOff) * time.Second)
	msg := rewardstypes.NewMsgCreateGauge(s.app, creator, start, rewardstypes.LiquidityGaugeTypeID, time.Duration(s.durS)*time.Second,
		sdk.Coin{Denom: s.denom, Amount: s.dep}, s.total)
	msg.Kind = &rewardstypes.MsgCreateGauge_LiquidityMetaData{LiquidityMetaData: &rewardstypes.LiquidtyGaugeMetaData{
		PoolId: s.pool, IsMasterPool: s.master, ChildPoolIds: s.child}}
	class, _, _ := execMsg(w.a, w.ctx, msg)
	// ... followed by the liquidity metadata THE MESSAGE carries: pool, master flag, child-pool list
	var cl strings.Builder
	for _, c := range s.child {
		fmt.Fprintf(&cl, " %d", c)
	}
	w.tr.p("op create %d %s %d %d %d %d %s %s %s %d %s %d%s", c19DenomCode(s.denom), s.dep, s.total, start.Unix(), w.now.Unix(), s.durS, funds, b2s(metaOK), class,
		s.pool, b2s(s.master), len(s.child), cl.String())
	if class == "ok" && s.dep.IsUint64() {
		// the implementation's own split of the deposit
		var sp []uint64
		if p, _ := safely(func() { sp = rewardskeeper.SplitTotalAmountPerEpoch(s.dep.Uint64(), s.total) }); p {
			w.tr.p("split panic")
		} else if len(sp) <= 64 {
			var sb strings.Builder
			for _, x := range sp {
				fmt.Fprintf(&sb, " %d", x)
			}
			w.tr.p("split %d%s", len(sp), sb.String())
		}
	}
	w.st()
}

func (w *c19World) opExtCreate(kind int, denom string, total sdk.Int, days, minlock int64, creator int, short, badTarget bool, altApp ...bool) {
	cr := addrN(creator)
	have := bal(w.a, w.ctx, cr, denom)
	want := total
	if short {
		want = total.SubRaw(1)
	}
	if have.LT(want) {
		fund(w.t, w.a, w.ctx, cr, sdk.NewCoins(sdk.NewCoin(denom, want.Sub(have))))
	} else if have.GT(want) {
		_ = w.a.BankKeeper.SendCoins(w.ctx, cr, addrN(95), sdk.NewCoins(sdk.NewCoin(denom, have.Sub(want))))
	}
	funds := bal(w.a, w.ctx, cr, denom)
	var msg sdk.Msg
	ok := !badTarget
	if kind == 0 {
		as := w.fx.asset["ucmst"]
		if badTarget {
			as = w.fx.asset["uatom"] // not a locker asset of appH
		}
		app := w.fx.appH
		if len(altApp) > 0 && altApp[0] {
			app = w.fx.appV // the second app with this locker asset
		}
		if w.halted(app) {
			ok = false
		}
		msg = rewardstypes.NewMsgActivateExternalRewardsLockers(app, as, sdk.Coin{Denom: denom, Amount: total}, days, minlock, cr)
	} else {
		if w.halted(w.fx.appV) {
			ok = false
		}
		ep := w.fx.extPair
		if badTarget {
			ep = 77
		}
		// GetAppMappingData must find the app: at least one vault was ever created for it
		if _, found := w.a.VaultKeeper.GetAppMappingData(w.ctx, w.fx.appV); !found {
			ok = false
		}
		msg = rewardstypes.NewMsgActivateExternalRewardsVault(w.fx.appV, ep, sdk.Coin{Denom: denom, Amount: total}, days, minlock, cr)
	}
	var idBefore uint64
	if kind == 0 {
		idBefore = w.a.Rewardskeeper.GetExternalRewardsLockersID(w.ctx)
	} else {
		idBefore = w.a.Rewardskeeper.GetExternalRewardsVaultID(w.ctx)
	}
	class, _, _ := execMsg(w.a, w.ctx, msg)
	w.tr.p("op extcreate %d %d %s %d %d %d %s %s %s", kind, c19DenomCode(denom), total, days, minlock, w.now.Unix(), funds, b2s(ok), class)
	if class == "ok" {
		w.exts = append(w.exts, c19Ext{kind, idBefore + 1})
	}
	w.st()
}

func (w *c19World) opDonate(denom string, amt sdk.Int) {
	if err := w.a.BankKeeper.SendCoinsFromAccountToModule(w.ctx, addrN(90), rewardstypes.ModuleName, sdk.NewCoins(sdk.NewCoin(denom, amt))); err != nil {
		w.t.Fatalf("donate: %v", err)
	}
	w.tr.p("op donate %d %s", c19DenomCode(denom), amt)
	w.st()
}

// operations of other modules: they change only environment values of the model
func (w *c19World) opFarm(n int, pool uint64, amt sdk.Int) {
	class, _, _ := execMsg(w.a, w.ctx, liqtypes.NewMsgFarm(w.fx.appL, pool, addrN(n), sdk.NewCoin(w.poolDenom(pool), amt)))
	w.tr.p("env farm %d %d %s %s", n, pool, amt, class)
}
func (w *c19World) opUnfarm(n int, pool uint64, amt sdk.Int) {
	class, _, _ := execMsg(w.a, w.ctx, liqtypes.NewMsgUnfarm(w.fx.appL, pool, addrN(n), sdk.NewCoin(w.poolDenom(pool), amt)))
	w.tr.p("env unfarm %d %d %s %s", n, pool, amt, class)
}
func (w *c19World) opPrice(denom string, price uint64, active bool) {
	setPrice(w.a, w.ctx, w.fx.asset[denom], price, active)
	w.tr.p("env price %d %d %s", c19DenomCode(denom), price, b2s(active))
}
func (w *c19World) opLocker(n int, amt sdk.Int) {
	class, _, _ := execMsg(w.a, w.ctx, lockertypes.NewMsgCreateLockerRequest(addrN(n).String(), amt, w.fx.asset["ucmst"], w.fx.appH))
	w.tr.p("env locker %d %s %s", n, amt, class)
}
func (w *c19World) opVault(n int, in, out sdk.Int) {
	class, _, _ := execMsg(w.a, w.ctx, vaulttypes.NewMsgCreateRequest(addrN(n), w.fx.appV, w.fx.extPair, in, out))
	w.tr.p("env vault %d %s %s %s", n, in, out, class)
}
func (w *c19World) opSwapFees(pairIdx int, amt sdk.Int) {
	p, _ := w.a.LiquidityKeeper.GetPair(w.ctx, w.fx.appL, w.fx.pairs[pairIdx])
	_ = w.a.BankKeeper.SendCoins(w.ctx, addrN(90), p.GetSwapFeeCollectorAddress(), sdk.NewCoins(sdk.NewCoin("ucmdx", amt)))
	w.tr.p("env swapfees %d %s", pairIdx, amt)
}

// a second pool on pair 0 (a ranged pool): one more swap-fee gauge, and the pair's fee split now
// needs both oracle prices
func (w *c19World) opRangedPool() {
	if w.ranged {
		return
	}
	p, _ := w.a.LiquidityKeeper.GetPair(w.ctx, w.fx.appL, w.fx.pairs[0])
	n := len(w.a.Rewardskeeper.GetAllGauges(w.ctx))
	msg := liqtypes.NewMsgCreateRangedPool(w.fx.appL, addrN(90), p.Id,
		sdk.NewCoins(sdk.NewInt64Coin(p.QuoteCoinDenom, 2_000_000_000), sdk.NewInt64Coin(p.BaseCoinDenom, 1_000_000_000)),
		sdk.MustNewDecFromStr("1.5"), sdk.MustNewDecFromStr("2.5"), sdk.MustNewDecFromStr("2.0"))
	class, err, _ := execMsg(w.a, w.ctx, msg)
	if class != "ok" {
		w.tr.p("env rangedpool %s", class)
		_ = err
		return
	}
	w.ranged = true
	if len(w.a.Rewardskeeper.GetAllGauges(w.ctx)) == n+1 {
		w.tr.p("op createswap 1 %d 86400 ok", w.now.Unix())
		w.st()
	}
}

// ---------- generators ----------
var c19Two64 = new(big.Int).Lsh(big.NewInt(1), 64)

func c19Deposit(g *rng, total uint64) sdk.Int {
	t := sdk.NewIntFromUint64(total)
	switch g.intn(16) {
	case 0:
		return sdk.NewInt(1)
	case 1:
		return t // one unit per epoch
	case 2:
		if total > 0 {
			return t.SubRaw(1) // smaller than the number of epochs
		}
		return sdk.NewInt(3)
	case 3:
		return t.MulRaw(int64(1 + g.intn(1000))) // divisible
	case 4, 5, 6:
		return t.MulRaw(int64(1+g.intn(1000))).AddRaw(int64(g.intn(int(total%1000+1)))) // a remainder
	case 7:
		return sdk.NewIntFromBigInt(new(big.Int).Sub(c19Two64, big.NewInt(1))) // 2^64-1
	case 8:
		return sdk.NewIntFromBigInt(new(big.Int).Add(c19Two64, big.NewInt(int64(g.intn(3))))) // does not fit uint64
	case 9:
		return sdk.NewIntFromUint64(1 << 63).SubRaw(int64(g.intn(2)))
	case 10:
		return sdk.NewInt(int64(1 + g.intn(40)))
	case 11, 12, 13, 14:
		// an 18-decimals token: allocations between 2^53 and 2^63, where binary64 has a spacing of 2 .. 1024
		// and the float-based share of a farmer can be rounded above the allocation
		switch g.intn(4) {
		case 0:
			return sdk.NewIntFromUint64(1 << uint(53+g.intn(10))).MulRaw(int64(total)).AddRaw(int64(1 + g.intn(1000)))
		case 1:
			return sdkmath.NewIntWithDecimal(int64(1+g.intn(9000)), 15).AddRaw(int64(g.intn(100000)))
		case 2:
			return sdkmath.NewIntWithDecimal(int64(1+g.intn(900)), 16).MulRaw(int64(total)).AddRaw(int64(1 + 2*g.intn(500)))
		default:
			return sdk.NewIntFromUint64(g.next()>>uint(1+g.intn(10)) | 1)
		}
	default:
		return sdk.NewInt(int64(1+g.intn(100000)) * g.pickI(1, 1000, 1000000, 1000000000))
	}
}

func (w *c19World) genGauge(g *rng) c19GaugeSpec {
	s := c19GaugeSpec{creator: 80}
	s.denom = []string{"ucmdx", "uharbor", "ustake", "ucmdx"}[g.intn(4)]
	s.total = g.pickU(1, 1, 2, 3, 3, 5, 7, 11, 0)
	s.dep = c19Deposit(g, s.total)
	s.startOff = g.pickI(0, 0, 0, 5, 18000, 100000, -1)
	s.durS = g.pickI(43200, 43200, 86400, 86400, 129600, 43199, 0)
	s.app = w.fx.appL
	if g.chance(4) {
		s.app = 999
	}
	s.pool = w.fx.pools[g.intn(3)]
	if g.chance(5) {
		s.pool = 99
	}
	if g.chance(35) {
		s.master = true
		switch g.intn(6) {
		case 0: // all other pools
		case 1:
			s.child = []uint64{s.pool}
		case 2:
			s.child = []uint64{98}
		default:
			for _, p := range w.fx.pools {
				if p != s.pool && g.chance(60) {
					s.child = append(s.child, p)
				}
			}
		}
	}
	s.short = g.chance(5)
	return s
}

func c19FarmAmt(g *rng) sdk.Int {
	switch g.intn(8) {
	case 0:
		return sdk.NewInt(1)
	case 1:
		return sdk.NewInt(int64(1 + g.intn(1000)))
	case 2:
		return sdk.NewInt(30_000_000_000)
	default:
		return sdk.NewInt(int64(1+g.intn(100000)) * g.pickI(1, 1000, 100000))
	}
}

func (w *c19World) genEnvOp(g *rng) {
	switch g.intn(10) {
	case 0, 1, 2:
		w.opFarm(1+g.intn(6), w.fx.pools[g.intn(3)], c19FarmAmt(g))
	case 3:
		n, pool := 1+g.intn(6), w.fx.pools[g.intn(3)]
		if af, ok := w.a.LiquidityKeeper.GetActiveFarmer(w.ctx, w.fx.appL, pool, addrN(n)); ok && af.FarmedPoolCoin.Amount.IsPositive() {
			amt := af.FarmedPoolCoin.Amount
			if g.chance(60) {
				amt = amt.QuoRaw(int64(2 + g.intn(3))).AddRaw(1)
				if amt.GT(af.FarmedPoolCoin.Amount) {
					amt = af.FarmedPoolCoin.Amount
				}
			}
			w.opUnfarm(n, pool, amt)
		}
	case 4:
		d := []string{"ucmdx", "ucmst", "uharbor", "uatom"}[g.intn(4)]
		w.opPrice(d, g.pickU(1, 999999, 1000000, 2000000, 2345678, 40000000000, 0), g.chance(85))
	case 5:
		w.opLocker(11+g.intn(6), sdk.NewInt(int64(1+g.intn(1000))*g.pickI(1, 1000, 1000000)))
	case 6:
		in := sdk.NewInt(int64(10+g.intn(1000)) * 1000000)
		w.opVault(21+g.intn(3), in, in.QuoRaw(int64(2+g.intn(3))))
	case 7:
		w.opSwapFees(g.intn(3), sdk.NewInt(int64(1+g.intn(100000))*g.pickI(1, 1000)))
	case 8:
		w.opDonate([]string{"ucmdx", "uharbor", "ustake"}[g.intn(3)], sdk.NewInt(int64(1+g.intn(1000))))
	case 9:
		if g.chance(30) {
			w.opRangedPool()
		} else if g.chance(40) {
			// the admin turns the kill switch of one of the programs' apps on (usually) or off
			w.opHalt([]uint64{w.fx.appH, w.fx.appV}[g.intn(2)], g.chance(60))
		} else if g.chance(70) {
			// the ESM status of one of the programs' apps: the locker / vault distributions return ErrESMAlreadyExecuted
			w.opEsm([]uint64{w.fx.appH, w.fx.appV}[g.intn(2)], g.chance(60))
		}
	}
}

func (w *c19World) genExt(g *rng) {
	kind := g.intn(2)
	denom := []string{"uharbor", "ucmdx", "ustake"}[g.intn(3)]
	var total sdk.Int
	switch g.intn(8) {
	case 0:
		total = sdk.NewInt(1)
	case 1:
		total = sdk.NewIntFromUint64(1 << 63).SubRaw(1) // the largest amount Int64() accepts
	case 2:
		total = sdkmath.NewIntWithDecimal(int64(1+g.intn(9)), 18)
	case 3:
		total = sdk.NewIntFromUint64(1 << 63) // Int64() panics at the first distribution
	default:
		total = sdk.NewInt(int64(1+g.intn(100000)) * g.pickI(1, 1000, 1000000))
	}
	days := g.pickI(1, 1, 2, 3, 7)
	minlock := g.pickI(1, 3600, 86400, 200000)
	w.opExtCreate(kind, denom, total, days, minlock, 81, g.chance(5), g.chance(6), g.chance(30))
}

func c19Dt(g *rng) int64 {
	return g.pickI(6, 3600, 43200, 43201, 43201, 50000, 86399, 86400, 86401, 86401, 90000, 129601, 172801, 172802, 200000, 400000)
}

func c19NewWorld(t *testing.T, a *chain.App, base sdk.Context, tr *tracer, fx *c19Fix) *c19World {
	ctx, _ := base.CacheContext()
	w := &c19World{t: t, a: a, ctx: ctx, tr: tr, fx: fx, now: baseTime.Add(10 * time.Second), height: 5, nacct: map[string]int{}}
	w.ctx = w.ctx.WithBlockHeight(w.height).WithBlockTime(w.now)
	for _, n := range c19Watched {
		w.nacct[addrN(n).String()] = n
	}
	return w
}

func (w *c19World) header(ci int, kind string) {
	w.tr.p("case %d %s %d", ci, kind, w.fx.nGauges)
	w.st()
}

// random history: the whole life of a few gauges and programs
func c19Random(w *c19World, g *rng) {
	// prices: usually at least one asset of each pair has one
	for _, d := range []string{"ucmdx", "ucmst", "uharbor", "uatom"} {
		if g.chance(80) {
			w.opPrice(d, g.pickU(1000000, 2000000, 500000, 12345678, 1), g.chance(92))
		} else {
			w.opPrice(d, 0, false)
		}
	}
	for i := 0; i < 2+g.intn(8); i++ {
		w.opFarm(1+g.intn(6), w.fx.pools[g.intn(3)], c19FarmAmt(g))
	}
	for i := 0; i < g.intn(4); i++ {
		w.opLocker(11+g.intn(6), sdk.NewInt(int64(1+g.intn(1000))*g.pickI(1, 1000, 1000000)))
	}
	for i := 0; i < g.intn(3); i++ {
		in := sdk.NewInt(int64(10+g.intn(1000)) * 1000000)
		w.opVault(21+g.intn(3), in, in.QuoRaw(int64(2+g.intn(3))))
	}
	ng := 1 + g.intn(3)
	for i := 0; i < ng; i++ {
		w.opCreateGauge(w.genGauge(g))
	}
	for i := 0; i < g.intn(3); i++ {
		w.genExt(g)
	}
	nb := 6 + g.intn(14)
	for b := 0; b < nb; b++ {
		for i := 0; i < g.intn(3); i++ {
			w.genEnvOp(g)
		}
		if g.chance(12) {
			w.opCreateGauge(w.genGauge(g))
		}
		if g.chance(6) {
			w.genExt(g)
		}
		w.opBegin(c19Dt(g))
	}
}

// directed: tiny allocations against a large farmed value (the multiplier coins/total keeps few digits)
func c19TinyAlloc(w *c19World, g *rng) {
	w.opPrice("ucmst", 1000000, true)
	w.opPrice("uatom", g.pickU(10000000, 9000000, 12345678), true)
	pool := w.fx.pools[1] // the big pool
	w.opFarm(1, pool, sdk.NewInt(int64(20_000_000_000+g.intn(70_000_000_000))))
	w.opFarm(2, pool, sdk.NewInt(int64(1+g.intn(40))))
	if g.chance(40) {
		w.opFarm(3, pool, sdk.NewInt(int64(1+g.intn(40))))
	}
	total := g.pickU(1, 2, 3, 5)
	dep := sdk.NewIntFromUint64(total).MulRaw(g.pickI(1, 1, 2, 3))
	w.opCreateGauge(c19GaugeSpec{denom: "uharbor", dep: dep, total: total, durS: 43200, app: w.fx.appL, pool: pool, creator: 80})
	for b := 0; b < int(total)+3; b++ {
		w.opBegin(43201)
	}
}

// directed: master gauges created through MsgCreateGauge with an explicit child list (none / some / all of the other
// pools) on the three pools; farmers in master + listed child, master + UNLISTED pool, master only, child only
func c19MasterList(w *c19World, g *rng) {
	for _, d := range []string{"ucmdx", "ucmst", "uharbor", "uatom"} {
		w.opPrice(d, g.pickU(1000000, 2000000, 500000, 12345678), true)
	}
	if w.unpricedQuote {
		// the QUOTE coin of all three pairs (ucmst) has no usable oracle price: every position is valued by its BASE
		// coin amount; the pools' reserves are 2:1, 10:1 and 1:3 in raw units
		w.opPrice("ucmst", 0, false)
	}
	perm := []uint64{w.fx.pools[0], w.fx.pools[1], w.fx.pools[2]}
	for i := 2; i > 0; i-- {
		j := g.intn(i + 1)
		perm[i], perm[j] = perm[j], perm[i]
	}
	master, listed, unlisted := perm[0], perm[1], perm[2]
	amt := func() sdk.Int { return sdk.NewInt(int64(1000+g.intn(1000000)) * g.pickI(1, 1000)) }
	w.opFarm(1, master, amt()) // master + listed child
	w.opFarm(1, listed, amt())
	w.opFarm(2, master, amt()) // master + unlisted pool only
	w.opFarm(2, unlisted, amt())
	w.opFarm(3, master, amt()) // master only
	w.opFarm(4, listed, amt()) // child only
	if g.chance(60) {
		w.opFarm(5, master, amt()) // master + both
		w.opFarm(5, listed, amt())
		w.opFarm(5, unlisted, amt())
	}
	if g.chance(40) {
		w.opFarm(6, master, amt())
		w.opFarm(6, []uint64{listed, unlisted}[g.intn(2)], amt())
	}
	mk := func(child []uint64) {
		total := g.pickU(1, 2, 3, 5)
		dep := sdk.NewIntFromUint64(total).MulRaw(int64(1000+g.intn(1000000))).AddRaw(int64(g.intn(int(total))))
		w.opCreateGauge(c19GaugeSpec{denom: []string{"ucmdx", "uharbor", "ustake"}[g.intn(3)], dep: dep, total: total,
			durS: g.pickI(43200, 86400), app: w.fx.appL, pool: master, master: true, child: child, creator: 80})
	}
	mk([]uint64{listed}) // some
	switch g.intn(4) {
	case 0:
		mk(nil) // none listed: every other pool
	case 1:
		mk([]uint64{listed, unlisted}) // all
	case 2:
		mk([]uint64{unlisted})
	default:
		mk([]uint64{listed, listed}) // a pool listed twice counts twice
	}
	if g.chance(30) {
		w.opCreateGauge(c19GaugeSpec{denom: "ucmdx", dep: sdk.NewInt(int64(1000 + g.intn(100000))), total: 2, durS: 43200, app: w.fx.appL,
			pool: listed, master: true, child: []uint64{master}, creator: 80})
	}
	nb := 4 + g.intn(5)
	for b := 0; b < nb; b++ {
		if g.chance(35) {
			w.opFarm(1+g.intn(6), perm[g.intn(3)], amt())
		}
		if g.chance(20) {
			w.opUnfarm(1+g.intn(6), perm[g.intn(3)], sdk.NewInt(int64(1+g.intn(100000))))
		}
		w.opBegin(g.pickI(43201, 43201, 86401, 50000, 6))
	}
}

// directed: a swap-fee gauge holding fees while the pair has two pools and one oracle price is missing
func c19SwapFee(w *c19World, g *rng) {
	w.opPrice("ucmst", 1000000, true)
	w.opPrice("ucmdx", 2000000, true)
	w.opFarm(1, w.fx.pools[0], sdk.NewInt(int64(1000+g.intn(1000000))))
	w.opFarm(2, w.fx.pools[0], sdk.NewInt(int64(1000+g.intn(1000000))))
	// some other gauge's money in the same denom
	w.opCreateGauge(c19GaugeSpec{denom: "ucmdx", dep: sdk.NewInt(int64(500000 + g.intn(500000))), total: 7, startOff: 400000, durS: 129600,
		app: w.fx.appL, pool: w.fx.pools[0], creator: 80})
	w.opSwapFees(0, sdk.NewInt(int64(1000+g.intn(100000))))
	w.opBegin(6)     // the fresh 24h epoch is initialised
	w.opBegin(43200) // first trigger: the gauge receives the fees (nobody farms actively yet)
	w.opBegin(43201) // second trigger; the farmers become active at the end of this block
	if g.chance(70) {
		w.opRangedPool()
	}
	if g.chance(70) {
		w.opPrice("ucmdx", 0, false) // base coin price gone; the quote price still serves the share calculation
	}
	for b := 0; b < 3+g.intn(3); b++ {
		if g.chance(50) {
			w.opSwapFees(0, sdk.NewInt(int64(1+g.intn(1000))))
		}
		w.opBegin(86401)
	}
}

// directed: a locker program whose rounded shares add up to more than one, large reward amount
func c19ExtRounding(w *c19World, g *rng) {
	n := 6
	if g.chance(50) {
		n = 3 + g.intn(4)
	}
	for i := 0; i < n; i++ {
		w.opLocker(11+i, sdk.NewInt(1000000))
	}
	days := g.pickI(1, 1, 2)
	total := sdkmath.NewIntWithDecimal(int64(1+g.intn(9)), 18)
	w.opExtCreate(0, "ustake", total, days, 1, 81, false, false)
	// some gauge money in the same denom so that the custody account can cover the excess
	w.opPrice("ucmst", 1000000, true)
	w.opCreateGauge(c19GaugeSpec{denom: "ustake", dep: sdk.NewInt(1000), total: 3, startOff: 500000, durS: 86400, app: w.fx.appL, pool: w.fx.pools[0], creator: 80})
	for b := 0; b < int(days)+2; b++ {
		w.opBegin(86401)
	}
}


// directed (the input of fix b2d3331): locker programs on two apps and a vault program; the kill switch of the app of
// the LATER locker program is turned on: DistributeExtRewardLocker pays the first program and then returns
// ErrCircuitBreakerEnabled - the whole locker step must be rolled back (nothing paid, records and epochs of the
// programs untouched) while the epoch bookkeeping, the gauges and the vault step go on; switched off again it resumes
func c19HookErr(w *c19World, g *rng) {
	w.opPrice("ucmst", 1000000, true)
	w.opPrice("ucmdx", 2000000, true)
	for i := 0; i < 1+g.intn(3); i++ {
		w.opLocker(11+i, sdk.NewInt(int64(1+g.intn(1000))*1000000))
	}
	in := sdk.NewInt(int64(100+g.intn(900)) * 1000000)
	w.opVault(21, in, in.QuoRaw(4))
	w.opFarm(1, w.fx.pools[0], sdk.NewInt(int64(1000+g.intn(1000000))))
	w.opCreateGauge(c19GaugeSpec{denom: "uharbor", dep: sdk.NewInt(int64(1000 + g.intn(100000))), total: 5, durS: 43200, app: w.fx.appL, pool: w.fx.pools[0], creator: 80})
	days := g.pickI(2, 3, 5)
	w.opExtCreate(0, "uharbor", sdk.NewInt(int64(1000+g.intn(5000000))), days, 1, 81, false, false)       // lockers of appH
	w.opExtCreate(0, "uharbor", sdk.NewInt(int64(1+g.intn(1000))), days, 1, 81, false, false, true)        // created later, on appV
	w.opExtCreate(1, []string{"uharbor", "ustake"}[g.intn(2)], sdk.NewInt(int64(1000+g.intn(100000))), days, 1, 81, false, false) // vaults of appV ...
	which := w.fx.appV
	if g.chance(30) {
		which = w.fx.appH // ... or the FIRST program's app: the step fails before anything is paid
	}
	w.opBegin(6)
	w.opBegin(43201)
	// the circuit breaker (kill switch) or the emergency shutdown (ESM status): two early returns of the same loop
	byEsm := g.chance(45)
	if byEsm {
		w.opEsm(which, true)
	} else {
		w.opHalt(which, true)
	}
	for b := 0; b < 2+g.intn(2); b++ {
		w.opBegin(g.pickI(43201, 86401))
	}
	if byEsm {
		w.opEsm(which, false)
	} else {
		w.opHalt(which, false)
	}
	for b := 0; b < 2+g.intn(3); b++ {
		w.opBegin(g.pickI(43201, 86401, 90000))
	}
}

// environment of one lend program: what DistributeExtRewardLend collects for it (iter.go 248-283),
// recomputed with the keepers' exported functions
func (w *c19World) lendEnv(v rewardstypes.LendExternalRewards) string {
	k := w.a.Rewardskeeper
	var sb strings.Builder
	rd := v.RewardsAssetPoolData
	if rd == nil || len(rd.AssetId) == 0 {
		return "0 0 noprice"
	}
	assetID := rd.AssetId[0]
	stats, found := w.a.LendKeeper.GetAssetStatsByPoolIDAndAssetID(w.ctx, rd.CPoolId, assetID)
	if !found {
		return "0 0 noprice"
	}
	n := 0
	for _, id := range stats.BorrowIds {
		bp, found := w.a.LendKeeper.GetBorrow(w.ctx, id)
		if !found || bp.IsLiquidated {
			continue
		}
		amt, found := k.OraclePriceForRewards(w.ctx, assetID, bp.AmountOut.Amount)
		if !found {
			continue
		}
		lp, _ := w.a.LendKeeper.GetLend(w.ctx, bp.LendingID)
		addr, _ := sdk.AccAddressFromBech32(lp.Owner)
		m, found := k.CheckMinOfBorrowersLiquidityAndBorrow(w.ctx, addr, v.MasterPoolId, rd.CSwapAppId, amt)
		if !found {
			continue
		}
		n++
		fmt.Fprintf(&sb, " %d %s", w.acct(lp.Owner), m.BigInt())
	}
	price := "noprice"
	if as, found := w.a.AssetKeeper.GetAssetForDenom(w.ctx, v.TotalRewards.Denom); found {
		if tw, found := w.a.MarketKeeper.GetTwa(w.ctx, as.Id); found && (tw.IsPriceActive || tw.Twa > 0) {
			price = fmt.Sprintf("price %d %s", tw.Twa, as.Decimals)
		}
	}
	return fmt.Sprintf("1 %d%s %s", n, sb.String(), price)
}

func (w *c19World) opLendCreate(cw *c12World, denom string, total sdk.Int, days int64, badPool bool, short bool) {
	cr := addrN(81)
	have := bal(w.a, w.ctx, cr, denom)
	want := total
	if short {
		want = total.SubRaw(1)
	}
	if have.LT(want) {
		fund(w.t, w.a, w.ctx, cr, sdk.NewCoins(sdk.NewCoin(denom, want.Sub(have))))
	} else if have.GT(want) {
		_ = w.a.BankKeeper.SendCoins(w.ctx, cr, addrN(95), sdk.NewCoins(sdk.NewCoin(denom, have.Sub(want))))
	}
	funds := bal(w.a, w.ctx, cr, denom)
	pool := cw.LendPool
	if badPool {
		pool = 77
	}
	_, assetOK := w.a.AssetKeeper.GetAssetForDenom(w.ctx, denom)
	ok := !badPool && assetOK && !w.halted(cw.LendApp)
	idBefore := w.a.Rewardskeeper.GetExternalRewardsLendID(w.ctx)
	msg := rewardstypes.NewMsgActivateExternalRewardsLend(cw.LendApp, pool, []uint64{cw.CMST}, cw.LiqApp, 0, sdk.Coin{Denom: denom, Amount: total},
		int64(cw.LiqPool), days, 1, cr)
	class, _, _ := execMsg(w.a, w.ctx, msg)
	w.tr.p("op extcreate 2 %d %s %d 1 %d %s %s %s", c19DenomCode(denom), total, days, w.now.Unix(), funds, b2s(ok), class)
	if class == "ok" {
		w.exts = append(w.exts, c19Ext{2, idBefore + 1})
	}
	w.st()
}

// TestC19Lend: lend external reward programs on the world of the C12 fixture: even cases with one borrower
// who farms in the master pool, odd cases with three borrowers (accounts 1, 4, 5) whose farmed amounts are
// changed by random unfarms, so that min(farmed value, borrowed value) differs between them;
// reward denoms with different oracle prices, 1-3 days, several programs
func TestC19Lend(t *testing.T) {
	a, base := newApp(t)
	tr := newTracer(t, "c19lend.trace")
	defer tr.close()
	r := newRng(seed())
	ncases := envInt("VERIF_CASES", 30)
	only := envInt("VERIF_CASE", -1)
	ctx1, _ := base.CacheContext()
	cw1 := c12SetupN(t, a, ctx1, 1)[0]
	ctx3, _ := base.CacheContext()
	cw3 := c12SetupN(t, a, ctx3, 3)[0]
	for ci := 0; ci < ncases; ci++ {
		cs := r.next()
		if only >= 0 && ci != only {
			continue
		}
		g := newRng(cs)
		cw := cw1
		if ci%2 == 1 {
			cw = cw3
		}
		ctx, _ := cw.Ctx.CacheContext()
		w := &c19World{t: t, a: a, ctx: ctx, tr: tr, now: cw.Ctx.BlockTime(), height: cw.Ctx.BlockHeight(), nacct: map[string]int{}}
		for _, n := range c19Watched {
			w.nacct[addrN(n).String()] = n
		}
		fund(t, a, w.ctx, addrN(90), sdk.NewCoins(sdk.NewCoin("ucmdx", sdkmath.NewIntWithDecimal(1, 15)), sdk.NewCoin("ucmst", sdkmath.NewIntWithDecimal(1, 15)),
			sdk.NewCoin("uatom", sdkmath.NewIntWithDecimal(1, 15))))
		tr.p("case %d lend %d", ci, len(a.Rewardskeeper.GetAllGauges(w.ctx)))
		w.st()
		if len(cw.Owners) > 1 {
			// different farmed amounts per borrower
			for _, o := range cw.Owners {
				if af, ok := a.LiquidityKeeper.GetActiveFarmer(w.ctx, cw.LiqApp, cw.LiqPool, o); ok && g.chance(70) {
					amt := af.FarmedPoolCoin.Amount.MulRaw(int64(1 + g.intn(99))).QuoRaw(100)
					if amt.IsPositive() {
						class, _, _ := execMsg(a, w.ctx, liqtypes.NewMsgUnfarm(cw.LiqApp, cw.LiqPool, o, sdk.NewCoin(cw.PoolCoinDenom, amt)))
						w.tr.p("env unfarm %d %d %s %s", w.acct(o.String()), cw.LiqPool, amt, class)
					}
				}
			}
		}
		denoms := []string{"ucmdx", "ucmst", "uatom"}
		ids := map[string]uint64{"ucmdx": cw.CMDX, "ucmst": cw.CMST, "uatom": cw.ATOM}
		// the reward token's oracle price decides how much is paid per unit of reward value
		for _, d := range denoms {
			if g.chance(60) {
				pr := g.pickU(1000000, 2000000, 500000, 30000000, 999999, 1)
				setPrice(a, w.ctx, ids[d], pr, true)
				w.tr.p("env price %d %d 1", c19DenomCode(d), pr)
			}
		}
		np := 1 + g.intn(2)
		for i := 0; i < np; i++ {
			d := denoms[g.intn(3)]
			total := sdk.NewInt(g.pickI(1, 1000000, 123456789, 1000000000000, 7))
			w.opLendCreate(cw, d, total, g.pickI(1, 1, 2, 3), g.chance(6), g.chance(6))
			if g.chance(70) { // somebody else's money in the same account
				w.opDonate(d, sdk.NewInt(int64(1+g.intn(5000000))))
			}
		}
		nb := 4 + g.intn(5)
		for b := 0; b < nb; b++ {
			if g.chance(15) {
				d := denoms[g.intn(3)]
				pr := g.pickU(1000000, 2000000, 500000, 30000000)
				setPrice(a, w.ctx, ids[d], pr, g.chance(90))
				w.tr.p("env price %d %d 1", c19DenomCode(d), pr)
			}
			if g.chance(12) {
				// the lend app's kill switch: DistributeExtRewardLend returns its error, the step is rolled back
				w.opHalt(cw.LendApp, !w.halted(cw.LendApp))
			}
			w.opBegin(g.pickI(6, 3600, 84601, 86401, 86401, 90000, 200000))
		}
	}
}

func TestC19(t *testing.T) {
	a, base := newApp(t)
	tr := newTracer(t, "c19.trace")
	defer tr.close()
	r := newRng(seed())
	ncases := envInt("VERIF_CASES", 60)
	only := envInt("VERIF_CASE", -1)
	fx := c19Base(t, a, base)
	for ci := 0; ci < ncases; ci++ {
		cs := r.next()
		if only >= 0 && ci != only {
			continue
		}
		g := newRng(cs)
		w := c19NewWorld(t, a, base, tr, fx)
		switch {
		case ci%10 == 1:
			w.header(ci, "tiny")
			c19TinyAlloc(w, g)
		case ci%10 == 2:
			w.header(ci, "swapfee")
			c19SwapFee(w, g)
		case ci%10 == 3:
			w.header(ci, "extround")
			c19ExtRounding(w, g)
		case ci%10 == 4:
			w.header(ci, "hookerr")
			c19HookErr(w, g)
		case ci%10 == 5 || ci%10 == 8:
			w.unpricedQuote = ci%10 == 8
			w.header(ci, "masterlist")
			c19MasterList(w, g)
		default:
			w.header(ci, "random")
			c19Random(w, g)
		}
	}
}

// TestC19Split: SplitTotalAmountPerEpoch called directly: exhaustive small domain, boundaries, random
func TestC19Split(t *testing.T) {
	tr := newTracer(t, "c19split.trace")
	defer tr.close()
	r := newRng(seed())
	n := envInt("VERIF_CASES", 2000)
	maxT, maxE := uint64(60), uint64(12)
	if envInt("VERIF_EXHAUSTIVE", 0) == 1 {
		maxT, maxE = 200, 30
	}
	ci := 0
	one := func(total, epochs uint64) {
		var sp []uint64
		tr.p("case %d split", ci)
		ci++
		if p, _ := safely(func() { sp = rewardskeeper.SplitTotalAmountPerEpoch(total, epochs) }); p {
			tr.p("s %d %d panic 0", total, epochs)
			return
		}
		var sb strings.Builder
		for _, x := range sp {
			fmt.Fprintf(&sb, " %d", x)
		}
		tr.p("s %d %d ok %d%s", total, epochs, len(sp), sb.String())
	}
	for tt := uint64(0); tt <= maxT; tt++ {
		for e := uint64(0); e <= maxE; e++ {
			one(tt, e)
		}
	}
	m := ^uint64(0)
	for _, tt := range []uint64{m, m - 1, 1 << 63, 1<<63 - 1, 1<<63 + 1, 1 << 32, 1000000007} {
		for _, e := range []uint64{1, 2, 3, 7, 64, 365, 1000} {
			one(tt, e)
		}
	}
	for i := 0; i < n; i++ {
		e := uint64(1 + r.intn(400))
		var tt uint64
		switch r.intn(4) {
		case 0:
			tt = r.next()
		case 1:
			tt = e*uint64(r.intn(1000000)) + uint64(r.intn(int(e)))
		case 2:
			tt = r.next() >> uint(r.intn(64))
		default:
			tt = uint64(r.intn(100000))
		}
		one(tt, e)
	}
}
