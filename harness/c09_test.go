//go:build verif

package verifharness

import (
	"fmt"
	"strings"
	"testing"
	"time"

	abci "github.com/cometbft/cometbft/abci/types"
	sdk "github.com/cosmos/cosmos-sdk/types"

	chain "github.com/comdex-official/comdex/app"
	auctiontypes "github.com/comdex-official/comdex/x/auction/types"
	auctionsV2types "github.com/comdex-official/comdex/x/auctionsV2/types"
	esmtypes "github.com/comdex-official/comdex/x/esm/types"
	"github.com/comdex-official/comdex/x/liquidation"
	liqtypes "github.com/comdex-official/comdex/x/liquidation/types"
	"github.com/comdex-official/comdex/x/liquidationsV2"
	liqv2types "github.com/comdex-official/comdex/x/liquidationsV2/types"
	vaulttypes "github.com/comdex-official/comdex/x/vault/types"
)

// ---------------------------------------------------------------------------------------------
// C09 harness: drives the REAL liquidation sweeps (liquidation.BeginBlocker, liquidationsV2.BeginBlocker)
// and the liquidate message over populations of vaults, with price paths and interleaved
// creates / closes.  Before every sweep it dumps, for every open vault, the inputs of the ratio
// test; after every step the projection (open ids, counter, offsets, custody, new locked records
// and their auctions).
// ---------------------------------------------------------------------------------------------

type c09World struct {
	t                *testing.T
	a                *chain.App
	base             sdk.Context
	app1, app2       uint64
	collA, debt      uint64
	collB            uint64
	ep               []c09ExtPair
	capTable         []int
}

type c09ExtPair struct {
	id, app  uint64
	coll     uint64
	collDen  string
	minCr    sdk.Dec
	closable bool
}

const (
	c09GenV1 = 1
	c09GenV2 = 2
)

func c09Setup(t *testing.T) *c09World {
	a, ctx := newApp(t)
	w := &c09World{t: t, a: a, base: ctx}
	w.app1 = addAppRecord(t, a, ctx, "appone")
	w.app2 = addAppRecord(t, a, ctx, "apptwo")
	w.collA = addAsset(t, a, ctx, "COLLA", "ucolla", 1000000, true, false)
	w.debt = addAsset(t, a, ctx, "DEBT", "udebt", 1000000, true, true)
	w.collB = addAsset(t, a, ctx, "COLLB", "ucollb", 100000000, true, false)
	p1 := addPair(t, a, ctx, w.collA, w.debt)
	p2 := addPair(t, a, ctx, w.collB, w.debt)
	zero := sdk.ZeroDec()
	mk := func(name string, app, pair uint64, minCr string, closing sdk.Dec, oracle bool) uint64 {
		return addExtPair(t, a, ctx, extPairCfg{Name: name, App: app, Pair: pair, StabilityFee: zero, ClosingFee: closing,
			LiqPenalty: sdk.MustNewDecFromStr("0.12"), DrawDownFee: zero, MinCr: sdk.MustNewDecFromStr(minCr),
			DebtCeiling: sdk.NewInt(1000000000000000000), DebtFloor: sdk.NewInt(1), Stable: false, Active: true, OraclePrice: oracle,
			AssetOutPrice: 1000000, MinUsdValLeft: 100000})
	}
	e1 := mk("COLLA-A", w.app1, p1, "1.5", zero, true)
	e2 := mk("COLLA-B", w.app2, p1, "1.3", zero, false)
	e3 := mk("COLLB-A", w.app1, p2, "1.7", sdk.MustNewDecFromStr("0.005"), true)
	e4 := mk("COLLB-B", w.app2, p2, "1.5", zero, true)
	w.ep = []c09ExtPair{
		{e1, w.app1, w.collA, "ucolla", sdk.MustNewDecFromStr("1.5"), true},
		{e2, w.app2, w.collA, "ucolla", sdk.MustNewDecFromStr("1.3"), true},
		{e3, w.app1, w.collB, "ucollb", sdk.MustNewDecFromStr("1.7"), false},
		{e4, w.app2, w.collB, "ucollb", sdk.MustNewDecFromStr("1.5"), true},
	}
	// capacity of the slice GetVaults builds by n appends (run-time growth policy): an env input
	for n := 0; n <= 40; n++ {
		var vs []vaulttypes.Vault
		for i := 0; i < n; i++ {
			vs = append(vs, vaulttypes.Vault{})
		}
		w.capTable = append(w.capTable, cap(vs))
	}
	return w
}

type c09Case struct {
	w         *c09World
	ctx       sdk.Context
	tr        *tracer
	gen       int
	apps      []uint64 // apps enabled for liquidation in this case
	batch     uint64
	height    int64
	nextUser  int
	owners    map[uint64]sdk.AccAddress
	epOf      map[uint64]c09ExtPair
	lockedCtr uint64
}

func (c *c09Case) price(asset uint64) (uint64, bool) {
	tw, found := c.w.a.MarketKeeper.GetTwa(c.ctx, asset)
	if !found || !tw.IsPriceActive {
		return 0, false
	}
	return tw.Twa, true
}

func c09PriceTok(p uint64, ok bool) string {
	if !ok {
		return "-1"
	}
	return fmt.Sprint(p)
}

func (c *c09Case) appEnabled(app uint64) bool {
	for _, x := range c.apps {
		if x == app {
			return true
		}
	}
	return false
}

// inputs of the ratio test for every open vault, in list order
func (c *c09Case) dumpInputs() {
	a, ctx := c.w.a, c.ctx
	for _, v := range a.VaultKeeper.GetVaults(ctx) {
		ep, _ := a.AssetKeeper.GetPairsVault(ctx, v.ExtendedPairVaultID)
		pair, _ := a.AssetKeeper.GetPair(ctx, ep.PairId)
		ain, _ := a.AssetKeeper.GetAsset(ctx, pair.AssetIn)
		aout, _ := a.AssetKeeper.GetAsset(ctx, pair.AssetOut)
		pin, okin := c.price(ain.Id)
		pout, okout := c.price(aout.Id)
		esm, found := a.EsmKeeper.GetESMStatus(ctx, v.AppId)
		esmOn := found && esm.Status
		kill, _ := a.EsmKeeper.GetKillSwitchData(ctx, v.AppId)
		white, auction := false, false
		if c.gen == c09GenV1 {
			_, white = a.LiquidationKeeper.GetAppIDByAppForLiquidation(ctx, v.AppId)
			_, auction = a.AuctionKeeper.GetAuctionParams(ctx, v.AppId)
		} else {
			wl, f := a.NewliqKeeper.GetLiquidationWhiteListing(ctx, v.AppId)
			white = f
			auction = f && wl.IsDutchActivated
		}
		c.tr.p("v %d %d %s %s %s %s %s %s %s %s %s %d %s %s %s %s %s %s", v.Id, v.AppId, v.AmountIn, v.AmountOut, v.InterestAccumulated,
			v.ClosingFeeAccumulated, c09PriceTok(pin, okin), ain.Decimals, c09PriceTok(pout, okout), aout.Decimals,
			b2s(ep.AssetOutOraclePrice), ep.AssetOutPrice, ep.MinCr.BigInt(), b2s(esmOn), b2s(esmOn && esm.SnapshotStatus),
			b2s(kill.BreakerEnable), b2s(white), b2s(auction))
	}
}

func (c *c09Case) proj() {
	a, ctx := c.w.a, c.ctx
	var sb strings.Builder
	vs := a.VaultKeeper.GetVaults(ctx)
	fmt.Fprintf(&sb, "s %d", a.VaultKeeper.GetLengthOfVault(ctx))
	if c.gen == c09GenV1 {
		fmt.Fprintf(&sb, " 2")
		for _, app := range []uint64{c.w.app1, c.w.app2} {
			h, _ := a.LiquidationKeeper.GetLiquidationOffsetHolder(ctx, app, liqtypes.VaultLiquidationsOffsetPrefix)
			fmt.Fprintf(&sb, " %d %d", app, h.CurrentOffset)
		}
	} else {
		// liquidationsV2.Liquidate: LiquidateVaults(ctx, 0) and LiquidateBorrows(ctx, 1) each keep their
		// offset under their own key (absent key = offset 0)
		h0, _ := a.NewliqKeeper.GetLiquidationOffsetHolder(ctx, liqv2types.VaultLiquidationsOffsetPrefix, 0)
		h1, _ := a.NewliqKeeper.GetLiquidationOffsetHolder(ctx, liqv2types.VaultLiquidationsOffsetPrefix, 1)
		fmt.Fprintf(&sb, " 2 0 %d 1 %d", h0.CurrentOffset, h1.CurrentOffset)
	}
	fmt.Fprintf(&sb, " %d", len(vs))
	for _, v := range vs {
		fmt.Fprintf(&sb, " %d", v.Id)
	}
	var vmod, amod string
	var lockedCtr, auctionCtr uint64
	var nAuc int
	type lrec struct {
		orig         uint64
		amt          sdk.Int
		nAuc         int
		aucAmt       sdk.Int
	}
	var news []lrec
	if c.gen == c09GenV1 {
		vmod, amod = vaulttypes.ModuleName, auctiontypes.ModuleName
		lockedCtr = a.LiquidationKeeper.GetLockedVaultID(ctx)
		auctionCtr = a.AuctionKeeper.GetAuctionID(ctx)
		var aucs []auctiontypes.DutchAuction
		for _, app := range []uint64{c.w.app1, c.w.app2} {
			aucs = append(aucs, a.AuctionKeeper.GetDutchAuctions(ctx, app)...)
		}
		nAuc = len(aucs)
		for _, lv := range a.LiquidationKeeper.GetLockedVaults(ctx) {
			if lv.LockedVaultId <= c.lockedCtr {
				continue
			}
			r := lrec{orig: lv.OriginalVaultId, amt: lv.AmountIn, aucAmt: sdk.ZeroInt()}
			for _, au := range aucs {
				if au.LockedVaultId == lv.LockedVaultId && au.AppId == lv.AppId {
					r.nAuc++
					r.aucAmt = au.OutflowTokenInitAmount.Amount
				}
			}
			news = append(news, r)
		}
	} else {
		vmod, amod = vaulttypes.ModuleName, auctionsV2types.ModuleName
		lockedCtr = a.NewliqKeeper.GetLockedVaultID(ctx)
		auctionCtr = a.NewaucKeeper.GetAuctionID(ctx)
		aucs := a.NewaucKeeper.GetAuctions(ctx)
		nAuc = len(aucs)
		for _, lv := range a.NewliqKeeper.GetLockedVaults(ctx) {
			if lv.LockedVaultId <= c.lockedCtr {
				continue
			}
			r := lrec{orig: lv.OriginalVaultId, amt: lv.CollateralToken.Amount, aucAmt: sdk.ZeroInt()}
			for _, au := range aucs {
				if au.LockedVaultId == lv.LockedVaultId {
					r.nAuc++
					r.aucAmt = au.CollateralToken.Amount
				}
			}
			news = append(news, r)
		}
	}
	fmt.Fprintf(&sb, " %d %d %d %s %s %s %s", lockedCtr, auctionCtr, nAuc,
		bal(a, ctx, modAddr(vmod), "ucolla"), bal(a, ctx, modAddr(vmod), "ucollb"),
		bal(a, ctx, modAddr(amod), "ucolla"), bal(a, ctx, modAddr(amod), "ucollb"))
	c.tr.p("%s", sb.String())
	var hb strings.Builder
	fmt.Fprintf(&hb, "h %d", len(news))
	for _, r := range news {
		fmt.Fprintf(&hb, " %d %s %d %s", r.orig, r.amt, r.nAuc, r.aucAmt)
	}
	c.tr.p("%s", hb.String())
	c.lockedCtr = lockedCtr
}

func (c *c09Case) setPrice(asset uint64, price uint64, active bool) {
	setPrice(c.w.a, c.ctx, asset, price, active)
	c.tr.p("op price %d %d %s", asset, price, b2s(active))
	c.proj()
}

// create a vault for a fresh user; crBps = collateral ratio at creation in basis points of the
// current prices (the vault msg server enforces MinCr at creation)
func (c *c09Case) create(epi int, amtIn sdk.Int, amtOut sdk.Int) uint64 {
	a := c.w.a
	ep := c.w.ep[epi]
	user := addrN(1000 + c.nextUser)
	c.nextUser++
	fund(c.w.t, a, c.ctx, user, sdk.NewCoins(sdk.NewCoin(ep.collDen, amtIn), sdk.NewCoin("udebt", sdk.NewInt(1000000000))))
	before := a.VaultKeeper.GetIDForVault(c.ctx)
	class, _, _ := execMsg(a, c.ctx, vaulttypes.NewMsgCreateRequest(user, ep.app, ep.id, amtIn, amtOut))
	id := uint64(0)
	if class == "ok" {
		id = a.VaultKeeper.GetIDForVault(c.ctx)
		if id != before+1 {
			panic("vault id not incremented")
		}
		c.owners[id] = user
		c.epOf[id] = ep
	}
	c.tr.p("op create %d %d %s %s %s %d", ep.app, ep.id, amtIn, amtOut, class, id)
	c.proj()
	return id
}

func (c *c09Case) close(id uint64) {
	owner, ok := c.owners[id]
	if !ok {
		return
	}
	ep := c.epOf[id]
	class, _, _ := execMsg(c.w.a, c.ctx, &vaulttypes.MsgCloseRequest{From: owner.String(), AppId: ep.app, ExtendedPairVaultId: ep.id, UserVaultId: id})
	c.tr.p("op close %d %s", id, class)
	c.proj()
}

func (c *c09Case) liqMsg(id uint64) {
	c.dumpInputs()
	class, _, _ := execMsg(c.w.a, c.ctx, liqv2types.NewMsgLiquidateInternalKeeperRequest(addrN(7), 0, id))
	c.tr.p("op liq %d %s", id, class)
	c.proj()
}

func (c *c09Case) setInterest(id uint64, amt sdk.Int) {
	v, found := c.w.a.VaultKeeper.GetVault(c.ctx, id)
	if !found {
		return
	}
	v.InterestAccumulated = amt
	c.w.a.VaultKeeper.SetVault(c.ctx, v)
	c.tr.p("op interest %d %s", id, amt)
	c.proj()
}

func (c *c09Case) setKill(app uint64, on bool) {
	_ = c.w.a.EsmKeeper.SetKillSwitchData(c.ctx, esmtypes.KillSwitchParams{AppId: app, BreakerEnable: on})
	c.tr.p("op kill %d %s", app, b2s(on))
	c.proj()
}

func (c *c09Case) setEsm(app uint64, on bool) {
	c.w.a.EsmKeeper.SetESMStatus(c.ctx, esmtypes.ESMStatus{AppId: app, Status: on})
	c.tr.p("op esm %d %s", app, b2s(on))
	c.proj()
}

func (c *c09Case) setCounter(n uint64) {
	c.w.a.VaultKeeper.SetLengthOfVault(c.ctx, n)
	c.tr.p("op counter %d", n)
	c.proj()
}

// one block: the module's BeginBlocker on a cache of the case context, kept unless it panics
func (c *c09Case) block() bool {
	a := c.w.a
	c.dumpInputs()
	c.height++
	bctx := c.ctx.WithBlockHeight(c.height).WithBlockTime(baseTime.Add(time.Duration(c.height) * 6 * time.Second))
	cctx, write := bctx.CacheContext()
	var sb strings.Builder
	if c.gen == c09GenV1 {
		// GetAppIdsForLiquidation order + "kill switch or ESM" per app, as the sweep reads them
		ids := a.LiquidationKeeper.GetAppIdsForLiquidation(bctx)
		fmt.Fprintf(&sb, " %d", len(ids))
		for _, id := range ids {
			esm, found := a.EsmKeeper.GetESMStatus(bctx, id)
			kill, _ := a.EsmKeeper.GetKillSwitchData(bctx, id)
			fmt.Fprintf(&sb, " %d %s", id, b2s((found && esm.Status) || kill.BreakerEnable))
		}
	} else {
		fmt.Fprintf(&sb, " 0")
	}
	panicked, _ := safely(func() {
		if c.gen == c09GenV1 {
			// only the vault half of the V1 hook is under test here; LiquidateBorrows finds no borrows
			liquidation.BeginBlocker(cctx, abci.RequestBeginBlock{}, a.LiquidationKeeper)
		} else {
			liquidationsV2.BeginBlocker(cctx, abci.RequestBeginBlock{}, a.NewliqKeeper)
		}
	})
	res := "ok"
	if panicked {
		res = "panic"
	} else {
		write()
		c.ctx = c.ctx.WithBlockHeight(c.height).WithBlockTime(bctx.BlockTime())
	}
	c.tr.p("op block %d%s %s", c.batch, sb.String(), res)
	c.proj()
	return !panicked
}

func c09NewCase(w *c09World, tr *tracer, ci int, kind string, gen int, apps []uint64, batch uint64) *c09Case {
	ctx, _ := w.base.CacheContext()
	c := &c09Case{w: w, ctx: ctx, tr: tr, gen: gen, apps: apps, batch: batch, height: 1, owners: map[uint64]sdk.AccAddress{}, epOf: map[uint64]c09ExtPair{}}
	a := w.a
	setPrice(a, ctx, w.collA, 2000000, true)
	setPrice(a, ctx, w.debt, 1000000, true)
	setPrice(a, ctx, w.collB, 300000000, true)
	if gen == c09GenV1 {
		a.LiquidationKeeper.SetParams(ctx, liqtypes.NewParams(batch))
		for _, app := range apps {
			if err := a.LiquidationKeeper.WasmWhitelistAppIDLiquidation(ctx, app); err != nil {
				panic(err)
			}
			a.AuctionKeeper.SetAuctionParams(ctx, auctiontypes.AuctionParams{AppId: app, AuctionDurationSeconds: 300,
				Buffer: sdk.MustNewDecFromStr("1.2"), Cusp: sdk.MustNewDecFromStr("0.6"), Step: sdk.NewIntFromUint64(1),
				PriceFunctionType: 1, SurplusId: 1, DebtId: 2, DutchId: 3, BidDurationSeconds: 300})
		}
	} else {
		a.NewliqKeeper.SetParams(ctx, liqv2types.NewParams(batch))
		dp := liqv2types.DutchAuctionParam{Premium: sdk.MustNewDecFromStr("0.1"), Discount: sdk.MustNewDecFromStr("0.1"), DecrementFactor: sdk.NewInt(1)}
		for _, app := range apps {
			a.NewliqKeeper.SetLiquidationWhiteListing(ctx, liqv2types.LiquidationWhiteListing{AppId: app, Initiator: true, IsDutchActivated: true,
				DutchAuctionParam: &dp, IsEnglishActivated: false, KeeeperIncentive: sdk.MustNewDecFromStr("0.1")})
		}
		a.NewaucKeeper.SetAuctionParams(ctx, auctionsV2types.AuctionParams{AuctionDurationSeconds: 3600, Step: sdk.MustNewDecFromStr("0.1"),
			WithdrawalFee: sdk.ZeroDec(), ClosingFee: sdk.ZeroDec(), MinUsdValueLeft: 100000, BidFactor: sdk.MustNewDecFromStr("0.1"),
			LiquidationPenalty: sdk.MustNewDecFromStr("0.1"), AuctionBonus: sdk.ZeroDec()})
	}
	var sb strings.Builder
	for _, x := range w.capTable {
		fmt.Fprintf(&sb, " %d", x)
	}
	tr.p("case %d %s %d %d %d%s", ci, kind, gen, batch, len(w.capTable), sb.String())
	c.proj()
	return c
}

// value of the collateral in micro-USD at the given price
func c09Value(amt int64, price uint64, decimals int64) int64 { return amt * int64(price) / decimals }

// amounts for a vault on ext pair epi whose ratio at the case's start prices is crPermille/1000
func (w *c09World) c09Amounts(epi int, units int64, crPermille int64) (sdk.Int, sdk.Int) {
	ep := w.ep[epi]
	var amtIn int64
	var val int64
	if ep.coll == w.collA {
		amtIn = units * 750000
		val = c09Value(amtIn, 2000000, 1000000)
	} else {
		amtIn = units * 50000000
		val = c09Value(amtIn, 300000000, 100000000)
	}
	out := val * 1000 / crPermille
	return sdk.NewInt(amtIn), sdk.NewInt(out)
}

func (c *c09Case) openIDs() []uint64 {
	var ids []uint64
	for _, v := range c.w.a.VaultKeeper.GetVaults(c.ctx) {
		ids = append(ids, v.Id)
	}
	return ids
}

// TestC09 : random populations, price paths and interleavings; plus the directed liveness cases.
func TestC09(t *testing.T) {
	w := c09Setup(t)
	tr := newTracer(t, "c09.trace")
	defer tr.close()
	r := newRng(seed())
	ncases := envInt("VERIF_CASES", 60)
	only := envInt("VERIF_CASE", -1)
	pricesA := []uint64{2000000, 1999999, 2000001, 1800000, 1500000, 1300000, 1000000, 2600000, 1733333, 1733334}
	pricesB := []uint64{300000000, 299999999, 255000000, 200000000, 150000000, 340000000}
	ci := 0
	for ; ci < ncases; ci++ {
		// ---- draw every parameter of the case from the PRNG, even when the case is skipped ----
		gen := c09GenV1 + r.intn(2)
		napps := 1 + r.intn(2)
		batch := uint64(1 + r.intn(5))
		_ = r.chance(3) // (batch 0 is rejected by the params validation: batch >= 1 always)
		nv := 1 + r.intn(12)
		nsteps := 6 + r.intn(20)
		kind := "random"
		if ci%4 == 3 { // starvation runs: small populations, one price drop, then quiet blocks
			kind = "quiet"
			nv = 2 + r.intn(8)
			batch = uint64(1 + r.intn(3))
		}
		type vspec struct {
			epi   int
			units int64
			cr    int64
		}
		specs := make([]vspec, nv)
		for i := range specs {
			specs[i] = vspec{r.intn(4), int64(1 + r.intn(5)), []int64{1500, 1501, 1550, 1700, 1701, 1800, 2000, 2600, 3000, 1300, 1301}[r.intn(11)]}
		}
		type step struct {
			kind    int
			a, b, c int
		}
		steps := make([]step, nsteps*3)
		for i := range steps {
			steps[i] = step{r.intn(100), r.intn(1 << 20), r.intn(1 << 20), r.intn(1 << 20)}
		}
		if only >= 0 && only != ci {
			continue
		}
		apps := []uint64{w.app1}
		if napps == 2 {
			apps = []uint64{w.app1, w.app2}
		}
		c := c09NewCase(w, tr, ci, kind, gen, apps, batch)
		for _, s := range specs {
			in, out := w.c09Amounts(s.epi, s.units, s.cr)
			c.create(s.epi, in, out)
		}
		alive := true
		for si := 0; si < nsteps && alive; si++ {
			if kind == "quiet" {
				if si == 0 {
					c.setPrice(w.collA, pricesA[3+steps[0].a%4], true)
					c.setPrice(w.collB, pricesB[2+steps[0].b%3], true)
				}
				alive = c.block()
				continue
			}
			for k := 0; k < 2; k++ {
				s := steps[si*3+k]
				ids := c.openIDs()
				switch {
				case s.kind < 30:
					if s.a%3 == 0 {
						c.setPrice(w.collB, pricesB[s.b%len(pricesB)], s.c%12 != 0)
					} else {
						c.setPrice(w.collA, pricesA[s.b%len(pricesA)], s.c%12 != 0)
					}
				case s.kind < 34:
					c.setPrice(w.debt, []uint64{1000000, 1000001, 999999, 1100000}[s.a%4], s.b%5 != 0)
				case s.kind < 46:
					in, out := w.c09Amounts(s.a%4, int64(1+s.b%5), []int64{1500, 1501, 1700, 2000, 3000, 1400}[s.c%6])
					c.create(s.a%4, in, out)
				case s.kind < 56:
					if len(ids) > 0 {
						c.close(ids[s.a%len(ids)])
					}
				case s.kind < 66:
					if gen == c09GenV2 {
						if len(ids) > 0 && s.b%6 != 0 {
							c.liqMsg(ids[s.a%len(ids)])
						} else {
							c.liqMsg(uint64(1 + s.a%40))
						}
					}
				case s.kind < 72:
					if len(ids) > 0 {
						c.setInterest(ids[s.a%len(ids)], sdk.NewInt(int64(s.b%400000)))
					}
				case s.kind < 75:
					c.setKill([]uint64{w.app1, w.app2}[s.a%2], s.b%2 == 0)
				case s.kind < 77:
					c.setEsm([]uint64{w.app1, w.app2}[s.a%2], s.b%2 == 0)
				case s.kind < 79:
					n := len(ids) + s.a%5 - 2
					if n < 0 {
						n = 0
					}
					c.setCounter(uint64(n))
				}
			}
			alive = c.block()
		}
	}
	// ---- directed cases (always run last, ids continue) ----
	directed := []func(ci int){
		func(ci int) { c09Witness(w, tr, ci, c09GenV1) },
		func(ci int) { c09Witness(w, tr, ci, c09GenV2) },
		func(ci int) { c09FallingMarket(w, tr, ci, c09GenV1) },
		func(ci int) { c09FallingMarket(w, tr, ci, c09GenV2) },
		func(ci int) { c09V2OffsetRegression(w, tr, ci) },
	}
	for _, f := range directed {
		if only < 0 || only == ci {
			f(ci)
		}
		ci++
	}
}

// the static witness of c09_two_sweeps_refuted: 9 vaults, batch 1, positions 6..9 unsafe after one
// price drop; the last one is seized in block 19 > 2*9
func c09Witness(w *c09World, tr *tracer, ci int, gen int) {
	c := c09NewCase(w, tr, ci, "witness-static", gen, []uint64{w.app1}, 1)
	for i := 0; i < 9; i++ {
		cr := int64(3000)
		if i >= 5 {
			cr = 1600
		}
		in, out := w.c09Amounts(0, 1, cr)
		c.create(0, in, out)
	}
	c.setPrice(w.collA, 1800000, true)
	for b := 0; b < 21; b++ {
		if !c.block() {
			return
		}
	}
}

// the falling-market witness: 6 vaults, batch 1; the last vault is unsafe from the start, the others
// become unsafe one by one (from the back) exactly when the window reaches them: 16 blocks > 2*6
func c09FallingMarket(w *c09World, tr *tracer, ci int, gen int) {
	c := c09NewCase(w, tr, ci, "witness-falling", gen, []uint64{w.app1}, 1)
	// ratios at price 2.0: vault k (1..5) = 1.5 * 2.0 / p_k with thresholds p_5 > p_4 > ... > p_1
	crs := []int64{2500, 2308, 2143, 2000, 1875, 1600}
	for _, cr := range crs {
		in, out := w.c09Amounts(0, 1, cr)
		c.create(0, in, out)
	}
	// vault 6 unsafe below 1.875; vault 5 below 1.6; 4 below 1.5; 3 below 1.4; 2 below 1.3; 1 below 1.2
	c.setPrice(w.collA, 1700000, true)
	sched := map[int]uint64{5: 1590000, 9: 1490000, 12: 1390000, 14: 1290000, 15: 1190000}
	for b := 1; b <= 18; b++ {
		if p, ok := sched[b]; ok {
			c.setPrice(w.collA, p, true)
		}
		if !c.block() {
			return
		}
	}
}

// regression of the repaired finding C09-F2 (Properties/C09.v Example c09_v2_starved_served): 2 vaults,
// batch 1, the second one unsafe, no borrows.  The borrow sweep used to store ITS offset (0) under the
// vault sweep's key in every block, so the vault window never left index 0 and vault 2 was never
// seized; with the borrow sweep on its own key the second block seizes it.
func c09V2OffsetRegression(w *c09World, tr *tracer, ci int) {
	c := c09NewCase(w, tr, ci, "regress-v2-offset", c09GenV2, []uint64{w.app1}, 1)
	for _, cr := range []int64{3000, 1600} {
		in, out := w.c09Amounts(0, 1, cr)
		c.create(0, in, out)
	}
	c.setPrice(w.collA, 1800000, true)
	// 8 blocks > live_bound 2 0 1 = 6: a vault left unseized is a predicate failure outside every class
	for b := 0; b < 8; b++ {
		if !c.block() {
			return
		}
	}
}
