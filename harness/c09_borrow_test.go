//go:build verif

package verifharness

import (
	"fmt"
	"math/big"
	"strings"
	"testing"
	"time"

	abci "github.com/cometbft/cometbft/abci/types"
	sdk "github.com/cosmos/cosmos-sdk/types"
	"github.com/cosmos/cosmos-sdk/x/params"
	paramproposal "github.com/cosmos/cosmos-sdk/x/params/types/proposal"

	chain "github.com/comdex-official/comdex/app"
	utils "github.com/comdex-official/comdex/types"
	assettypes "github.com/comdex-official/comdex/x/asset/types"
	auctionsV2types "github.com/comdex-official/comdex/x/auctionsV2/types"
	esmtypes "github.com/comdex-official/comdex/x/esm/types"
	lendtypes "github.com/comdex-official/comdex/x/lend/types"
	"github.com/comdex-official/comdex/x/liquidationsV2"
	liqv2types "github.com/comdex-official/comdex/x/liquidationsV2/types"
)

// ---------------------------------------------------------------------------------------------
// C09 borrow workload: drives the REAL liquidationsV2.BeginBlocker (vault sweep, BORROW sweep) and
// MsgLiquidateInternalKeeper (liq type 1) / MsgLiquidateExternalKeeper over populations of REAL lend
// positions and borrows created through the lend message server: same-pool borrows, cross-pool
// borrows bridged through the FIRST and through the SECOND transit asset of the collateral's pool,
// e-mode pairs, stable and variable rates; the pool's main / first-transit / second-transit assets
// carry DIFFERENT liquidation thresholds.  Price moves put the debt/collateral ratio of a chosen
// borrow exactly at, one unit in the last place below / above (and far from) each threshold the
// code could apply to it.
//
// Before every sweep / message it dumps, per borrow of lend.GetBorrows (in list order), the RAW
// decision inputs the code reads (amounts, interest as the visit computes it, prices, decimals,
// both thresholds of the collateral asset, e-mode flag, bridged coin, the pool's first transit
// denom, both transit thresholds, whitelisting, pool balances) and what the seizure would touch;
// after every step the projection: both sweep offsets, the borrow list, IsLiquidated flags, bank
// balances of the pools and of the auction module, cToken supplies, pool statistics, lend
// positions, new locked vaults and new auctions.  The case split (which threshold applies) is
// made by the extracted model, never here.
// ---------------------------------------------------------------------------------------------

type c09bPair struct {
	p      lendtypes.Extended_Pair
	inPool uint64
}

type c09bWorld struct {
	t        *testing.T
	a        *chain.App
	base     sdk.Context
	app      uint64
	assets   []uint64 // underlying A1..A4
	cassets  []uint64
	denomID  map[string]uint64
	idDenom  map[uint64]string
	dec      map[uint64]int64
	normal   map[uint64]uint64 // normal prices
	pools    []uint64
	poolMod  map[uint64]string
	pairs    []c09bPair
	whale    sdk.AccAddress
	allDenom []uint64 // asset ids of every tracked denom, in dump order
}

func c09bDec(s string) sdk.Dec { return sdk.MustNewDecFromStr(s) }

func c09bSetup(t *testing.T) *c09bWorld {
	a, ctx := newApp(t)
	w := &c09bWorld{t: t, a: a, base: ctx, denomID: map[string]uint64{}, idDenom: map[uint64]string{}, dec: map[uint64]int64{},
		normal: map[uint64]uint64{}, poolMod: map[uint64]string{}}
	if err := a.AssetKeeper.AddAppRecords(ctx, assettypes.AppData{Name: lendtypes.AppName, ShortName: "cmmdo", MinGovDeposit: sdk.NewInt(0), GovTimeInSeconds: 0,
		GenesisToken: []assettypes.MintGenesisToken{}}); err != nil {
		t.Fatal(err)
	}
	apps, _ := a.AssetKeeper.GetApps(ctx)
	for _, ap := range apps {
		if ap.Name == lendtypes.AppName {
			w.app = ap.Id
		}
	}
	decs := []int64{1000000, 1000000, 100000000, 1000000}
	prices := []uint64{2000000, 1000000, 4000000, 500000}
	for i := 0; i < 4; i++ {
		d := fmt.Sprintf("uasset%d", i+1)
		id := addAsset(t, a, ctx, fmt.Sprintf("ASSET%c", 'A'+i), d, decs[i], true, false)
		w.assets = append(w.assets, id)
		w.denomID[d], w.idDenom[id], w.dec[id], w.normal[id] = id, d, decs[i], prices[i]
	}
	for i := 0; i < 4; i++ {
		d := fmt.Sprintf("ucasset%d", i+1)
		id := addAsset(t, a, ctx, fmt.Sprintf("CASSET%c", 'A'+i), d, decs[i], false, false)
		w.cassets = append(w.cassets, id)
		w.denomID[d], w.idDenom[id], w.dec[id] = id, d, decs[i]
	}
	w.allDenom = append(append([]uint64{}, w.assets...), w.cassets...)
	A := w.assets
	k := a.LendKeeper
	pa := func(id, ty uint64) *lendtypes.AssetDataPoolMapping {
		return &lendtypes.AssetDataPoolMapping{AssetID: id, AssetTransitType: ty, SupplyCap: c09bDec("9000000000000000000000000000000000000")}
	}
	// pool 1 "cmdx": A2 main, A3 FIRST transit, A1 SECOND transit;  pool 2 "osmo": A4 main, A1 second, A3 first
	if err := k.AddPoolRecords(ctx, lendtypes.Pool{ModuleName: "cmdx", CPoolName: "CMDX-A-B",
		AssetData: []*lendtypes.AssetDataPoolMapping{pa(A[0], 3), pa(A[1], 1), pa(A[2], 2)}}); err != nil {
		t.Fatal(err)
	}
	if err := k.AddPoolRecords(ctx, lendtypes.Pool{ModuleName: "osmo", CPoolName: "OSMO-A-B",
		AssetData: []*lendtypes.AssetDataPoolMapping{pa(A[3], 1), pa(A[0], 3), pa(A[2], 2)}}); err != nil {
		t.Fatal(err)
	}
	for _, p := range k.GetPools(ctx) {
		w.pools = append(w.pools, p.PoolID)
		w.poolMod[p.PoolID] = p.ModuleName
	}
	rp := func(id uint64, uopt, base, s1, s2 string, stable bool, sb, ss1, ss2, ltv, lt, pen, bonus, rf string, c uint64, eltv, elt string) {
		k.SetAssetRatesParams(ctx, lendtypes.AssetRatesParams{AssetID: id, UOptimal: c09bDec(uopt), Base: c09bDec(base), Slope1: c09bDec(s1), Slope2: c09bDec(s2),
			EnableStableBorrow: stable, StableBase: c09bDec(sb), StableSlope1: c09bDec(ss1), StableSlope2: c09bDec(ss2), Ltv: c09bDec(ltv),
			LiquidationThreshold: c09bDec(lt), LiquidationPenalty: c09bDec(pen), LiquidationBonus: c09bDec(bonus), ReserveFactor: c09bDec(rf),
			CAssetID: c, IsIsolated: false, ELtv: c09bDec(eltv), ELiquidationThreshold: c09bDec(elt), ELiquidationPenalty: c09bDec("0.01")})
	}
	// every asset has its OWN liquidation threshold; the products with the transit thresholds are not
	// representable exactly (the rounding of Dec.Mul is visible)
	rp(A[0], "0.75", "0.002", "0.07", "1.25", false, "0.0", "0.0", "0.0", "0.7", "0.751234567890123456", "0.05", "0.05", "0.2", w.cassets[0], "0.9", "0.95")
	rp(A[1], "0.5", "0.002", "0.08", "2.0", true, "0.04", "0.04", "0.06", "0.5", "0.555555555555555555", "0.05", "0.05", "0.2", w.cassets[1], "0.88", "0.931313131313131313")
	rp(A[2], "0.8", "0.002", "0.06", "0.6", true, "0.04", "0.04", "0.06", "0.8", "0.851111111111111111", "0.025", "0.025", "0.1", w.cassets[2], "0.92", "0.96")
	rp(A[3], "0.65", "0.002", "0.08", "1.5", true, "0.03", "0.05", "0.5", "0.6", "0.65", "0.05", "0.05", "0.2", w.cassets[3], "0.85", "0.9")
	a2p := map[[2]uint64][]uint64{}
	addp := func(in, out uint64, inPool uint64, inter bool, outPool uint64, emode bool) {
		if err := k.AddLendPairsRecords(ctx, lendtypes.Extended_Pair{AssetIn: in, AssetOut: out, IsInterPool: inter, AssetOutPoolID: outPool, MinUsdValueLeft: 100000}); err != nil {
			t.Fatal(err)
		}
		id := k.GetLendPairID(ctx)
		p, _ := k.GetLendPair(ctx, id)
		if emode {
			p.IsEModeEnabled = true
			k.SetLendPair(ctx, p)
		}
		w.pairs = append(w.pairs, c09bPair{p, inPool})
		a2p[[2]uint64{in, inPool}] = append(a2p[[2]uint64{in, inPool}], id)
	}
	p1, p2 := w.pools[0], w.pools[1]
	// same pool
	addp(A[1], A[0], p1, false, p1, false)
	addp(A[1], A[2], p1, false, p1, false)
	addp(A[0], A[1], p1, false, p1, false)
	addp(A[2], A[1], p1, false, p1, false)
	addp(A[0], A[2], p1, false, p1, true) // e-mode
	addp(A[3], A[0], p2, false, p2, false)
	addp(A[3], A[2], p2, false, p2, true) // e-mode
	addp(A[0], A[3], p2, false, p2, false)
	// cross pool (bridged through a transit asset of the collateral's pool)
	addp(A[1], A[3], p1, true, p2, false)
	addp(A[0], A[3], p1, true, p2, false)
	addp(A[2], A[3], p1, true, p2, true) // e-mode cross pool
	addp(A[3], A[1], p2, true, p1, false)
	addp(A[0], A[1], p2, true, p1, false)
	for key, ids := range a2p {
		if err := k.AddAssetToPair(ctx, lendtypes.AssetToPairMapping{AssetID: key[0], PoolID: key[1], PairID: ids}); err != nil {
			t.Fatal(err)
		}
	}
	for j := 0; j < 4; j++ {
		setPrice(a, ctx, A[j], prices[j], true)
	}
	// liquidity: plenty of the main and second-transit assets, LITTLE of the first transit asset (so that
	// larger cross-pool borrows fall through to the second transit asset)
	w.whale = addrN(1999)
	var cs sdk.Coins
	for j := 0; j < 4; j++ {
		cs = cs.Add(sdk.NewCoin(w.idDenom[A[j]], sdk.NewInt(1000000000000000)))
	}
	fund(t, a, ctx, w.whale, cs)
	lendTo := func(asset, pool uint64, amt int64) {
		class, err, _ := execMsg(a, ctx, lendtypes.NewMsgLend(w.whale.String(), asset, sdk.NewCoin(w.idDenom[asset], sdk.NewInt(amt)), pool, w.app))
		if class != "ok" {
			t.Fatalf("whale lend: %v", err)
		}
	}
	lendTo(A[1], p1, 1000000000000)
	lendTo(A[0], p1, 1000000000000)
	lendTo(A[2], p1, 6000000000) // 60 A3
	lendTo(A[3], p2, 1000000000000)
	lendTo(A[0], p2, 1000000000000)
	lendTo(A[2], p2, 6000000000)
	dp := liqv2types.DutchAuctionParam{Premium: c09bDec("0.1"), Discount: c09bDec("0.1"), DecrementFactor: sdk.NewInt(1)}
	a.NewliqKeeper.SetLiquidationWhiteListing(ctx, liqv2types.LiquidationWhiteListing{AppId: w.app, Initiator: true, IsDutchActivated: true,
		DutchAuctionParam: &dp, IsEnglishActivated: false, KeeeperIncentive: c09bDec("0.1")})
	a.NewaucKeeper.SetAuctionParams(ctx, auctionsV2types.AuctionParams{AuctionDurationSeconds: 3600, Step: c09bDec("0.1"),
		WithdrawalFee: sdk.ZeroDec(), ClosingFee: sdk.ZeroDec(), MinUsdValueLeft: 100000, BidFactor: c09bDec("0.1"),
		LiquidationPenalty: c09bDec("0.1"), AuctionBonus: sdk.ZeroDec()})
	return w
}

type c09bCase struct {
	w         *c09bWorld
	ctx       sdk.Context
	tr        *tracer
	batch     uint64
	height    int64
	now       time.Time
	nextUser  int
	owner     map[uint64]sdk.AccAddress // borrow id -> owner
	lockedCtr uint64
	aucCtr    uint64
}

func (c *c09bCase) acct(mod string) int {
	for _, p := range c.w.pools {
		if c.w.poolMod[p] == mod {
			return 100 + int(p)
		}
	}
	return -1
}

func (c *c09bCase) twa(ctx sdk.Context, asset uint64) string {
	tw, found := c.w.a.MarketKeeper.GetTwa(ctx, asset)
	if !found || !tw.IsPriceActive {
		return "-1"
	}
	return fmt.Sprint(tw.Twa)
}

// the raw inputs LiquidateIndividualBorrow / UpdateLockedBorrows read for borrow id on ctx (reads only;
// the interest update is computed on a throw-away branch), plus what the seizure would touch
func (c *c09bCase) inputLine(ctx sdk.Context, id uint64) string {
	a, w := c.w.a, c.w
	k := a.LendKeeper
	bp, found := k.GetBorrow(ctx, id)
	if !found {
		return fmt.Sprintf("b %d 0 0 0 0 0 0 0 0 -1 1 -1 1 0 0 0 0 0 0 0 0 0 0 0 0 0 0 0 0 0 0 0 0 0 0 0", id)
	}
	pair, _ := k.GetLendPair(ctx, bp.PairID)
	lp, lfound := k.GetLend(ctx, bp.LendingID)
	pool, _ := k.GetPool(ctx, lp.PoolID)
	ain, _ := a.AssetKeeper.GetAsset(ctx, pair.AssetIn)
	aout, _ := a.AssetKeeper.GetAsset(ctx, pair.AssetOut)
	rates, _ := k.GetAssetRatesParams(ctx, pair.AssetIn)
	kill, _ := a.EsmKeeper.GetKillSwitchData(ctx, lp.AppID)
	// interest as this visit computes it
	intOK, intPanic := true, false
	interest := bp.InterestAccumulated
	if !bp.IsLiquidated && lfound {
		cc, _ := ctx.CacheContext()
		p, pm := safely(func() {
			nb, err := k.CalculateBorrowInterestForLiquidation(cc, id)
			if err != nil {
				intOK = false
				return
			}
			if !nb.StableBorrowRate.Equal(sdk.ZeroDec()) {
				nb, err = k.ReBalanceStableRates(cc, nb)
				if err != nil {
					intOK = false
					return
				}
			}
			interest = nb.InterestAccumulated
		})
		if p {
			intOK = false
			intPanic = true
			if envInt("VERIF_DEBUG", 0) == 1 {
				fmt.Printf("interest panic borrow %d: %s (globalIndex %s reserveIndex %s last %s now %s)\n", id, pm, bp.GlobalIndex, bp.ReserveGlobalIndex, bp.LastInteractionTime, ctx.BlockTime())
			}
		}
	}
	var first, second uint64
	for _, d := range pool.AssetData {
		if d.AssetTransitType == 2 {
			first = d.AssetID
		}
		if d.AssetTransitType == 3 {
			second = d.AssetID
		}
	}
	r1, _ := k.GetAssetRatesParams(ctx, first)
	r2, _ := k.GetAssetRatesParams(ctx, second)
	decOr := func(d sdk.Dec) string {
		if d.IsNil() {
			return "0"
		}
		return d.BigInt().String()
	}
	intOr := func(i sdk.Int) string {
		if i.IsNil() {
			return "0"
		}
		return i.String()
	}
	wl, wfound := a.NewliqKeeper.GetLiquidationWhiteListing(ctx, lp.AppID)
	cden := w.idDenom[rates.CAssetID]
	poolBal, cpoolBal := sdk.ZeroInt(), sdk.ZeroInt()
	if pool.ModuleName != "" {
		poolBal = bal(a, ctx, modAddr(pool.ModuleName), ain.Denom)
		if cden != "" {
			cpoolBal = bal(a, ctx, modAddr(pool.ModuleName), cden)
		}
	}
	decimals := func(x assettypes.Asset) string {
		if x.Decimals.IsNil() {
			return "1"
		}
		return x.Decimals.String()
	}
	var sb strings.Builder
	intTok := b2s(intOK) // 1 ok, 0 error, 2 panic
	if intPanic {
		intTok = "2"
	}
	fmt.Fprintf(&sb, "b %d 1 %s %s %s %s", id, b2s(bp.IsLiquidated), b2s(lfound), b2s(kill.BreakerEnable), intTok)
	fmt.Fprintf(&sb, " %s %s %s", intOr(bp.AmountIn.Amount), intOr(bp.AmountOut.Amount), decOr(interest))
	fmt.Fprintf(&sb, " %s %s %s %s", c.twa(ctx, pair.AssetIn), decimals(ain), c.twa(ctx, pair.AssetOut), decimals(aout))
	fmt.Fprintf(&sb, " %s %s %s", decOr(rates.LiquidationThreshold), decOr(rates.ELiquidationThreshold), b2s(pair.IsEModeEnabled))
	fmt.Fprintf(&sb, " %s %d %d", intOr(bp.BridgedAssetAmount.Amount), w.denomID[bp.BridgedAssetAmount.Denom], first)
	fmt.Fprintf(&sb, " %s %s", decOr(r1.LiquidationThreshold), decOr(r2.LiquidationThreshold))
	fmt.Fprintf(&sb, " %s %s %s %s %s", b2s(wfound), b2s(wfound && wl.IsDutchActivated), b2s(wfound && wl.IsEnglishActivated), poolBal, cpoolBal)
	// what the seizure touches (records before the step)
	fmt.Fprintf(&sb, " %s %d %d %d %d %d %d %d %d", b2s(bp.IsStableBorrow), c.acct(pool.ModuleName), pair.AssetIn, rates.CAssetID,
		lp.PoolID, lp.AssetID, pair.AssetOutPoolID, pair.AssetOut, bp.LendingID)
	return sb.String()
}

func (c *c09bCase) borrowIDs(ctx sdk.Context) []uint64 {
	ids, _ := c.w.a.LendKeeper.GetBorrows(ctx)
	return ids
}

func (c *c09bCase) proj() {
	a, ctx, w := c.w.a, c.ctx, c.w
	k := a.LendKeeper
	var sb strings.Builder
	h0, _ := a.NewliqKeeper.GetLiquidationOffsetHolder(ctx, liqv2types.VaultLiquidationsOffsetPrefix, 0)
	h1, _ := a.NewliqKeeper.GetLiquidationOffsetHolder(ctx, liqv2types.VaultLiquidationsOffsetPrefix, 1)
	ids := c.borrowIDs(ctx)
	fmt.Fprintf(&sb, "s %d %d %d", h0.CurrentOffset, h1.CurrentOffset, len(ids))
	var liq []uint64
	for _, id := range ids {
		fmt.Fprintf(&sb, " %d", id)
		if b, found := k.GetBorrow(ctx, id); found && b.IsLiquidated {
			liq = append(liq, id)
		}
	}
	fmt.Fprintf(&sb, " %d", len(liq))
	for _, id := range liq {
		fmt.Fprintf(&sb, " %d", id)
	}
	c.tr.p("%s", sb.String())
	// bank: auction module (account 0) and the pool module accounts, every tracked denom
	sb.Reset()
	type acc struct {
		no   int
		addr sdk.AccAddress
	}
	accts := []acc{{0, modAddr(auctionsV2types.ModuleName)}}
	for _, p := range w.pools {
		accts = append(accts, acc{100 + int(p), modAddr(w.poolMod[p])})
	}
	fmt.Fprintf(&sb, "wb %d", len(accts)*len(w.allDenom))
	for _, ac := range accts {
		for _, d := range w.allDenom {
			fmt.Fprintf(&sb, " %d %d %s", ac.no, d, bal(a, ctx, ac.addr, w.idDenom[d]))
		}
	}
	c.tr.p("%s", sb.String())
	sb.Reset()
	fmt.Fprintf(&sb, "wu %d", len(w.cassets))
	for _, d := range w.cassets {
		fmt.Fprintf(&sb, " %d %s", d, supply(a, ctx, w.idDenom[d]))
	}
	c.tr.p("%s", sb.String())
	sb.Reset()
	n := 0
	var body strings.Builder
	for _, p := range k.GetPools(ctx) {
		for _, v := range p.AssetData {
			s, found := k.GetAssetStatsByPoolIDAndAssetID(ctx, p.PoolID, v.AssetID)
			if !found {
				continue
			}
			n++
			fmt.Fprintf(&body, " %d %d %s %s %s", p.PoolID, v.AssetID, s.TotalLend, s.TotalBorrowed, s.TotalStableBorrowed)
		}
	}
	c.tr.p("wl %d%s", n, body.String())
	sb.Reset()
	lends := k.GetAllLend(ctx)
	fmt.Fprintf(&sb, "wp %d", len(lends))
	for _, l := range lends {
		fmt.Fprintf(&sb, " %d %s", l.ID, l.AmountIn.Amount)
	}
	c.tr.p("%s", sb.String())
	// new locked vaults / auctions since the last projection
	lockedCtr := a.NewliqKeeper.GetLockedVaultID(ctx)
	aucCtr := a.NewaucKeeper.GetAuctionID(ctx)
	orig := map[uint64]uint64{}
	n = 0
	body.Reset()
	for _, lv := range a.NewliqKeeper.GetLockedVaults(ctx) {
		orig[lv.LockedVaultId] = lv.OriginalVaultId
		if lv.LockedVaultId <= c.lockedCtr {
			continue
		}
		n++
		fmt.Fprintf(&body, " %d %s %s %d", lv.OriginalVaultId, lv.CollateralToken.Amount, lv.InitiatorType, w.denomID[lv.CollateralToken.Denom])
	}
	c.tr.p("wk %d%s", n, body.String())
	n = 0
	body.Reset()
	for _, au := range a.NewaucKeeper.GetAuctions(ctx) {
		if au.AuctionId <= c.aucCtr {
			continue
		}
		n++
		fmt.Fprintf(&body, " %d %s", orig[au.LockedVaultId], au.CollateralToken.Amount)
	}
	c.tr.p("wa %d%s", n, body.String())
	c.lockedCtr, c.aucCtr = lockedCtr, aucCtr
}

func (c *c09bCase) setPrice(asset uint64, price uint64, active bool) {
	setPrice(c.w.a, c.ctx, asset, price, active)
	c.tr.p("op price %d %d %s", asset, price, b2s(active))
	c.proj()
}

func (c *c09bCase) setKill(on bool) {
	_ = c.w.a.EsmKeeper.SetKillSwitchData(c.ctx, esmtypes.KillSwitchParams{AppId: c.w.app, BreakerEnable: on})
	c.tr.p("op kill %s", b2s(on))
	c.proj()
}

func (c *c09bCase) setWhite(dutch, english bool) {
	// (what a governance whitelisting proposal for the app writes)
	dp := liqv2types.DutchAuctionParam{Premium: c09bDec("0.1"), Discount: c09bDec("0.1"), DecrementFactor: sdk.NewInt(1)}
	ep := liqv2types.EnglishAuctionParam{DecrementFactor: sdk.NewInt(1)}
	c.w.a.NewliqKeeper.SetLiquidationWhiteListing(c.ctx, liqv2types.LiquidationWhiteListing{AppId: c.w.app, Initiator: true, IsDutchActivated: dutch,
		DutchAuctionParam: &dp, IsEnglishActivated: english, EnglishAuctionParam: &ep, KeeeperIncentive: c09bDec("0.1")})
	c.tr.p("op white %s %s", b2s(dutch), b2s(english))
	c.proj()
}

// a fresh user lends [amtIn] of the pair's collateral asset and borrows permille/1000 of the largest
// loan the LTV admits at the current prices
func (c *c09bCase) newBorrow(pi int, amtIn int64, permille int64, stable bool) uint64 {
	a, w := c.w.a, c.w
	k := a.LendKeeper
	pr := w.pairs[pi%len(w.pairs)]
	// borrows are opened at the normal prices of the pair's two assets
	for _, as := range []uint64{pr.p.AssetIn, pr.p.AssetOut} {
		if c.twa(c.ctx, as) != fmt.Sprint(w.normal[as]) {
			c.setPrice(as, w.normal[as], true)
		}
	}
	user := addrN(2000 + c.nextUser)
	c.nextUser++
	var cs sdk.Coins
	for j := 0; j < 4; j++ {
		cs = cs.Add(sdk.NewCoin(w.idDenom[w.assets[j]], sdk.NewInt(100000000000000)))
	}
	fund(w.t, a, c.ctx, user, cs)
	class, lerr, _ := execMsg(a, c.ctx, lendtypes.NewMsgLend(user.String(), pr.p.AssetIn, sdk.NewCoin(w.idDenom[pr.p.AssetIn], sdk.NewInt(amtIn)), pr.inPool, w.app))
	if lerr != nil && envInt("VERIF_DEBUG", 0) == 1 {
		fmt.Printf("lend pair %d amt %d: %v\n", pr.p.Id, amtIn, lerr)
	}
	id := uint64(0)
	if class == "ok" {
		lendID := k.GetUserLendIDCounter(c.ctx)
		rates, _ := k.GetAssetRatesParams(c.ctx, pr.p.AssetIn)
		ltv := rates.Ltv
		if pr.p.IsEModeEnabled {
			ltv = rates.ELtv
		}
		loan := c09bMaxLoan(w, c.ctx, sdk.NewInt(amtIn), pr.p.AssetIn, pr.p.AssetOut, ltv)
		loan.Mul(loan, big.NewInt(permille)).Quo(loan, big.NewInt(1000))
		if pr.p.IsInterPool { // the bridged quantity must also respect the transit asset's own LTV (0.8 / 0.7)
			loan.Mul(loan, big.NewInt(69)).Quo(loan, big.NewInt(100))
		}
		if stable && !rates.EnableStableBorrow {
			stable = false
		}
		if loan.Sign() <= 0 {
			loan = big.NewInt(1)
		}
		before := k.GetUserBorrowIDCounter(c.ctx)
		var berr error
		class, berr, _ = execMsg(a, c.ctx, lendtypes.NewMsgBorrow(user.String(), lendID, pr.p.Id, stable,
			sdk.NewCoin(w.idDenom[rates.CAssetID], sdk.NewInt(amtIn)), sdk.NewCoin(w.idDenom[pr.p.AssetOut], sdk.NewIntFromBigInt(loan))))
		if berr != nil && envInt("VERIF_DEBUG", 0) == 1 {
			fmt.Printf("borrow pair %d amt %d loan %s: %v\n", pr.p.Id, amtIn, loan, berr)
		}
		if class == "ok" {
			id = k.GetUserBorrowIDCounter(c.ctx)
			if id != before+1 {
				panic("borrow id not incremented")
			}
			c.owner[id] = user
		}
	}
	c.tr.p("op borrow %d %d %d %s %s %d", pr.p.Id, amtIn, permille, b2s(stable), class, id)
	c.proj()
	return id
}

func c09bMaxLoan(w *c09bWorld, ctx sdk.Context, amtIn sdk.Int, assetIn, assetOut uint64, ltv sdk.Dec) *big.Int {
	tin, ok1 := w.a.MarketKeeper.GetTwa(ctx, assetIn)
	tout, ok2 := w.a.MarketKeeper.GetTwa(ctx, assetOut)
	if !ok1 || !ok2 || tout.Twa == 0 {
		return big.NewInt(1000000)
	}
	n := new(big.Int).Mul(amtIn.BigInt(), new(big.Int).SetUint64(tin.Twa))
	n.Mul(n, big.NewInt(w.dec[assetOut]))
	n.Mul(n, ltv.BigInt())
	d := new(big.Int).Mul(new(big.Int).SetUint64(tout.Twa), big.NewInt(w.dec[assetIn]))
	d.Mul(d, new(big.Int).Exp(big.NewInt(10), big.NewInt(18), nil))
	return n.Quo(n, d)
}

// the owner repays and closes the borrow: it leaves the swept list
func (c *c09bCase) closeBorrow(id uint64) {
	owner, ok := c.owner[id]
	if !ok {
		return
	}
	class, _, _ := execMsg(c.w.a, c.ctx, lendtypes.NewMsgCloseBorrow(owner.String(), id))
	c.tr.p("op close %d %s", id, class)
	c.proj()
}

// the owner draws more debt (ratio up) or repays a part (ratio down)
func (c *c09bCase) drawOrRepay(id uint64, draw bool, permille int64) {
	owner, ok := c.owner[id]
	if !ok {
		return
	}
	b, found := c.w.a.LendKeeper.GetBorrow(c.ctx, id)
	if !found {
		return
	}
	amt := b.AmountOut.Amount.MulRaw(permille).QuoRaw(1000)
	if !amt.IsPositive() {
		amt = sdk.OneInt()
	}
	var class string
	if draw {
		class, _, _ = execMsg(c.w.a, c.ctx, lendtypes.NewMsgDraw(owner.String(), id, sdk.NewCoin(b.AmountOut.Denom, amt)))
		c.tr.p("op draw %d %s %s", id, amt, class)
	} else {
		class, _, _ = execMsg(c.w.a, c.ctx, lendtypes.NewMsgRepay(owner.String(), id, sdk.NewCoin(b.AmountOut.Denom, amt)))
		c.tr.p("op repay %d %s %s", id, amt, class)
	}
	c.proj()
}

// the whale withdraws what it can of one asset from one pool: the pool may then hold less of a
// collateral denom than a borrow recorded (the rest is lent out)
func (c *c09bCase) drain(asset, pool uint64) {
	a, k := c.w.a, c.w.a.LendKeeper
	id, found := k.GetLendIDForAssetIDPoolID(c.ctx, c.w.whale.String(), asset, pool)
	class := "err"
	if found {
		l, _ := k.GetLend(c.ctx, id)
		avail := bal(a, c.ctx, modAddr(c.w.poolMod[pool]), c.w.idDenom[asset])
		amt := l.AvailableToBorrow
		if avail.LT(amt) {
			amt = avail
		}
		if amt.IsPositive() {
			class, _, _ = execMsg(a, c.ctx, lendtypes.NewMsgWithdraw(c.w.whale.String(), id, sdk.NewCoin(c.w.idDenom[asset], amt)))
		}
	}
	c.tr.p("op drain %d %d %s", asset, pool, class)
	c.proj()
}

// the whale lends again: liquidity returns to a pool
func (c *c09bCase) refill(asset, pool uint64, amt int64) {
	class, _, _ := execMsg(c.w.a, c.ctx, lendtypes.NewMsgLend(c.w.whale.String(), asset, sdk.NewCoin(c.w.idDenom[asset], sdk.NewInt(amt)), pool, c.w.app))
	c.tr.p("op refill %d %d %d %s", asset, pool, amt, class)
	c.proj()
}

func (c *c09bCase) skip(seconds int64) {
	c.now = c.now.Add(time.Duration(seconds) * time.Second)
	c.height++
	c.ctx = c.ctx.WithBlockHeight(c.height).WithBlockTime(c.now)
	c.tr.p("op skip %d", seconds)
	c.proj()
}

func (c *c09bCase) dumpInputs(ctx sdk.Context) {
	for _, id := range c.borrowIDs(ctx) {
		c.tr.p("%s", c.inputLine(ctx, id))
	}
}

func (c *c09bCase) liqMsg(liqType, id uint64) {
	c.dumpInputs(c.ctx)
	class, _, _ := execMsg(c.w.a, c.ctx, liqv2types.NewMsgLiquidateInternalKeeperRequest(addrN(7), liqType, id))
	c.tr.p("op liq %d %d %s", liqType, id, class)
	c.proj()
}

// anyone hands collateral of its own to the auction module against app reserve funds
func (c *c09bCase) external(collAsset, debtAsset uint64, collAmt, debtAmt int64, reserve bool) {
	a, w := c.w.a, c.w
	from := addrN(1900)
	fund(w.t, a, c.ctx, from, sdk.NewCoins(sdk.NewCoin(w.idDenom[collAsset], sdk.NewInt(collAmt))).Add(sdk.NewCoin(w.idDenom[debtAsset], sdk.NewInt(1000))))
	if reserve {
		_, _, _ = execMsg(a, c.ctx, liqv2types.NewMsgAppReserveFundsRequest(from.String(), w.app, debtAsset, sdk.NewCoin(w.idDenom[debtAsset], sdk.NewInt(1000))))
	}
	rf, rfound := a.NewliqKeeper.GetAppReserveFunds(c.ctx, w.app, debtAsset)
	hasReserve := rfound && rf.TokenQuantity.Amount.IsPositive()
	_, pfound := a.NewaucKeeper.GetAuctionParams(c.ctx)
	wl, wfound := a.NewliqKeeper.GetLiquidationWhiteListing(c.ctx, w.app)
	class, _, _ := execMsg(a, c.ctx, liqv2types.NewMsgLiquidateExternalKeeperRequest(from, w.app, from.String(),
		sdk.NewCoin(w.idDenom[collAsset], sdk.NewInt(collAmt)), sdk.NewCoin(w.idDenom[debtAsset], sdk.NewInt(debtAmt)), collAsset, debtAsset, false))
	c.tr.p("op ext %d %d %s %s %s %s %s %s", collAsset, collAmt, b2s(hasReserve), b2s(pfound), b2s(wfound && wl.IsDutchActivated),
		c.twa(c.ctx, collAsset), c.twa(c.ctx, debtAsset), class)
	c.proj()
}

// the batch size through the handler a passed governance parameter-change proposal executes
func (c *c09bCase) govBatch(b uint64) {
	err := params.NewParamChangeProposalHandler(c.w.a.ParamsKeeper)(c.ctx, &paramproposal.ParameterChangeProposal{Title: "batch", Description: "batch",
		Changes: []paramproposal.ParamChange{{Subspace: liqv2types.ModuleName, Key: "LiquidationBatchSize", Value: fmt.Sprintf("\"%d\"", b)}}})
	class := "ok"
	if err != nil {
		class = "err"
	} else {
		c.batch = b
	}
	c.tr.p("op govbatch %d %s", b, class)
	c.proj()
}

// one block: liquidationsV2.BeginBlocker on a branch of the case context, kept unless it panics.  The
// inputs of every borrow are measured on a SHADOW branch of the pre-block state that is advanced
// borrow by borrow in list order exactly as the real run advanced (the borrows the real run seized are
// seized there too, each inside ApplyFuncIfNoError), so every line holds what the code read at ITS
// visit (interest depends on the utilisation, pool balances on the seizures in front of it).
func (c *c09bCase) block() bool {
	a := c.w.a
	c.height++
	c.now = c.now.Add(6 * time.Second)
	bctx := c.ctx.WithBlockHeight(c.height).WithBlockTime(c.now)
	cctx, write := bctx.CacheContext()
	sctx, _ := bctx.CacheContext()
	ids := c.borrowIDs(bctx)
	was := map[uint64]bool{}
	for _, id := range ids {
		b, _ := a.LendKeeper.GetBorrow(bctx, id)
		was[id] = b.IsLiquidated
	}
	panicked, _ := safely(func() {
		liquidationsV2.BeginBlocker(cctx, abci.RequestBeginBlock{}, a.NewliqKeeper)
	})
	for _, id := range ids {
		c.tr.p("%s", c.inputLine(sctx, id))
		if !panicked {
			b, _ := a.LendKeeper.GetBorrow(cctx, id)
			if b.IsLiquidated && !was[id] {
				_ = utils.ApplyFuncIfNoError(sctx, func(x sdk.Context) error {
					return a.NewliqKeeper.LiquidateIndividualBorrow(x, id, "", false)
				})
			}
		}
	}
	res := "ok"
	if panicked {
		res = "panic"
	} else {
		write()
		c.ctx = c.ctx.WithBlockHeight(c.height).WithBlockTime(c.now)
	}
	c.tr.p("op block %d %s", a.NewliqKeeper.GetParams(c.ctx).LiquidationBatchSize, res)
	c.proj()
	return !panicked
}

func c09bNewCase(w *c09bWorld, tr *tracer, ci int, kind string, batch uint64) *c09bCase {
	ctx, _ := w.base.CacheContext()
	c := &c09bCase{w: w, ctx: ctx, tr: tr, batch: batch, height: 1, now: baseTime, owner: map[uint64]sdk.AccAddress{}}
	w.a.NewliqKeeper.SetParams(ctx, liqv2types.NewParams(batch))
	c.lockedCtr = w.a.NewliqKeeper.GetLockedVaultID(ctx)
	c.aucCtr = w.a.NewaucKeeper.GetAuctionID(ctx)
	tr.p("case %d %s %d", ci, kind, batch)
	c.proj()
	return c
}

// ---- boundary prices ----
var c09bP18 = new(big.Int).Exp(big.NewInt(10), big.NewInt(18), nil)

// debt/collateral in sdk.Dec exactly as lend.CalculateCollateralizationRatio composes it
func c09bRatio(amtIn, debt sdk.Int, pin, pout uint64, decIn, decOut int64) (r sdk.Dec, ok bool) {
	p, _ := safely(func() {
		tin := sdk.NewDecFromInt(amtIn).Mul(sdk.NewDecFromInt(sdk.NewIntFromUint64(pin))).Quo(sdk.NewDecFromInt(sdk.NewInt(decIn)))
		tout := sdk.NewDecFromInt(debt).Mul(sdk.NewDecFromInt(sdk.NewIntFromUint64(pout))).Quo(sdk.NewDecFromInt(sdk.NewInt(decOut)))
		r = tout.Quo(tin)
	})
	return r, !p
}

// prices (pin, pout), both about 10^18, at which the ratio of the borrow is EXACTLY target (a Dec
// as its 10^18-scaled integer); the price unit is fine enough that every value of the ratio near the
// target is reachable.  ok=false when no such pair is found in range.
func c09bPricesFor(amtIn, debt sdk.Int, decIn, decOut int64, target *big.Int, seedP uint64) (uint64, uint64, bool) {
	if target.Sign() <= 0 || !amtIn.IsPositive() || !debt.IsPositive() {
		return 0, 0, false
	}
	// ratio = (debt*pout/decOut) / (amtIn*pin/decIn)  =>  pin/pout = debt*decIn / (amtIn*decOut*target)
	num := new(big.Int).Mul(debt.BigInt(), big.NewInt(decIn))
	num.Mul(num, c09bP18)
	den := new(big.Int).Mul(amtIn.BigInt(), big.NewInt(decOut))
	den.Mul(den, target)
	hi := new(big.Int).SetUint64(2000000000000000000 + seedP%2000000000000000000)
	var pin, pout *big.Int
	searchIn := num.Cmp(den) >= 0 // pin >= pout: search on pin (the larger price gives the finer step)
	if searchIn {
		pin = hi
		pout = new(big.Int).Mul(hi, den)
		pout.Quo(pout, num)
	} else {
		pout = hi
		pin = new(big.Int).Mul(hi, num)
		pin.Quo(pin, den)
	}
	lim := new(big.Int).SetUint64(1 << 62)
	if pin.Sign() <= 0 || pout.Sign() <= 0 || pin.Cmp(lim) >= 0 || pout.Cmp(lim) >= 0 {
		return 0, 0, false
	}
	tgt := sdk.NewDecFromBigIntWithPrec(target, 18)
	eval := func(pi, po uint64) (sdk.Dec, bool) { return c09bRatio(amtIn, debt, pi, po, decIn, decOut) }
	pi, po := pin.Uint64(), pout.Uint64()
	// monotone search around the estimate: ratio falls with pin, rises with pout
	lo, up := uint64(0), uint64(0)
	if searchIn {
		lo, up = pi-pi/1000, pi+pi/1000
	} else {
		lo, up = po-po/1000, po+po/1000
	}
	for it := 0; it < 80 && lo < up; it++ {
		mid := lo + (up-lo)/2
		var r sdk.Dec
		var ok bool
		if searchIn {
			r, ok = eval(mid, po)
		} else {
			r, ok = eval(pi, mid)
		}
		if !ok {
			return 0, 0, false
		}
		if r.Equal(tgt) {
			if searchIn {
				return mid, po, true
			}
			return pi, mid, true
		}
		above := r.GT(tgt)
		if searchIn == above { // ratio too high & searching pin -> raise pin; ratio too low & searching pout -> raise pout
			lo = mid + 1
		} else {
			up = mid
		}
	}
	var r sdk.Dec
	var ok bool
	if searchIn {
		r, ok = eval(lo, po)
		pi = lo
	} else {
		r, ok = eval(pi, lo)
		po = lo
	}
	if ok && r.Equal(tgt) {
		return pi, po, true
	}
	return 0, 0, false
}

// move the two prices of borrow id so that, at the NEXT block's time, its ratio is exactly
// (candidate threshold number [which]) + delta units in the last place.  Candidates: every threshold
// the code COULD apply (plain / e-mode base, alone or times the first / second transit threshold).
func (c *c09bCase) target(id uint64, which int, delta int64, seedP uint64) {
	c.targetX(id, which, delta, seedP, false)
}

func (c *c09bCase) targetX(id uint64, which int, delta int64, seedP uint64, exact bool) {
	a, k := c.w.a, c.w.a.LendKeeper
	bp, found := k.GetBorrow(c.ctx, id)
	if !found || bp.IsLiquidated {
		return
	}
	pair, _ := k.GetLendPair(c.ctx, bp.PairID)
	lp, _ := k.GetLend(c.ctx, bp.LendingID)
	pool, _ := k.GetPool(c.ctx, lp.PoolID)
	rates, _ := k.GetAssetRatesParams(c.ctx, pair.AssetIn)
	var first, second uint64
	for _, d := range pool.AssetData {
		if d.AssetTransitType == 2 {
			first = d.AssetID
		}
		if d.AssetTransitType == 3 {
			second = d.AssetID
		}
	}
	r1, _ := k.GetAssetRatesParams(c.ctx, first)
	r2, _ := k.GetAssetRatesParams(c.ctx, second)
	lt, elt := rates.LiquidationThreshold, rates.ELiquidationThreshold
	cands := []sdk.Dec{lt, elt, lt.Mul(r1.LiquidationThreshold), lt.Mul(r2.LiquidationThreshold),
		elt.Mul(r1.LiquidationThreshold), elt.Mul(r2.LiquidationThreshold), lt.MulTruncate(r1.LiquidationThreshold), lt.MulTruncate(r2.LiquidationThreshold)}
	// 3 of 5 draws aim at the threshold the property's text makes applicable to THIS borrow (only to choose
	// test inputs: the decision itself is re-made by the extracted model from the raw fields), the others
	// at any of the eight candidates (decoys: another case's threshold)
	if exact {
		which = which % len(cands)
	} else if which%5 < 3 {
		firstDenom := c.w.idDenom[first]
		switch {
		case bp.BridgedAssetAmount.Amount.IsZero():
			which = 0
		case bp.BridgedAssetAmount.Denom == firstDenom:
			which = 2
		default:
			which = 3
		}
		if pair.IsEModeEnabled {
			which = []int{1, 1, 4, 5}[which]
		}
	} else {
		which = (which / 5) % len(cands)
	}
	th := cands[which%len(cands)]
	tgt := new(big.Int).Add(th.BigInt(), big.NewInt(delta))
	// the debt at the next block's visit
	nctx, _ := c.ctx.WithBlockHeight(c.height + 1).WithBlockTime(c.now.Add(6 * time.Second)).CacheContext()
	interest := bp.InterestAccumulated
	safely(func() {
		nb, err := k.CalculateBorrowInterestForLiquidation(nctx, id)
		if err == nil {
			interest = nb.InterestAccumulated
		}
	})
	debt := bp.AmountOut.Amount.Add(interest.TruncateInt())
	ain, _ := a.AssetKeeper.GetAsset(c.ctx, pair.AssetIn)
	aout, _ := a.AssetKeeper.GetAsset(c.ctx, pair.AssetOut)
	pin, pout, ok := c09bPricesFor(bp.AmountIn.Amount, debt, ain.Decimals.Int64(), aout.Decimals.Int64(), tgt, seedP)
	c.tr.p("op target %d %d %d %s", id, which%len(cands), delta, b2s(ok))
	c.proj()
	if !ok {
		return
	}
	c.setPrice(pair.AssetIn, pin, true)
	c.setPrice(pair.AssetOut, pout, true)
}

func (c *c09bCase) openBorrows() []uint64 {
	var out []uint64
	for _, id := range c.borrowIDs(c.ctx) {
		if b, found := c.w.a.LendKeeper.GetBorrow(c.ctx, id); found && !b.IsLiquidated {
			out = append(out, id)
		}
	}
	return out
}

// TestC09Borrow : random populations of real borrows, price paths (incl. exact threshold boundaries),
// sweeps with small batches, liquidate messages, interleaved new borrows / repayments; directed cases last.
func TestC09Borrow(t *testing.T) {
	w := c09bSetup(t)
	tr := newTracer(t, "c09b.trace")
	defer tr.close()
	r := newRng(seed() + 77)
	ncases := envInt("VERIF_CASES", 30)
	only := envInt("VERIF_CASE", -1)
	factors := []uint64{500, 700, 800, 900, 950, 1000, 1050, 1100, 1250, 1500, 2000}
	deltas := []int64{0, 1, -1, 0, 1, -1, 2, -2, 1000, -1000, 100000000000000, -100000000000000}
	ci := 0
	for ; ci < ncases; ci++ {
		// ---- every parameter of the case is drawn even when the case is skipped ----
		batch := uint64(1 + r.intn(4))
		nb := 2 + r.intn(7)
		nsteps := 8 + r.intn(14)
		kind := "random"
		if ci%3 == 2 {
			// exact-threshold price moves, each followed by a block that visits EVERY borrow (the debt the
			// move was computed for includes the interest of exactly that block)
			kind = "boundary"
			batch = uint64(nb) + batch - 1
		}
		type bspec struct {
			pair     int
			amt      int64
			permille int64
			stable   bool
		}
		specs := make([]bspec, nb)
		for i := range specs {
			pi := r.intn(len(w.pairs))
			if r.chance(45) { // favour the cross-pool pairs
				pi = 8 + r.intn(5)
			}
			amt := []int64{20000000, 50000000, 100000000, 400000000, 1500000000, 3000000000}[r.intn(6)]
			if w.dec[w.pairs[pi].p.AssetIn] == 100000000 {
				amt *= 25 // A3 has 8 decimals and price 4: keep the dollar value comparable
			}
			specs[i] = bspec{pi, amt, []int64{1000, 999, 950, 900, 800, 600, 300}[r.intn(7)], r.chance(30)}
		}
		type step struct {
			kind       int
			a, b, c, d int
		}
		steps := make([]step, nsteps*3)
		for i := range steps {
			steps[i] = step{r.intn(100), r.intn(1 << 20), r.intn(1 << 20), r.intn(1 << 20), r.intn(1 << 30)}
		}
		if only >= 0 && only != ci {
			continue
		}
		c := c09bNewCase(w, tr, ci, kind, batch)
		for _, s := range specs {
			c.newBorrow(s.pair, s.amt, s.permille, s.stable)
		}
		alive := true
		for si := 0; si < nsteps && alive; si++ {
			for k := 0; k < 2; k++ {
				if kind == "boundary" && k == 1 {
					break // one exact-threshold move, then a full pass of the window over it
				}
				s := steps[si*3+k]
				open := c.openBorrows()
				all := c.borrowIDs(c.ctx)
				kk := s.kind
				if kind == "boundary" && kk >= 40 {
					kk = kk % 40
				}
				switch {
				case kk < 40:
					if len(open) > 0 {
						c.target(open[s.a%len(open)], s.b, deltas[s.c%len(deltas)], uint64(s.d)*1000003)
					}
				case kk < 54:
					as := w.assets[s.a%4]
					c.setPrice(as, w.normal[as]*factors[s.b%len(factors)]/1000, s.c%15 != 0)
				case kk < 64:
					if len(all) > 0 && s.b%5 != 0 {
						c.liqMsg(1, all[s.a%len(all)])
					} else {
						c.liqMsg(uint64(1+s.b%2), uint64(1+s.a%30))
					}
				case kk < 72:
					amt := []int64{20000000, 100000000, 400000000, 3000000000}[s.b%4]
					pi := s.a % len(w.pairs)
					if w.dec[w.pairs[pi].p.AssetIn] == 100000000 {
						amt *= 25
					}
					c.newBorrow(pi, amt, []int64{1000, 950, 700}[s.c%3], s.d%4 == 0)
				case kk < 78:
					if len(open) > 0 {
						c.closeBorrow(open[s.a%len(open)])
					}
				case kk < 83:
					if len(open) > 0 {
						c.drawOrRepay(open[s.a%len(open)], s.b%2 == 0, []int64{10, 100, 300}[s.c%3])
					}
				case kk < 87:
					c.skip([]int64{60, 3600, 86400, 2592000, 31557600}[s.a%5])
				case kk < 89:
					c.setKill(s.a%3 == 0)
				case kk < 92:
					c.setWhite(s.a%4 != 0, s.b%2 == 0)
				case kk < 96:
					c.drain(w.assets[s.a%4], w.pools[s.b%2])
				case kk < 98:
					c.external(w.assets[s.a%4], w.assets[s.b%4], int64(1000+s.c%5000000), int64(1000+s.d%4000000), s.c%4 != 0)
				}
			}
			alive = c.block()
		}
		// a quiet tail: whatever is unsafe now must be seized within the bound
		if alive && r0(c) {
			for b := 0; b < 6 && alive; b++ {
				alive = c.block()
			}
		}
	}
	// ---- directed cases (always run last, ids continue) ----
	directed := []func(ci int){
		func(ci int) { c09bBridgeCase(w, tr, ci, 0) },
		func(ci int) { c09bBridgeCase(w, tr, ci, 1) },
		func(ci int) { c09bBridgeCase(w, tr, ci, 2) },
		func(ci int) { c09bPoolShort(w, tr, ci) },
		func(ci int) { c09bReserveIndexZero(w, tr, ci) },
		func(ci int) { c09bGovBatch(w, tr, ci, 1<<63) },
		func(ci int) { c09bGovBatch(w, tr, ci, ^uint64(0)) },
		func(ci int) { c09bGovBatch(w, tr, ci, 1<<63-1) },
	}
	for _, f := range directed {
		if only < 0 || only == ci {
			f(ci)
		}
		ci++
	}
}

func r0(c *c09bCase) bool { return len(c.openBorrows()) > 0 }

// directed: one same-pool, one first-transit and one second-transit borrow of the same collateral asset
// (A2, pool 1); the collateral price is moved so that the ratio of borrow [focus] sits between the two
// bridged thresholds and then just above / at / just below each of the three applicable thresholds.
func c09bBridgeCase(w *c09bWorld, tr *tracer, ci int, focus int) {
	c := c09bNewCase(w, tr, ci, fmt.Sprintf("bridge-%d", focus), 3) // every block visits all three
	ids := []uint64{
		c.newBorrow(0, 100000000, 800, false),  // A2 -> A1 same pool
		c.newBorrow(8, 100000000, 800, false),  // A2 -> A4 cross pool, small: first transit (A3)
		c.newBorrow(8, 3000000000, 800, false), // A2 -> A4 cross pool, large: second transit (A1)
	}
	id := ids[focus]
	if id == 0 {
		return
	}
	for _, which := range []int{0, 2, 3} {
		for _, d := range []int64{-1, 0, 1} {
			c.targetX(id, which, d, uint64(1000003*(which+1)), true)
			if !c.block() {
				return
			}
		}
	}
	for b := 0; b < 4; b++ {
		if !c.block() {
			return
		}
	}
}

// directed (candidate C09-F4): a batch size of 2^63 .. 2^64-1 through the governance parameter path.
// int(batch) is negative, GetSliceStartEndForLiquidations returns the empty window in every block:
// nothing is ever swept.  If the proposal is accepted, an unsafe borrow and the blocks that must seize it
// follow.  (2^63-1 is the largest size that still sweeps.)
func c09bGovBatch(w *c09bWorld, tr *tracer, ci int, b uint64) {
	c := c09bNewCase(w, tr, ci, "gov-batch", 2)
	c.newBorrow(0, 100000000, 900, false)
	c.newBorrow(8, 100000000, 900, false)
	c.govBatch(b)
	c.setPrice(w.assets[1], w.normal[w.assets[1]]/2, true) // collateral A2 halves: both borrows far above their thresholds
	for i := 0; i < 6; i++ {
		if !c.block() {
			return
		}
	}
}

// directed (finding C09-F5): an unsafe borrow whose pool has lent most of the collateral asset out.  User A
// lends 100 A2 in pool 1 and borrows A1 against it; the whale withdraws its A2 from pool 1; user B borrows 63 of
// the remaining 100 A2 against A1.  The A2 price halves: A's borrow is far above its threshold, liquidation is
// whitelisted with the Dutch auction on, prices are active, no control is on - but pool 1 holds 37 A2 < the 100
// recorded as A's collateral, UpdateLockedBorrows fails in every block.  When liquidity returns the next
// visit seizes the borrow.
func c09bPoolShort(w *c09bWorld, tr *tracer, ci int) {
	c := c09bNewCase(w, tr, ci, "pool-short", 2)
	if c.newBorrow(0, 100000000, 900, false) == 0 {
		return
	}
	c.drain(w.assets[1], w.pools[0])
	c.newBorrow(2, 50000000, 900, false)
	c.setPrice(w.assets[1], w.normal[w.assets[1]]/2, true)
	for i := 0; i < 8; i++ {
		if !c.block() {
			return
		}
	}
	c.refill(w.assets[1], w.pools[0], 1000000000)
	for i := 0; i < 3; i++ {
		if !c.block() {
			return
		}
	}
}

// directed (finding C09-F6): a borrow opened while lend.GetReserveRate is exactly 0.  The first borrow of A1 from
// pool 2 is a STABLE borrow (collateral A4 admits stable borrowing; the stable rate parameters of A1 are 0, so the
// pool's average borrow rate of A1 is 0); the second borrow of A1 is stored with ReserveGlobalIndex 0, and every
// later interest update of it (liquidation visit, liquidate message, repay, close) divides by zero.  The A4 price
// falls: the second borrow is far above its threshold and can never be seized.
func c09bReserveIndexZero(w *c09bWorld, tr *tracer, ci int) {
	c := c09bNewCase(w, tr, ci, "reserve-index-zero", 2)
	if c.newBorrow(5, 100000000, 900, true) == 0 { // A4 -> A1, pool 2, stable
		return
	}
	id := c.newBorrow(5, 100000000, 900, false) // A4 -> A1, pool 2, variable
	if id == 0 {
		return
	}
	c.setPrice(w.assets[3], w.normal[w.assets[3]]/2, true)
	for i := 0; i < 5; i++ {
		if !c.block() {
			return
		}
	}
	c.liqMsg(1, id)
	c.closeBorrow(id)
}
