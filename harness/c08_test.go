//go:build verif

package verifharness

import (
	"fmt"
	"math/big"
	"strings"
	"testing"
	"time"

	abci "github.com/cometbft/cometbft/abci/types"
	sdk "github.com/cosmos/cosmos-sdk/types"

	chain "github.com/comdex-official/comdex/app"
	assettypes "github.com/comdex-official/comdex/x/asset/types"
	esmtypes "github.com/comdex-official/comdex/x/esm/types"
	"github.com/comdex-official/comdex/x/lend"
	lendtypes "github.com/comdex-official/comdex/x/lend/types"
	liqv1types "github.com/comdex-official/comdex/x/liquidation/types"
	liqV2types "github.com/comdex-official/comdex/x/liquidationsV2/types"
	markettypes "github.com/comdex-official/comdex/x/market/types"
)

// C08 harness: drives the REAL lend message server (through execMsg) with generated histories of
// lend / deposit / withdraw / close-lend / borrow / deposit-borrow / draw / repay / close-borrow /
// borrow-alternate / calculate-interest messages by three users over two pools, with oracle
// price moves and time gaps from seconds to years between the messages, and dumps after EVERY
// message the pool-asset stats, every lend and borrow record, the balances and the prices.

type c08Fix struct {
	a        *chain.App
	app      uint64
	assets   []uint64          // underlying asset ids (index 0..3)
	cassets  []uint64          // their cToken asset ids
	denomID  map[string]uint64 // denom -> asset id
	idDenom  map[uint64]string
	decimals map[uint64]int64
	pools    []uint64
	poolMod  map[uint64]string
	pairs    []lendtypes.Extended_Pair
	a2p      map[[2]uint64][]uint64
	users    []sdk.AccAddress
	userNo   map[string]int
	denoms   []string // all tracked denoms in a fixed order
	otherApp uint64   // a second app (not the lend app)
}

func c08Dec(s string) sdk.Dec { return sdk.MustNewDecFromStr(s) }

func c08AcctNo(f *c08Fix, name string) int {
	for i, p := range f.pools {
		if f.poolMod[p] == name {
			return 100 + int(f.pools[i])
		}
	}
	return 0
}

func c08Setup(t *testing.T, tr *tracer) (*c08Fix, sdk.Context) {
	a, ctx := newApp(t)
	f := &c08Fix{a: a, denomID: map[string]uint64{}, idDenom: map[uint64]string{}, decimals: map[uint64]int64{},
		poolMod: map[uint64]string{}, a2p: map[[2]uint64][]uint64{}, userNo: map[string]int{}}
	if err := a.AssetKeeper.AddAppRecords(ctx, assettypes.AppData{Name: lendtypes.AppName, ShortName: "cmmdo", MinGovDeposit: sdk.NewInt(0), GovTimeInSeconds: 0,
		GenesisToken: []assettypes.MintGenesisToken{}}); err != nil {
		t.Fatal(err)
	}
	apps, _ := a.AssetKeeper.GetApps(ctx)
	for _, ap := range apps {
		if ap.Name == lendtypes.AppName {
			f.app = ap.Id
		}
	}
	other := addAppRecord(t, a, ctx, "cswap")
	f.otherApp = other
	decs := []int64{1000000, 1000000, 100000000, 1000000}
	for i := 0; i < 4; i++ {
		d := fmt.Sprintf("uasset%d", i+1)
		id := addAsset(t, a, ctx, fmt.Sprintf("ASSET%c", 'A'+i), d, decs[i], true, false)
		f.assets = append(f.assets, id)
		f.denomID[d], f.idDenom[id], f.decimals[id] = id, d, decs[i]
	}
	for i := 0; i < 4; i++ {
		d := fmt.Sprintf("ucasset%d", i+1)
		id := addAsset(t, a, ctx, fmt.Sprintf("CASSET%c", 'A'+i), d, decs[i], false, false)
		f.cassets = append(f.cassets, id)
		f.denomID[d], f.idDenom[id], f.decimals[id] = id, d, decs[i]
	}
	for i := 0; i < 4; i++ {
		f.denoms = append(f.denoms, f.idDenom[f.assets[i]])
	}
	for i := 0; i < 4; i++ {
		f.denoms = append(f.denoms, f.idDenom[f.cassets[i]])
	}
	A := f.assets
	k := a.LendKeeper
	pa := func(id, ty uint64, cap string) *lendtypes.AssetDataPoolMapping {
		return &lendtypes.AssetDataPoolMapping{AssetID: id, AssetTransitType: ty, SupplyCap: c08Dec(cap)}
	}
	// pool 1 "cmdx": asset2 main, asset3 first transit, asset1 second transit; pool 2 "osmo": asset4 main
	if err := k.AddPoolRecords(ctx, lendtypes.Pool{ModuleName: "cmdx", CPoolName: "CMDX-A-B",
		AssetData: []*lendtypes.AssetDataPoolMapping{pa(A[0], 3, "5000000000000000000"), pa(A[1], 1, "3000000000000"), pa(A[2], 2, "5000000000000000000")}}); err != nil {
		t.Fatal(err)
	}
	if err := k.AddPoolRecords(ctx, lendtypes.Pool{ModuleName: "osmo", CPoolName: "OSMO-A-B",
		AssetData: []*lendtypes.AssetDataPoolMapping{pa(A[3], 1, "3000000000000000000"), pa(A[0], 3, "5000000000000000000"), pa(A[2], 2, "5000000000000000000")}}); err != nil {
		t.Fatal(err)
	}
	for _, p := range k.GetPools(ctx) {
		f.pools = append(f.pools, p.PoolID)
		f.poolMod[p.PoolID] = p.ModuleName
	}
	rp := func(id uint64, uopt, base, s1, s2 string, stable bool, sb, ss1, ss2, ltv, lt, pen, bonus, rf string, c uint64, iso bool, eltv, epen string) {
		k.SetAssetRatesParams(ctx, lendtypes.AssetRatesParams{AssetID: id, UOptimal: c08Dec(uopt), Base: c08Dec(base), Slope1: c08Dec(s1), Slope2: c08Dec(s2),
			EnableStableBorrow: stable, StableBase: c08Dec(sb), StableSlope1: c08Dec(ss1), StableSlope2: c08Dec(ss2), Ltv: c08Dec(ltv),
			LiquidationThreshold: c08Dec(lt), LiquidationPenalty: c08Dec(pen), LiquidationBonus: c08Dec(bonus), ReserveFactor: c08Dec(rf),
			CAssetID: c, IsIsolated: iso, ELtv: c08Dec(eltv), ELiquidationThreshold: c08Dec("0.95"), ELiquidationPenalty: c08Dec(epen)})
	}
	rp(A[0], "0.75", "0.002", "0.07", "1.25", false, "0.0", "0.0", "0.0", "0.7", "0.75", "0.05", "0.05", "0.2", f.cassets[0], false, "0.9", "0.08") // asset 1 (the e-mode pair's asset in): e-mode penalty ABOVE the ordinary one
	rp(A[1], "0.5", "0.002", "0.08", "2.0", false, "0.0", "0.0", "0.0", "0.5", "0.55", "0.05", "0.05", "0.2", f.cassets[1], false, "0.9", "0.01")
	rp(A[2], "0.8", "0.002", "0.06", "0.6", true, "0.04", "0.04", "0.06", "0.8", "0.85", "0.025", "0.025", "0.1", f.cassets[2], false, "0.92", "0.01")
	rp(A[3], "0.65", "0.002", "0.08", "1.5", true, "0.03", "0.05", "0.5", "0.6", "0.65", "0.05", "0.05", "0.2", f.cassets[3], true, "0.9", "0.01")
	addp := func(in, out uint64, inter bool, outPool uint64, emode bool) uint64 {
		if err := k.AddLendPairsRecords(ctx, lendtypes.Extended_Pair{AssetIn: in, AssetOut: out, IsInterPool: inter, AssetOutPoolID: outPool, MinUsdValueLeft: 1000000}); err != nil {
			t.Fatal(err)
		}
		id := k.GetLendPairID(ctx)
		if emode {
			p, _ := k.GetLendPair(ctx, id)
			p.IsEModeEnabled = true
			k.SetLendPair(ctx, p)
		}
		return id
	}
	p1, p2 := f.pools[0], f.pools[1]
	cross := envInt("VERIF_C08_CROSS", 1) == 1
	add := func(asset, pool uint64, ids ...uint64) {
		f.a2p[[2]uint64{asset, pool}] = append(f.a2p[[2]uint64{asset, pool}], ids...)
	}
	// same-pool pairs of pool 1 (assets 1,2,3) and pool 2 (assets 4,1,3)
	add(A[0], p1, addp(A[0], A[1], false, p1, false), addp(A[0], A[2], false, p1, true))
	add(A[1], p1, addp(A[1], A[0], false, p1, false), addp(A[1], A[2], false, p1, false))
	add(A[2], p1, addp(A[2], A[0], false, p1, false), addp(A[2], A[1], false, p1, false))
	add(A[3], p2, addp(A[3], A[0], false, p2, false), addp(A[3], A[2], false, p2, false))
	add(A[0], p2, addp(A[0], A[3], false, p2, false), addp(A[0], A[2], false, p2, false))
	add(A[2], p2, addp(A[2], A[3], false, p2, false), addp(A[2], A[0], false, p2, false))
	if cross {
		add(A[1], p1, addp(A[1], A[3], true, p2, false))
		add(A[0], p1, addp(A[0], A[3], true, p2, false))
		add(A[2], p1, addp(A[2], A[3], true, p2, false))
		add(A[3], p2, addp(A[3], A[1], true, p1, false))
		add(A[0], p2, addp(A[0], A[1], true, p1, false))
	}
	for key, ids := range f.a2p {
		if err := k.AddAssetToPair(ctx, lendtypes.AssetToPairMapping{AssetID: key[0], PoolID: key[1], PairID: ids}); err != nil {
			t.Fatal(err)
		}
	}
	f.pairs = k.GetLendPairs(ctx)
	for i := 1; i <= 3; i++ {
		u := addrN(i)
		f.users = append(f.users, u)
		f.userNo[u.String()] = i
		var cs sdk.Coins
		for j := 0; j < 4; j++ {
			cs = cs.Add(sdk.NewCoin(f.idDenom[A[j]], sdk.NewInt(1000000000000)))
		}
		fund(t, a, ctx, u, cs)
	}
	// the reserve (lend module account) funds lend rewards when the pool's accumulated interest is short
	for j := 0; j < 4; j++ {
		if err := a.BankKeeper.MintCoins(ctx, lendtypes.ModuleName, sdk.NewCoins(sdk.NewCoin(f.idDenom[A[j]], sdk.NewInt(int64(20000+30000000*j))))); err != nil {
			t.Fatal(err)
		}
	}
	prices := []uint64{2000000, 1000000, 50000000000, 300000}
	for j := 0; j < 4; j++ {
		setPrice(a, ctx, A[j], prices[j], true)
	}
	c08LiqSetup(f, ctx) // second-generation liquidation of lend positions is enabled for the lend app
	c08CloseSetup(t, f, ctx) // a bidder (outside the projection) and the app's reserve for exhausted-collateral closes
	// ---- configuration for the model
	for _, id := range append(append([]uint64{}, f.assets...), f.cassets...) {
		tr.p("cfg asset %d %d", id, f.decimals[id])
	}
	for _, p := range k.GetPools(ctx) {
		var sb strings.Builder
		for _, v := range p.AssetData {
			fmt.Fprintf(&sb, " %d %d %s", v.AssetID, v.AssetTransitType, v.SupplyCap.BigInt().String())
		}
		tr.p("cfg pool %d %d %d%s", p.PoolID, 100+p.PoolID, len(p.AssetData), sb.String())
	}
	for _, p := range f.pairs {
		tr.p("cfg pair %d %d %d %s %d %s", p.Id, p.AssetIn, p.AssetOut, b2s(p.IsInterPool), p.AssetOutPoolID, b2s(p.IsEModeEnabled))
	}
	for _, id := range A {
		r, _ := k.GetAssetRatesParams(ctx, id)
		tr.p("cfg rates %d %s %s %d %s %s %s %s", id, r.Ltv.BigInt().String(), r.ELtv.BigInt().String(), r.CAssetID, b2s(r.EnableStableBorrow), b2s(r.IsIsolated),
			r.LiquidationPenalty.BigInt().String(), r.ELiquidationPenalty.BigInt().String())
	}
	for _, m := range k.GetAllAssetToPair(ctx) {
		var sb strings.Builder
		for _, id := range m.PairID {
			fmt.Fprintf(&sb, " %d", id)
		}
		tr.p("cfg a2p %d %d %d%s", m.AssetID, m.PoolID, len(m.PairID), sb.String())
	}
	tr.p("cfg app %d 1", f.app)
	tr.p("cfg app %d 0", other)
	return f, ctx
}

// ---------- projection ----------
func c08Ints(xs []uint64) string {
	var sb strings.Builder
	fmt.Fprintf(&sb, "%d", len(xs))
	for _, x := range xs {
		fmt.Fprintf(&sb, " %d", x)
	}
	return sb.String()
}

func c08Project(f *c08Fix, ctx sdk.Context, tr *tracer) {
	k := f.a.LendKeeper
	for _, p := range k.GetPools(ctx) {
		for _, v := range p.AssetData {
			s, found := k.GetAssetStatsByPoolIDAndAssetID(ctx, p.PoolID, v.AssetID)
			if !found {
				continue
			}
			tr.p("st %d %d %s %s %s %s %s %s", p.PoolID, v.AssetID, s.TotalLend, s.TotalBorrowed, s.TotalStableBorrowed, s.TotalInterestAccumulated,
				c08Ints(s.LendIds), c08Ints(s.BorrowIds))
		}
	}
	for _, l := range k.GetAllLend(ctx) {
		tk, found := k.GetLendRewardTracker(ctx, l.ID)
		tks := "0"
		if found {
			tks = tk.RewardsAccumulated.BigInt().String()
		}
		m, _ := k.GetUserLendBorrowMapping(ctx, l.Owner, l.ID)
		rew := "0"
		if !l.TotalRewards.IsNil() {
			rew = l.TotalRewards.String()
		}
		tr.p("ld %d %d %d %d %s %s %d %s %s %s", l.ID, f.userNo[l.Owner], l.PoolID, l.AssetID, l.AmountIn.Amount, l.AvailableToBorrow, l.AppID,
			rew, tks, c08Ints(m.BorrowId))
	}
	for _, b := range k.GetAllBorrow(ctx) {
		tk, found := k.GetBorrowInterestTracker(ctx, b.ID)
		tks := "0"
		if found {
			tks = tk.ReservePoolInterest.BigInt().String()
		}
		tr.p("bw %d %d %d %d %s %s %d %s %s %s %s %s", b.ID, b.LendingID, b.PairID, f.denomID[b.AmountIn.Denom], b.AmountIn.Amount, b.AmountOut.Amount,
			f.denomID[b.BridgedAssetAmount.Denom], b.BridgedAssetAmount.Amount, b.InterestAccumulated.BigInt().String(), tks, b2s(b.IsStableBorrow), b2s(b.IsLiquidated))
	}
	accts := []struct {
		no   int
		addr sdk.AccAddress
	}{{0, modAddr(lendtypes.ModuleName)}}
	for _, p := range f.pools {
		accts = append(accts, struct {
			no   int
			addr sdk.AccAddress
		}{100 + int(p), modAddr(f.poolMod[p])})
	}
	for i, u := range f.users {
		accts = append(accts, struct {
			no   int
			addr sdk.AccAddress
		}{i + 1, u})
	}
	for _, ac := range accts {
		var sb strings.Builder
		for _, d := range f.denoms {
			fmt.Fprintf(&sb, " %d %s", f.denomID[d], bal(f.a, ctx, ac.addr, d))
		}
		tr.p("bl %d%s", ac.no, sb.String())
	}
	var sb strings.Builder
	for _, d := range f.denoms[4:] {
		fmt.Fprintf(&sb, " %d %s", f.denomID[d], supply(f.a, ctx, d))
	}
	tr.p("sp%s", sb.String())
	sb.Reset()
	for _, id := range f.assets {
		tw, found := f.a.MarketKeeper.GetTwa(ctx, id)
		if found && tw.IsPriceActive {
			fmt.Fprintf(&sb, " %d %d", id, tw.Twa)
		} else {
			fmt.Fprintf(&sb, " %d -", id)
		}
	}
	tr.p("pr%s", sb.String())
	tr.p("ct %d %d", k.GetUserLendIDCounter(ctx), k.GetUserBorrowIDCounter(ctx))
	// ESM kill switch per app, pool ids in the depreciation records (in record order)
	var kl []uint64
	for _, ap := range []uint64{f.app, f.otherApp} {
		if ks, found := f.a.EsmKeeper.GetKillSwitchData(ctx, ap); found && ks.BreakerEnable {
			kl = append(kl, ap)
		}
	}
	var dp []uint64
	if recs, found := k.GetPoolDepreciateRecords(ctx); found {
		for _, r := range recs.IndividualPoolDepreciate {
			dp = append(dp, r.PoolID)
		}
	}
	// borrow positions the generation-1 liquidation holds a locked-vault record for
	var v1 []uint64
	for _, lv := range f.a.LiquidationKeeper.GetLockedVaults(ctx) {
		if lv.GetBorrowMetaData() != nil {
			v1 = append(v1, lv.OriginalVaultId)
		}
	}
	tr.p("fl %s %s %s", c08Ints(kl), c08Ints(dp), c08Ints(v1))
	tr.p("end")
}

// ---------- env measurement (on throw-away cache contexts, at the block time of the message) ----------
// the Dec that IterateLends would receive from CalculateLendReward for this lend position
func c08Ipb(f *c08Fix, ctx sdk.Context, lendID uint64) string {
	k := f.a.LendKeeper
	l, found := k.GetLend(ctx, lendID)
	if !found {
		return "0"
	}
	out := "0"
	safely(func() {
		apr, _ := k.GetLendAPRByAssetIDAndPoolID(ctx, l.PoolID, l.AssetID)
		ipb, _, _ := k.CalculateLendReward(ctx, l.AmountIn.Amount.String(), apr, l)
		out = ipb.BigInt().String()
	})
	return out
}

// what IterateBorrow would do to this borrow position: (class, interest delta, reserve-share delta)
func c08BI(f *c08Fix, ctx sdk.Context, borrowID uint64) string {
	k := f.a.LendKeeper
	b0, found := k.GetBorrow(ctx, borrowID)
	if !found {
		return "0 0 0"
	}
	cc, _ := ctx.CacheContext()
	t0, found0 := k.GetBorrowInterestTracker(cc, borrowID)
	var err error
	p, _ := safely(func() { _, _, err = k.IterateBorrow(cc, borrowID) })
	if p {
		return "2 0 0"
	}
	if err != nil {
		return "1 0 0"
	}
	b1, _ := k.GetBorrow(cc, borrowID)
	t1, _ := k.GetBorrowInterestTracker(cc, borrowID)
	dres := t1.ReservePoolInterest
	if found0 {
		dres = dres.Sub(t0.ReservePoolInterest)
	}
	return fmt.Sprintf("0 %s %s", b1.InterestAccumulated.Sub(b0.InterestAccumulated).BigInt().String(), dres.BigInt().String())
}

// the ENV of a hand-over: the decision LiquidateIndividualBorrow takes (0 not liquidatable, 1 handed
// over, 2 error / 3 panic before any write) and the interest IterateBorrowForLiq adds, measured on a
// throw-away cache context with the keeper's own functions (liquidationsV2/keeper/liquidate.go:261-357)
func c08LiqEnv(f *c08Fix, ctx sdk.Context, id uint64) (int, string) {
	k := f.a.LendKeeper
	b0, found := k.GetBorrow(ctx, id)
	if !found || b0.IsLiquidated {
		return 0, "0"
	}
	pair, _ := k.GetLendPair(ctx, b0.PairID)
	lendPos, found := k.GetLend(ctx, b0.LendingID)
	if !found {
		return 2, "0"
	}
	pool, _ := k.GetPool(ctx, lendPos.PoolID)
	assetIn, _ := f.a.AssetKeeper.GetAsset(ctx, pair.AssetIn)
	assetOut, _ := f.a.AssetKeeper.GetAsset(ctx, pair.AssetOut)
	rp, _ := k.GetAssetRatesParams(ctx, pair.AssetIn)
	cc, _ := ctx.CacheContext()
	var b lendtypes.BorrowAsset
	var err error
	if p, _ := safely(func() { b, err = k.CalculateBorrowInterestForLiquidation(cc, id) }); p {
		return 3, "0"
	}
	if err != nil {
		return 2, "0"
	}
	dint := b.InterestAccumulated.Sub(b0.InterestAccumulated).BigInt().String()
	if !b.StableBorrowRate.Equal(sdk.ZeroDec()) {
		if p, _ := safely(func() { b, err = k.ReBalanceStableRates(cc, b) }); p {
			return 3, "0"
		}
		if err != nil {
			return 2, "0"
		}
	}
	thr := rp.LiquidationThreshold
	if pair.IsEModeEnabled {
		thr = rp.ELiquidationThreshold
	}
	var t1, t2 uint64
	for _, data := range pool.AssetData {
		if data.AssetTransitType == 2 {
			t1 = data.AssetID
		}
		if data.AssetTransitType == 3 {
			t2 = data.AssetID
		}
	}
	r1, _ := k.GetAssetRatesParams(ctx, t1)
	r2, _ := k.GetAssetRatesParams(ctx, t2)
	a1, _ := f.a.AssetKeeper.GetAsset(ctx, t1)
	var ratio sdk.Dec
	if p, _ := safely(func() {
		ratio, err = k.CalculateCollateralizationRatio(cc, b.AmountIn.Amount, assetIn, b.AmountOut.Amount.Add(b.InterestAccumulated.TruncateInt()), assetOut)
	}); p {
		return 3, "0"
	}
	if err != nil {
		return 2, "0"
	}
	if !b.BridgedAssetAmount.Amount.Equal(sdk.ZeroInt()) {
		if b.BridgedAssetAmount.Denom == a1.Denom {
			thr = thr.Mul(r1.LiquidationThreshold)
		} else {
			thr = thr.Mul(r2.LiquidationThreshold)
		}
	}
	if ratio.GT(thr) {
		return 1, dint
	}
	return 0, dint
}

func c08UserLendIDs(f *c08Fix, ctx sdk.Context, addr string) (lendIDs, borrowIDs []uint64) {
	for _, m := range f.a.LendKeeper.GetUserTotalMappingData(ctx, addr) {
		lendIDs = append(lendIDs, m.LendId)
		borrowIDs = append(borrowIDs, m.BorrowId...)
	}
	return
}

// ---------- generator helpers ----------
func c08Pick(r *rng, xs []*big.Int) *big.Int {
	x := xs[r.intn(len(xs))]
	if x.Sign() <= 0 {
		return big.NewInt(1)
	}
	return x
}

func c08bi(i int64) *big.Int { return big.NewInt(i) }

// the largest loan (in units of asset out) whose value is about ltv * value(collateral)
func c08MaxLoan(f *c08Fix, ctx sdk.Context, amtIn sdk.Int, assetIn, assetOut uint64, ltv sdk.Dec) *big.Int {
	tin, ok1 := f.a.MarketKeeper.GetTwa(ctx, assetIn)
	tout, ok2 := f.a.MarketKeeper.GetTwa(ctx, assetOut)
	if !ok1 || !ok2 || tout.Twa == 0 {
		return big.NewInt(1000000)
	}
	n := new(big.Int).Mul(amtIn.BigInt(), new(big.Int).SetUint64(tin.Twa))
	n.Mul(n, big.NewInt(f.decimals[assetOut]))
	n.Mul(n, ltv.BigInt())
	d := new(big.Int).Mul(new(big.Int).SetUint64(tout.Twa), big.NewInt(f.decimals[assetIn]))
	d.Mul(d, new(big.Int).Exp(big.NewInt(10), big.NewInt(18), nil))
	return n.Quo(n, d)
}

func TestC08(t *testing.T) {
	tr := newTracer(t, "c08.trace")
	defer tr.close()
	f, base := c08Setup(t, tr)
	a := f.a
	k := a.LendKeeper
	// newRng(s+1) is newRng(s) advanced by one draw; scramble so that different seeds give unrelated histories
	r := &rng{s: newRng(seed()).next() ^ (seed() * 0xD6E8FEB86659FD93)}
	ncases := envInt("VERIF_CASES", 40)
	only := envInt("VERIF_CASE", -1)
	withAlt := envInt("VERIF_C08_ALT", 1) == 1

	for ci := 0; ci < ncases; ci++ {
		caseSeed := r.next() // every case draws from its own PRNG, so VERIF_CASE replays exactly
		if only >= 0 && ci != only {
			continue
		}
		cr := newRng(caseSeed)
		ctx, _ := base.CacheContext()
		now := baseTime
		height := int64(2)
		nops := 20 + cr.intn(31)
		v1case := cr.chance(12)
		tr.p("case %d %d", ci, nops)
		c08Project(f, ctx, tr)
		for oi := 0; oi < nops; oi++ {
			// ---- time gap: seconds to years; the lend BeginBlocker runs the way the module runs it
			var dt int64
			switch cr.intn(8) {
			case 0:
				dt = 0
			case 1, 2:
				dt = int64(1 + cr.intn(120))
			case 3:
				dt = int64(3600 * (1 + cr.intn(48)))
			case 4, 5:
				dt = int64(86400 * (1 + cr.intn(200)))
			case 6:
				dt = 31557600
			default:
				dt = int64(31557600 * (1 + cr.intn(4)))
			}
			now = now.Add(time.Duration(dt) * time.Second)
			height++
			if height%14400 == 0 {
				height++
			}
			ctx = ctx.WithBlockTime(now).WithBlockHeight(height)
			lend.BeginBlocker(ctx, abci.RequestBeginBlock{}, k)

			un := 1 + cr.intn(3)
			user := f.users[un-1]
			us := user.String()
			lends := k.GetAllLend(ctx)
			borrows := k.GetAllBorrow(ctx)
			var myLends []lendtypes.LendAsset
			for _, l := range lends {
				if l.Owner == us {
					myLends = append(myLends, l)
				}
			}
			var myBorrows []lendtypes.BorrowAsset
			for _, b := range borrows {
				for _, l := range myLends {
					if b.LendingID == l.ID {
						myBorrows = append(myBorrows, b)
					}
				}
			}
			pickLend := func() (lendtypes.LendAsset, bool) {
				if cr.chance(6) && len(lends) > 0 { // somebody's lend
					return lends[cr.intn(len(lends))], true
				}
				if len(myLends) == 0 {
					return lendtypes.LendAsset{ID: uint64(1 + cr.intn(4)), AmountIn: sdk.NewCoin(f.denoms[0], sdk.ZeroInt()), AvailableToBorrow: sdk.ZeroInt()}, false
				}
				return myLends[cr.intn(len(myLends))], true
			}
			pickBorrow := func() (lendtypes.BorrowAsset, bool) {
				if cr.chance(6) && len(borrows) > 0 {
					return borrows[cr.intn(len(borrows))], true
				}
				if len(myBorrows) == 0 {
					return lendtypes.BorrowAsset{ID: uint64(1 + cr.intn(4)), AmountIn: sdk.NewCoin(f.denoms[4], sdk.ZeroInt()), AmountOut: sdk.NewCoin(f.denoms[0], sdk.ZeroInt()),
						InterestAccumulated: sdk.ZeroDec()}, false
				}
				return myBorrows[cr.intn(len(myBorrows))], true
			}
			// 100..105: hand-over of a position to a liquidation auction; 106..115: a bid on the auction of a handed-over
			// position; 116..121 RepayWithdraw; 122..126 FundModuleAccounts; 127..129 FundReserveAccounts
			// 130, 131: esm MsgKillSwitch; 132: pool depreciation (governance); 133: generation-1 hand-over
			// (x/liquidation MsgLiquidateBorrow), only in one history out of eight and in its second half
			kind := cr.intn(133)
			if v1case && oi >= nops/2 && cr.chance(10) {
				kind = 133
			}
			warm := oi < 5 // the first messages of a history supply liquidity
			if ks, found := a.EsmKeeper.GetKillSwitchData(ctx, f.app); found && ks.BreakerEnable && cr.chance(35) {
				kind = 130 // the switch is on: most likely switched off again soon
			}
			if kind == 132 && (oi < nops/2 || cr.chance(60)) {
				kind = 40
			}
			var flagged []lendtypes.BorrowAsset
			for _, b := range borrows {
				if b.IsLiquidated {
					flagged = append(flagged, b)
				}
			}
			if len(flagged) > 0 && cr.chance(30) {
				kind = 106
			}
			if len(flagged) == 0 && ((kind >= 106 && kind < 116 && cr.chance(85)) || (len(borrows) > 0 && cr.chance(6))) {
				kind = 100 // nothing to bid on yet: hand a position over first
			}
			if kind == 133 && len(flagged) == len(borrows) {
				kind = 40 // no open position to hand over: borrow first
			}
			if warm {
				kind = 0
			}
			if len(myLends) == 0 && kind >= 14 && kind < 94 && cr.chance(85) {
				kind = 0
			}
			if len(myBorrows) == 0 && ((kind >= 55 && kind < 86) || (kind >= 116 && kind < 122)) && cr.chance(80) {
				kind = 40
			}
			nrich := 0
			for _, x := range myLends {
				if x.AvailableToBorrow.GT(sdk.NewInt(2000000)) {
					nrich++
				}
			}
			if nrich == 0 && kind >= 35 && kind < 55 && cr.chance(75) {
				kind = 0
			}
			var msg sdk.Msg
			var line string
			switch {
			case kind >= 106 && kind < 116: // MsgPlaceMarketBid on the generation-2 auction of a handed-over position
				var id uint64
				switch {
				case len(flagged) > 0 && !cr.chance(8):
					id = flagged[cr.intn(len(flagged))].ID
				case len(borrows) > 0:
					id = borrows[cr.intn(len(borrows))].ID // not handed over: no auction
				default:
					id = uint64(1 + cr.intn(4))
				}
				amtClass := []int{0, 0, 0, 1, 1, 2, 2, 3, 4, 0}[cr.intn(10)]
				line := c08Bid(f, ctx, tr, id, amtClass, int64(5+cr.intn(90)), cr.chance(50))
				tr.p("op %d %s", dt, line)
				c08Project(f, ctx, tr)
				continue
			case kind >= 116 && kind < 122: // MsgRepayWithdraw
				b, _ := pickBorrow()
				msg = lendtypes.NewMsgRepayWithdraw(us, b.ID)
				line = c08RepayWithdrawLine(f, ctx, un, us, b)
			case kind >= 122 && kind < 127: // MsgFundModuleAccounts
				pi := cr.intn(2)
				pool, _ := k.GetPool(ctx, f.pools[pi])
				poolID := pool.PoolID
				asset := pool.AssetData[cr.intn(len(pool.AssetData))].AssetID
				if cr.chance(10) {
					asset = f.assets[cr.intn(4)]
				}
				if cr.chance(6) {
					poolID = 3 + uint64(cr.intn(2))
				}
				if cr.chance(5) {
					asset = 40 + uint64(cr.intn(3))
				}
				denom := f.idDenom[asset]
				if cr.chance(12) || denom == "" {
					denom = f.denoms[cr.intn(8)]
				}
				amt := c08FundAmount(cr)
				msg = lendtypes.NewMsgFundModuleAccounts(poolID, asset, us, sdk.NewCoin(denom, sdk.NewIntFromBigInt(amt)))
				line = fmt.Sprintf("fundmod %d %d %d %d %s", un, poolID, asset, f.denomID[denom], amt)
			case kind >= 133: // generation 1: x/liquidation MsgLiquidateBorrow
				b, _ := pickBorrow()
				if !cr.chance(10) { // an open position; its collateral price falls first
					var open []lendtypes.BorrowAsset
					for _, x := range borrows {
						if !x.IsLiquidated {
							open = append(open, x)
						}
					}
					b = open[cr.intn(len(open))]
				}
				if !b.IsLiquidated && b.PairID != 0 && cr.chance(85) {
					pr, _ := k.GetLendPair(ctx, b.PairID)
					if tw, ok := a.MarketKeeper.GetTwa(ctx, pr.AssetIn); ok && tw.Twa > 10 {
						// to just below the price at which the position sits on its liquidation threshold
						np := tw.Twa * uint64(30+cr.intn(55)) / 100
						ai, _ := a.AssetKeeper.GetAsset(ctx, pr.AssetIn)
						ao, _ := a.AssetKeeper.GetAsset(ctx, pr.AssetOut)
						rp, _ := k.GetAssetRatesParams(ctx, pr.AssetIn)
						var ratio sdk.Dec
						var rerr error
						if pn, _ := safely(func() {
							ratio, rerr = k.CalculateCollateralizationRatio(ctx, b.AmountIn.Amount, ai, b.AmountOut.Amount.Add(b.InterestAccumulated.TruncateInt()), ao)
						}); !pn && rerr == nil && ratio.IsPositive() && rp.LiquidationThreshold.IsPositive() {
							thr := rp.LiquidationThreshold
							if b.BridgedAssetAmount.Amount.IsPositive() {
								thr = thr.MulInt64(3).QuoInt64(4)
							}
							x := sdk.NewDec(int64(tw.Twa)).Mul(ratio).Quo(thr).MulInt64(int64(60 + cr.intn(39))).QuoInt64(100).TruncateInt64()
							if x >= 1 {
								np = uint64(x)
							}
						}
						a.MarketKeeper.SetTwa(ctx, markettypes.TimeWeightedAverage{AssetID: pr.AssetIn, ScriptID: 12, Twa: np, CurrentIndex: 0,
							IsPriceActive: true, PriceValue: []uint64{np}, DiscardedHeightDiff: -1})
						tr.p("op %d setprice %d %d ok", dt, pr.AssetIn, np)
						c08Project(f, ctx, tr)
						dt = 0
					}
				}
				msg = &liqv1types.MsgLiquidateBorrowRequest{From: us, BorrowId: b.ID}
				line = c08V1Env(f, ctx, b.ID, msg)
			case kind >= 130 && kind < 132: // esm MsgKillSwitch by an admin (sometimes by somebody else)
				admins := a.EsmKeeper.AdminParam(ctx)
				from, isAdmin := us, false
				if len(admins) > 0 && !cr.chance(12) {
					from, isAdmin = admins[0], true
				}
				app := f.app
				if cr.chance(12) {
					app = []uint64{f.otherApp, 99}[cr.intn(2)]
				}
				cur, _ := a.EsmKeeper.GetKillSwitchData(ctx, app)
				on := !cur.BreakerEnable
				if cr.chance(15) {
					on = !on
				}
				msg = &esmtypes.MsgKillRequest{From: from, KillSwitchParams: &esmtypes.KillSwitchParams{AppId: app, BreakerEnable: on}}
				line = fmt.Sprintf("kill %s %d %s", b2s(isAdmin), app, b2s(on))
			case kind == 132: // governance: AddPoolDepreciateProposal for one pool (the handler runs like a message: all or nothing)
				poolID := f.pools[cr.intn(2)]
				if cr.chance(10) {
					poolID = 3
				}
				cc, write := ctx.CacheContext()
				var err error
				class := "ok"
				if pn, _ := safely(func() {
					err = k.HandlePoolDepreciateProposal(cc, &lendtypes.AddPoolDepreciateProposal{Title: "t", Description: "d",
						PoolDepreciate: lendtypes.PoolDepreciate{IndividualPoolDepreciate: []lendtypes.IndividualPoolDepreciate{{PoolID: poolID}}}})
				}); pn {
					class = "panic"
				} else if err != nil {
					class = "err"
				} else {
					write()
				}
				tr.p("op %d depreciate %d %s", dt, poolID, class)
				c08Project(f, ctx, tr)
				continue
			case kind >= 127: // MsgFundReserveAccounts
				asset := f.assets[cr.intn(4)]
				if cr.chance(8) {
					asset = f.cassets[cr.intn(4)]
				}
				if cr.chance(5) {
					asset = 40 + uint64(cr.intn(3))
				}
				denom := f.idDenom[asset]
				if cr.chance(12) || denom == "" {
					denom = f.denoms[cr.intn(8)]
				}
				amt := c08FundAmount(cr)
				msg = lendtypes.NewMsgFundReserveAccounts(asset, us, sdk.NewCoin(denom, sdk.NewIntFromBigInt(amt)))
				line = fmt.Sprintf("fundreserve %d %d %d %s", un, asset, f.denomID[denom], amt)
			case kind >= 100: // MsgLiquidateInternalKeeper{LiqType 1}: LiquidateIndividualBorrow -> UpdateLockedBorrows
				b, _ := pickBorrow()
				if len(borrows) > 0 && cr.chance(60) { // prefer the open position with the worst ratio
					b = borrows[0]
					worst := sdk.ZeroDec()
					for _, x := range borrows {
						if x.IsLiquidated {
							continue
						}
						pr, _ := k.GetLendPair(ctx, x.PairID)
						ai, _ := a.AssetKeeper.GetAsset(ctx, pr.AssetIn)
						ao, _ := a.AssetKeeper.GetAsset(ctx, pr.AssetOut)
						var r sdk.Dec
						var err error
						p, _ := safely(func() { r, err = k.CalculateCollateralizationRatio(ctx, x.AmountIn.Amount, ai, x.AmountOut.Amount.Add(x.InterestAccumulated.TruncateInt()), ao) })
						if !p && err == nil && r.GT(worst) {
							worst, b = r, x
						}
					}
				}
				if found := !b.IsLiquidated && b.PairID != 0 && cr.chance(65); found { // the collateral asset crashes first (an oracle move of its own)
					pr, _ := k.GetLendPair(ctx, b.PairID)
					if tw, ok := a.MarketKeeper.GetTwa(ctx, pr.AssetIn); ok && tw.Twa > 10 {
						np := tw.Twa * uint64(20+cr.intn(50)) / 100
						a.MarketKeeper.SetTwa(ctx, markettypes.TimeWeightedAverage{AssetID: pr.AssetIn, ScriptID: 12, Twa: np, CurrentIndex: 0,
							IsPriceActive: true, PriceValue: []uint64{np}, DiscardedHeightDiff: -1})
						tr.p("op %d setprice %d %d ok", dt, pr.AssetIn, np)
						c08Project(f, ctx, tr)
						dt = 0
					}
				}
				d, dint := c08LiqEnv(f, ctx, b.ID)
				msg = &liqV2types.MsgLiquidateInternalKeeperRequest{From: us, LiqType: 1, Id: b.ID}
				line = fmt.Sprintf("handover %d %d %s", b.ID, d, dint)
			case kind < 14: // Lend
				pi := cr.intn(2)
				pool, _ := k.GetPool(ctx, f.pools[pi])
				asset := pool.AssetData[cr.intn(len(pool.AssetData))].AssetID
				if cr.chance(4) {
					asset = f.assets[cr.intn(4)]
				}
				// cTokens are per ASSET, not per pool: a user who lends a shared asset (A0, A2) in both pools holds
				// spare cTokens next to a pledged position - the state in which a withdrawal of pledged collateral
				// could be paid for. Steer a quarter of the lends there.
				if cr.chance(25) {
					for _, ml := range myLends {
						if ml.AssetID == f.assets[0] || ml.AssetID == f.assets[2] {
							other := f.pools[0]
							if ml.PoolID == f.pools[0] {
								other = f.pools[1]
							}
							if _, has := k.GetLendIDForAssetIDPoolID(ctx, us, ml.AssetID, other); !has {
								pool, _ = k.GetPool(ctx, other)
								asset = ml.AssetID
								break
							}
						}
					}
				}
				amt := c08Pick(cr, []*big.Int{c08bi(1), c08bi(1000000), c08bi(int64(1000000 + cr.intn(500000000))), c08bi(int64(1000000000 + cr.intn(1000000000))),
					c08bi(int64(1000000 + cr.intn(500000000))), c08bi(int64(1000000000 + cr.intn(1000000000))), c08bi(int64(100000000 + cr.intn(1000000000))),
					c08bi(100000000000), c08bi(999999999999), c08bi(2000000000000)})
				if warm {
					amt = c08bi(int64(1000000000 + cr.intn(2000000000)))
				}
				denom := f.idDenom[asset]
				if cr.chance(3) {
					denom = f.denoms[cr.intn(4)]
				}
				app := f.app
				if cr.chance(3) {
					app = f.app + uint64(1+cr.intn(2))
				}
				ipb := "0"
				if id, found := k.GetLendIDForAssetIDPoolID(ctx, us, asset, pool.PoolID); found {
					ipb = c08Ipb(f, ctx, id)
				}
				msg = lendtypes.NewMsgLend(us, asset, sdk.NewCoin(denom, sdk.NewIntFromBigInt(amt)), pool.PoolID, app)
				line = fmt.Sprintf("lend %d %d %d %s %d %d %s", un, asset, f.denomID[denom], amt, pool.PoolID, app, ipb)
			case kind < 20: // Deposit
				l, _ := pickLend()
				amt := c08Pick(cr, []*big.Int{c08bi(1), c08bi(int64(1000 + cr.intn(100000000))), c08bi(3000000000000)})
				denom := l.AmountIn.Denom
				if cr.chance(3) {
					denom = f.denoms[cr.intn(4)]
				}
				msg = lendtypes.NewMsgDeposit(us, l.ID, sdk.NewCoin(denom, sdk.NewIntFromBigInt(amt)))
				line = fmt.Sprintf("deposit %d %d %d %s %s", un, l.ID, f.denomID[denom], amt, c08Ipb(f, ctx, l.ID))
			case kind < 31: // Withdraw
				l, _ := pickLend()
				if cr.chance(40) { // prefer an own position with pledged collateral (available < deposited)
					for _, ml := range myLends {
						if ml.AvailableToBorrow.LT(ml.AmountIn.Amount) {
							l = ml
							break
						}
					}
				}
				av := l.AvailableToBorrow.BigInt()
				ain := l.AmountIn.Amount.BigInt()
				// besides the boundaries of available-to-borrow: amounts strictly between it and the deposited
				// amount (pledged collateral: must be refused whatever cTokens the owner holds elsewhere)
				amt := c08Pick(cr, []*big.Int{c08bi(1), av, new(big.Int).Add(av, c08bi(1)), new(big.Int).Sub(av, c08bi(1)), ain,
					new(big.Int).Quo(av, c08bi(int64(2+cr.intn(5)))), new(big.Int).Quo(av, c08bi(2)),
					new(big.Int).Quo(new(big.Int).Add(av, ain), c08bi(2)), new(big.Int).Sub(ain, c08bi(1)), new(big.Int).Add(av, c08bi(2))})
				denom := l.AmountIn.Denom
				if cr.chance(3) {
					denom = f.denoms[cr.intn(4)]
				}
				msg = lendtypes.NewMsgWithdraw(us, l.ID, sdk.NewCoin(denom, sdk.NewIntFromBigInt(amt)))
				line = fmt.Sprintf("withdraw %d %d %d %s %s", un, l.ID, f.denomID[denom], amt, c08Ipb(f, ctx, l.ID))
			case kind < 35: // CloseLend
				l, _ := pickLend()
				msg = lendtypes.NewMsgCloseLend(us, l.ID)
				line = fmt.Sprintf("closelend %d %d %s", un, l.ID, c08Ipb(f, ctx, l.ID))
			case kind < 55 || (kind >= 94 && withAlt): // Borrow / BorrowAlternate
				alt := kind >= 94
				l, _ := pickLend()
				if !alt && !cr.chance(8) { // prefer a lend position of the user that still has something to pledge
					var rich []lendtypes.LendAsset
					for _, x := range myLends {
						if x.AvailableToBorrow.GT(sdk.NewInt(2000000)) {
							rich = append(rich, x)
						}
					}
					if len(rich) > 0 {
						l = rich[cr.intn(len(rich))]
					}
				}
				var poolID, assetID uint64 = l.PoolID, l.AssetID
				if alt {
					pi := cr.intn(2)
					pool, _ := k.GetPool(ctx, f.pools[pi])
					poolID = pool.PoolID
					assetID = pool.AssetData[cr.intn(len(pool.AssetData))].AssetID
				}
				cands := f.a2p[[2]uint64{assetID, poolID}]
				mism := false
				if !alt && cr.chance(10) { // a pair of ANOTHER asset of the same pool
					pool, _ := k.GetPool(ctx, poolID)
					if len(pool.AssetData) > 0 {
						other := pool.AssetData[cr.intn(len(pool.AssetData))].AssetID
						if other != assetID {
							cands = f.a2p[[2]uint64{other, poolID}]
							mism = true
						}
					}
				}
				var pair lendtypes.Extended_Pair
				if len(cands) > 0 && !cr.chance(3) {
					pair, _ = k.GetLendPair(ctx, cands[cr.intn(len(cands))])
					for try := 0; try < 4; try++ { // prefer a pair whose lending pool holds the asset out
						op, _ := k.GetPool(ctx, pair.AssetOutPoolID)
						if bal(a, ctx, modAddr(op.ModuleName), f.idDenom[pair.AssetOut]).GT(sdk.NewInt(1000000)) {
							break
						}
						pair, _ = k.GetLendPair(ctx, cands[cr.intn(len(cands))])
					}
				} else {
					pair = f.pairs[cr.intn(len(f.pairs))]
				}
				rin, _ := k.GetAssetRatesParams(ctx, pair.AssetIn)
				cden := f.idDenom[rin.CAssetID]
				if cr.chance(3) {
					cden = f.denoms[4+cr.intn(4)]
				}
				av := l.AvailableToBorrow.BigInt()
				if alt {
					av = c08bi(int64(1000000 + cr.intn(2000000000)))
				}
				if mism {
					if b := bal(a, ctx, user, cden).BigInt(); b.Cmp(av) < 0 {
						av = b
					}
				}
				ain := c08Pick(cr, []*big.Int{av, new(big.Int).Add(av, c08bi(1)), new(big.Int).Quo(av, c08bi(2)), new(big.Int).Quo(av, c08bi(int64(2+cr.intn(8)))),
					new(big.Int).Quo(av, c08bi(int64(2+cr.intn(8)))), new(big.Int).Quo(av, c08bi(int64(2+cr.intn(4)))), new(big.Int).Quo(av, c08bi(3)),
					new(big.Int).Quo(av, c08bi(2)), new(big.Int).Quo(av, c08bi(4)), new(big.Int).Quo(av, c08bi(5)), new(big.Int).Quo(av, c08bi(3)),
					new(big.Int).Quo(av, c08bi(6)), new(big.Int).Quo(av, c08bi(2)), new(big.Int).Quo(av, c08bi(4)), c08bi(1)})
				ltv := rin.Ltv
				if pair.IsEModeEnabled {
					ltv = rin.ELtv
				}
				collAsset := assetID // what the code values the collateral with
				totalIn := sdk.NewIntFromBigInt(ain)
				var debt *big.Int = c08bi(0)
				if !alt && k.HasBorrowForAddressByPair(ctx, us, pair.Id) {
					if bid, found := k.GetBorrowIDForAddressByPair(ctx, us, pair.Id); found {
						b, _ := k.GetBorrow(ctx, bid)
						totalIn = totalIn.Add(b.AmountIn.Amount)
						debt = new(big.Int).Add(b.AmountOut.Amount.BigInt(), b.InterestAccumulated.TruncateInt().BigInt())
					}
				}
				max := c08MaxLoan(f, ctx, totalIn, collAsset, pair.AssetOut, ltv)
				max.Sub(max, debt)
				if max.Sign() <= 0 {
					max = c08bi(int64(1000000 + cr.intn(1000000)))
				}
				outPool, _ := k.GetPool(ctx, pair.AssetOutPoolID)
				pb := bal(a, ctx, modAddr(outPool.ModuleName), f.idDenom[pair.AssetOut]).BigInt()
				aout := c08Pick(cr, []*big.Int{max, max, new(big.Int).Add(max, c08bi(1)), new(big.Int).Add(max, c08bi(1)), new(big.Int).Sub(max, c08bi(1)), new(big.Int).Add(max, c08bi(2)),
					new(big.Int).Quo(max, c08bi(2)), new(big.Int).Quo(max, c08bi(int64(2+cr.intn(6)))), new(big.Int).Quo(max, c08bi(3)), c08bi(1), pb,
					new(big.Int).Add(pb, c08bi(1)), new(big.Int).Quo(max, c08bi(2)), new(big.Int).Quo(max, c08bi(int64(2+cr.intn(6)))), new(big.Int).Quo(max, c08bi(int64(2+cr.intn(6)))),
					new(big.Int).Quo(max, c08bi(4)), new(big.Int).Quo(max, c08bi(5)), new(big.Int).Quo(max, c08bi(2))})
				dout := f.idDenom[pair.AssetOut]
				if cr.chance(3) {
					dout = f.denoms[cr.intn(4)]
				}
				stable := cr.chance(18)
				cin := sdk.NewCoin(cden, sdk.NewIntFromBigInt(ain))
				cout := sdk.NewCoin(dout, sdk.NewIntFromBigInt(aout))
				if !alt {
					e1, e2 := "0 0 0", "0 0 0"
					if k.HasBorrowForAddressByPair(ctx, us, pair.Id) {
						if bid, found := k.GetBorrowIDForAddressByPair(ctx, us, pair.Id); found {
							e1 = c08BI(f, ctx, bid)
							cc, _ := ctx.CacheContext()
							var err error
							p, _ := safely(func() { err = k.DepositBorrowAsset(cc, bid, us, cin) })
							if !p && err == nil {
								e2 = c08BI(f, cc, bid)
							}
						}
					}
					msg = lendtypes.NewMsgBorrow(us, l.ID, pair.Id, stable, cin, cout)
					line = fmt.Sprintf("borrow %d %d %d %s %d %s %d %s %s %s", un, l.ID, pair.Id, b2s(stable), f.denomID[cden], ain, f.denomID[dout], aout, e1, e2)
				} else {
					din := f.idDenom[assetID]
					if cr.chance(3) {
						din = f.denoms[cr.intn(4)]
					}
					app := f.app
					if cr.chance(3) {
						app++
					}
					ipb, e1, e2 := "0", "0 0 0", "0 0 0"
					cc, _ := ctx.CacheContext()
					if id, found := k.GetLendIDForAssetIDPoolID(ctx, us, assetID, poolID); found && k.HasLendForAddressByAsset(ctx, us, assetID, poolID) {
						ipb = c08Ipb(f, ctx, id)
						safely(func() { _ = k.DepositAsset(cc, us, id, sdk.NewCoin(din, sdk.NewIntFromBigInt(ain))) })
					}
					if k.HasBorrowForAddressByPair(cc, us, pair.Id) {
						if bid, found := k.GetBorrowIDForAddressByPair(cc, us, pair.Id); found {
							e1 = c08BI(f, cc, bid)
							var err error
							p, _ := safely(func() { err = k.DepositBorrowAsset(cc, bid, us, sdk.NewCoin(f.idDenom[rin.CAssetID], sdk.NewIntFromBigInt(ain))) })
							if !p && err == nil {
								e2 = c08BI(f, cc, bid)
							}
						}
					}
					msg = lendtypes.NewMsgBorrowAlternate(us, assetID, poolID, sdk.NewCoin(din, sdk.NewIntFromBigInt(ain)), pair.Id, stable, cout, app)
					line = fmt.Sprintf("borrowalt %d %d %d %d %s %d %s %d %s %d %s %s %s", un, assetID, poolID, f.denomID[din], ain, pair.Id, b2s(stable),
						f.denomID[dout], aout, app, ipb, e1, e2)
				}
			case kind < 65: // Repay
				b, _ := pickBorrow()
				tk, _ := k.GetBorrowInterestTracker(ctx, b.ID)
				res := c08bi(0)
				if !tk.ReservePoolInterest.IsNil() {
					res = tk.ReservePoolInterest.TruncateInt().BigInt()
				}
				in := b.InterestAccumulated.TruncateInt().BigInt()
				out := b.AmountOut.Amount.BigInt()
				all := new(big.Int).Add(out, in)
				amt := c08Pick(cr, []*big.Int{c08bi(1), res, new(big.Int).Add(res, c08bi(1)), in, new(big.Int).Add(in, c08bi(1)), all, new(big.Int).Add(all, c08bi(1)),
					new(big.Int).Sub(all, c08bi(1)), new(big.Int).Quo(all, c08bi(2)), new(big.Int).Quo(out, c08bi(int64(2+cr.intn(5)))), new(big.Int).Add(all, c08bi(int64(cr.intn(50))))})
				denom := b.AmountOut.Denom
				if cr.chance(3) {
					denom = f.denoms[cr.intn(4)]
				}
				msg = lendtypes.NewMsgRepay(us, b.ID, sdk.NewCoin(denom, sdk.NewIntFromBigInt(amt)))
				line = fmt.Sprintf("repay %d %d %d %s %s", un, b.ID, f.denomID[denom], amt, c08BI(f, ctx, b.ID))
			case kind < 71: // DepositBorrow
				b, _ := pickBorrow()
				l, _ := k.GetLend(ctx, b.LendingID)
				av := c08bi(0)
				if !l.AvailableToBorrow.IsNil() {
					av = l.AvailableToBorrow.BigInt()
				}
				amt := c08Pick(cr, []*big.Int{c08bi(1), av, new(big.Int).Add(av, c08bi(1)), new(big.Int).Quo(av, c08bi(int64(2+cr.intn(5))))})
				denom := b.AmountIn.Denom
				if cr.chance(3) {
					denom = f.denoms[4+cr.intn(4)]
				}
				msg = lendtypes.NewMsgDepositBorrow(us, b.ID, sdk.NewCoin(denom, sdk.NewIntFromBigInt(amt)))
				line = fmt.Sprintf("depositborrow %d %d %d %s %s", un, b.ID, f.denomID[denom], amt, c08BI(f, ctx, b.ID))
			case kind < 81: // Draw
				b, ok := pickBorrow()
				amt := c08bi(int64(1 + cr.intn(1000000)))
				denom := b.AmountOut.Denom
				if ok {
					pair, _ := k.GetLendPair(ctx, b.PairID)
					l, _ := k.GetLend(ctx, b.LendingID)
					rin, _ := k.GetAssetRatesParams(ctx, pair.AssetIn)
					ltv := rin.Ltv
					if pair.IsEModeEnabled {
						ltv = rin.ELtv
					}
					// interest as it will stand after IterateBorrow at this block time
					cc, _ := ctx.CacheContext()
					safely(func() { _, _, _ = k.IterateBorrow(cc, b.ID) })
					b2, _ := k.GetBorrow(cc, b.ID)
					max := c08MaxLoan(f, ctx, b.AmountIn.Amount, l.AssetID, pair.AssetOut, ltv)
					max.Sub(max, b2.AmountOut.Amount.BigInt())
					max.Sub(max, b2.InterestAccumulated.TruncateInt().BigInt())
					outPool, _ := k.GetPool(ctx, pair.AssetOutPoolID)
					pb := bal(a, ctx, modAddr(outPool.ModuleName), f.idDenom[pair.AssetOut]).BigInt()
					amt = c08Pick(cr, []*big.Int{max, new(big.Int).Add(max, c08bi(1)), new(big.Int).Sub(max, c08bi(1)), new(big.Int).Add(max, c08bi(2)),
						new(big.Int).Quo(max, c08bi(2)), new(big.Int).Quo(max, c08bi(int64(2+cr.intn(6)))), c08bi(1), pb, new(big.Int).Add(pb, c08bi(1))})
				}
				if cr.chance(3) {
					denom = f.denoms[cr.intn(4)]
				}
				msg = lendtypes.NewMsgDraw(us, b.ID, sdk.NewCoin(denom, sdk.NewIntFromBigInt(amt)))
				line = fmt.Sprintf("draw %d %d %d %s %s", un, b.ID, f.denomID[denom], amt, c08BI(f, ctx, b.ID))
			case kind < 86: // CloseBorrow
				b, _ := pickBorrow()
				msg = lendtypes.NewMsgCloseBorrow(us, b.ID)
				line = fmt.Sprintf("closeborrow %d %d %s", un, b.ID, c08BI(f, ctx, b.ID))
			case kind < 90: // CalculateInterestAndRewards: the env is measured position by position, in the order of the handler
				lids, bids := c08UserLendIDs(f, ctx, us)
				cc, _ := ctx.CacheContext()
				var sb strings.Builder
				fmt.Fprintf(&sb, "calc %d %d", un, len(bids))
				for _, id := range bids {
					fmt.Fprintf(&sb, " %s", c08BI(f, cc, id))
					safely(func() { _ = k.MsgCalculateBorrowInterest(cc, us, id) })
				}
				fmt.Fprintf(&sb, " %d", len(lids))
				stop := false
				for _, id := range lids {
					if stop {
						sb.WriteString(" 0")
						continue
					}
					fmt.Fprintf(&sb, " %s", c08Ipb(f, cc, id))
					var err error
					p, _ := safely(func() { err = k.MsgCalculateLendRewards(cc, us, id) })
					if p || err != nil {
						stop = true
					}
				}
				msg = lendtypes.NewMsgCalculateInterestAndRewards(us)
				line = sb.String()
			default: // oracle move (env)
				asset := f.assets[cr.intn(4)]
				tw, _ := a.MarketKeeper.GetTwa(ctx, asset)
				p := tw.Twa
				switch cr.intn(10) {
				case 0:
					p = p / 2
				case 1:
					p = p * 2
				case 2, 3:
					p = p * uint64(90+cr.intn(10)) / 100
				case 4, 5:
					p = p * uint64(101+cr.intn(15)) / 100
				case 6:
					p = p * 3 / 10
				case 7:
					p = p + 1
				default:
					p = p * uint64(50+cr.intn(100)) / 100
				}
				active := !cr.chance(6)
				if p == 0 && !cr.chance(30) {
					p = 1
				}
				if p > 1<<50 {
					p = 1 << 50
				}
				a.MarketKeeper.SetTwa(ctx, markettypes.TimeWeightedAverage{AssetID: asset, ScriptID: 12, Twa: p, CurrentIndex: 0,
					IsPriceActive: active, PriceValue: []uint64{p}, DiscardedHeightDiff: -1})
				if active {
					tr.p("op %d setprice %d %d ok", dt, asset, p)
				} else {
					tr.p("op %d setprice %d - ok", dt, asset)
				}
				c08Project(f, ctx, tr)
				continue
			}
			class, xerr, _ := execMsg(a, ctx, msg)
			if xerr != nil && envInt("VERIF_DEBUG", 0) == 1 {
				tr.p("# %s", strings.ReplaceAll(xerr.Error(), "\n", " "))
			}
			tr.p("op %d %s %s", dt, line, class)
			c08Project(f, ctx, tr)
		}
	}
}
