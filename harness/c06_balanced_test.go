//go:build verif

package verifharness

import (
	"fmt"
	"math/big"

	sdkmath "cosmossdk.io/math"
	sdk "github.com/cosmos/cosmos-sdk/types"

	"github.com/comdex-official/comdex/x/liquidity/amm"
	liqtypes "github.com/comdex-official/comdex/x/liquidity/types"
)

// Exactly balanced offers to amm.CreateRangedPool (C06: "a deposit never takes more of either coin than was
// offered").  The two-sided branch of CreateRangedPool first assumes all of x is accepted, computes the y that goes
// with it and switches to "accept all y, recompute x" only when that y is more than offered; the boundary between the
// two branches is the offer whose y EQUALS the computed counterpart.  The counterparts are computed with the real
// amm functions:
//
//	counterpart of x = the ay CreateRangedPool accepts next to all of x when y is abundant
//	counterpart of y = the ax CreateRangedPool accepts next to all of y when x is abundant
//
// and the offers are (x, cy-1), (x, cy), (x, cy+1) and (cx-1, y), (cx, y), (cx+1, y).

var c06Abundant = sdkmath.NewIntWithDecimal(1, 60)

// c06CounterpartY: the y the pool takes next to all of x; ok=false when the call fails or does not accept all of x
func c06CounterpartY(x sdkmath.Int, minP, maxP, initP sdkmath.LegacyDec) (cy sdkmath.Int, ok bool) {
	pan, _ := safely(func() {
		pool, err := amm.CreateRangedPool(x, c06Abundant, minP, maxP, initP)
		if err != nil {
			return
		}
		ax, ay := pool.Balances()
		if ax.Equal(x) {
			cy, ok = ay, true
		}
	})
	if pan {
		ok = false
	}
	return
}

// c06CounterpartX: the x the pool takes next to all of y
func c06CounterpartX(y sdkmath.Int, minP, maxP, initP sdkmath.LegacyDec) (cx sdkmath.Int, ok bool) {
	pan, _ := safely(func() {
		pool, err := amm.CreateRangedPool(c06Abundant, y, minP, maxP, initP)
		if err != nil {
			return
		}
		ax, ay := pool.Balances()
		if ay.Equal(y) {
			cx, ok = ax, true
		}
	})
	if pan {
		ok = false
	}
	return
}

// the six offers around the balance point of (x0, y0); offers with a non-positive amount are dropped
func c06BalancedOffers(x0, y0 sdkmath.Int, minP, maxP, initP sdkmath.LegacyDec) [][2]sdkmath.Int {
	var out [][2]sdkmath.Int
	add := func(x, y sdkmath.Int) {
		if x.IsPositive() && y.IsPositive() {
			out = append(out, [2]sdkmath.Int{x, y})
		}
	}
	if cy, ok := c06CounterpartY(x0, minP, maxP, initP); ok {
		add(x0, cy)
		add(x0, cy.SubRaw(1))
		add(x0, cy.AddRaw(1))
	}
	if cx, ok := c06CounterpartX(y0, minP, maxP, initP); ok {
		add(cx, y0)
		add(cx.SubRaw(1), y0)
		add(cx.AddRaw(1), y0)
	}
	return out
}

// price triples of the kind the keeper accepts (a few significant digits), initial price strictly inside / one step
// from either bound / at min / at max
func c06BalancedTriple(r *rng) (min, max, init *big.Int) {
	e14 := c06Pow10(14)
	ref := c06Mul(c06I(int64(1+r.intn(99999))), c06Pow10(int64(10+r.intn(12)))) // 10^-8 .. 10^8, five digits
	if r.chance(40) {
		ref = c06Mul(c06I([]int64{10000, 5000, 23450, 120, 20000}[r.intn(5)]), e14)
	}
	lo := c06Quo(c06Mul(ref, c06I(int64(100+r.intn(900)))), c06I(1000))   // 0.1 .. 1.0 of ref
	hi := c06Quo(c06Mul(ref, c06I(int64(1010+r.intn(9000)))), c06I(1000)) // 1.01 .. 10 of ref
	if r.chance(15) {
		hi = c06Mul(ref, c06Pow10(int64(1+r.intn(6))))
	}
	if lo.Cmp(c06I(1000)) < 0 {
		lo = c06I(1000)
	}
	span := new(big.Int).Sub(hi, lo)
	switch r.intn(10) {
	case 0:
		init = new(big.Int).Set(lo)
	case 1:
		init = new(big.Int).Set(hi)
	case 2:
		init = new(big.Int).Add(lo, c06Quo(span, c06I(10000)))
	case 3:
		init = new(big.Int).Sub(hi, c06Quo(span, c06I(10000)))
	case 4:
		init = new(big.Int).Sub(hi, c06Quo(span, c06I(int64(2+r.intn(2000)))))
	case 5:
		init = new(big.Int).Set(ref)
	default:
		init = new(big.Int).Add(lo, c06Quo(c06Mul(span, c06I(int64(1+r.intn(999)))), c06I(1000)))
	}
	return lo, hi, init
}

// one pure observation of CreateRangedPool inside a case:
//
//	cre <x> <y> <min> <max> <init> <ok|err|panic> <ax> <ay>
func c06ObserveCreate(tr *tracer, x, y sdkmath.Int, min, max, init *big.Int) {
	var pool *amm.RangedPool
	var err error
	pan, _ := safely(func() { pool, err = amm.CreateRangedPool(x, y, c06Dec(min), c06Dec(max), c06Dec(init)) })
	hdr := fmt.Sprintf("cre %s %s %s %s %s", x, y, min, max, init)
	switch {
	case pan:
		tr.p("%s panic 0 0", hdr)
	case err != nil:
		tr.p("%s err 0 0", hdr)
	default:
		ax, ay := pool.Balances()
		tr.p("%s ok %s %s", hdr, ax, ay)
	}
}

// a balanced case of TestC06Ranged: the pool is created from the exactly balanced offer (x0, counterpart of x0) and
// driven like every other ranged case; the other offers around both balance points are observed on their own
func c06BalancedCase(tr *tracer, r *rng, ci int) {
	min, max, init := c06BalancedTriple(r)
	if r.chance(25) {
		min, max, init = c06RandTriple(r)
	}
	x0 := c06Int(c06RandBits(r, 20+r.intn(40)))
	y0 := c06Int(c06RandBits(r, 20+r.intn(40)))
	if r.chance(30) {
		x0 = sdkmath.NewInt(int64(1000000 + r.intn(50)))
	}
	if r.chance(10) {
		x0 = c06Int(c06RandAmt(r))
	}
	offers := c06BalancedOffers(x0, y0, c06Dec(min), c06Dec(max), c06Dec(init))
	if len(offers) == 0 { // single-sided (initial price at a bound) or inadmissible: any offer
		offers = [][2]sdkmath.Int{{x0, y0}}
	}
	c06RangedCreate(tr, r, ci, offers[0][0].BigInt(), offers[0][1].BigInt(), min, max, init, 2+r.intn(4))
	for _, o := range offers[1:] {
		c06ObserveCreate(tr, o[0], o[1], min, max, init)
	}
	// the same balance points for a few neighbouring amounts (VERIF_C06_NEIGH: 1 quick, 4 thorough)
	for k := envInt("VERIF_C06_NEIGH", 1); k > 0; k-- {
		x1 := x0.AddRaw(int64(1 + r.intn(1000)))
		for _, o := range c06BalancedOffers(x1, y0.AddRaw(int64(1+r.intn(1000))), c06Dec(min), c06Dec(max), c06Dec(init)) {
			c06ObserveCreate(tr, o[0], o[1], min, max, init)
		}
	}
}

// ---------- through the keeper (TestC06Keeper) ----------

// c06BalancedRanged: MsgCreateRangedPool whose DepositCoins are an exactly balanced offer (or one unit off) for a
// tick-aligned price triple around the pair's reference price; the creator's wallet holds far more than offered.
func (w *liqWorld) c06BalancedRanged(g *rng, app uint64, p liqtypes.Pair, ref sdk.Dec) {
	prec := 4
	if params, err := w.k.GetGenericParams(w.ctx, app); err == nil {
		prec = int(params.TickPrecision)
	}
	lo := amm.PriceToDownTick(ref.Mul(sdk.NewDecWithPrec(int64(3+g.intn(7)), 1)), prec)  // 0.3 .. 0.9 of ref
	hi := amm.PriceToDownTick(ref.Mul(sdk.NewDecWithPrec(int64(11+g.intn(30)), 1)), prec) // 1.1 .. 4.0 of ref
	var init sdk.Dec
	switch g.intn(10) {
	case 0:
		init = lo
	case 1:
		init = hi
	case 2:
		init = amm.UpTick(lo, prec)
	case 3, 4:
		init = amm.DownTick(hi, prec)
	case 5:
		init = amm.PriceToDownTick(ref, prec)
	default:
		init = amm.PriceToDownTick(lo.Add(hi.Sub(lo).MulInt64(int64(1+g.intn(999))).QuoInt64(1000)), prec)
	}
	x0 := sdk.NewInt(int64(1000000 + g.intn(2000000000)))
	y0 := sdk.NewInt(int64(1000000 + g.intn(2000000000)))
	offers := c06BalancedOffers(x0, y0, lo, hi, init)
	if len(offers) == 0 {
		offers = [][2]sdkmath.Int{{x0, y0}}
	}
	// mostly the exactly balanced offers (index 0 and 3), sometimes one unit off
	o := offers[0]
	switch k := g.intn(10); {
	case k < 4:
		o = offers[0]
	case k < 8:
		o = offers[(3)%len(offers)]
	default:
		o = offers[g.intn(len(offers))]
	}
	w.opCreateRanged(app, 90, p.Id, o[0], o[1], lo, hi, init)
}
