//go:build verif

package verifharness

import (
	"fmt"
	"strings"
	"testing"

	"github.com/bandprotocol/bandchain-packet/obi"
	"github.com/bandprotocol/bandchain-packet/packet"
	abci "github.com/cometbft/cometbft/abci/types"
	sdk "github.com/cosmos/cosmos-sdk/types"
	channeltypes "github.com/cosmos/ibc-go/v7/modules/core/04-channel/types"

	assettypes "github.com/comdex-official/comdex/x/asset/types"
	"github.com/comdex-official/comdex/x/bandoracle"
	bandtypes "github.com/comdex-official/comdex/x/bandoracle/types"
	"github.com/comdex-official/comdex/x/market"
)

// TestC17Band drives the whole price pipeline of the real application block after block:
// bandoracle.BeginBlocker then market.BeginBlocker (app.go order), the IBC callbacks of the
// bandoracle module (OnAcknowledgementPacket / OnRecvPacket with real packets), the fetch-price
// proposal (ValidateBasic + handler) and asset registration, over histories with oracle outages
// around AcceptedHeightDiff and re-registrations.  After every step it dumps the bandoracle
// records and every Twa record.
func TestC17Band(t *testing.T) {
	a, base := newApp(t)
	tr := newTracer(t, "c17band.trace")
	defer tr.close()
	r := newRng(seed())
	ncases := envInt("VERIF_CASES", 120)
	only := envInt("VERIF_CASE", -1)
	ibc := bandoracle.NewIBCModule(a.BandoracleKeeper)

	const (
		opReg = iota
		opAsset
		opAck
		opResult
		opBlock
	)
	type op struct {
		kind int
		a    []int64  // reg: h script n gap; asset: req; ack: r; result: r; block: h
		u    []uint64 // result: rates; reg: n as u[0]
	}

	dump := func(ctx sdk.Context, ids []uint64) {
		k := a.BandoracleKeeper
		dd := k.GetDiscardData(ctx)
		msg := k.GetFetchPriceMsg(ctx)
		tr.p("b %d %d %d %s %d %s %s %d %d %d", k.GetLastBlockHeight(ctx), k.GetLastFetchPriceID(ctx), k.GetTempFetchPriceID(ctx),
			b2s(k.GetCheckFlag(ctx)), dd.BlockHeight, b2s(dd.DiscardBool), b2s(k.GetOracleValidationResult(ctx)),
			msg.OracleScriptID, msg.TwaBatchSize, msg.AcceptedHeightDiff)
		all := a.MarketKeeper.GetAllTwa(ctx)
		var ks strings.Builder
		seen := map[uint64]bool{}
		for _, id := range ids {
			seen[id] = true
		}
		list := append([]uint64{}, ids...)
		for _, tw := range all {
			fmt.Fprintf(&ks, " %d", tw.AssetID)
			if !seen[tw.AssetID] {
				seen[tw.AssetID] = true
				list = append(list, tw.AssetID)
			}
		}
		tr.p("t %d%s", len(all), ks.String())
		for _, id := range list {
			tw, found := a.MarketKeeper.GetTwa(ctx, id)
			var sb strings.Builder
			for _, v := range tw.PriceValue {
				fmt.Fprintf(&sb, " %d", v)
			}
			calc := "err"
			var cerr error
			if p, _ := safely(func() { _, cerr = a.MarketKeeper.CalcAssetPrice(ctx, id, sdk.NewInt(1000000)) }); p {
				calc = "panic"
			} else if cerr == nil {
				calc = "ok"
			}
			tr.p("o %d %s %s %d %d %d %d %d%s %s", id, b2s(found), b2s(tw.IsPriceActive), tw.Twa, tw.CurrentIndex,
				tw.DiscardedHeightDiff, tw.ScriptID, len(tw.PriceValue), sb.String(), calc)
		}
	}

	runCase := func(ci int, plan []op) {
		ctx, _ := base.CacheContext()
		var ids []uint64
		tr.p("case %d %d", ci, len(a.AssetKeeper.GetAssets(ctx)))
		dump(ctx, ids)
		for _, o := range plan {
			res := "ok"
			switch o.kind {
			case opReg:
				h, script, gap := o.a[0], uint64(o.a[1]), o.a[2]
				n := o.u[0]
				p := &bandtypes.FetchPriceProposal{Title: "fetch price", Description: "band feed",
					FetchPrice: bandtypes.MsgFetchPriceData{OracleScriptID: script, SourceChannel: "channel-0", AskCount: 1, MinCount: 1,
						FeeLimit: sdk.NewCoins(sdk.NewCoin("uband", sdk.NewInt(1))), TwaBatchSize: n, AcceptedHeightDiff: gap}}
				if err := p.ValidateBasic(); err != nil {
					res = "rej"
				} else {
					var herr error
					if pn, _ := safely(func() { herr = a.BandoracleKeeper.HandleProposalFetchPrice(ctx.WithBlockHeight(h), p) }); pn {
						res = "panic"
					} else if herr != nil {
						res = "err"
					}
				}
				tr.p("op reg %d %d %d %d %s", h, script, n, gap, res)
			case opAsset:
				req := o.a[0] == 1
				name := string(rune('A'+len(ids))) + "SSET"
				err := a.AssetKeeper.AddAssetRecords(ctx, assettypes.Asset{Name: name, Denom: "u" + strings.ToLower(name),
					Decimals: sdk.NewInt(1000000), IsOnChain: true, IsOraclePriceRequired: req})
				if err != nil {
					t.Fatal(err)
				}
				as, _ := a.AssetKeeper.GetAssetForDenom(ctx, "u"+strings.ToLower(name))
				ids = append(ids, as.Id)
				tr.p("op asset %d %s %s", as.Id, b2s(req), res)
			case opAck:
				// the acknowledgement of the request packet sent by FetchPrice, carrying Band's request id
				msg := a.BandoracleKeeper.GetFetchPriceMsg(ctx)
				reqData := packet.NewOracleRequestPacketData(bandtypes.FetchPriceClientIDKey, msg.OracleScriptID,
					obi.MustEncode(bandtypes.FetchPriceCallData{Symbols: []string{"ASSET"}, Multiplier: 1000000}), 1, 1,
					sdk.NewCoins(sdk.NewCoin("uband", sdk.NewInt(1))), 0, 0)
				ack := channeltypes.NewResultAcknowledgement(bandtypes.ModuleCdc.MustMarshalJSON(
					packet.NewOracleRequestPacketAcknowledgement(uint64(o.a[0]))))
				pk := channeltypes.Packet{Data: reqData.GetBytes(), SourcePort: bandtypes.PortID, SourceChannel: msg.SourceChannel}
				var aerr error
				if pn, _ := safely(func() {
					aerr = ibc.OnAcknowledgementPacket(ctx, pk, bandtypes.ModuleCdc.MustMarshalJSON(&ack), nil)
				}); pn {
					res = "panic"
				} else if aerr != nil {
					res = "err"
				}
				tr.p("op ack %d %s", o.a[0], res)
			case opResult:
				// the oracle response packet with the result of request r
				msg := a.BandoracleKeeper.GetFetchPriceMsg(ctx)
				resp := packet.OracleResponsePacketData{ClientID: bandtypes.FetchPriceClientIDKey, RequestID: uint64(o.a[0]),
					AnsCount: 1, ResolveStatus: 1, Result: obi.MustEncode(bandtypes.FetchPriceResult{Rates: o.u})}
				pk := channeltypes.Packet{Data: bandtypes.ModuleCdc.MustMarshalJSON(&resp), DestinationPort: bandtypes.PortID,
					DestinationChannel: msg.SourceChannel}
				if pn, _ := safely(func() {
					if ak := ibc.OnRecvPacket(ctx, pk, nil); ak == nil || !ak.Success() {
						res = "err"
					}
				}); pn {
					res = "panic"
				}
				var rs strings.Builder
				for _, x := range o.u {
					fmt.Fprintf(&rs, " %d", x)
				}
				tr.p("op result %d %d%s %s", o.a[0], len(o.u), rs.String(), res)
			case opBlock:
				h := o.a[0]
				if pn, _ := safely(func() {
					bctx := ctx.WithBlockHeight(h)
					bandoracle.BeginBlocker(bctx, abci.RequestBeginBlock{}, a.BandoracleKeeper)
					market.BeginBlocker(bctx, abci.RequestBeginBlock{}, a.MarketKeeper, a.BandoracleKeeper, a.AssetKeeper)
				}); pn {
					res = "panic"
				}
				tr.p("op blk %d %s", h, res)
			}
			if res == "panic" {
				return
			}
			dump(ctx, ids)
		}
	}

	// ---- plan builders
	type feed struct {
		plan   []op
		h      int64 // height of the last 20-block round
		nextID int64
		na     int
	}
	block := func(f *feed, h int64) { f.plan = append(f.plan, op{kind: opBlock, a: []int64{h}}) }
	reg := func(f *feed, h int64, script int64, n uint64, gap int64) {
		f.plan = append(f.plan, op{kind: opReg, a: []int64{h, script, gap}, u: []uint64{n}})
	}
	asset := func(f *feed, req bool) {
		v := int64(0)
		if req {
			v = 1
		}
		f.plan = append(f.plan, op{kind: opAsset, a: []int64{v}})
		f.na++
	}
	// one 20-block round; rates == nil: the oracle stays silent
	round := func(f *feed, rates []uint64) {
		f.h += 20
		if rates != nil {
			f.nextID++
			f.plan = append(f.plan, op{kind: opAck, a: []int64{f.nextID}})
			f.plan = append(f.plan, op{kind: opResult, a: []int64{f.nextID}, u: rates})
		}
		block(f, f.h)
	}
	same := func(na int, v uint64) []uint64 {
		out := make([]uint64, na)
		for i := range out {
			out[i] = v + uint64(i)
		}
		return out
	}

	var corpus [][]op
	// outages of AcceptedHeightDiff-20, exactly AcceptedHeightDiff, AcceptedHeightDiff+20 blocks
	// (measured as the code does: first silent check to the first answered check)
	for _, gap := range []int64{40, 60} {
		for _, n := range []uint64{1, 2, 3} {
			for d := int64(-1); d <= 1; d++ {
				f := &feed{}
				asset(f, true)
				asset(f, true)
				reg(f, 1, 7, n, gap)
				round(f, nil) // first request goes out
				for i := uint64(0); i <= n; i++ {
					round(f, same(2, 1000000+1000000*i))
				}
				silent := gap/20 + d // h1 - h0 = 20 * silent
				for i := int64(0); i < silent; i++ {
					round(f, nil)
				}
				for i := uint64(0); i <= n; i++ {
					round(f, same(2, 9000000+2000000*i))
				}
				corpus = append(corpus, f.plan)
			}
		}
	}
	// several outages in one history, a gap that is not a multiple of 20, blocks between the rounds
	{
		f := &feed{}
		asset(f, true)
		reg(f, 5, 7, 2, 41)
		round(f, nil)
		for _, s := range []int{1, 2, 3, 2} {
			for i := 0; i < 3; i++ {
				round(f, []uint64{uint64(500 + 10*i)})
				block(f, f.h+7)
			}
			for i := 0; i < s; i++ {
				round(f, nil)
				block(f, f.h+1)
			}
		}
		round(f, []uint64{900})
		round(f, []uint64{901})
		corpus = append(corpus, f.plan)
	}
	// re-registration: same script with a larger / smaller / equal window, another script,
	// a changed AcceptedHeightDiff followed by an outage measured against the new value
	for _, c := range []struct {
		n1, n2   uint64
		s1, s2   int64
		gap1, gap2 int64
	}{{1, 3, 7, 7, 60, 60}, {3, 2, 7, 7, 60, 60}, {2, 2, 7, 7, 60, 60}, {2, 3, 7, 8, 60, 60}, {2, 2, 7, 7, 40, 80}, {2, 2, 7, 9, 80, 40}} {
		f := &feed{}
		asset(f, true)
		reg(f, 1, c.s1, c.n1, c.gap1)
		round(f, nil)
		for i := uint64(0); i <= c.n1; i++ {
			round(f, []uint64{2000000 + i})
		}
		reg(f, f.h+10, c.s2, c.n2, c.gap2)
		round(f, nil)
		for i := uint64(0); i <= c.n2; i++ {
			round(f, []uint64{3000000 + 1000000*i})
		}
		for i := int64(0); i < c.gap2/20; i++ { // an outage of exactly the new accepted gap
			round(f, nil)
		}
		for i := uint64(0); i <= c.n2; i++ {
			round(f, []uint64{7000000 + 1000000*i})
		}
		reg(f, f.h+3, c.s2, 0, c.gap2) // rejected by ValidateBasic
		round(f, []uint64{5})
		corpus = append(corpus, f.plan)
	}
	// registration while nothing is set, asset added mid-history (check flag reset), late result
	{
		f := &feed{}
		block(f, 20)
		block(f, 33)
		asset(f, true)
		reg(f, 40, 7, 2, 40)
		f.h = 40
		round(f, nil)
		round(f, []uint64{11})
		round(f, []uint64{13})
		asset(f, true)
		round(f, []uint64{15, 100})
		round(f, []uint64{17, 102})
		round(f, []uint64{19, 104})
		f.nextID++
		f.plan = append(f.plan, op{kind: opAck, a: []int64{f.nextID}}) // acknowledged, result late
		f.h += 20
		block(f, f.h)
		f.plan = append(f.plan, op{kind: opResult, a: []int64{f.nextID}, u: []uint64{21, 106}})
		f.h += 20
		block(f, f.h)
		round(f, []uint64{23, 108})
		round(f, []uint64{0, 110})
		round(f, []uint64{25, 0})
		round(f, []uint64{27, 112})
		corpus = append(corpus, f.plan)
	}

	// check-flag reset during an outage (regression for C17-F4): an asset is added while the oracle
	// is silent; the first check after it used to set the temp id to 0, so the second one took the
	// old acknowledged request for a new one and delivered its already consumed result once more.
	// With the repaired hook (temp id = last acknowledged id) the second check stays silent.
	for _, n := range []uint64{1, 2} {
		f := &feed{}
		asset(f, true)
		reg(f, 1, 7, n, 40)
		round(f, nil)
		round(f, []uint64{1000000})
		round(f, []uint64{3000000})
		round(f, nil)
		round(f, nil)
		asset(f, true)
		round(f, nil)
		round(f, nil)
		round(f, nil)
		round(f, []uint64{5000000, 7})
		round(f, []uint64{6000000, 8})
		corpus = append(corpus, f.plan)
	}

	alphabet := []uint64{1, 2, 7, 1000000, 1000001, 1 << 63, ^uint64(0), 1<<63 - 1, 1 << 62}
	ci := 0
	for _, plan := range corpus {
		if only < 0 || only == ci {
			runCase(ci, plan)
		}
		ci++
	}
	ncases += len(corpus)
	for ; ci < ncases; ci++ {
		// draw every parameter first so that VERIF_CASE replays exactly
		f := &feed{}
		na0 := 1 + r.intn(3)
		for i := 0; i < na0; i++ {
			asset(f, r.chance(85))
		}
		if r.chance(10) {
			block(f, 20) // hooks before any registration
			f.h = 20
		}
		n := r.pickU(1, 2, 2, 3, 3, 4, 5)
		gap := r.pickI(20, 40, 40, 41, 60, 60, 100, 0, -5, 39)
		script := int64(7 + r.intn(2))
		reg(f, f.h+int64(1+r.intn(19)), script, n, gap)
		small := uint64(1 + r.intn(50))
		pick := func() uint64 {
			switch r.intn(12) {
			case 0:
				return 0
			case 1:
				return alphabet[r.intn(len(alphabet))]
			case 2:
				return small
			default:
				return uint64(1 + r.intn(2000000))
			}
		}
		rates := func() []uint64 {
			k := f.na
			if r.chance(12) {
				k = r.intn(f.na + 2)
			}
			out := make([]uint64, k)
			for i := range out {
				out[i] = pick()
			}
			return out
		}
		nrounds := 8 + r.intn(30)
		var late *op
		for i := 0; i < nrounds; {
			switch x := r.intn(100); {
			case x < 14: // an outage around the accepted gap
				s := int(gap/20) + r.intn(3) - 1
				if r.chance(25) {
					s = 1 + r.intn(6)
				}
				if s < 1 {
					s = 1
				}
				for j := 0; j < s; j++ {
					round(f, nil)
					if r.chance(15) {
						block(f, f.h+int64(1+r.intn(19)))
					}
				}
				i += s
			case x < 20: // re-registration
				if r.chance(50) {
					n = r.pickU(1, 2, 3, 4, 0)
				}
				if r.chance(50) {
					gap = r.pickI(20, 40, 41, 60, 100)
				}
				if r.chance(40) {
					script = int64(7 + r.intn(3))
				}
				reg(f, f.h+int64(r.intn(20)), script, n, gap)
				if n == 0 { // rejected: the stored configuration stays
					n = 2
					reg(f, f.h+int64(r.intn(20)), script, n, gap)
				}
				i++
			case x < 25:
				asset(f, r.chance(80))
				i++
			case x < 31: // acknowledged now, the result arrives after the next check
				f.nextID++
				f.plan = append(f.plan, op{kind: opAck, a: []int64{f.nextID}})
				late = &op{kind: opResult, a: []int64{f.nextID}, u: rates()}
				f.h += 20
				block(f, f.h)
				f.plan = append(f.plan, *late)
				i++
			default:
				round(f, rates())
				if r.chance(10) {
					block(f, f.h+int64(1+r.intn(19)))
				}
				i++
			}
		}
		if only >= 0 && ci != only {
			continue
		}
		runCase(ci, f.plan)
	}
}
