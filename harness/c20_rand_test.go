//go:build verif

package verifharness

// C20: the "any subsequent sequence of transactions and blocks" part of the property.  After the fixed
// continuation of TestC20, a random sequence of user messages and block hooks (vault, locker, liquidity,
// asset, the liquidation V1 sweep and the auction V1 hook, with time passing and prices moving) is run
// on the original and on the re-imported chain; result class, the ids each chain hands out and the
// balance changes of every step are compared.
//
// A step is attributed to the (module, prefix) whose round trip it observes.  Operations address the
// objects of a user through that chain's own lookup tables (the vault / locker a user owns), so a
// re-issued id alone does not make later steps differ.  Where a KNOWN hole is observably active - the
// two chains' id counters differ, the sweep offsets differ, an earlier sweep liquidated different
// vaults - the step is attributed to that hole; otherwise to a prefix that is in no class, so that a
// difference is a violation.

import (
	"fmt"
	"sort"
	"strings"
	"time"

	abci "github.com/cometbft/cometbft/abci/types"
	sdk "github.com/cosmos/cosmos-sdk/types"

	assettypes "github.com/comdex-official/comdex/x/asset/types"
	"github.com/comdex-official/comdex/x/auction"
	"github.com/comdex-official/comdex/x/liquidation"
	liquidationtypes "github.com/comdex-official/comdex/x/liquidation/types"
	"github.com/comdex-official/comdex/x/liquidity"
	liquiditytypes "github.com/comdex-official/comdex/x/liquidity/types"
	lockertypes "github.com/comdex-official/comdex/x/locker/types"
	vaulttypes "github.com/comdex-official/comdex/x/vault/types"
)

const c20RandPlanLen = 80

type c20RandOp struct{ kind, user, ep, amtClass, aux int }

// every case draws a plan of the same length, whatever part of it the tier executes
func c20DrawRandPlan(r *rng) []c20RandOp {
	plan := make([]c20RandOp, c20RandPlanLen)
	for i := range plan {
		plan[i] = c20RandOp{kind: r.intn(100), user: r.intn(8), ep: r.intn(2), amtClass: r.intn(5), aux: r.intn(1000)}
	}
	return plan
}

type c20DynStep struct {
	name    string
	dep     func(orig, reimp sdk.Context) (string, int)
	run     func(ctx sdk.Context) string
	id      func(ctx sdk.Context) uint64
	advance time.Duration // > 0: both chains move to a later block (no message)
	sweep   bool          // after it, compare which vaults exist on the two chains
}

type c20RandState struct {
	sweepDiverged bool
	cmdxPrice     uint64
	assetN        int
}

// which positions are open (by owner and extended pair, not by id: a re-issued id is another finding)
func c20VaultIDs(w *c20World, ctx sdk.Context) string {
	var xs []string
	for _, v := range w.a.VaultKeeper.GetVaults(ctx) {
		xs = append(xs, fmt.Sprintf("%s/%d", v.Owner, v.ExtendedPairVaultID))
	}
	sort.Strings(xs)
	return strings.Join(xs, ",")
}

func c20RandSteps(w *c20World, sc c20Scenario, plan []c20RandOp, n int, st *c20RandState) []c20DynStep {
	a := w.a
	u := w.users
	none := func(ctx sdk.Context) uint64 { return 0 }
	eps := []uint64{w.epA, w.epB}
	offset := func(ctx sdk.Context) uint64 {
		h, _ := a.LiquidationKeeper.GetLiquidationOffsetHolder(ctx, w.app1, liquidationtypes.VaultLiquidationsOffsetPrefix)
		return h.CurrentOffset
	}
	vaultDep := func(o, r sdk.Context) (string, int) {
		switch {
		case st.sweepDiverged:
			return "liquidation", 22
		case a.VaultKeeper.GetIDForVault(o) != a.VaultKeeper.GetIDForVault(r):
			return "vault", 21
		}
		return "vault", 16
	}
	lockerDep := func(o, r sdk.Context) (string, int) {
		if a.LockerKeeper.GetIDForLocker(o) != a.LockerKeeper.GetIDForLocker(r) {
			return "locker", 23
		}
		return "locker", 21
	}
	sweepDep := func(o, r sdk.Context) (string, int) {
		if st.sweepDiverged || offset(o) != offset(r) {
			return "liquidation", 22
		}
		return "liquidation", 17
	}
	downstream := func(m string, b int) func(o, r sdk.Context) (string, int) {
		return func(o, r sdk.Context) (string, int) {
			if st.sweepDiverged {
				return "liquidation", 22
			}
			return m, b
		}
	}
	fixed := func(m string, b int) func(o, r sdk.Context) (string, int) {
		return func(o, r sdk.Context) (string, int) { return m, b }
	}
	vid := func(ctx sdk.Context, user int, ep uint64) uint64 {
		m, ok := a.VaultKeeper.GetUserAppExtendedPairMappingData(ctx, u[user].String(), w.app1, ep)
		if !ok {
			return 0
		}
		return m.VaultId
	}
	lid := func(ctx sdk.Context, user int) uint64 {
		m, ok := a.LockerKeeper.GetUserLockerAssetMapping(ctx, u[user].String(), w.app1, w.cmst)
		if !ok {
			return 0
		}
		return m.LockerId
	}
	amount := func(op c20RandOp) sdk.Int {
		switch op.amtClass {
		case 0:
			return sdk.NewInt(sc.amt)
		case 1:
			return sdk.NewInt(sc.amt / 3)
		case 2:
			return sdk.NewInt(sc.amt * 7)
		case 3:
			return sdk.NewInt(int64(1 + op.aux))
		}
		return sdk.NewInt(sc.amt * 400) // too much for most positions
	}
	exec := func(mk func(ctx sdk.Context) sdk.Msg) func(ctx sdk.Context) string {
		return func(ctx sdk.Context) string { c, _, _ := execMsg(a, ctx, mk(ctx)); return c }
	}
	vaultCounter := func(ctx sdk.Context) uint64 { return a.VaultKeeper.GetIDForVault(ctx) }
	lockerCounter := func(ctx sdk.Context) uint64 { return a.LockerKeeper.GetIDForLocker(ctx) }

	var steps []c20DynStep
	for i := 0; i < n && i < len(plan); i++ {
		op := plan[i]
		amt := amount(op)
		ep := eps[op.ep]
		k := op.kind
		switch {
		case k < 8:
			steps = append(steps, c20DynStep{name: "r.vault.create", dep: vaultDep, id: vaultCounter,
				run: exec(func(ctx sdk.Context) sdk.Msg {
					return vaulttypes.NewMsgCreateRequest(u[op.user], w.app1, ep, sdk.NewInt(sc.amt*100+int64(op.aux)), sdk.NewInt(sc.amt*20))
				})})
		case k < 15:
			steps = append(steps, c20DynStep{name: "r.vault.deposit", dep: vaultDep, id: none,
				run: exec(func(ctx sdk.Context) sdk.Msg {
					return vaulttypes.NewMsgDepositRequest(u[op.user], w.app1, ep, vid(ctx, op.user, ep), amt)
				})})
		case k < 22:
			steps = append(steps, c20DynStep{name: "r.vault.draw", dep: vaultDep, id: none,
				run: exec(func(ctx sdk.Context) sdk.Msg {
					return vaulttypes.NewMsgDrawRequest(u[op.user], w.app1, ep, vid(ctx, op.user, ep), amt)
				})})
		case k < 27:
			steps = append(steps, c20DynStep{name: "r.vault.repay", dep: vaultDep, id: none,
				run: exec(func(ctx sdk.Context) sdk.Msg {
					return vaulttypes.NewMsgRepayRequest(u[op.user], w.app1, ep, vid(ctx, op.user, ep), amt)
				})})
		case k < 32:
			steps = append(steps, c20DynStep{name: "r.vault.withdraw", dep: vaultDep, id: none,
				run: exec(func(ctx sdk.Context) sdk.Msg {
					return vaulttypes.NewMsgWithdrawRequest(u[op.user], w.app1, ep, vid(ctx, op.user, ep), amt)
				})})
		case k < 35:
			steps = append(steps, c20DynStep{name: "r.vault.close", dep: vaultDep, id: func(ctx sdk.Context) uint64 { return a.VaultKeeper.GetLengthOfVault(ctx) },
				run: exec(func(ctx sdk.Context) sdk.Msg {
					return &vaulttypes.MsgCloseRequest{From: u[op.user].String(), AppId: w.app1, ExtendedPairVaultId: ep, UserVaultId: vid(ctx, op.user, ep)}
				})})
		case k < 40:
			if sc.nLockers == 0 {
				continue
			}
			steps = append(steps, c20DynStep{name: "r.locker.create", dep: lockerDep, id: lockerCounter,
				run: exec(func(ctx sdk.Context) sdk.Msg {
					return lockertypes.NewMsgCreateLockerRequest(u[op.user].String(), amt, w.cmst, w.app1)
				})})
		case k < 46:
			if sc.nLockers == 0 {
				continue
			}
			steps = append(steps, c20DynStep{name: "r.locker.deposit", dep: lockerDep, id: none,
				run: exec(func(ctx sdk.Context) sdk.Msg {
					return lockertypes.NewMsgDepositAssetRequest(u[op.user].String(), lid(ctx, op.user), amt, w.cmst, w.app1)
				})})
		case k < 51:
			if sc.nLockers == 0 {
				continue
			}
			steps = append(steps, c20DynStep{name: "r.locker.withdraw", dep: lockerDep, id: none,
				run: exec(func(ctx sdk.Context) sdk.Msg {
					return lockertypes.NewMsgWithdrawAssetRequest(u[op.user].String(), lid(ctx, op.user), amt, w.cmst, w.app1)
				})})
		case k < 53:
			if sc.nLockers == 0 {
				continue
			}
			steps = append(steps, c20DynStep{name: "r.locker.close", dep: lockerDep, id: none,
				run: exec(func(ctx sdk.Context) sdk.Msg {
					return lockertypes.NewMsgCloseLockerRequest(u[op.user].String(), w.app1, w.cmst, lid(ctx, op.user))
				})})
		case k < 63:
			if !sc.withLiquidity {
				continue
			}
			dir, offer, demand := liquiditytypes.OrderDirectionBuy, "ucmst", "ucmdx"
			price := sdk.NewDecWithPrec(180+int64(op.aux%40), 2)
			offerAmt := sdk.NewInt(3000000)
			if op.ep == 1 {
				dir, offer, demand = liquiditytypes.OrderDirectionSell, "ucmdx", "ucmst"
				offerAmt = sdk.NewInt(1000000)
			}
			steps = append(steps, c20DynStep{name: "r.liquidity.order", dep: fixed("liquidity", 178),
				id: func(ctx sdk.Context) uint64 {
					p, _ := a.LiquidityKeeper.GetPair(ctx, w.app1, w.liqPair)
					return p.LastOrderId
				},
				run: exec(func(ctx sdk.Context) sdk.Msg {
					return liquiditytypes.NewMsgLimitOrder(w.app1, u[op.user], w.liqPair, dir, sdk.NewCoin(offer, offerAmt), demand, price, sdk.NewInt(1000000), time.Hour)
				})})
		case k < 67:
			if !sc.withLiquidity {
				continue
			}
			steps = append(steps, c20DynStep{name: "r.liquidity.deposit", dep: fixed("liquidity", 168),
				id: func(ctx sdk.Context) uint64 {
					p, _ := a.LiquidityKeeper.GetPool(ctx, w.app1, w.liqPool)
					return p.LastDepositRequestId
				},
				run: exec(func(ctx sdk.Context) sdk.Msg {
					return liquiditytypes.NewMsgDeposit(w.app1, u[op.user], w.liqPool, sdk.NewCoins(sdk.NewCoin("ucmdx", amt), sdk.NewCoin("ucmst", amt.MulRaw(2))))
				})})
		case k < 70:
			if !sc.withLiquidity {
				continue
			}
			steps = append(steps, c20DynStep{name: "r.liquidity.withdraw", dep: fixed("liquidity", 176),
				id: func(ctx sdk.Context) uint64 {
					p, _ := a.LiquidityKeeper.GetPool(ctx, w.app1, w.liqPool)
					return p.LastWithdrawRequestId
				},
				run: exec(func(ctx sdk.Context) sdk.Msg {
					pool, _ := a.LiquidityKeeper.GetPool(ctx, w.app1, w.liqPool)
					have := a.BankKeeper.GetBalance(ctx, u[op.user], pool.PoolCoinDenom)
					return liquiditytypes.NewMsgWithdraw(w.app1, u[op.user], w.liqPool, sdk.NewCoin(pool.PoolCoinDenom, have.Amount.QuoRaw(2).AddRaw(1)))
				})})
		case k < 74:
			if !sc.withLiquidity {
				continue
			}
			steps = append(steps, c20DynStep{name: "r.liquidity.cancel", dep: fixed("liquidity", 179), id: none,
				run: exec(func(ctx sdk.Context) sdk.Msg {
					p, _ := a.LiquidityKeeper.GetPair(ctx, w.app1, w.liqPair)
					oid := uint64(1)
					if p.LastOrderId > 0 {
						oid = 1 + uint64(op.aux)%p.LastOrderId
					}
					return liquiditytypes.NewMsgCancelOrder(w.app1, u[op.user], w.liqPair, oid)
				})})
		case k < 80:
			if !sc.withLiquidity {
				continue
			}
			steps = append(steps, c20DynStep{name: "r.liquidity.endblock", dep: fixed("liquidity", 178),
				id: func(ctx sdk.Context) uint64 { return uint64(len(a.LiquidityKeeper.GetAllOrders(ctx, w.app1))) },
				run: func(ctx sdk.Context) string {
					if p, _ := safely(func() { liquidity.EndBlocker(ctx, a.LiquidityKeeper, a.AssetKeeper) }); p {
						return "panic"
					}
					return "ok"
				}})
		case k < 85:
			steps = append(steps, c20DynStep{name: "r.block", advance: time.Duration(6+op.aux%600) * time.Second})
		case k < 89:
			// the collateral price moves (an oracle input: the same on both chains); low values make
			// the vaults of the first extended pair liquidatable
			prices := []uint64{2000000, 1000000, 260000, 240000, 3000000}
			p := prices[op.amtClass%len(prices)]
			steps = append(steps, c20DynStep{name: "r.price", dep: fixed("market", 36),
				id:  func(ctx sdk.Context) uint64 { x, _ := a.MarketKeeper.GetLatestPrice(ctx, w.cmdx); return x },
				run: func(ctx sdk.Context) string { setPrice(a, ctx, w.cmdx, p, true); return "ok" }})
		case k < 94:
			if !sc.withLiqSweep {
				continue
			}
			steps = append(steps, c20DynStep{name: "r.liquidation.sweep", dep: sweepDep, sweep: true,
				id: func(ctx sdk.Context) uint64 {
					return c20Hash([]byte(fmt.Sprintf("%s/%d", c20VaultIDs(w, ctx), a.LiquidationKeeper.GetLockedVaultID(ctx))))
				},
				run: func(ctx sdk.Context) string {
					if p, _ := safely(func() { liquidation.BeginBlocker(ctx, abci.RequestBeginBlock{}, a.LiquidationKeeper) }); p {
						return "panic"
					}
					return "ok"
				}})
		case k < 97:
			if !sc.withLiqSweep {
				continue
			}
			steps = append(steps, c20DynStep{name: "r.auction.beginblock", dep: downstream("auction", 17),
				id: func(ctx sdk.Context) uint64 { return a.AuctionKeeper.GetAuctionID(ctx) },
				run: func(ctx sdk.Context) string {
					if p, _ := safely(func() { auction.BeginBlocker(ctx, a.AuctionKeeper, a.AssetKeeper, a.CollectorKeeper, a.EsmKeeper) }); p {
						return "panic"
					}
					return "ok"
				}})
		case k < 99:
			st.assetN++
			name := fmt.Sprintf("RND%d", st.assetN)
			steps = append(steps, c20DynStep{name: "r.asset.add", dep: fixed("asset", 1),
				id: func(ctx sdk.Context) uint64 { return a.AssetKeeper.GetAssetID(ctx) },
				run: c20Keeper(func(ctx sdk.Context) error {
					return a.AssetKeeper.AddAssetRecords(ctx, assettypes.Asset{Name: name, Denom: "u" + name, Decimals: sdk.NewInt(1000000), IsOnChain: true})
				})})
		default:
			// (locker deposits / withdrawals pay the accrued locker reward out of the net fees: once the
			// reset locker id counter makes them fail on the re-imported chain, the net fees differ too)
			steps = append(steps, c20DynStep{name: "r.collector.net-fee", dep: func(o, r sdk.Context) (string, int) {
				if m, b := lockerDep(o, r); b == 23 && !st.sweepDiverged {
					return m, b
				}
				return downstream("collector", 8)(o, r)
			},
				run: func(ctx sdk.Context) string { return "ok" },
				id: func(ctx sdk.Context) uint64 {
					d, ok := a.CollectorKeeper.GetNetFeeCollectedData(ctx, w.app1, w.cmst)
					if !ok || d.NetFeesCollected.IsNil() {
						return 0
					}
					return d.NetFeesCollected.Uint64()
				}})
		}
	}
	return steps
}

// run the random continuation on both chains; returns the number of steps written
func c20RunRandom(w *c20World, sc c20Scenario, plan []c20RandOp, n int, orig, reimp sdk.Context, tr *tracer, first int) int {
	st := &c20RandState{}
	steps := c20RandSteps(w, sc, plan, n, st)
	for i, s := range steps {
		if s.advance > 0 {
			orig = orig.WithBlockHeight(orig.BlockHeight() + 1).WithBlockTime(orig.BlockTime().Add(s.advance))
			reimp = reimp.WithBlockHeight(reimp.BlockHeight() + 1).WithBlockTime(reimp.BlockTime().Add(s.advance))
			tr.p("cont %d %s - 0 ok ok %d %d 0 0", first+i, s.name, orig.BlockHeight(), reimp.BlockHeight())
			continue
		}
		dm, db := s.dep(orig, reimp)
		bo, bn := c20Balances(w, orig), c20Balances(w, reimp)
		co := s.run(orig)
		cn := s.run(reimp)
		if s.sweep && dm == "liquidation" && db == 22 && c20VaultIDs(w, orig) != c20VaultIDs(w, reimp) {
			// the sweep started from different offsets (not exported: C20-F6) and liquidated different vaults
			st.sweepDiverged = true
		}
		tr.p("cont %d %s %s %d %s %s %d %d %d %d", first+i, s.name, dm, db, co, cn, s.id(orig), s.id(reimp),
			c20BalDelta(bo, c20Balances(w, orig)), c20BalDelta(bn, c20Balances(w, reimp)))
	}
	return len(steps)
}
