//go:build verif

package verifharness

// C15, case family (i-b): histories of the UNWRAPPED market begin-block hook.  The environment cases run
// every hook once on prepared states; the market hook's only unwrapped work is the price-window update
// (UpdatePriceList / CalculateTwa), whose index arithmetic depends on the HISTORY of oracle answers:
// windows of size 1..4, answers that go to zero for fewer / exactly / more blocks than the accepted gap
// while the ring index stands anywhere in the window, a refill afterwards, answer lists that are
// shorter or longer than the list of priced assets, a discard request of the band oracle in between.
// Every block is one "hook market.BeginBlocker ..." line; a panic is a violation of C15 (the hook is
// not wrapped, the chain would halt).  The window model itself is C17's (Market.mrun; C15's theorem
// c15_unwrapped_total_partial quotes it and TieC17.v ties it to the source).

import (
	"fmt"
	"strings"
	"testing"
	"time"

	abci "github.com/cometbft/cometbft/abci/types"
	sdk "github.com/cosmos/cosmos-sdk/types"

	chain "github.com/comdex-official/comdex/app"
	bandtypes "github.com/comdex-official/comdex/x/bandoracle/types"
	"github.com/comdex-official/comdex/x/market"
	markettypes "github.com/comdex-official/comdex/x/market/types"
)

func c15MarketHistories(t *testing.T, a *chain.App, st sdk.Context, tr *tracer, r *rng, ci *int, only int, thorough bool) {
	cases := 24
	if thorough {
		cases = 400
	}
	for k := 0; k < cases; k++ {
		sub := newRng(r.next())
		if only >= 0 && only != *ci {
			*ci++
			continue
		}
		ctx, _ := st.CacheContext()
		n := uint64(1 + sub.intn(4))
		gap := []int64{0, 20, 40, 60}[sub.intn(4)]
		a.BandoracleKeeper.SetFetchPriceMsg(ctx, bandtypes.MsgFetchPriceData{OracleScriptID: 12, TwaBatchSize: n, AcceptedHeightDiff: gap,
			FeeLimit: sdk.NewCoins(sdk.NewCoin("uband", sdk.NewInt(1)))})
		a.BandoracleKeeper.SetOracleValidationResult(ctx, true)
		a.BandoracleKeeper.SetLastFetchPriceID(ctx, 5)
		// the state after a discard: empty, inactive windows (the fixture writes one-sample windows directly)
		priced := 0
		for _, as := range a.AssetKeeper.GetAssets(ctx) {
			if as.IsOraclePriceRequired {
				priced++
			}
			if tw, found := a.MarketKeeper.GetTwa(ctx, as.Id); found {
				tw.IsPriceActive, tw.CurrentIndex, tw.PriceValue, tw.Twa = false, 0, nil, 0
				tw.DiscardedHeightDiff = -1
				a.MarketKeeper.SetTwa(ctx, tw)
			}
		}
		// the plan: fill + k extra, a zero run, refill, then a random tail
		var plan []int // 0 = zero answers, 1 = good answers, 2 = good answers with a discard request, 3 = short list, 4 = long list
		for i := 0; i < int(n)+sub.intn(int(n)+1); i++ {
			plan = append(plan, 1)
		}
		for i := 0; i < 1+sub.intn(5); i++ {
			plan = append(plan, 0)
		}
		for i := 0; i < int(n)+2; i++ {
			plan = append(plan, 1)
		}
		for i := 0; i < 6+sub.intn(10); i++ {
			switch x := sub.intn(100); {
			case x < 30:
				plan = append(plan, 0)
			case x < 80:
				plan = append(plan, 1)
			case x < 86:
				plan = append(plan, 2)
			case x < 93:
				plan = append(plan, 3)
			default:
				plan = append(plan, 4)
			}
		}
		tr.p("case %d env mkt none history_n=%d_gap=%d_priced=%d_blocks=%d", *ci, n, gap, priced, len(plan))
		h := int64(20)
		for _, what := range plan {
			h += 20
			m := priced
			if what == 3 && m > 0 {
				m--
			}
			if what == 4 {
				m++
			}
			rates := make([]uint64, m)
			for i := range rates {
				if what != 0 {
					rates[i] = uint64(1000000 + sub.intn(5000000))
				} else if sub.chance(15) {
					rates[i] = uint64(1000000 + sub.intn(5000000)) // one asset keeps answering
				}
			}
			a.BandoracleKeeper.SetLastBlockHeight(ctx, h-1)
			a.BandoracleKeeper.SetDiscardData(ctx, bandtypes.DiscardData{BlockHeight: -1, DiscardBool: what == 2})
			a.BandoracleKeeper.SetFetchPriceResult(ctx, 5, bandtypes.FetchPriceResult{Rates: rates})
			hctx := ctx.WithBlockHeight(h).WithBlockTime(baseTime.Add(time.Duration(h) * 6 * time.Second))
			d0 := storeDigest(a, hctx, markettypes.StoreKey)
			panicked, msg, at := c15Safely(func() {
				market.BeginBlocker(hctx, abci.RequestBeginBlock{}, a.MarketKeeper, a.BandoracleKeeper, a.AssetKeeper)
			})
			class, changed := "ok", "0"
			if panicked {
				class = "panic"
				msg = strings.Map(func(c rune) rune {
					if c == ' ' || c == '\n' || c == '\t' {
						return '_'
					}
					return c
				}, msg)
				if len(msg) > 90 {
					msg = msg[:90]
				}
			} else if storeDigest(a, hctx, markettypes.StoreKey) != d0 {
				changed = "1"
			}
			tr.p("hook market.BeginBlocker %s %s %s %s", class, changed, at, fmt.Sprintf("h=%d_%s", h, msg))
			if panicked {
				break
			}
		}
		*ci++
	}
}
