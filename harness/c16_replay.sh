#!/bin/sh
# C16: the same seeded workload in 2 fresh in-process applications and in 3 fresh processes with
# different GOMAXPROCS; the traces are concatenated into $VERIF_OUT for the C16 runner.
set -e
ROOT=${VERIF_ROOT:-$(cd "$(dirname "$0")/.." && pwd)}
BIN="$ROOT/work/harness.test"
OUT=${VERIF_OUT:-$ROOT/work/c16.trace}
TMP="$OUT.part"
: > "$OUT"
run() { # label gomaxprocs replays
  VERIF_OUT="$TMP" VERIF_C16_LABEL="$1" VERIF_C16_REPLAYS="$3" GOMAXPROCS="$2" "$BIN" -test.run '^TestC16$' -test.timeout 1h >/dev/null 2>"$TMP.err" || { cat "$TMP.err" >&2; exit 1; }
  cat "$TMP" >> "$OUT"
}
run inproc 4 2
run proc1 1 1
run proc2 2 1
run proc8 8 1
rm -f "$TMP" "$TMP.err"
