#!/bin/sh
# C16: the same seeded workload in 2 fresh in-process applications and in 4 fresh processes:
#   proc1  GOMAXPROCS=1  TZ=UTC
#   proc2  GOMAXPROCS=2  TZ=America/New_York   (the block times cross its daylight-saving switch)
#   proc8  GOMAXPROCS=8  TZ=Asia/Tokyo
#   dry    GOMAXPROCS=4  TZ unset, VERIF_C16_DRYRUN=1: every transaction is preceded by discarded dry runs
# (Go reads TZ once at start-up; the harness embeds time/tzdata, so the zones resolve on any host.)
# The processes run side by side; the traces are concatenated in a fixed order into $VERIF_OUT for
# the C16 runner.
ROOT=${VERIF_ROOT:-$(cd "$(dirname "$0")/.." && pwd)}
BIN="$ROOT/work/harness.test"
OUT=${VERIF_OUT:-$ROOT/work/c16.trace}
: > "$OUT"
run() { # label gomaxprocs replays tz dryrun
  if [ -n "$4" ]; then TZ="$4"; export TZ; else unset TZ; fi
  VERIF_OUT="$OUT.$1" VERIF_C16_LABEL="$1" VERIF_C16_REPLAYS="$3" VERIF_C16_DRYRUN="$5" GOMAXPROCS="$2" \
    "$BIN" -test.run '^TestC16$' -test.timeout 1h >/dev/null 2>"$OUT.$1.err"
}
LABELS="inproc proc1 proc2 proc8 dry"
PIDS=""
(run inproc 4 2 "" 0) & PIDS="$PIDS $!"
(run proc1 1 1 UTC 0) & PIDS="$PIDS $!"
(run proc2 2 1 America/New_York 0) & PIDS="$PIDS $!"
(run proc8 8 1 Asia/Tokyo 0) & PIDS="$PIDS $!"
(run dry 4 1 "" 1) & PIDS="$PIDS $!"
rc=0
for p in $PIDS; do wait "$p" || rc=1; done
for l in $LABELS; do
  if [ "$rc" != 0 ]; then cat "$OUT.$l.err" >&2; fi
  [ -f "$OUT.$l" ] && cat "$OUT.$l" >> "$OUT"
  rm -f "$OUT.$l" "$OUT.$l.err"
done
exit $rc
