//go:build verif

package verifharness

// C16, leaked defaults.  A package-level sdk.Dec / sdk.Int / sdk.Coin(s) shares its big.Int with every
// copy of its value; one decode into such a copy changes the default of the whole PROCESS.  Nothing is
// written to a variable, nothing differs between two fresh processes replaying the same history -
// only a process with a PAST sees it: the second in-process replay, and the process whose
// transactions are preceded by discarded dry runs.  To make those two sensitive the history
//   - gives one app (govx) NON-DEFAULT parameters in every module that has per-app parameters, through
//     the paths the chain really uses: governance proposal handlers (asset AddApp, liquidity
//     UpdateGenericParams incl. SwapFeeBurnRate / CreateNewLiquidityPair, lend AddAssetRatesParams /
//     AddAuctionParams, auctionsV2 DutchAutoBidParams, liquidationsV2 WhitelistLiquidation) and the contract
//     bindings of app/wasm (UpdatePairsVault, AddAuctionParams, UpdateCollectorLookupTable,
//     WhitelistAppIDVaultInterest, WhitelistAppIDLockerRewards, WhitelistAppIDLiquidation);
//   - afterwards, again and again, creates NEW apps whose liquidity parameters are taken from the
//     defaults (governance AddApp + CreateNewLiquidityPair, then a pool and an order by a user);
//   - reads govx's parameters the way a gRPC query does (on a dropped branch) after every block, so
//     that the non-default values are the last ones the process decoded when the next replay starts.

import (
	"fmt"
	"testing"
	"time"

	sdk "github.com/cosmos/cosmos-sdk/types"
	govv1beta1 "github.com/cosmos/cosmos-sdk/x/gov/types/v1beta1"

	chain "github.com/comdex-official/comdex/app"
	chainwasm "github.com/comdex-official/comdex/app/wasm"
	"github.com/comdex-official/comdex/app/wasm/bindings"
	"github.com/comdex-official/comdex/x/asset"
	assettypes "github.com/comdex-official/comdex/x/asset/types"
	"github.com/comdex-official/comdex/x/auctionsV2"
	auctionsV2types "github.com/comdex-official/comdex/x/auctionsV2/types"
	"github.com/comdex-official/comdex/x/lend"
	lendtypes "github.com/comdex-official/comdex/x/lend/types"
	"github.com/comdex-official/comdex/x/liquidationsV2"
	liqV2types "github.com/comdex-official/comdex/x/liquidationsV2/types"
	"github.com/comdex-official/comdex/x/liquidity"
	liquiditykeeper "github.com/comdex-official/comdex/x/liquidity/keeper"
	liquiditytypes "github.com/comdex-official/comdex/x/liquidity/types"
)

type c16Gov struct {
	govx     uint64 // the app with non-default parameters
	govPair  uint64
	govPool  uint64
	nNew     int // default-taking apps created so far
	contract sdk.AccAddress
}

// a governance proposal executes like a message: on a branch kept only on success
func c16Proposal(ctx sdk.Context, h govv1beta1.Handler, c govv1beta1.Content) string {
	return c16Kept(ctx, func(cc sdk.Context) error { return h(cc, c) })
}

func c16Kept(ctx sdk.Context, f func(sdk.Context) error) string {
	cctx, write := ctx.CacheContext()
	var err error
	if panicked, _ := safely(func() { err = f(cctx) }); panicked {
		return "panic"
	}
	if err != nil {
		return "err"
	}
	write()
	return "ok"
}

func c16AppName(k int) string {
	return "q" + string(rune('a'+(k/26)%26)) + string(rune('a'+k%26))
}

// block 0: the app with its own parameters
func c16Govern(t *testing.T, a *chain.App, ctx sdk.Context, e *c15Env) *c16Gov {
	g := &c16Gov{contract: addrN(900)}
	must := func(what, class string) {
		e.log = append(e.log, class)
		if class != "ok" {
			t.Fatalf("c16Govern %s: %s", what, class)
		}
	}
	must("AddApp", c16Proposal(ctx, asset.NewUpdateAssetProposalHandler(a.AssetKeeper), &assettypes.AddAppProposal{Title: "govx", Description: "govx",
		App: assettypes.AppData{Name: "govx", ShortName: "govx", MinGovDeposit: sdk.NewInt(0), GovTimeInSeconds: 0, GenesisToken: []assettypes.MintGenesisToken{}}}))
	apps, _ := a.AssetKeeper.GetApps(ctx)
	for _, ap := range apps {
		if ap.Name == "govx" {
			g.govx = ap.Id
		}
	}
	lh := liquidity.NewLiquidityProposalHandler(a.LiquidityKeeper)
	must("UpdateGenericParams", c16Proposal(ctx, lh, &liquiditytypes.UpdateGenericParamsProposal{Title: "p", Description: "p", AppId: g.govx,
		Keys: []string{"SwapFeeRate", "WithdrawFeeRate", "SwapFeeBurnRate", "MaxPriceLimitRatio", "MinInitialDepositAmount", "MinInitialPoolCoinSupply",
			"PairCreationFee", "PoolCreationFee", "MaxOrderLifespan", "OrderExtraGas"},
		Values: []string{"0.004", "0.002", "0.25", "0.15", "2000000", "2000000000000", "3000000000ucmdx", "1000000000ucmdx", "36h", "41000"}}))
	must("CreateNewLiquidityPair", c16Proposal(ctx, lh, &liquiditytypes.CreateNewLiquidityPairProposal{Title: "p", Description: "p", From: e.user1.String(),
		AppId: g.govx, BaseCoinDenom: "uasset1", QuoteCoinDenom: "uasset4"}))
	g.govPair = 1
	params, err := a.LiquidityKeeper.GetGenericParams(ctx, g.govx)
	if err != nil {
		t.Fatalf("govx params: %v", err)
	}
	fund(t, a, ctx, e.user1, params.PoolCreationFee)
	e.msg(t, a, ctx, true, liquiditytypes.NewMsgCreatePool(g.govx, e.user1, g.govPair, sdk.NewCoins(sdk.NewCoin("uasset1", sdk.NewInt(800000000)), sdk.NewCoin("uasset4", sdk.NewInt(800000000)))))
	g.govPool = 1
	return g
}

// at one third of the history: the running apps get new parameters through governance and the contract bindings
func (g *c16Gov) reparam(a *chain.App, ctx sdk.Context, e *c15Env) []string {
	var out []string
	bind := func(f func(sdk.Context) error) { out = append(out, c16Kept(ctx, f)) }
	// vault: the extended pair of the vault app
	bind(func(c sdk.Context) error {
		return chainwasm.MsgUpdatePairsVault(a.AssetKeeper, c, g.contract, &bindings.MsgUpdatePairsVault{AppID: e.appHarbor, ExtPairID: e.extPair,
			StabilityFee: c15Dec("0.02"), ClosingFee: c15Dec("0.001"), LiquidationPenalty: c15Dec("0.13"), DrawDownFee: c15Dec("0.015"), IsVaultActive: true,
			MinCr: c15Dec("1.45"), DebtCeiling: sdk.NewInt(2000000000000), DebtFloor: sdk.NewInt(1000000), MinUsdValueLeft: 1000000})
	})
	// rewards: vault interest and locker rewards of the vault app
	bind(func(c sdk.Context) error {
		return chainwasm.WhitelistAppIDVaultInterest(a.Rewardskeeper, c, g.contract.String(), &bindings.MsgWhitelistAppIDVaultInterest{AppID: e.appHarbor})
	})
	bind(func(c sdk.Context) error {
		return chainwasm.WhitelistAppIDLockerRewards(a.Rewardskeeper, c, g.contract.String(), &bindings.MsgWhitelistAppIDLockerRewards{AppID: e.appHarbor, AssetID: e.assets[2]})
	})
	// collector: locker saving rate and lot sizes
	bind(func(c sdk.Context) error {
		return chainwasm.MsgUpdateCollectorLookupTable(a.CollectorKeeper, c, g.contract, &bindings.MsgUpdateCollectorLookupTable{AppID: e.appHarbor, AssetID: e.assets[2],
			DebtThreshold: sdk.NewInt(6000000), SurplusThreshold: sdk.NewInt(11000000), LotSize: sdk.NewInt(2500000), DebtLotSize: sdk.NewInt(2500000),
			BidFactor: c15Dec("0.02"), LSR: c15Dec("0.06")})
	})
	// first-generation auctions and liquidations
	bind(func(c sdk.Context) error {
		return chainwasm.MsgAddAuctionParams(a.AuctionKeeper, c, g.contract, &bindings.MsgAddAuctionParams{AppID: e.appHarbor, AuctionDurationSeconds: 280,
			Buffer: c15Dec("1.25"), Cusp: c15Dec("0.55"), Step: 2, PriceFunctionType: 1, SurplusID: 1, DebtID: 2, DutchID: 3, BidDurationSeconds: 280})
	})
	bind(func(c sdk.Context) error {
		return chainwasm.MsgWhitelistAppIDLiquidation(a.LiquidationKeeper, c, g.contract, &bindings.MsgWhitelistAppIDLiquidation{AppID: g.govx})
	})
	// lend: rates of uasset1, auction parameters of the lend app
	lh := lend.NewLendHandler(a.LendKeeper)
	out = append(out, c16Proposal(ctx, lh, &lendtypes.AddAssetRatesParams{Title: "p", Description: "p", AssetRatesParams: lendtypes.AssetRatesParams{
		AssetID: e.assets[0], UOptimal: c15Dec("0.7"), Base: c15Dec("0.003"), Slope1: c15Dec("0.08"), Slope2: c15Dec("1.3"), EnableStableBorrow: false,
		StableBase: c15Dec("0.0"), StableSlope1: c15Dec("0.0"), StableSlope2: c15Dec("0.0"), Ltv: c15Dec("0.7"), LiquidationThreshold: c15Dec("0.75"),
		LiquidationPenalty: c15Dec("0.06"), LiquidationBonus: c15Dec("0.04"), ReserveFactor: c15Dec("0.15"), CAssetID: e.assets[4]}}))
	out = append(out, c16Proposal(ctx, lh, &lendtypes.AddAuctionParamsProposal{Title: "p", Description: "p", AuctionParams: lendtypes.AuctionParams{
		AppId: e.appCommodo, AuctionDurationSeconds: 21000, Buffer: c15Dec("1.3"), Cusp: c15Dec("0.65"), Step: sdk.NewInt(330), PriceFunctionType: 1,
		DutchId: 3, BidDurationSeconds: 3500}}))
	// second-generation auctions and liquidations
	out = append(out, c16Proposal(ctx, auctionsV2.NewAuctionsV2Handler(a.NewaucKeeper), &auctionsV2types.DutchAutoBidParamsProposal{Title: "p", Description: "p",
		AuctionParams: auctionsV2types.AuctionParams{AuctionDurationSeconds: 3300, Step: c15Dec("0.12"), WithdrawalFee: c15Dec("0.001"), ClosingFee: c15Dec("0.002"),
			MinUsdValueLeft: 110000, BidFactor: c15Dec("0.11"), LiquidationPenalty: c15Dec("0.11"), AuctionBonus: c15Dec("0.01")}}))
	dutch := liqV2types.DutchAuctionParam{Premium: c15Dec("0.11"), Discount: c15Dec("0.09"), DecrementFactor: sdk.NewInt(1)}
	english := liqV2types.EnglishAuctionParam{DecrementFactor: sdk.NewInt(1)}
	out = append(out, c16Proposal(ctx, liquidationsV2.NewLiquidationsV2Handler(a.NewliqKeeper), &liqV2types.WhitelistLiquidationProposal{Title: "p", Description: "p",
		Whitelisting: liqV2types.LiquidationWhiteListing{AppId: e.appHarbor, Initiator: true, IsDutchActivated: true, DutchAuctionParam: &dutch,
			IsEnglishActivated: true, EnglishAuctionParam: &english, KeeeperIncentive: c15Dec("0.12")}}))
	// liquidity: the swap app itself gets a burn rate and another fee late in its life
	out = append(out, c16Proposal(ctx, liquidity.NewLiquidityProposalHandler(a.LiquidityKeeper), &liquiditytypes.UpdateGenericParamsProposal{Title: "p", Description: "p",
		AppId: e.appSwap, Keys: []string{"SwapFeeBurnRate", "WithdrawFeeRate"}, Values: []string{"0.1", "0.001"}}))
	return out
}

// a new app that takes the DEFAULT liquidity parameters: governance adds the app and its first pair (the
// generic params record is created from the defaults on the way), a user creates a pool and trades.  do
// runs on whatever branch it is given: the dry-run process runs it on dropped branches first.
func (g *c16Gov) newDefaultApp(t *testing.T, a *chain.App, e *c15Env, who sdk.AccAddress, k int) func(c sdk.Context) []string {
	name := c16AppName(k)
	return func(c sdk.Context) []string {
		var out []string
		out = append(out, c16Proposal(c, asset.NewUpdateAssetProposalHandler(a.AssetKeeper), &assettypes.AddAppProposal{Title: name, Description: name,
			App: assettypes.AppData{Name: name, ShortName: name, MinGovDeposit: sdk.NewInt(0), GovTimeInSeconds: 0, GenesisToken: []assettypes.MintGenesisToken{}}}))
		var id uint64
		apps, _ := a.AssetKeeper.GetApps(c)
		for _, ap := range apps {
			if ap.Name == name {
				id = ap.Id
			}
		}
		out = append(out, c16Proposal(c, liquidity.NewLiquidityProposalHandler(a.LiquidityKeeper), &liquiditytypes.CreateNewLiquidityPairProposal{Title: "p", Description: "p",
			From: who.String(), AppId: id, BaseCoinDenom: "uasset1", QuoteCoinDenom: "uasset4"}))
		if params, err := a.LiquidityKeeper.GetGenericParams(c, id); err == nil {
			fund(t, a, c, who, params.PoolCreationFee)
		}
		fund(t, a, c, who, sdk.NewCoins(sdk.NewCoin("uasset1", sdk.NewInt(600000000)), sdk.NewCoin("uasset4", sdk.NewInt(600000000))))
		cl, _, _ := execMsg(a, c, liquiditytypes.NewMsgCreatePool(id, who, 1, sdk.NewCoins(sdk.NewCoin("uasset1", sdk.NewInt(500000000)), sdk.NewCoin("uasset4", sdk.NewInt(500000000)))))
		out = append(out, cl)
		cl, _, _ = execMsg(a, c, liquiditytypes.NewMsgLimitOrder(id, who, 1, liquiditytypes.OrderDirectionSell, sdk.NewCoin("uasset1", sdk.NewInt(3000000)), "uasset4",
			c15Dec("0.97"), sdk.NewInt(2000000), 10*time.Second))
		out = append(out, cl)
		return out
	}
}

// an order in govx's pair (decodes govx's parameters inside a real transaction)
func (g *c16Gov) orderMsg(who sdk.AccAddress, buy bool, amt int64) sdk.Msg {
	if buy {
		return liquiditytypes.NewMsgLimitOrder(g.govx, who, g.govPair, liquiditytypes.OrderDirectionBuy, sdk.NewCoin("uasset4", sdk.NewInt(amt*2)), "uasset1",
			c15Dec("1.01"), sdk.NewInt(amt), 10*time.Second)
	}
	return liquiditytypes.NewMsgLimitOrder(g.govx, who, g.govPair, liquiditytypes.OrderDirectionSell, sdk.NewCoin("uasset1", sdk.NewInt(amt*2)), "uasset4",
		c15Dec("0.99"), sdk.NewInt(amt), 10*time.Second)
}

// what a node answers between two blocks: queries run on a branch that is dropped.  The answers go into
// the trace (they are state), the reads themselves must leave no mark on the process.
func (g *c16Gov) queries(a *chain.App, ctx sdk.Context, e *c15Env) string {
	q, _ := ctx.CacheContext()
	out := ""
	safely(func() {
		srv := liquiditykeeper.Querier{Keeper: a.LiquidityKeeper}
		for _, app := range []uint64{e.appSwap, g.govx} {
			if r, err := srv.GenericParams(sdk.WrapSDKContext(q), &liquiditytypes.QueryGenericParamsRequest{AppId: app}); err == nil {
				out += fmt.Sprintf("%d:%s/%s/%s;", app, r.Params.SwapFeeRate, r.Params.SwapFeeBurnRate, r.Params.PoolCreationFee)
			}
		}
		if pv, ok := a.AssetKeeper.GetPairsVault(q, e.extPair); ok {
			out += fmt.Sprintf("pv:%s/%s;", pv.StabilityFee, pv.MinCr)
		}
		if ap, ok := a.NewaucKeeper.GetAuctionParams(q); ok {
			out += fmt.Sprintf("ap:%s/%s;", ap.Step, ap.BidFactor)
		}
		if ap, ok := a.AuctionKeeper.GetAuctionParams(q, e.appHarbor); ok {
			out += fmt.Sprintf("a1:%s/%s;", ap.Buffer, ap.Cusp)
		}
		if wl, ok := a.NewliqKeeper.GetLiquidationWhiteListing(q, e.appHarbor); ok {
			out += fmt.Sprintf("wl:%s;", wl.KeeeperIncentive)
		}
		if rp, ok := a.LendKeeper.GetAssetRatesParams(q, e.assets[0]); ok {
			out += fmt.Sprintf("rp:%s/%s;", rp.Base, rp.ReserveFactor)
		}
		if lp, ok := a.LendKeeper.GetAddAuctionParamsData(q, e.appCommodo); ok {
			out += fmt.Sprintf("la:%s/%s;", lp.Buffer, lp.Step)
		}
		// the app with its own parameters is read last
		_, _ = a.LiquidityKeeper.GetGenericParams(q, g.govx)
	})
	return out
}
