//go:build verif

package verifharness

import (
	"encoding/binary"
	"fmt"
	"sort"
	"strings"
	"testing"
	"time"

	sdkmath "cosmossdk.io/math"
	sdk "github.com/cosmos/cosmos-sdk/types"

	chain "github.com/comdex-official/comdex/app"
	"github.com/comdex-official/comdex/x/liquidity"
	"github.com/comdex-official/comdex/x/liquidity/amm"
	liqkeeper "github.com/comdex-official/comdex/x/liquidity/keeper"
	liqtypes "github.com/comdex-official/comdex/x/liquidity/types"
)

// Shared driver of the C07 / C04 workloads: drives the REAL liquidity msg server (through execMsg) and
// liquidity.BeginBlocker / EndBlocker, and dumps after every step the changed part of a full
// projection (orders, pairs, MM indexes, pools, requests, farmers, watched balances, supplies).
// Matching results, share arithmetic and pool creation amounts are recorded as ENV for the model.

var liqDenoms = []string{"uaaa", "ubbb", "uccc", "ucmdx"}

func liqDenomCode(d string) int64 {
	switch d {
	case "uaaa":
		return 1
	case "ubbb":
		return 2
	case "uccc":
		return 3
	case "ucmdx":
		return 9
	case "uzzz":
		return 7
	}
	var a, p int64
	if n, _ := fmt.Sscanf(d, "pool%d-%d", &a, &p); n == 2 {
		return 1000 + a*100 + p
	}
	return 0
}

func liqDenomName(c int64) string {
	switch c {
	case 1:
		return "uaaa"
	case 2:
		return "ubbb"
	case 3:
		return "uccc"
	case 9:
		return "ucmdx"
	case 7:
		return "uzzz" // never whitelisted
	}
	if c >= 1000 {
		return fmt.Sprintf("pool%d-%d", (c-1000)/100, (c-1000)%100)
	}
	return "ubad"
}

func liqAddrNum(bech string) int64 {
	a, err := sdk.AccAddressFromBech32(bech)
	if err != nil {
		return -1
	}
	n, _ := binary.Varint(a)
	return n
}

type liqWatch struct {
	key   string
	addr  sdk.AccAddress
	denom string
}

type liqWorld struct {
	t       *testing.T
	a       *chain.App
	ctx     sdk.Context
	k       liqkeeper.Keeper
	tr      *tracer
	apps    []uint64
	last    map[string]string
	watch   []liqWatch
	watched map[string]bool
	now     time.Time
	height  int64
	nextAcc int
	// generator knowledge
	pairs  map[uint64][]liqtypes.Pair // per app
	refP   map[string]sdk.Dec         // reference price per app:pair
	orders []liqtypes.Order           // orders ever placed (for cancels)
	users  map[int]bool
	life    *lifeScn // the order-life scenario of this case (nil: none)
	wrongPct   int // share of order ops that are wrong-coin orders (liq3_scn_test.go)
	creatorPct int // share of pool ops sent by the pool creator (who may hold a whole pool-coin supply)
	huntHit *[4]uint64 // app, pair, order id, owner of the order the directed search placed (mode C05F)
	poolPct int      // share of pool operations
}

func (w *liqWorld) unix() int64 { return w.now.Unix() }

func (w *liqWorld) watchBal(key string, addr sdk.AccAddress, denom string) {
	k := "bal:" + key + ":" + fmt.Sprint(liqDenomCode(denom))
	if w.watched[k] {
		return
	}
	w.watched[k] = true
	w.watch = append(w.watch, liqWatch{k, addr, denom})
}

func (w *liqWorld) watchUser(n int, denoms ...string) {
	for _, d := range denoms {
		w.watchBal(fmt.Sprintf("u.%d", n), addrN(n), d)
	}
	w.users[n] = true
}

func (w *liqWorld) watchPair(p liqtypes.Pair) {
	for _, d := range []string{p.BaseCoinDenom, p.QuoteCoinDenom} {
		w.watchBal(fmt.Sprintf("esc.%d.%d", p.AppId, p.Id), p.GetEscrowAddress(), d)
		w.watchBal(fmt.Sprintf("fee.%d.%d", p.AppId, p.Id), p.GetSwapFeeCollectorAddress(), d)
		w.watchBal(fmt.Sprintf("dust.%d", p.AppId), liqtypes.DeriveDustCollectorAddress(p.AppId), d)
		w.watchBal("ge", liqtypes.GlobalEscrowAddress, d)
	}
}

func (w *liqWorld) watchPool(pl liqtypes.Pool) {
	pr, _ := w.k.GetPair(w.ctx, pl.AppId, pl.PairId)
	for _, d := range []string{pr.BaseCoinDenom, pr.QuoteCoinDenom} {
		w.watchBal(fmt.Sprintf("res.%d.%d", pl.AppId, pl.Id), pl.GetReserveAddress(), d)
	}
	w.watchBal("ge", liqtypes.GlobalEscrowAddress, pl.PoolCoinDenom)
	w.watchBal("mod", modAddr(liqtypes.ModuleName), pl.PoolCoinDenom)
	for n := range w.users {
		if n < 100 {
			w.watchBal(fmt.Sprintf("u.%d", n), addrN(n), pl.PoolCoinDenom)
		}
	}
}

func (w *liqWorld) fund(n int, denom string, amt sdk.Int) {
	if !amt.IsPositive() {
		return
	}
	fund(w.t, w.a, w.ctx, addrN(n), sdk.NewCoins(sdk.NewCoin(denom, amt)))
	w.tr.p("op fund %d %d %s", n, liqDenomCode(denom), amt)
}

func liqOrderVal(o liqtypes.Order) string {
	return fmt.Sprintf("%d %s %d %d %d %s %s %s %s %s %s %d %d %d", liqAddrNum(o.Orderer), b2s(o.Direction == liqtypes.OrderDirectionBuy),
		int32(o.Type), liqDenomCode(o.OfferCoin.Denom), liqDenomCode(o.ReceivedCoin.Denom), o.OfferCoin.Amount, o.RemainingOfferCoin.Amount,
		o.ReceivedCoin.Amount, o.Price.BigInt(), o.Amount, o.OpenAmount, o.BatchId, o.ExpireAt.Unix(), int32(o.Status))
}

// the full projection as key -> value
func (w *liqWorld) project() map[string]string {
	m := map[string]string{}
	for _, app := range w.apps {
		for _, o := range w.k.GetAllOrders(w.ctx, app) {
			m[fmt.Sprintf("ord:%d:%d:%d", app, o.PairId, o.Id)] = liqOrderVal(o)
		}
		for _, p := range w.k.GetAllPairs(w.ctx, app) {
			lp := "0 0"
			if p.LastPrice != nil {
				lp = "1 " + p.LastPrice.BigInt().String()
			}
			m[fmt.Sprintf("pair:%d:%d", app, p.Id)] = fmt.Sprintf("%d %d %d %s %d", liqDenomCode(p.BaseCoinDenom), liqDenomCode(p.QuoteCoinDenom), p.LastOrderId, lp, p.CurrentBatchId)
		}
		for _, ix := range w.k.GetAllMMOrderIndexes(w.ctx, app) {
			var sb strings.Builder
			for _, id := range ix.OrderIds {
				fmt.Fprintf(&sb, " %d", id)
			}
			m[fmt.Sprintf("mm:%d:%d:%d", app, liqAddrNum(ix.Orderer), ix.PairId)] = fmt.Sprintf("%d%s", len(ix.OrderIds), sb.String())
		}
		for _, pl := range w.k.GetAllPools(w.ctx, app) {
			m[fmt.Sprintf("pool:%d:%d", app, pl.Id)] = fmt.Sprintf("%d %s %s %d %d", pl.PairId, b2s(pl.Type == liqtypes.PoolTypeRanged), b2s(pl.Disabled), pl.LastDepositRequestId, pl.LastWithdrawRequestId)
			m[fmt.Sprintf("sup:%d", liqDenomCode(pl.PoolCoinDenom))] = supply(w.a, w.ctx, pl.PoolCoinDenom).String()
			pr, _ := w.k.GetPair(w.ctx, app, pl.PairId)
			for _, q := range w.k.GetAllQueuedFarmers(w.ctx, app, pl.Id) {
				var sb strings.Builder
				for _, c := range q.QueudCoins {
					fmt.Fprintf(&sb, " %s %d", c.FarmedPoolCoin.Amount, c.CreatedAt.Unix())
				}
				m[fmt.Sprintf("qf:%d:%d:%d", app, pl.Id, liqAddrNum(q.Farmer))] = fmt.Sprintf("%d%s", len(q.QueudCoins), sb.String())
			}
			for _, f := range w.k.GetAllActiveFarmers(w.ctx, app, pl.Id) {
				m[fmt.Sprintf("af:%d:%d:%d", app, pl.Id, liqAddrNum(f.Farmer))] = f.FarmedPoolCoin.Amount.String()
			}
			_ = pr
		}
		for _, r := range w.k.GetAllDepositRequests(w.ctx, app) {
			pl, _ := w.k.GetPool(w.ctx, app, r.PoolId)
			pr, _ := w.k.GetPair(w.ctx, app, pl.PairId)
			pc := sdk.ZeroInt()
			if !r.MintedPoolCoin.Amount.IsNil() {
				pc = r.MintedPoolCoin.Amount
			}
			m[fmt.Sprintf("dep:%d:%d:%d", app, r.PoolId, r.Id)] = fmt.Sprintf("%d %s %s %s %s %s %d", liqAddrNum(r.Depositor),
				r.DepositCoins.AmountOf(pr.QuoteCoinDenom), r.DepositCoins.AmountOf(pr.BaseCoinDenom),
				r.AcceptedCoins.AmountOf(pr.QuoteCoinDenom), r.AcceptedCoins.AmountOf(pr.BaseCoinDenom), pc, int32(r.Status))
		}
		for _, r := range w.k.GetAllWithdrawRequests(w.ctx, app) {
			pl, _ := w.k.GetPool(w.ctx, app, r.PoolId)
			pr, _ := w.k.GetPair(w.ctx, app, pl.PairId)
			m[fmt.Sprintf("wd:%d:%d:%d", app, r.PoolId, r.Id)] = fmt.Sprintf("%d %s %s %s %d", liqAddrNum(r.Withdrawer), r.PoolCoin.Amount,
				r.WithdrawnCoins.AmountOf(pr.QuoteCoinDenom), r.WithdrawnCoins.AmountOf(pr.BaseCoinDenom), int32(r.Status))
		}
	}
	for _, wt := range w.watch {
		m[wt.key] = bal(w.a, w.ctx, wt.addr, wt.denom).String()
	}
	return m
}

// print what changed since the last observation (lossless: the runner keeps the full map)
func (w *liqWorld) obs() {
	m := w.project()
	keys := make([]string, 0, len(m))
	for k := range m {
		keys = append(keys, k)
	}
	sort.Strings(keys)
	for _, k := range keys {
		if old, ok := w.last[k]; !ok || old != m[k] {
			w.tr.p("o %s %s", k, m[k])
		}
	}
	var gone []string
	for k := range w.last {
		if _, ok := m[k]; !ok {
			gone = append(gone, k)
		}
	}
	sort.Strings(gone)
	for _, k := range gone {
		w.tr.p("x %s", k)
	}
	w.last = m
	w.tr.p("o end")
}

// the module's own registered invariants, as a second opinion (never substituted for holds_C04)
func (w *liqWorld) moduleInvariants() {
	broken := 0
	name := "-"
	for _, inv := range []struct {
		n string
		f sdk.Invariant
	}{
		{"deposit-coins-escrow", liqkeeper.DepositCoinsEscrowInvariant(w.k)},
		{"pool-coin-escrow", liqkeeper.PoolCoinEscrowInvariant(w.k)},
		{"remaining-offer-coin-escrow", liqkeeper.RemainingOfferCoinEscrowInvariant(w.k)},
		{"pool-status", liqkeeper.PoolStatusInvariant(w.k)},
	} {
		var stop bool
		if p, _ := safely(func() { _, stop = inv.f(w.ctx) }); p || stop {
			broken++
			name = inv.n
		}
	}
	w.tr.p("i %d %s", broken, name)
}

func (w *liqWorld) exec(msg sdk.Msg) string {
	class, _, _ := execMsg(w.a, w.ctx, msg)
	return class
}

func liqDec(scaled int64) sdk.Dec { return sdk.NewDecFromBigIntWithPrec(sdkmath.NewInt(scaled).BigInt(), 18) }

// ---------------------------------------------------------------------------------------------
// operations (each prints its trace line, then the observation)

func (w *liqWorld) opCreatePair(app uint64, creator int, base, quote int64) {
	msg := liqtypes.NewMsgCreatePair(app, addrN(creator), liqDenomName(base), liqDenomName(quote))
	res := w.exec(msg)
	w.tr.p("op pair %d %d %d %d %s", app, creator, base, quote, res)
	if res == "ok" {
		ps := w.k.GetAllPairs(w.ctx, app)
		w.pairs[app] = ps
		w.watchPair(ps[len(ps)-1])
		w.watchPairAll(ps[len(ps)-1])
	}
	w.obs()
}

func (w *liqWorld) opCreatePool(app uint64, creator int, pair uint64, x, y sdk.Int) {
	pr, found := w.k.GetPair(w.ctx, app, pair)
	qd, bd := "uaaa", "ubbb"
	if found {
		qd, bd = pr.QuoteCoinDenom, pr.BaseCoinDenom
	}
	ok, ps := false, sdk.ZeroInt()
	if x.IsPositive() && y.IsPositive() {
		if bp, err := amm.CreateBasicPool(x, y); err == nil {
			ok, ps = true, bp.PoolCoinSupply()
		}
	}
	msg := liqtypes.NewMsgCreatePool(app, addrN(creator), pair, sdk.NewCoins(sdk.NewCoin(qd, x), sdk.NewCoin(bd, y)))
	res := w.exec(msg)
	w.tr.p("op pool %d %d %d %s %s %s %s %s", app, creator, pair, x, y, b2s(ok), ps, res)
	if res == "ok" {
		pls := w.k.GetAllPools(w.ctx, app)
		w.watchPool(pls[len(pls)-1])
	}
	w.obs()
}

func (w *liqWorld) opCreateRanged(app uint64, creator int, pair uint64, x, y sdk.Int, minP, maxP, initP sdk.Dec) {
	pr, found := w.k.GetPair(w.ctx, app, pair)
	qd, bd := "uaaa", "ubbb"
	if found {
		qd, bd = pr.QuoteCoinDenom, pr.BaseCoinDenom
	}
	msg := liqtypes.NewMsgCreateRangedPool(app, addrN(creator), pair, sdk.NewCoins(sdk.NewCoin(qd, x), sdk.NewCoin(bd, y)), minP, maxP, initP)
	ok := msg.ValidateBasic() == nil
	ax, ay, ps := sdk.ZeroInt(), sdk.ZeroInt(), sdk.ZeroInt()
	if ok {
		prec := 4
		if params, err := w.k.GetGenericParams(w.ctx, app); err == nil {
			prec = int(params.TickPrecision)
		}
		for _, p := range []sdk.Dec{minP, maxP, initP} {
			if !amm.PriceToDownTick(p, prec).Equal(p) {
				ok = false
			}
		}
		if minP.LT(amm.LowestTick(prec)) {
			ok = false
		}
	}
	if ok {
		if rp, err := amm.CreateRangedPool(x, y, minP, maxP, initP); err == nil {
			ax, ay = rp.Balances()
			ps = rp.PoolCoinSupply()
		} else {
			ok = false
		}
	}
	res := w.exec(msg)
	w.tr.p("op rpool %d %d %d %s %s %s %s %s %s %s", app, creator, pair, x, y, b2s(ok), ax, ay, ps, res)
	if res == "ok" {
		pls := w.k.GetAllPools(w.ctx, app)
		w.watchPool(pls[len(pls)-1])
	}
	w.obs()
}

func (w *liqWorld) opOrder(market bool, app uint64, owner int, pair uint64, dir int32, od string, oamt sdk.Int, dd string, price sdk.Dec, amt sdk.Int, life int64) {
	var msg sdk.Msg
	kind := "limit"
	if market {
		kind = "market"
		msg = liqtypes.NewMsgMarketOrder(app, addrN(owner), pair, liqtypes.OrderDirection(dir), sdk.Coin{Denom: od, Amount: oamt}, dd, amt, time.Duration(life)*time.Second)
		price = sdk.ZeroDec()
	} else {
		msg = liqtypes.NewMsgLimitOrder(app, addrN(owner), pair, liqtypes.OrderDirection(dir), sdk.Coin{Denom: od, Amount: oamt}, dd, price, amt, time.Duration(life)*time.Second)
	}
	res := w.exec(msg)
	w.tr.p("op %s %d %d %d %s %s %d %s %d %s %s %d %d %s", kind, app, owner, pair, b2s(dir == 1), b2s(dir == 1 || dir == 2),
		liqDenomCode(od), oamt, liqDenomCode(dd), price.BigInt(), amt, life, w.unix(), res)
	if res == "ok" {
		if p, ok := w.k.GetPair(w.ctx, app, pair); ok {
			if o, ok := w.k.GetOrder(w.ctx, app, pair, p.LastOrderId); ok {
				w.orders = append(w.orders, o)
				// the escrow clause is per denom: whatever coin an accepted order offers is watched on its pair's escrow
				w.watchBal(fmt.Sprintf("esc.%d.%d", app, pair), p.GetEscrowAddress(), o.OfferCoin.Denom)
			}
		}
	}
	w.obs()
}

func (w *liqWorld) opMM(app uint64, owner int, pair uint64, maxSell, minSell sdk.Dec, sellAmt sdk.Int, maxBuy, minBuy sdk.Dec, buyAmt sdk.Int, life int64) {
	msg := liqtypes.NewMsgMMOrder(app, addrN(owner), pair, maxSell, minSell, sellAmt, maxBuy, minBuy, buyAmt, time.Duration(life)*time.Second)
	res := w.exec(msg)
	w.tr.p("op mm %d %d %d %s %s %s %s %s %s %d %d %s", app, owner, pair, maxSell.BigInt(), minSell.BigInt(), sellAmt, maxBuy.BigInt(), minBuy.BigInt(), buyAmt, life, w.unix(), res)
	if res == "ok" {
		if ix, ok := w.k.GetMMOrderIndex(w.ctx, addrN(owner), app, pair); ok {
			for _, id := range ix.OrderIds {
				if o, ok := w.k.GetOrder(w.ctx, app, pair, id); ok {
					w.orders = append(w.orders, o)
				}
			}
		}
	}
	w.obs()
}

func (w *liqWorld) opCancel(app uint64, owner int, pair, id uint64) {
	res := w.exec(liqtypes.NewMsgCancelOrder(app, addrN(owner), pair, id))
	w.tr.p("op cancel %d %d %d %d %s", app, owner, pair, id, res)
	w.obs()
}

func (w *liqWorld) opCancelAll(app uint64, owner int, pids []uint64) {
	res := w.exec(liqtypes.NewMsgCancelAllOrders(app, addrN(owner), pids))
	var sb strings.Builder
	for _, p := range pids {
		fmt.Fprintf(&sb, " %d", p)
	}
	w.tr.p("op cancelall %d %d %d%s %s", app, owner, len(pids), sb.String(), res)
	w.obs()
}

func (w *liqWorld) opCancelMM(app uint64, owner int, pair uint64) {
	res := w.exec(liqtypes.NewMsgCancelMMOrder(app, addrN(owner), pair))
	w.tr.p("op cancelmm %d %d %d %s", app, owner, pair, res)
	w.obs()
}

func (w *liqWorld) poolDenoms(app, pid uint64) (qd, bd string, pl liqtypes.Pool, pr liqtypes.Pair, found bool) {
	pl, found = w.k.GetPool(w.ctx, app, pid)
	qd, bd = "uaaa", "ubbb"
	if found {
		pr, _ = w.k.GetPair(w.ctx, app, pl.PairId)
		qd, bd = pr.QuoteCoinDenom, pr.BaseCoinDenom
	}
	return
}

// coins of a message as trace tokens: "<n> <denom> <amount> ..." (sdk.NewCoins: sorted, zero coins dropped)
func liqCoinsTok(cs sdk.Coins) string {
	var sb strings.Builder
	fmt.Fprintf(&sb, "%d", len(cs))
	for _, c := range cs {
		fmt.Fprintf(&sb, " %d %s", liqDenomCode(c.Denom), c.Amount)
	}
	return sb.String()
}

// the deposit coins of a message naming pool (app, pid): the pool's own pair denoms
func (w *liqWorld) ownCoins(app, pid uint64, x, y sdk.Int) sdk.Coins {
	qd, bd, _, _, _ := w.poolDenoms(app, pid)
	return sdk.NewCoins(sdk.NewCoin(qd, x), sdk.NewCoin(bd, y))
}

func (w *liqWorld) opDeposit(app uint64, owner int, pid uint64, coins sdk.Coins) {
	res := w.exec(liqtypes.NewMsgDeposit(app, addrN(owner), pid, coins))
	w.tr.p("op deposit %d %d %d %s %s", app, owner, pid, liqCoinsTok(coins), res)
	w.obs()
}

// the pool coin [pc] may be the coin of ANOTHER pool (cross-app attempts)
func (w *liqWorld) opWithdraw(app uint64, owner int, pid uint64, pc sdk.Coin) {
	res := w.exec(liqtypes.NewMsgWithdraw(app, addrN(owner), pid, pc))
	w.tr.p("op withdraw %d %d %d %d %s %s", app, owner, pid, liqDenomCode(pc.Denom), pc.Amount, res)
	w.obs()
}

func (w *liqWorld) opFarm(app uint64, owner int, pid uint64, pc sdk.Coin) {
	res := w.exec(liqtypes.NewMsgFarm(app, pid, addrN(owner), pc))
	w.tr.p("op farm %d %d %d %d %s %d %s", app, owner, pid, liqDenomCode(pc.Denom), pc.Amount, w.unix(), res)
	w.obs()
}

func (w *liqWorld) opUnfarm(app uint64, owner int, pid uint64, pc sdk.Coin) {
	res := w.exec(liqtypes.NewMsgUnfarm(app, pid, addrN(owner), pc))
	w.tr.p("op unfarm %d %d %d %d %s %s", app, owner, pid, liqDenomCode(pc.Denom), pc.Amount, res)
	w.obs()
}

func (w *liqWorld) opDepositAndFarm(app uint64, owner int, pid uint64, coins sdk.Coins) {
	_, _, pl, pr, found := w.poolDenoms(app, pid)
	ax, ay, pc := sdk.ZeroInt(), sdk.ZeroInt(), sdk.ZeroInt()
	if found && !pl.Disabled {
		rx, ry := w.k.GetPoolBalances(w.ctx, pl)
		ps := w.k.GetPoolCoinSupply(w.ctx, pl)
		if !pl.AMMPool(rx.Amount, ry.Amount, ps).IsDepleted() {
			safely(func() {
				ax, ay, pc = amm.Deposit(rx.Amount, ry.Amount, ps, coins.AmountOf(pr.QuoteCoinDenom), coins.AmountOf(pr.BaseCoinDenom))
			})
		}
	}
	res := w.exec(liqtypes.NewMsgDepositAndFarm(app, addrN(owner), pid, coins))
	w.tr.p("op depfarm %d %d %d %s %d %s %s %s %s", app, owner, pid, liqCoinsTok(coins), w.unix(), ax, ay, pc, res)
	w.obs()
}

func (w *liqWorld) opUnfarmAndWithdraw(app uint64, owner int, pid uint64, coin sdk.Coin) {
	_, _, pl, _, found := w.poolDenoms(app, pid)
	pc := coin.Amount
	x, y := sdk.ZeroInt(), sdk.ZeroInt()
	if found && !pl.Disabled && pc.IsPositive() {
		rx, ry := w.k.GetPoolBalances(w.ctx, pl)
		ps := w.k.GetPoolCoinSupply(w.ctx, pl)
		params, _ := w.k.GetGenericParams(w.ctx, app)
		if !pl.AMMPool(rx.Amount, ry.Amount, ps).IsDepleted() {
			safely(func() { x, y = amm.Withdraw(rx.Amount, ry.Amount, ps, pc, params.WithdrawFeeRate) })
		}
	}
	res := w.exec(liqtypes.NewMsgUnfarmAndWithdraw(app, pid, addrN(owner), coin))
	w.tr.p("op unfarmwd %d %d %d %d %s %s %s %s", app, owner, pid, liqDenomCode(coin.Denom), pc, x, y, res)
	w.obs()
}

// the pool coin of pool (app, pid)
func liqPC(app, pid uint64, amt sdk.Int) sdk.Coin {
	return sdk.Coin{Denom: liqtypes.PoolCoinDenom(app, pid), Amount: amt}
}

func (w *liqWorld) opBegin() {
	w.height++
	if w.height%150 == 0 {
		w.height++
	}
	liquidity.BeginBlocker(w.ctx.WithBlockHeight(w.height).WithBlockTime(w.now), w.k, w.a.AssetKeeper)
	w.ctx = w.ctx.WithBlockHeight(w.height).WithBlockTime(w.now)
	w.tr.p("op begin")
	w.obs()
}

// EndBlocker; the matching results and the share arithmetic are read off the records before / after
func (w *liqWorld) opEnd() {
	type osnap struct{ open, rem, recv sdk.Int }
	before := map[string]osnap{}
	resBefore := map[string]sdk.Int{}
	dustBefore := map[string]sdk.Int{}
	priceBefore := map[string]string{}
	pendDep := map[string]bool{}
	pendWd := map[string]bool{}
	for _, app := range w.apps {
		for _, o := range w.k.GetAllOrders(w.ctx, app) {
			before[fmt.Sprintf("%d:%d:%d", app, o.PairId, o.Id)] = osnap{o.OpenAmount, o.RemainingOfferCoin.Amount, o.ReceivedCoin.Amount}
		}
		for _, p := range w.k.GetAllPairs(w.ctx, app) {
			lp := "nil"
			if p.LastPrice != nil {
				lp = p.LastPrice.String()
			}
			priceBefore[fmt.Sprintf("%d:%d", app, p.Id)] = lp
			dustBefore[fmt.Sprintf("%d:%s", app, p.QuoteCoinDenom)] = bal(w.a, w.ctx, liqtypes.DeriveDustCollectorAddress(app), p.QuoteCoinDenom)
		}
		for _, pl := range w.k.GetAllPools(w.ctx, app) {
			pr, _ := w.k.GetPair(w.ctx, app, pl.PairId)
			resBefore[fmt.Sprintf("%d:%d:q", app, pl.Id)] = bal(w.a, w.ctx, pl.GetReserveAddress(), pr.QuoteCoinDenom)
			resBefore[fmt.Sprintf("%d:%d:b", app, pl.Id)] = bal(w.a, w.ctx, pl.GetReserveAddress(), pr.BaseCoinDenom)
		}
		for _, r := range w.k.GetAllDepositRequests(w.ctx, app) {
			if r.Status == liqtypes.RequestStatusNotExecuted {
				pendDep[fmt.Sprintf("%d:%d:%d", app, r.PoolId, r.Id)] = true
			}
		}
		for _, r := range w.k.GetAllWithdrawRequests(w.ctx, app) {
			if r.Status == liqtypes.RequestStatusNotExecuted {
				pendWd[fmt.Sprintf("%d:%d:%d", app, r.PoolId, r.Id)] = true
			}
		}
	}
	batchBefore := map[string]uint64{}
	for _, app := range w.apps {
		for _, p := range w.k.GetAllPairs(w.ctx, app) {
			batchBefore[fmt.Sprintf("%d:%d", app, p.Id)] = p.CurrentBatchId
		}
		// what the EndBlocker is about to compute for this app, through the real NewUserOrder / keeper.Match
		w.shadowMatch(app)
	}
	panicked, _ := safely(func() { liquidity.EndBlocker(w.ctx, w.k, w.a.AssetKeeper) })
	if panicked {
		w.tr.p("op endpanic")
	}
	// was the app's batch executed?  (ApplyFuncIfNoError swallows errors and panics: nothing of the app changes)
	for _, app := range w.apps {
		flag := 2 // no pair: not observable
		for _, p := range w.k.GetAllPairs(w.ctx, app) {
			if p.CurrentBatchId == batchBefore[fmt.Sprintf("%d:%d", app, p.Id)]+1 {
				if flag == 2 {
					flag = 1
				}
			} else {
				flag = 0
			}
		}
		w.tr.p("ex %d %d", app, flag)
	}
	var sb strings.Builder
	fmt.Fprintf(&sb, "op end %d %d %d", w.height, w.unix(), len(w.apps))
	for _, app := range w.apps {
		// deposits / withdrawals executed in this block, per pool
		depX, depY := map[uint64]sdk.Int{}, map[uint64]sdk.Int{}
		var deps, wds []string
		for _, r := range w.k.GetAllDepositRequests(w.ctx, app) {
			if !pendDep[fmt.Sprintf("%d:%d:%d", app, r.PoolId, r.Id)] || r.Status == liqtypes.RequestStatusNotExecuted {
				continue
			}
			pl, _ := w.k.GetPool(w.ctx, app, r.PoolId)
			pr, _ := w.k.GetPair(w.ctx, app, pl.PairId)
			ax, ay := r.AcceptedCoins.AmountOf(pr.QuoteCoinDenom), r.AcceptedCoins.AmountOf(pr.BaseCoinDenom)
			pc := sdk.ZeroInt()
			if !r.MintedPoolCoin.Amount.IsNil() {
				pc = r.MintedPoolCoin.Amount
			}
			deps = append(deps, fmt.Sprintf(" %d %d %s %s %s", r.PoolId, r.Id, ax, ay, pc))
			if _, ok := depX[r.PoolId]; !ok {
				depX[r.PoolId], depY[r.PoolId] = sdk.ZeroInt(), sdk.ZeroInt()
			}
			depX[r.PoolId], depY[r.PoolId] = depX[r.PoolId].Add(ax), depY[r.PoolId].Add(ay)
		}
		for _, r := range w.k.GetAllWithdrawRequests(w.ctx, app) {
			if !pendWd[fmt.Sprintf("%d:%d:%d", app, r.PoolId, r.Id)] || r.Status == liqtypes.RequestStatusNotExecuted {
				continue
			}
			pl, _ := w.k.GetPool(w.ctx, app, r.PoolId)
			pr, _ := w.k.GetPair(w.ctx, app, pl.PairId)
			x, y := r.WithdrawnCoins.AmountOf(pr.QuoteCoinDenom), r.WithdrawnCoins.AmountOf(pr.BaseCoinDenom)
			wds = append(wds, fmt.Sprintf(" %d %d %s %s", r.PoolId, r.Id, x, y))
			if _, ok := depX[r.PoolId]; !ok {
				depX[r.PoolId], depY[r.PoolId] = sdk.ZeroInt(), sdk.ZeroInt()
			}
			depX[r.PoolId], depY[r.PoolId] = depX[r.PoolId].Sub(x), depY[r.PoolId].Sub(y)
		}
		pairs := w.k.GetAllPairs(w.ctx, app)
		fmt.Fprintf(&sb, " app %d %d", app, len(pairs))
		orders := w.k.GetAllOrders(w.ctx, app)
		for _, p := range pairs {
			var fills, flows []string
			for _, o := range orders {
				if o.PairId != p.Id {
					continue
				}
				b, ok := before[fmt.Sprintf("%d:%d:%d", app, o.PairId, o.Id)]
				if !ok {
					continue
				}
				if !b.open.Equal(o.OpenAmount) || !b.rem.Equal(o.RemainingOfferCoin.Amount) || !b.recv.Equal(o.ReceivedCoin.Amount) {
					fills = append(fills, fmt.Sprintf(" %d %s %s %s", o.Id, b.open.Sub(o.OpenAmount), b.rem.Sub(o.RemainingOfferCoin.Amount), o.ReceivedCoin.Amount.Sub(b.recv)))
				}
			}
			for _, pl := range w.k.GetPoolsByPair(w.ctx, app, p.Id) {
				q0, okq := resBefore[fmt.Sprintf("%d:%d:q", app, pl.Id)]
				b0 := resBefore[fmt.Sprintf("%d:%d:b", app, pl.Id)]
				if !okq {
					continue
				}
				dq := bal(w.a, w.ctx, pl.GetReserveAddress(), p.QuoteCoinDenom).Sub(q0)
				db := bal(w.a, w.ctx, pl.GetReserveAddress(), p.BaseCoinDenom).Sub(b0)
				if dx, ok := depX[pl.Id]; ok {
					dq, db = dq.Sub(dx), db.Sub(depY[pl.Id])
				}
				if !dq.IsZero() || !db.IsZero() {
					flows = append(flows, fmt.Sprintf(" %d %s %s", pl.Id, dq, db))
				}
			}
			dust := bal(w.a, w.ctx, liqtypes.DeriveDustCollectorAddress(app), p.QuoteCoinDenom).Sub(dustBefore[fmt.Sprintf("%d:%s", app, p.QuoteCoinDenom)])
			lp := "nil"
			price := "0"
			if p.LastPrice != nil {
				lp = p.LastPrice.String()
				price = p.LastPrice.BigInt().String()
			}
			matched := len(fills) > 0 || len(flows) > 0 || lp != priceBefore[fmt.Sprintf("%d:%d", app, p.Id)]
			if !matched {
				dust = sdk.ZeroInt()
			}
			fmt.Fprintf(&sb, " batch %d %s %s %d%s %d%s %s", p.Id, b2s(matched), price, len(fills), strings.Join(fills, ""), len(flows), strings.Join(flows, ""), dust)
		}
		fmt.Fprintf(&sb, " %d%s %d%s", len(deps), strings.Join(deps, ""), len(wds), strings.Join(wds, ""))
	}
	w.tr.p("%s", sb.String())
	w.obs()
	w.moduleInvariants()
}

// ---------------------------------------------------------------------------------------------
// generator

var liqAmounts = []int64{100, 101, 150, 999, 1000, 12345, 100000, 1000000, 3333333, 50000000}
var liqLifes = []int64{0, 0, 5, 10, 15, 25, 40, 100000, 600, 3600}

func liqDrive(t *testing.T, mode string) {
	a, base := newApp(t)
	tr := newTracer(t, strings.ToLower(mode)+".trace")
	defer tr.close()
	r := newRng(seed())
	ncases := envInt("VERIF_CASES", 20)
	only := envInt("VERIF_CASE", -1)
	c04 := mode == "C04" || mode == "C06" // pool-heavy workloads
	c06 := mode == "C06"
	hunt := mode == "C05F"

	for ci := 0; ci < ncases; ci++ {
		caseSeed := r.next()
		if only >= 0 && ci != only {
			continue
		}
		g := newRng(caseSeed)
		ctx, _ := base.CacheContext()
		w := &liqWorld{t: t, a: a, ctx: ctx, k: a.LiquidityKeeper, tr: tr, last: map[string]string{}, watched: map[string]bool{},
			now: baseTime, height: 2, pairs: map[uint64][]liqtypes.Pair{}, refP: map[string]sdk.Dec{}, users: map[int]bool{}, nextAcc: 1000}
		w.ctx = w.ctx.WithBlockHeight(w.height).WithBlockTime(w.now)
		tr.p("case %d %s", ci, mode)
		// --- apps with their generic params
		for i := 0; i < 3; i++ {
			id := addAppRecord(t, a, w.ctx, []string{"lqxa", "lqyb", "lqzc"}[i])
			w.apps = append(w.apps, id)
			params, err := w.k.GetGenericParams(w.ctx, id)
			if err != nil {
				t.Fatal(err)
			}
			params.SwapFeeRate = []sdk.Dec{sdk.ZeroDec(), sdk.NewDecWithPrec(3, 3), sdk.NewDecWithPrec(3, 1)}[g.intn(3)]
			params.PairCreationFee = sdk.NewCoins(sdk.NewInt64Coin("ucmdx", int64(g.pickI(1, 1000, 2000000000))))
			params.PoolCreationFee = sdk.NewCoins(sdk.NewInt64Coin("ucmdx", int64(g.pickI(1, 1000, 2000000000))))
			params.MaxOrderLifespan = 24 * time.Hour
			params.MaxNumMarketMakingOrderTicks = uint64(g.pickI(2, 3, 10, 10))
			params.MaxNumActivePoolsPerPair = uint64(g.pickI(2, 3, 20))
			if hunt {
				params.MaxNumActivePoolsPerPair = 20
			}
			w.k.SetGenericParams(w.ctx, params)
			if c06 {
				params.WithdrawFeeRate = []sdk.Dec{sdk.ZeroDec(), sdk.NewDecWithPrec(3, 3), sdk.NewDecWithPrec(5, 1)}[g.intn(3)]
			}
			w.k.SetGenericParams(w.ctx, params)
			tr.p("wfee %d %s", id, params.WithdrawFeeRate.BigInt())
			tr.p("op app %d %s %d %s %d %d 9 %s %s %s %s %d %d 86400", id, params.SwapFeeRate.BigInt(), params.TickPrecision, params.MaxPriceLimitRatio.BigInt(),
				int64(params.MaxOrderLifespan/time.Second), params.MaxNumMarketMakingOrderTicks, params.PairCreationFee[0].Amount, params.PoolCreationFee[0].Amount,
				params.MinInitialPoolCoinSupply, params.MinInitialDepositAmount, params.MaxNumActivePoolsPerPair, params.BatchSize)
		}
		for i, d := range liqDenoms {
			addAsset(t, a, w.ctx, []string{"LIQA", "LIQB", "LIQC", "LIQD"}[i], d, 1000000, false, false)
			tr.p("op asset %d", liqDenomCode(d))
		}
		// accounts: 1..5 liquidity providers, 50..52 market makers, 60..62 shared traders, 90 creator, >= 1000 one per order
		huge := sdkmath.NewIntWithDecimal(1, 15)
		for _, n := range []int{1, 2, 3, 4, 5, 50, 51, 52, 60, 61, 62, 90} {
			w.watchUser(n, liqDenoms...)
			for _, d := range liqDenoms {
				w.fund(n, d, huge)
			}
		}
		w.obs()
		// --- pairs: (base, quote) with distinct quote denoms inside an app
		// the same pair id names DIFFERENT coins in different apps (rotation per app), so that a message naming
		// (app, pair / pool id) with the coins of the other app's pair / pool of the same id is distinguishable
		pairDefs := [][2]int64{{1, 2}, {2, 3}, {3, 1}}
		for _, app := range w.apps {
			np := 1 + g.intn(3)
			rot := g.intn(3)
			for j := 0; j < np; j++ {
				w.opCreatePair(app, 90, pairDefs[(j+rot)%3][0], pairDefs[(j+rot)%3][1])
			}
		}
		if g.chance(30) { // duplicate / not whitelisted
			w.opCreatePair(w.apps[g.intn(3)], 90, 1, 2)
			w.opCreatePair(w.apps[g.intn(3)], 90, 1, 7)
		}
		for _, app := range w.apps {
			for _, p := range w.pairs[app] {
				w.refP[fmt.Sprintf("%d:%d", app, p.Id)] = liqDec([]int64{1000000000000000000, 500000000000000000, 2345000000000000000, 12000000000000000}[g.intn(4)])
				if hunt {
					// low prices: a pool order of a few thousand base coins is worth a few quote units, so that a pro-rata
					// share of it can be worth nothing (the class of C05-F1)
					w.refP[fmt.Sprintf("%d:%d", app, p.Id)] = liqDec([]int64{1000000000000000, 1200000000000000, 500000000000000, 2000000000000000, 10000000000000000}[g.intn(5)])
				}
			}
		}
		// --- pools on some pairs
		for _, app := range w.apps {
			for _, p := range w.pairs[app] {
				ref := w.refP[fmt.Sprintf("%d:%d", app, p.Id)]
				poolPct := map[bool]int{true: 85, false: 40}[c04]
				if mode == "C05" {
					poolPct = 15 // a pool puts hundreds of orders on the book; the keeper-level C05 replay is about user orders
				}
				if hunt {
					// a basic pool and two ranged pools at the minimum size; the creator then withdraws most of the shares,
					// so that the pools' orders on a tick are of the size 1/price .. 3/price
					y := sdk.NewInt(1000000).ToLegacyDec().Quo(ref).Ceil().TruncateInt().MulRaw(int64(1 + g.intn(3)))
					w.opCreatePool(app, 90, p.Id, ref.MulInt(y).TruncateInt(), y)
					for k := 0; k < 2; k++ {
						yr := sdk.NewInt(int64(1000000 + g.intn(4000000)))
						prec := 4
						lo := amm.PriceToDownTick(ref.Mul(sdk.NewDecWithPrec(8, 1)), prec)
						hi := amm.PriceToDownTick(ref.Mul(sdk.NewDecWithPrec(13, 1)), prec)
						w.opCreateRanged(app, 90, p.Id, ref.MulInt(yr).TruncateInt().AddRaw(1), yr, lo, hi, amm.PriceToDownTick(ref, prec))
					}
					continue
				}
				if g.chance(poolPct) {
					y := sdk.NewInt(int64(1000000 + g.intn(50000000)))
					x := ref.MulInt(y).TruncateInt()
					w.opCreatePool(app, 90, p.Id, x, y)
				}
				if c06 && g.chance(70) {
					// C06: exactly balanced offers to MsgCreateRangedPool (c06_balanced_test.go)
					for k := 1 + g.intn(2); k > 0; k-- {
						w.c06BalancedRanged(g, app, p, ref)
					}
				}
				if c04 && g.chance(35) {
					y := sdk.NewInt(int64(1000000 + g.intn(5000000)))
					x := ref.MulInt(y).TruncateInt()
					prec := 4
					lo := amm.PriceToDownTick(ref.Mul(sdk.NewDecWithPrec(8, 1)), prec)
					hi := amm.PriceToDownTick(ref.Mul(sdk.NewDecWithPrec(13, 1)), prec)
					w.opCreateRanged(app, 90, p.Id, x, y, lo, hi, amm.PriceToDownTick(ref, prec))
				}
			}
		}
		if !c04 && ci < 2 {
			w.liqRegressionMM(w.apps[1-ci]) // app 2 / pair 1, then app 1 / its highest pair
		}
		if c04 && g.chance(35) {
			// the creator withdraws the WHOLE pool-coin supply of a fresh pool in a batch of its own:
			// the supply reaches zero and the pool must be marked disabled
			app := w.apps[g.intn(3)]
			if pools := w.k.GetAllPools(w.ctx, app); len(pools) > 0 {
				pl := pools[g.intn(len(pools))]
				w.opWithdraw(app, 90, pl.Id, liqPC(app, pl.Id, bal(w.a, w.ctx, addrN(90), pl.PoolCoinDenom)))
				w.opEnd()
				w.now = w.now.Add(10 * time.Second)
				w.opBegin()
			}
		}
		if hunt {
			for _, app := range w.apps {
				for _, pl := range w.k.GetAllPools(w.ctx, app) {
					pr, _ := w.k.GetPair(w.ctx, app, pl.PairId)
					_, ry := w.k.GetPoolBalances(w.ctx, pl)
					unit := sdk.OneDec().Quo(w.refP[fmt.Sprintf("%d:%d", app, pr.Id)]).TruncateInt()
					target := unit.MulRaw(int64(1500 + g.intn(4000)))
					if pl.Type == liqtypes.PoolTypeRanged {
						target = unit.MulRaw(int64(150 + g.intn(600)))
					}
					ps := w.k.GetPoolCoinSupply(w.ctx, pl)
					if target.LT(ry.Amount) {
						keep := ps.Mul(target).Quo(ry.Amount)
						w.opWithdraw(app, 90, pl.Id, liqPC(app, pl.Id, ps.Sub(keep)))
					}
				}
			}
			w.opEnd()
			w.now = w.now.Add(10 * time.Second)
			w.opBegin()
		}
		if c06 {
			// warm-up: liquidity providers deposit into every pool, so that they hold pool coins of several apps
			for _, app := range w.apps {
				for _, pl := range w.k.GetAllPools(w.ctx, app) {
					ref := w.refP[fmt.Sprintf("%d:%d", app, pl.PairId)]
					for _, lp := range []int{1 + g.intn(5), 1 + g.intn(5)} {
						y := sdk.NewInt(int64(g.pickI(1000, 100000, 5000000)))
						w.opDeposit(app, lp, pl.Id, w.ownCoins(app, pl.Id, ref.MulInt(y).TruncateInt().AddRaw(int64(g.intn(1000))), y))
					}
				}
			}
			w.opEnd()
			w.now = w.now.Add(10 * time.Second)
			w.opBegin()
		}
		// a long-lived order on a reserved pair: partially matched, the last price moved past it, matched again
		// by several small counter orders on different ticks (driver in liq2_helpers_test.go)
		lifePct := map[string]int{"C07": 45, "C04": 25, "C06": 0, "C05": 85}[mode]
		if g.chance(lifePct) {
			w.life = w.newLifeScn(g)
		}
		nb := 3 + g.intn(6)
		if w.life != nil && nb < 5 {
			nb = 5
		}
		w.poolPct = map[bool]int{true: 45, false: 0}[c04]
		if c06 {
			w.poolPct = 80
		}
		// directed parts (liq3_scn_test.go); the directed search of mode C05F keeps its own stream of draws
		spBatch, wcBatch := -1, -1
		if c04 {
			w.creatorPct = 8
			if g.chance(70) {
				spBatch = 0
				if g.chance(30) {
					spBatch = g.intn(nb)
				}
			}
		}
		if !hunt && !c06 {
			w.wrongPct = 5
			if g.chance(map[string]int{"C07": 60, "C04": 60, "C05": 25}[mode]) {
				wcBatch = g.intn(nb)
			}
		}
		for b := 0; b < nb; b++ {
			nops := 10 + g.intn(31)
			if c06 {
				nops = 8 + g.intn(16)
			}
			if w.life != nil {
				w.lifeStep(g)
			}
			if b == spBatch {
				w.soleProviderScn(g)
			}
			if b == wcBatch {
				w.wrongCoinScn(g)
			}
			if hunt && b >= 1 {
				// one hit per case; afterwards the blocks only pass (and the owner tries to cancel): a stalled app
				// stays stalled with an unchanged book, past the expiry of the order
				if w.huntHit == nil {
					if app, pair, id, owner, ok := w.huntStep(g); ok {
						w.huntHit = &[4]uint64{app, pair, id, uint64(owner)}
					}
					if w.huntHit != nil {
						nops = 0
					}
				} else {
					nops = 0
					h := w.huntHit
					if _, live := w.k.GetOrder(w.ctx, h[0], h[1], h[2]); live && g.chance(60) {
						w.opCancel(h[0], int(h[3]), h[1], h[2])
					}
				}
			}
			for i := 0; i < nops; i++ {
				w.genOp(g, c04)
			}
			w.opEnd()
			// next block: time advances (sometimes by more than the farming queue duration)
			step := []int64{10, 10, 10, 20, 7}[g.intn(5)]
			if c04 && g.chance(35) {
				step = 13 * 3600
			}
			w.now = w.now.Add(time.Duration(step) * time.Second)
			w.opBegin()
		}
	}
}

// liqRegressionMM is the witness of C07-F1 (fixed; kept as a regression case): market-making orders in
// a pair whose id differs from the app id are cancelled by MsgCancelMMOrder in a later batch, placed
// again and replaced by a second MsgMMOrder. Before the fix both calls returned success, cancelled and
// refunded nothing and dropped the index (GetOrder was called with app id and pair id swapped).
func (w *liqWorld) liqRegressionMM(app uint64) {
	ps := w.pairs[app]
	if len(ps) == 0 {
		return
	}
	p, _ := w.k.GetPair(w.ctx, app, ps[len(ps)-1].Id)
	if app == w.apps[1] {
		p, _ = w.k.GetPair(w.ctx, app, ps[0].Id)
	}
	params, _ := w.k.GetGenericParams(w.ctx, app)
	prec := int(params.TickPrecision)
	ref := w.refP[fmt.Sprintf("%d:%d", app, p.Id)]
	place := func(sell, buy int64) {
		lo, hi := ref.Mul(sdk.NewDecWithPrec(5, 1)), ref.Mul(sdk.NewDecWithPrec(15, 1))
		if cur, _ := w.k.GetPair(w.ctx, app, p.Id); cur.LastPrice != nil {
			lo, hi = liqtypes.PriceLimits(*cur.LastPrice, params.MaxPriceLimitRatio, prec)
		}
		mid := amm.PriceToDownTick(lo.Add(hi).QuoInt64(2), prec)
		w.opMM(app, 50, p.Id, amm.PriceToDownTick(hi, prec), amm.PriceToUpTick(mid, prec), sdk.NewInt(sell),
			mid, amm.PriceToUpTick(lo, prec), sdk.NewInt(buy), 3600)
	}
	nextBlock := func() {
		w.opEnd()
		w.now = w.now.Add(10 * time.Second)
		w.opBegin()
	}
	place(1000000, 0)
	nextBlock()
	w.opCancelMM(app, 50, p.Id)
	place(3333333, 1000000)
	nextBlock()
	place(0, 50000000) // replaces the orders of the previous batch
	nextBlock()
}

func (w *liqWorld) pickPair(g *rng) (uint64, liqtypes.Pair, bool) {
	app := w.apps[g.intn(len(w.apps))]
	ps := w.pairs[app]
	if len(ps) == 0 {
		return app, liqtypes.Pair{}, false
	}
	p, _ := w.k.GetPair(w.ctx, app, ps[g.intn(len(ps))].Id)
	if w.life != nil && w.life.app == app && w.life.pair == p.Id {
		return app, p, false // reserved for the order-life scenario
	}
	return app, p, true
}

func (w *liqWorld) pickPrice(g *rng, app uint64, p liqtypes.Pair) sdk.Dec {
	ref := w.refP[fmt.Sprintf("%d:%d", app, p.Id)]
	if p.LastPrice != nil {
		ref = *p.LastPrice
	}
	// -9% .. +9% in steps of 0.5%, occasionally far outside
	f := int64(1000 + 5*(g.intn(37)-18))
	if g.chance(4) {
		f = g.pickI(500, 1500, 1, 100000)
	}
	pr := ref.MulInt64(f).QuoInt64(1000)
	if !pr.IsPositive() {
		pr = sdk.NewDecWithPrec(1, 14)
	}
	return pr
}

func (w *liqWorld) genOp(g *rng, c04 bool) {
	x := g.intn(100)
	if c04 && x < w.poolPct {
		w.genPoolOp(g)
		return
	}
	if w.wrongPct > 0 && g.chance(w.wrongPct) {
		w.genWrongCoinOrder(g)
		return
	}
	x = g.intn(100)
	switch {
	case x < 8: // a ladder of small counter orders across a resting order's price
		w.genLadder(g)
	case x < 50: // limit order
		app, p, ok := w.pickPair(g)
		if !ok {
			return
		}
		owner := w.nextAcc
		if g.chance(25) {
			owner = 60 + g.intn(3)
		} else {
			w.nextAcc++
		}
		dir := int32(1 + g.intn(2))
		price := w.pickPrice(g, app, p)
		amt := sdk.NewInt(liqAmounts[g.intn(len(liqAmounts))])
		if g.chance(30) {
			amt = sdk.NewInt(int64(100 + g.intn(5000000)))
		}
		od, dd := p.QuoteCoinDenom, p.BaseCoinDenom
		need := amm.OfferCoinAmount(amm.Buy, price, amt)
		if dir == 2 {
			od, dd = p.BaseCoinDenom, p.QuoteCoinDenom
			need = amt
		}
		params, _ := w.k.GetGenericParams(w.ctx, app)
		oamt := need.Add(need.ToLegacyDec().Mul(params.SwapFeeRate).Ceil().TruncateInt())
		switch g.intn(12) {
		case 0:
			oamt = oamt.AddRaw(int64(1 + g.intn(1000))) // more than needed: the surplus is never taken
		case 1:
			oamt = oamt.SubRaw(1) // one short (rounding decides)
		case 2:
			oamt = need // no room for the fee
		}
		if g.chance(3) {
			dir = 3
		}
		if g.chance(3) {
			od, dd = dd, od
		}
		if g.chance(4) { // the coins of ANOTHER app's pair with the same id
			if other := w.apps[g.intn(len(w.apps))]; other != app {
				if q, ok := w.k.GetPair(w.ctx, other, p.Id); ok {
					od, dd = q.QuoteCoinDenom, q.BaseCoinDenom
					if dir == 2 {
						od, dd = dd, od
					}
				}
			}
		}
		if owner >= 1000 {
			w.watchUser(owner, p.QuoteCoinDenom, p.BaseCoinDenom)
			f := oamt
			if g.chance(5) {
				f = oamt.SubRaw(1) // insufficient funds
			}
			if g.chance(20) {
				f = f.AddRaw(int64(g.intn(500)))
			}
			w.fund(owner, od, f)
			w.obs()
		}
		w.opOrder(false, app, owner, p.Id, dir, od, oamt, dd, price, amt, liqLifes[g.intn(len(liqLifes))])
	case x < 60: // market order
		app, p, ok := w.pickPair(g)
		if !ok {
			return
		}
		owner := w.nextAcc
		w.nextAcc++
		dir := int32(1 + g.intn(2))
		amt := sdk.NewInt(liqAmounts[g.intn(len(liqAmounts))])
		params, _ := w.k.GetGenericParams(w.ctx, app)
		od, dd := p.QuoteCoinDenom, p.BaseCoinDenom
		need := amt
		if p.LastPrice != nil {
			maxP := amm.PriceToDownTick(p.LastPrice.Mul(sdk.OneDec().Add(params.MaxPriceLimitRatio)), int(params.TickPrecision))
			need = amm.OfferCoinAmount(amm.Buy, maxP, amt)
		}
		if dir == 2 {
			od, dd = p.BaseCoinDenom, p.QuoteCoinDenom
			need = amt
		}
		oamt := need.Add(need.ToLegacyDec().Mul(params.SwapFeeRate).Ceil().TruncateInt())
		if g.chance(10) {
			oamt = oamt.SubRaw(1)
		}
		if g.chance(10) {
			oamt = oamt.AddRaw(int64(g.intn(100)))
		}
		w.watchUser(owner, p.QuoteCoinDenom, p.BaseCoinDenom)
		w.fund(owner, od, oamt)
		w.obs()
		w.opOrder(true, app, owner, p.Id, dir, od, oamt, dd, sdk.ZeroDec(), amt, liqLifes[g.intn(len(liqLifes))])
	case x < 70: // market-making order (replace when one exists)
		app, p, ok := w.pickPair(g)
		if !ok {
			return
		}
		owner := 50 + g.intn(3)
		params, _ := w.k.GetGenericParams(w.ctx, app)
		prec := int(params.TickPrecision)
		ref := w.pickPrice(g, app, p)
		lo, hi := ref, ref
		if p.LastPrice != nil {
			lo, hi = liqtypes.PriceLimits(*p.LastPrice, params.MaxPriceLimitRatio, prec)
		} else {
			lo, hi = ref.Mul(sdk.NewDecWithPrec(5, 1)), ref.Mul(sdk.NewDecWithPrec(15, 1))
		}
		mid := amm.PriceToDownTick(lo.Add(hi).QuoInt64(2), prec)
		minBuy := amm.PriceToUpTick(lo, prec)
		maxBuy := mid
		minSell := amm.PriceToUpTick(mid, prec)
		maxSell := amm.PriceToDownTick(hi, prec)
		if g.chance(20) {
			maxBuy = minBuy
		}
		if g.chance(8) {
			minSell = ref // maybe off tick
		}
		sellAmt := sdk.NewInt(liqAmounts[g.intn(len(liqAmounts))])
		buyAmt := sdk.NewInt(liqAmounts[g.intn(len(liqAmounts))])
		if g.chance(20) {
			sellAmt = sdk.ZeroInt()
		}
		if g.chance(20) {
			buyAmt = sdk.ZeroInt()
		}
		w.opMM(app, owner, p.Id, maxSell, minSell, sellAmt, maxBuy, minBuy, buyAmt, liqLifes[g.intn(len(liqLifes))])
	case x < 82: // cancel one order
		if len(w.orders) == 0 {
			return
		}
		o := w.orders[g.intn(len(w.orders))]
		owner := int(liqAddrNum(o.Orderer))
		app, pair, id := o.AppId, o.PairId, o.Id
		switch g.intn(14) {
		case 0:
			owner = 61
		case 1:
			id += 1000
		case 2:
			app = w.apps[g.intn(3)]
		case 3:
			pair = uint64(g.intn(4))
		}
		w.opCancel(app, owner, pair, id)
	case x < 88: // cancel all
		app := w.apps[g.intn(3)]
		owner := []int{50, 51, 52, 60, 61, 62}[g.intn(6)]
		var pids []uint64
		switch g.intn(4) {
		case 0:
			pids = []uint64{uint64(1 + g.intn(3))}
		case 1:
			pids = []uint64{1, 2}
		}
		if g.chance(3) {
			pids = []uint64{1, 1}
		}
		w.opCancelAll(app, owner, pids)
	case x < 97: // cancel market-making orders
		app, p, ok := w.pickPair(g)
		if !ok {
			return
		}
		pid := p.Id
		if g.chance(5) {
			pid = uint64(g.intn(5))
		}
		w.opCancelMM(app, 50+g.intn(3), pid)
	default: // unknown app / pair
		w.opOrder(false, uint64(7+g.intn(2)), 60, uint64(g.intn(3)), 1, "ubbb", sdk.NewInt(1000), "uaaa", sdk.OneDec(), sdk.NewInt(500), 10)
	}
}

func (w *liqWorld) genPoolOp(g *rng) {
	app := w.apps[g.intn(len(w.apps))]
	pools := w.k.GetAllPools(w.ctx, app)
	owner := 1 + g.intn(5)
	if w.creatorPct > 0 && g.chance(w.creatorPct) {
		owner = 90
	}
	if len(pools) == 0 || g.chance(4) {
		// create a (maybe duplicate) pool later in the history
		_, p, ok := w.pickPair(g)
		if ok {
			y := sdk.NewInt(int64(900000 + g.intn(3000000)))
			w.opCreatePool(p.AppId, 90, p.Id, w.refP[fmt.Sprintf("%d:%d", p.AppId, p.Id)].MulInt(y).TruncateInt(), y)
		}
		return
	}
	pl := pools[g.intn(len(pools))]
	pid := pl.Id
	if g.chance(3) {
		pid = 77
	}
	// the coins the message carries: the pool's own, or (cross-app attempt) those of ANOTHER app's pool with the
	// same pool id - such a message must fail and nothing of the target pool may change
	coinApp := app
	if g.chance(18) {
		for _, other := range []uint64{w.apps[g.intn(len(w.apps))], w.apps[g.intn(len(w.apps))]} {
			if _, ok := w.k.GetPool(w.ctx, other, pl.Id); ok && other != app {
				coinApp = other
				if g.chance(50) {
					owner = 90 // the creator holds the initial pool coins of every pool
				}
				break
			}
		}
	}
	pcDenom := liqtypes.PoolCoinDenom(coinApp, pl.Id)
	pcBal := bal(w.a, w.ctx, addrN(owner), pcDenom)
	frac := func(b sdk.Int) sdk.Int {
		switch g.intn(6) {
		case 0:
			return b
		case 1:
			return b.AddRaw(1)
		case 2:
			return sdk.NewInt(1)
		default:
			if !b.IsPositive() {
				return sdk.NewInt(int64(1 + g.intn(1000)))
			}
			return b.MulRaw(int64(1 + g.intn(99))).QuoRaw(100)
		}
	}
	farmedOf := func(a uint64) sdk.Int {
		farmed := sdk.ZeroInt()
		if q, ok := w.k.GetQueuedFarmer(w.ctx, a, pl.Id, addrN(owner)); ok {
			for _, c := range q.QueudCoins {
				farmed = farmed.Add(c.FarmedPoolCoin.Amount)
			}
		}
		if f, ok := w.k.GetActiveFarmer(w.ctx, a, pl.Id, addrN(owner)); ok {
			farmed = farmed.Add(f.FarmedPoolCoin.Amount)
		}
		return farmed
	}
	farmed := farmedOf(app)
	if coinApp != app && g.chance(50) {
		farmed = farmedOf(coinApp)
	}
	ref := w.refP[fmt.Sprintf("%d:%d", app, pl.PairId)]
	depCoins := func(x, y sdk.Int) sdk.Coins {
		if coinApp != app {
			if opl, ok := w.k.GetPool(w.ctx, coinApp, pl.Id); ok {
				opr, _ := w.k.GetPair(w.ctx, coinApp, opl.PairId)
				return sdk.NewCoins(sdk.NewCoin(opr.QuoteCoinDenom, x), sdk.NewCoin(opr.BaseCoinDenom, y))
			}
		}
		if g.chance(3) { // one coin only / a coin outside the pair
			return sdk.NewCoins(sdk.NewCoin([]string{"uaaa", "ubbb", "uccc", "ucmdx"}[g.intn(4)], x.AddRaw(1)))
		}
		return w.ownCoins(app, pid, x, y)
	}
	switch x := g.intn(100); {
	case x < 25:
		y := sdk.NewInt(int64(g.pickI(0, 1, 1000, 100000, 5000000)))
		xq := ref.MulInt(y).TruncateInt()
		if g.chance(30) {
			xq = xq.AddRaw(int64(g.intn(100000)))
		}
		w.opDeposit(app, owner, pid, depCoins(xq, y))
	case x < 40:
		w.opWithdraw(app, owner, pid, sdk.Coin{Denom: pcDenom, Amount: frac(pcBal)})
	case x < 58:
		w.opFarm(app, owner, pid, sdk.Coin{Denom: pcDenom, Amount: frac(pcBal)})
	case x < 76:
		w.opUnfarm(app, owner, pid, sdk.Coin{Denom: pcDenom, Amount: frac(farmed)})
	case x < 88:
		y := sdk.NewInt(int64(g.pickI(1, 1000, 100000, 5000000)))
		w.opDepositAndFarm(app, owner, pid, depCoins(ref.MulInt(y).TruncateInt().AddRaw(int64(g.intn(1000))), y))
	default:
		w.opUnfarmAndWithdraw(app, owner, pid, sdk.Coin{Denom: pcDenom, Amount: frac(farmed)})
	}
}

// TestC07 — order life cycle workload (limit / market / market-making orders, cancels, expiry).
func TestC07(t *testing.T) { liqDrive(t, "C07") }
