//go:build verif

package verifharness

import (
	"testing"
	"time"

	sdk "github.com/cosmos/cosmos-sdk/types"

	chain "github.com/comdex-official/comdex/app"
	"github.com/comdex-official/comdex/app/wasm/bindings"
	assettypes "github.com/comdex-official/comdex/x/asset/types"
	auctionsv2types "github.com/comdex-official/comdex/x/auctionsV2/types"
	lendtypes "github.com/comdex-official/comdex/x/lend/types"
	liquidationsv2types "github.com/comdex-official/comdex/x/liquidationsV2/types"
	"github.com/comdex-official/comdex/x/liquidity"
	"github.com/comdex-official/comdex/x/liquidity/amm"
	liquiditytypes "github.com/comdex-official/comdex/x/liquidity/types"
	lockertypes "github.com/comdex-official/comdex/x/locker/types"
	vaulttypes "github.com/comdex-official/comdex/x/vault/types"
)

// c12World is ONE state of the real application in which the account Owner holds one live position
// of every kind (vault, stable-mint vault, locker, lend, borrow, pool coins, farm, resting limit order,
// resting market-making orders, auctionsV2 limit bid) while Other1 / Other2 are funded but own nothing.
// The state is valid at Ctx (a later block than the context handed to c12Setup because liquidity
// orders can only be cancelled in a later batch than the one they were placed in).
//
// c12SetupN builds the same state with SEVERAL position owners and returns one c12World per owner
// (a "view": same Ctx and configuration, Owner and the position ids are that user's).  The positions
// of the different kinds are created in different user orders, so that the numeric ids of different
// kinds are deliberately MISALIGNED across owners (see c12Orders): the owner of vault #n is not the
// owner of lend #n, the owner of borrow #n is not the owner of lend #n, ...
type c12World struct {
	Ctx sdk.Context

	// index of this view's Owner among the position owners, and all position owners (views share it)
	OwnerIdx int
	Owners   []sdk.AccAddress

	Owner, Other1, Other2 sdk.AccAddress
	// LP is the helper account that created the liquidity pair/pool, made the first trade and funded
	// the lend pool (it is neither Owner nor one of the Others; it holds pool coins).
	LP sdk.AccAddress

	// vault (normal) and stable-mint vault, both in app VaultApp
	VaultApp, ExtPair, VaultID   uint64
	StableExtPair, StableVaultID uint64
	// a second NON-stable extended pair of VaultApp in which nobody has a vault yet
	ExtPair2 uint64
	// locker
	LockerApp, LockerAsset, LockerID uint64
	// lend / borrow.  LendID is a lend position WITHOUT any borrow (so that CloseLend succeeds);
	// BorrowID borrows against the second lend position BorrowLendID (asset BorrowLendAsset) over pair BorrowPair.
	// LendAssetPair is a pair (LendAsset -> other asset) over which a new borrow against LendID can be opened.
	LendApp, LendPool, LendAsset, LendID, BorrowID, BorrowPair uint64
	BorrowLendID, BorrowLendAsset, LendAssetPair               uint64
	// liquidity.  LiqPair2 is a second pair of LiqApp without any pool (for CreatePool).
	LiqApp, LiqPair, LiqPool, OrderID uint64
	LiqPair2                          uint64
	MMOrderIDs                        []uint64
	PoolCoinDenom                     string
	LastPrice                         sdk.Dec
	// auctionsV2 limit bid (keyed by bidder address)
	BidCollateralAsset, BidDebtAsset uint64
	BidPremium                       sdk.Int
	// a running auctionsV2 dutch auction (collateral CMDX, debt CMST) of a liquidated vault that belonged to LP
	AuctionID uint64
	// every asset id whose oracle price some handler may read, and the price set for it (all set active)
	PriceAssets []uint64
	Prices      map[uint64]uint64

	// asset ids / denoms
	CMDX, CMST, ATOM, HARBOR, USDC, CCMDX, CATOM, CCMST, XTKN uint64
}

const (
	c12DenomCMDX   = "ucmdx"
	c12DenomCMST   = "ucmst"
	c12DenomATOM   = "uatom"
	c12DenomHARBOR = "uharbor"
	c12DenomUSDC   = "uusdc"
	c12DenomCCMDX  = "uccmdx"
	c12DenomCATOM  = "ucatom"
	c12DenomCCMST  = "uccmst"
	c12DenomXTKN   = "uxtkn"

	c12BlockSeconds = 6
)

func c12Coin(denom string, amt int64) sdk.Coin { return sdk.NewCoin(denom, sdk.NewInt(amt)) }

func c12Dec(s string) sdk.Dec { return sdk.MustNewDecFromStr(s) }

func c12AddApp(t *testing.T, a *chain.App, ctx sdk.Context, name, short string) uint64 {
	return c12AddAppTok(t, a, ctx, name, short, []assettypes.MintGenesisToken{})
}

func c12AddAppTok(t *testing.T, a *chain.App, ctx sdk.Context, name, short string, toks []assettypes.MintGenesisToken) uint64 {
	err := a.AssetKeeper.AddAppRecords(ctx, assettypes.AppData{Name: name, ShortName: short, MinGovDeposit: sdk.NewInt(0), GovTimeInSeconds: 0,
		GenesisToken: toks})
	if err != nil {
		t.Fatalf("c12 AddAppRecords %s: %v", name, err)
	}
	apps, _ := a.AssetKeeper.GetApps(ctx)
	for _, ap := range apps {
		if ap.Name == name {
			return ap.Id
		}
	}
	t.Fatalf("c12 app %s not found", name)
	return 0
}

// c12Exec sends a real message through the router and aborts the test when it does not succeed
func c12Exec(t *testing.T, a *chain.App, ctx sdk.Context, what string, msg sdk.Msg) {
	t.Helper()
	class, err, _ := execMsg(a, ctx, msg)
	if class != "ok" {
		t.Fatalf("c12Setup %s: %s %v", what, class, err)
	}
}

// c12NextBlock ends the current block and begins the next one for the liquidity module (the only
// module whose block hooks the fixture needs: batch execution of deposits / orders).
func c12NextBlock(a *chain.App, ctx sdk.Context) sdk.Context {
	liquidity.EndBlocker(ctx, a.LiquidityKeeper, a.AssetKeeper)
	ctx = ctx.WithBlockHeight(ctx.BlockHeight() + 1).WithBlockTime(ctx.BlockTime().Add(c12BlockSeconds * time.Second))
	liquidity.BeginBlocker(ctx, a.LiquidityKeeper, a.AssetKeeper)
	return ctx
}

// c12LimitBuy builds a limit buy order of amt base coins at price (offer coin includes the swap fee)
func c12LimitBuy(w *c12World, who sdk.AccAddress, price sdk.Dec, amt int64, lifespan time.Duration) *liquiditytypes.MsgLimitOrder {
	offer := amm.OfferCoinAmount(amm.Buy, price, sdk.NewInt(amt))
	fee := sdk.NewDecFromInt(offer).Mul(liquiditytypes.DefaultSwapFeeRate).Ceil().TruncateInt()
	return liquiditytypes.NewMsgLimitOrder(w.LiqApp, who, w.LiqPair, liquiditytypes.OrderDirectionBuy,
		sdk.NewCoin(c12DenomCMST, offer.Add(fee).AddRaw(10)), c12DenomCMDX, price, sdk.NewInt(amt), lifespan)
}

// c12Setup: the single-owner state (Owner = addrN(1) holds every position).
func c12Setup(t *testing.T, a *chain.App, ctx sdk.Context) *c12World {
	return c12SetupN(t, a, ctx, 1)[0]
}

// c12Orders: for each kind of position, the order (indices into the owner list) in which the owners
// create their position of that kind.  With three owners A, B, C (indices 0, 1, 2):
//
//	vault   ids 1,2,3 -> A,B,C        locker ids 1,2,3 -> B,C,A
//	lend    ids 1,2,3 -> C,A,B (the lend position WITHOUT a borrow), ids 4,5,6 -> A,B,C (the one borrowed against)
//	borrow  ids 1,2,3 -> B,C,A (on lends 5,6,4)
//	limit orders in the order C,A,B, market-making orders in the order B,C,A
//
// so for every n the owners of vault #n, lend #n and borrow #n are three different accounts, and the
// owner of locker #n differs from the owners of vault #n and lend #n.
type c12Orders struct{ Vault, Locker, Lend, LendB, Borrow, Order, MM []int }

func c12OrdersFor(n int) c12Orders {
	rot := func(k int) []int {
		out := make([]int, n)
		for i := range out {
			out[i] = (i + k) % n
		}
		return out
	}
	return c12Orders{Vault: rot(0), Locker: rot(1), Lend: rot(2), LendB: rot(0), Borrow: rot(1), Order: rot(2), MM: rot(1)}
}

// c12SetupN: nOwners position owners (addrN(1), addrN(4), addrN(5), ...); returns one view per owner.
func c12SetupN(t *testing.T, a *chain.App, ctx sdk.Context, nOwners int) []*c12World {
	w := &c12World{Owner: addrN(1), Other1: addrN(2), Other2: addrN(3), LP: addrN(9), Prices: map[uint64]uint64{}}
	w.Owners = []sdk.AccAddress{w.Owner}
	for i := 1; i < nOwners; i++ {
		w.Owners = append(w.Owners, addrN(3+i))
	}
	ord := c12OrdersFor(nOwners)
	views := make([]*c12World, nOwners)

	// ---------- assets and prices ----------
	w.CMDX = addAsset(t, a, ctx, "CMDX", c12DenomCMDX, 1000000, true, false)
	w.CMST = addAsset(t, a, ctx, "CMST", c12DenomCMST, 1000000, true, true)
	w.ATOM = addAsset(t, a, ctx, "ATOM", c12DenomATOM, 1000000, true, false)
	w.HARBOR = addAsset(t, a, ctx, "HARBOR", c12DenomHARBOR, 1000000, false, false)
	w.USDC = addAsset(t, a, ctx, "USDC", c12DenomUSDC, 1000000, true, false)
	w.CCMDX = addAsset(t, a, ctx, "CCMDX", c12DenomCCMDX, 1000000, false, false)
	w.CATOM = addAsset(t, a, ctx, "CATOM", c12DenomCATOM, 1000000, false, false)
	w.CCMST = addAsset(t, a, ctx, "CCMST", c12DenomCCMST, 1000000, false, false)
	w.XTKN = addAsset(t, a, ctx, "XTKN", c12DenomXTKN, 1000000, false, false)
	for _, p := range []struct{ id, price uint64 }{{w.CMDX, 2000000}, {w.CMST, 1000000}, {w.ATOM, 10000000}, {w.USDC, 1000000}} {
		setPrice(a, ctx, p.id, p.price, true)
		w.PriceAssets = append(w.PriceAssets, p.id)
		w.Prices[p.id] = p.price
	}

	// ---------- apps (commodo must be app 3: lend hard-codes app id 3 in RemoveFaultyAuctions) ----------
	// harbor has a governance token (HARBOR, needed by the esm deposit / surplus-auction burn paths) and a second genesis
	// token (XTKN) that nobody has minted yet: tokenmint.MsgMintNewTokens has work to do on it.  The genesis supply of
	// HARBOR itself is minted to the LP by the extended fixture (c12xSetup), not here.
	harbor := c12AddAppTok(t, a, ctx, "harbor", "harbor", []assettypes.MintGenesisToken{
		{AssetId: w.HARBOR, GenesisSupply: sdk.NewInt(1_000_000_000_000), IsGovToken: true, Recipient: w.LP.String()},
		{AssetId: w.XTKN, GenesisSupply: sdk.NewInt(1_000_000_000), IsGovToken: false, Recipient: w.LP.String()}})
	cswap := c12AddApp(t, a, ctx, "cswap", "cswap")
	commodo := c12AddApp(t, a, ctx, "commodo", "cmmdo")
	if commodo != 3 {
		t.Fatalf("c12Setup: commodo app id %d, want 3", commodo)
	}
	w.VaultApp, w.LockerApp, w.LiqApp, w.LendApp = harbor, harbor, cswap, commodo

	// ---------- accounts ----------
	rich := sdk.NewCoins(c12Coin(c12DenomCMDX, 1_000_000_000_000), c12Coin(c12DenomCMST, 1_000_000_000_000), c12Coin(c12DenomATOM, 1_000_000_000_000),
		c12Coin(c12DenomHARBOR, 1_000_000_000_000), c12Coin(c12DenomUSDC, 1_000_000_000_000))
	for _, who := range append([]sdk.AccAddress{w.Other1, w.Other2, w.LP}, w.Owners...) {
		fund(t, a, ctx, who, rich)
	}

	// ---------- vault configuration (app harbor) ----------
	pCmdxCmst := addPair(t, a, ctx, w.CMDX, w.CMST)
	pAtomCmst := addPair(t, a, ctx, w.ATOM, w.CMST)
	pUsdcCmst := addPair(t, a, ctx, w.USDC, w.CMST)
	w.ExtPair = addExtPair(t, a, ctx, extPairCfg{Name: "CMDX-A", App: harbor, Pair: pCmdxCmst, StabilityFee: sdk.NewDecWithPrec(2, 2),
		ClosingFee: sdk.NewDecWithPrec(5, 3), LiqPenalty: sdk.NewDecWithPrec(15, 2), DrawDownFee: sdk.NewDecWithPrec(1, 2), MinCr: sdk.NewDecWithPrec(15, 1),
		DebtCeiling: sdk.NewInt(1_000_000_000_000), DebtFloor: sdk.NewInt(1_000_000), Active: true, OraclePrice: true, AssetOutPrice: 1000000, MinUsdValLeft: 100000})
	w.ExtPair2 = addExtPair(t, a, ctx, extPairCfg{Name: "ATOM-A", App: harbor, Pair: pAtomCmst, StabilityFee: sdk.NewDecWithPrec(1, 2),
		ClosingFee: sdk.ZeroDec(), LiqPenalty: sdk.NewDecWithPrec(15, 2), DrawDownFee: sdk.NewDecWithPrec(1, 2), MinCr: sdk.NewDecWithPrec(14, 1),
		DebtCeiling: sdk.NewInt(1_000_000_000_000), DebtFloor: sdk.NewInt(1_000_000), Active: true, OraclePrice: true, AssetOutPrice: 1000000, MinUsdValLeft: 100000})
	w.StableExtPair = addExtPair(t, a, ctx, extPairCfg{Name: "USDC-PSM", App: harbor, Pair: pUsdcCmst, StabilityFee: sdk.ZeroDec(),
		ClosingFee: sdk.ZeroDec(), LiqPenalty: sdk.ZeroDec(), DrawDownFee: sdk.NewDecWithPrec(1, 3), MinCr: sdk.OneDec(),
		DebtCeiling: sdk.NewInt(1_000_000_000_000), DebtFloor: sdk.NewInt(1_000_000), Stable: true, Active: true, OraclePrice: false, AssetOutPrice: 1000000, MinUsdValLeft: 100000})
	// stability fee accrual is active for the app
	if err := a.Rewardskeeper.WhitelistAppIDVault(ctx, harbor); err != nil {
		t.Fatalf("c12Setup WhitelistAppIDVault: %v", err)
	}

	// ---------- locker configuration (app harbor, asset CMST) ----------
	w.LockerAsset = w.CMST
	if err := a.CollectorKeeper.WasmSetCollectorLookupTable(ctx, &bindings.MsgSetCollectorLookupTable{AppID: harbor, CollectorAssetID: w.CMST,
		SecondaryAssetID: w.HARBOR, SurplusThreshold: sdk.NewInt(10_000_000_000), DebtThreshold: sdk.NewInt(5_000_000), LockerSavingRate: c12Dec("0.06"),
		LotSize: sdk.NewInt(2_000_000), BidFactor: c12Dec("0.01"), DebtLotSize: sdk.NewInt(2_000_000)}); err != nil {
		t.Fatalf("c12Setup WasmSetCollectorLookupTable: %v", err)
	}
	if _, err := a.LockerKeeper.AddWhiteListedAsset(ctx, &lockertypes.MsgAddWhiteListedAssetRequest{From: w.LP.String(), AppId: harbor, AssetId: w.CMST}); err != nil {
		t.Fatalf("c12Setup AddWhiteListedAsset: %v", err)
	}
	if err := a.Rewardskeeper.WhitelistAssetForInternalRewards(ctx, harbor, w.CMST); err != nil {
		t.Fatalf("c12Setup WhitelistAssetForInternalRewards: %v", err)
	}

	// ---------- lend configuration (app commodo, one pool with CMDX / ATOM / CMST) ----------
	supplyCap := sdk.NewDec(5_000_000_000_000_000_000)
	if err := a.LendKeeper.AddPoolRecords(ctx, lendtypes.Pool{ModuleName: lendtypes.ModuleAcc1, CPoolName: "CMDX-ATOM-CMST", AssetData: []*lendtypes.AssetDataPoolMapping{
		{AssetID: w.CMDX, AssetTransitType: 1, SupplyCap: supplyCap},
		{AssetID: w.ATOM, AssetTransitType: 2, SupplyCap: supplyCap},
		{AssetID: w.CMST, AssetTransitType: 3, SupplyCap: supplyCap}}}); err != nil {
		t.Fatalf("c12Setup AddPoolRecords: %v", err)
	}
	pools := a.LendKeeper.GetPools(ctx)
	w.LendPool = pools[len(pools)-1].PoolID
	rates := func(asset, casset uint64, ltv, liqTh string, stable bool) lendtypes.AssetRatesParams {
		return lendtypes.AssetRatesParams{AssetID: asset, UOptimal: c12Dec("0.8"), Base: c12Dec("0.002"), Slope1: c12Dec("0.06"), Slope2: c12Dec("0.6"),
			EnableStableBorrow: stable, StableBase: c12Dec("0.04"), StableSlope1: c12Dec("0.04"), StableSlope2: c12Dec("0.06"),
			Ltv: c12Dec(ltv), LiquidationThreshold: c12Dec(liqTh), LiquidationPenalty: c12Dec("0.05"), LiquidationBonus: c12Dec("0.05"),
			ReserveFactor: c12Dec("0.2"), CAssetID: casset}
	}
	if err := a.LendKeeper.AddAssetRatesParams(ctx, rates(w.CMDX, w.CCMDX, "0.5", "0.55", false), rates(w.ATOM, w.CATOM, "0.7", "0.75", false),
		rates(w.CMST, w.CCMST, "0.8", "0.85", true)); err != nil {
		t.Fatalf("c12Setup AddAssetRatesParams: %v", err)
	}
	lendPair := func(in, out uint64) uint64 {
		if err := a.LendKeeper.AddLendPairsRecords(ctx, lendtypes.Extended_Pair{AssetIn: in, AssetOut: out, IsInterPool: false,
			AssetOutPoolID: w.LendPool, MinUsdValueLeft: 100000}); err != nil {
			t.Fatalf("c12Setup AddLendPairsRecords: %v", err)
		}
		for _, p := range a.LendKeeper.GetLendPairs(ctx) {
			if p.AssetIn == in && p.AssetOut == out {
				return p.Id
			}
		}
		t.Fatal("c12Setup lend pair not found")
		return 0
	}
	lpCmdxCmst, lpCmdxAtom := lendPair(w.CMDX, w.CMST), lendPair(w.CMDX, w.ATOM)
	lpAtomCmst, lpAtomCmdx := lendPair(w.ATOM, w.CMST), lendPair(w.ATOM, w.CMDX)
	lpCmstCmdx, lpCmstAtom := lendPair(w.CMST, w.CMDX), lendPair(w.CMST, w.ATOM)
	for _, m := range []lendtypes.AssetToPairMapping{
		{AssetID: w.CMDX, PoolID: w.LendPool, PairID: []uint64{lpCmdxCmst, lpCmdxAtom}},
		{AssetID: w.ATOM, PoolID: w.LendPool, PairID: []uint64{lpAtomCmst, lpAtomCmdx}},
		{AssetID: w.CMST, PoolID: w.LendPool, PairID: []uint64{lpCmstCmdx, lpCmstAtom}}} {
		if err := a.LendKeeper.AddAssetToPair(ctx, m); err != nil {
			t.Fatalf("c12Setup AddAssetToPair: %v", err)
		}
	}
	if err := a.LendKeeper.AddAuctionParamsData(ctx, lendtypes.AuctionParams{AppId: commodo, AuctionDurationSeconds: 21600, Buffer: c12Dec("1.2"),
		Cusp: c12Dec("0.7"), Step: sdk.NewInt(360), PriceFunctionType: 1, DutchId: 3, BidDurationSeconds: 3600}); err != nil {
		t.Fatalf("c12Setup AddAuctionParamsData: %v", err)
	}
	w.LendAsset, w.BorrowLendAsset, w.BorrowPair, w.LendAssetPair = w.ATOM, w.CMDX, lpCmdxCmst, lpAtomCmst

	// ---------- auctionsV2 configuration ----------
	a.NewaucKeeper.SetAuctionParams(ctx, auctionsv2types.AuctionParams{AuctionDurationSeconds: 3600, Step: c12Dec("0.1"), WithdrawalFee: c12Dec("0.01"),
		ClosingFee: c12Dec("0.01"), MinUsdValueLeft: 100000, BidFactor: c12Dec("0.1"), LiquidationPenalty: c12Dec("0.1"), AuctionBonus: c12Dec("0.0")})
	w.BidCollateralAsset, w.BidDebtAsset, w.BidPremium = w.CMDX, w.CMST, sdk.NewInt(5)
	a.NewliqKeeper.SetLiquidationWhiteListing(ctx, liquidationsv2types.LiquidationWhiteListing{AppId: harbor, Initiator: true, IsDutchActivated: true,
		DutchAuctionParam:  &liquidationsv2types.DutchAuctionParam{Premium: c12Dec("1.2"), Discount: c12Dec("0.7"), DecrementFactor: sdk.NewInt(1)},
		IsEnglishActivated: false, KeeeperIncentive: c12Dec("0.1")})

	// ================= block 1: liquidity pair, pool, first trade (gives the pair a last price) =================
	c12Exec(t, a, ctx, "CreatePair", liquiditytypes.NewMsgCreatePair(cswap, w.LP, c12DenomCMDX, c12DenomCMST))
	c12Exec(t, a, ctx, "CreatePair2", liquiditytypes.NewMsgCreatePair(cswap, w.LP, c12DenomATOM, c12DenomCMST))
	pair, found := a.LiquidityKeeper.GetPairByDenoms(ctx, cswap, c12DenomCMDX, c12DenomCMST)
	if !found {
		t.Fatal("c12Setup: liquidity pair not found")
	}
	pair2, _ := a.LiquidityKeeper.GetPairByDenoms(ctx, cswap, c12DenomATOM, c12DenomCMST)
	w.LiqPair, w.LiqPair2 = pair.Id, pair2.Id
	c12Exec(t, a, ctx, "CreatePool", liquiditytypes.NewMsgCreatePool(cswap, w.LP, w.LiqPair,
		sdk.NewCoins(c12Coin(c12DenomCMDX, 1_000_000_000), c12Coin(c12DenomCMST, 2_000_000_000))))
	lpools := a.LiquidityKeeper.GetAllPools(ctx, cswap)
	if len(lpools) != 1 {
		t.Fatalf("c12Setup: %d liquidity pools", len(lpools))
	}
	w.LiqPool, w.PoolCoinDenom = lpools[0].Id, lpools[0].PoolCoinDenom
	// the LP buys a little above the pool price: matched against the pool at the end of the block
	c12Exec(t, a, ctx, "first trade", c12LimitBuy(w, w.LP, c12Dec("2.02"), 1_000_000, 0))
	// lend pool liquidity comes from the LP as well
	for _, f := range []struct {
		asset uint64
		coin  sdk.Coin
	}{{w.CMST, c12Coin(c12DenomCMST, 10_000_000_000)}, {w.CMDX, c12Coin(c12DenomCMDX, 10_000_000_000)}, {w.ATOM, c12Coin(c12DenomATOM, 10_000_000_000)}} {
		c12Exec(t, a, ctx, "FundModuleAccounts", lendtypes.NewMsgFundModuleAccounts(w.LendPool, f.asset, w.LP.String(), f.coin))
	}
	ctx = c12NextBlock(a, ctx)
	pair, _ = a.LiquidityKeeper.GetPair(ctx, cswap, w.LiqPair)
	if pair.LastPrice == nil {
		t.Fatal("c12Setup: the first trade did not set a last price")
	}
	w.LastPrice = *pair.LastPrice

	// ================= block 2: every owner deposits into the pool (pool coins are minted at the end of the block) =================
	for _, who := range w.Owners {
		c12Exec(t, a, ctx, "liquidity Deposit", liquiditytypes.NewMsgDeposit(cswap, who, w.LiqPool,
			sdk.NewCoins(c12Coin(c12DenomCMDX, 100_000_000), c12Coin(c12DenomCMST, 200_000_000))))
	}
	ctx = c12NextBlock(a, ctx)
	for _, who := range w.Owners {
		if !bal(a, ctx, who, w.PoolCoinDenom).IsPositive() {
			t.Fatal("c12Setup: an owner received no pool coins")
		}
	}
	// the views: copies of the configured world, one per owner
	for i := range views {
		v := *w
		v.Owner, v.OwnerIdx = w.Owners[i], i
		views[i] = &v
	}

	// ================= block 3: farm, resting limit order, resting market-making orders =================
	for _, v := range views {
		pc := bal(a, ctx, v.Owner, w.PoolCoinDenom)
		c12Exec(t, a, ctx, "Farm", liquiditytypes.NewMsgFarm(cswap, w.LiqPool, v.Owner, sdk.NewCoin(w.PoolCoinDenom, pc.QuoRaw(2))))
	}
	// 5% under the last price: inside the +-10% band, never matched by the pool (it sells above its price)
	restPrice := amm.PriceToDownTick(w.LastPrice.Mul(c12Dec("0.95")), int(liquiditytypes.DefaultTickPrecision))
	for _, i := range ord.Order {
		v := views[i]
		c12Exec(t, a, ctx, "LimitOrder", c12LimitBuy(w, v.Owner, restPrice, 1_000_000, 20*time.Hour))
		pair, _ = a.LiquidityKeeper.GetPair(ctx, cswap, w.LiqPair)
		v.OrderID = pair.LastOrderId
	}
	for _, i := range ord.MM {
		v := views[i]
		c12Exec(t, a, ctx, "MMOrder", c12MMOrder(w, v.Owner))
		idx, found := a.LiquidityKeeper.GetMMOrderIndex(ctx, v.Owner, cswap, w.LiqPair)
		if !found || len(idx.OrderIds) == 0 {
			t.Fatal("c12Setup: no market-making order index")
		}
		v.MMOrderIDs = idx.OrderIds
	}
	ctx = c12NextBlock(a, ctx)

	// ================= block 4 (the final block): every other position =================
	pair, _ = a.LiquidityKeeper.GetPair(ctx, cswap, w.LiqPair)
	for _, v := range views {
		ord, found := a.LiquidityKeeper.GetOrder(ctx, cswap, w.LiqPair, v.OrderID)
		if !found || ord.Orderer != v.Owner.String() || !(ord.BatchId < pair.CurrentBatchId) || !ord.OpenAmount.Equal(sdk.NewInt(1_000_000)) {
			t.Fatalf("c12Setup: resting order wrong: found=%v %+v (pair batch %d)", found, ord, pair.CurrentBatchId)
		}
		for _, id := range v.MMOrderIDs {
			if o, ok := a.LiquidityKeeper.GetOrder(ctx, cswap, w.LiqPair, id); !ok || !o.OpenAmount.IsPositive() {
				t.Fatalf("c12Setup: market-making order %d not resting", id)
			}
		}
	}

	// vaults: 100 CMDX ($200) against 50 CMST
	for _, i := range ord.Vault {
		v := views[i]
		c12Exec(t, a, ctx, "vault MsgCreate", vaulttypes.NewMsgCreateRequest(v.Owner, harbor, w.ExtPair, sdk.NewInt(100_000_000), sdk.NewInt(50_000_000)))
		vm, found := a.VaultKeeper.GetUserAppExtendedPairMappingData(ctx, v.Owner.String(), harbor, w.ExtPair)
		if !found {
			t.Fatal("c12Setup: vault mapping not found")
		}
		v.VaultID = vm.VaultId
	}
	// stable-mint vault: 100 USDC (ONE shared pool per extended pair: created by the first owner)
	c12Exec(t, a, ctx, "vault MsgCreateStableMint", vaulttypes.NewMsgCreateStableMintRequest(w.Owner, harbor, w.StableExtPair, sdk.NewInt(100_000_000)))
	w.StableVaultID = a.VaultKeeper.GetIDForStableVault(ctx)
	if sv, ok := a.VaultKeeper.GetStableMintVault(ctx, w.StableVaultID); !ok || sv.ExtendedPairVaultID != w.StableExtPair {
		t.Fatal("c12Setup: stable-mint vault not found")
	}

	// lockers: 100 CMST
	for _, i := range ord.Locker {
		v := views[i]
		c12Exec(t, a, ctx, "MsgCreateLocker", lockertypes.NewMsgCreateLockerRequest(v.Owner.String(), sdk.NewInt(100_000_000), w.CMST, harbor))
		lm, found := a.LockerKeeper.GetUserLockerAssetMapping(ctx, v.Owner.String(), harbor, w.CMST)
		if !found || lm.LockerId == 0 {
			t.Fatal("c12Setup: locker mapping not found")
		}
		v.LockerID = lm.LockerId
	}

	// lend: 100 ATOM (no borrow), 1000 CMDX of which 500 cCMDX back a borrow of 100 CMST
	var ok bool
	for _, i := range ord.Lend {
		v := views[i]
		c12Exec(t, a, ctx, "Lend ATOM", lendtypes.NewMsgLend(v.Owner.String(), w.ATOM, c12Coin(c12DenomATOM, 100_000_000), w.LendPool, commodo))
		if v.LendID, ok = a.LendKeeper.GetLendIDForAssetIDPoolID(ctx, v.Owner.String(), w.ATOM, w.LendPool); !ok {
			t.Fatal("c12Setup: lend position not found")
		}
	}
	for _, i := range ord.LendB {
		v := views[i]
		c12Exec(t, a, ctx, "Lend CMDX", lendtypes.NewMsgLend(v.Owner.String(), w.CMDX, c12Coin(c12DenomCMDX, 1_000_000_000), w.LendPool, commodo))
		if v.BorrowLendID, ok = a.LendKeeper.GetLendIDForAssetIDPoolID(ctx, v.Owner.String(), w.CMDX, w.LendPool); !ok {
			t.Fatal("c12Setup: second lend position not found")
		}
	}
	for _, i := range ord.Borrow {
		v := views[i]
		c12Exec(t, a, ctx, "Borrow", lendtypes.NewMsgBorrow(v.Owner.String(), v.BorrowLendID, w.BorrowPair, false,
			c12Coin(c12DenomCCMDX, 500_000_000), c12Coin(c12DenomCMST, 100_000_000)))
		if v.BorrowID, ok = a.LendKeeper.GetBorrowIDForAddressByPair(ctx, v.Owner.String(), w.BorrowPair); !ok {
			t.Fatal("c12Setup: borrow position not found")
		}
		if lp, _ := a.LendKeeper.GetLend(ctx, v.LendID); lp.AppID != w.LendApp || lp.Owner != v.Owner.String() {
			t.Fatalf("c12Setup: lend app id %d owner %s", lp.AppID, lp.Owner)
		}
		if bp, _ := a.LendKeeper.GetBorrow(ctx, v.BorrowID); bp.LendingID != v.BorrowLendID {
			t.Fatalf("c12Setup: borrow %d sits on lend %d, want %d", v.BorrowID, bp.LendingID, v.BorrowLendID)
		}
	}

	// auctionsV2 limit bids: 20 CMST for CMDX collateral at premium 5
	for _, v := range views {
		c12Exec(t, a, ctx, "MsgDepositLimitBid", auctionsv2types.NewMsgDepositLimitBid(v.Owner.String(), w.BidCollateralAsset, w.BidDebtAsset, w.BidPremium,
			c12Coin(c12DenomCMST, 20_000_000)))
		if _, ok := a.NewaucKeeper.GetUserLimitBidData(ctx, w.BidDebtAsset, w.BidCollateralAsset, w.BidPremium, v.Owner.String()); !ok {
			t.Fatal("c12Setup: limit bid not found")
		}
	}

	// a running dutch auction: the LP opens a vault exactly at the minimum collateral ratio (75 CMDX = $150 against
	// 100 CMST, MinCr 1.5).  MsgCreate compares amount_in with amount_out only, the liquidation check also counts the
	// closing fee (0.5%) as debt, so the vault is liquidatable at once without any price change.
	c12Exec(t, a, ctx, "LP vault MsgCreate", vaulttypes.NewMsgCreateRequest(w.LP, harbor, w.ExtPair, sdk.NewInt(75_000_000), sdk.NewInt(100_000_000)))
	lv, found := a.VaultKeeper.GetUserAppExtendedPairMappingData(ctx, w.LP.String(), harbor, w.ExtPair)
	if !found {
		t.Fatal("c12Setup: LP vault mapping not found")
	}
	c12Exec(t, a, ctx, "MsgLiquidateInternalKeeper", liquidationsv2types.NewMsgLiquidateInternalKeeperRequest(w.LP, 0, lv.VaultId))
	w.AuctionID = a.NewaucKeeper.GetAuctionID(ctx)
	if au, err := a.NewaucKeeper.GetAuction(ctx, w.AuctionID); err != nil || w.AuctionID == 0 || !au.AuctionType || au.DebtToken.Denom != c12DenomCMST {
		t.Fatalf("c12Setup: no running dutch auction (id %d): %v", w.AuctionID, err)
	}
	if _, still := a.VaultKeeper.GetVault(ctx, lv.VaultId); still {
		t.Fatal("c12Setup: the LP vault was not liquidated")
	}

	for _, v := range views {
		v.Ctx, v.StableVaultID, v.AuctionID = ctx, w.StableVaultID, w.AuctionID
	}
	return views
}

// c12MMOrder: sell 1 CMDX over [+3%,+5%] and buy 1 CMDX over [-5%,-3%] of the last price (prices on ticks)
func c12MMOrder(w *c12World, who sdk.AccAddress) *liquiditytypes.MsgMMOrder {
	prec := int(liquiditytypes.DefaultTickPrecision)
	tick := func(f string) sdk.Dec { return amm.PriceToDownTick(w.LastPrice.Mul(c12Dec(f)), prec) }
	return liquiditytypes.NewMsgMMOrder(w.LiqApp, who, w.LiqPair,
		tick("1.05"), tick("1.03"), sdk.NewInt(1_000_000),
		tick("0.97"), tick("0.95"), sdk.NewInt(1_000_000), 20*time.Hour)
}

type c12Msg struct {
	Handler       string // "<module dir under /repo/x>.<msgServer method name>"
	Msg           sdk.Msg
	NamesPosition bool   // the message acts on an EXISTING position (by id, or keyed by the signer address)
	App           uint64 // the app id whose circuit breaker / ESM status governs this message (0: none)
}

// c12Messages builds every message of the vault, locker, lend, liquidity and auctionsV2 message
// servers with `signer` in the signer field and the ids of the Owner's positions.
//
// Nothing is skipped: all methods of the five MsgServer interfaces are present (none of them has a
// pure admin / params message: those go through governance proposals).
//
// Every NamesPosition message succeeds on the fixture state (each on its own CacheContext of w.Ctx)
// when signer == Owner.  The opening messages (NamesPosition == false) use parameters that succeed
// for a fresh funded account, except
//   - vault.MsgCreateStableMint: one stable-mint vault per extended pair, and it already exists;
//   - liquidity.Farm: needs pool coins which only Owner (and the LP) hold;
//   - locker.MsgCreateLocker fails for Owner (one locker per user/app/asset).
//
// Handlers mutate some messages (liquidity Unfarm zeroes msg.UnfarmingPoolCoin.Amount): build a
// fresh list for every run instead of re-sending a message.
func c12Messages(w *c12World, signer sdk.AccAddress) []c12Msg {
	s := signer.String()
	i := sdk.NewInt
	var ms []c12Msg
	add := func(h string, m sdk.Msg, names bool, app uint64) {
		ms = append(ms, c12Msg{Handler: h, Msg: m, NamesPosition: names, App: app})
	}

	// ---------- vault ----------
	va := w.VaultApp
	add("vault.MsgCreate", vaulttypes.NewMsgCreateRequest(signer, va, w.ExtPair2, i(10_000_000), i(20_000_000)), false, va)
	add("vault.MsgDeposit", vaulttypes.NewMsgDepositRequest(signer, va, w.ExtPair, w.VaultID, i(10_000_000)), true, va)
	add("vault.MsgWithdraw", vaulttypes.NewMsgWithdrawRequest(signer, va, w.ExtPair, w.VaultID, i(10_000_000)), true, va)
	add("vault.MsgDraw", vaulttypes.NewMsgDrawRequest(signer, va, w.ExtPair, w.VaultID, i(10_000_000)), true, va)
	add("vault.MsgRepay", vaulttypes.NewMsgRepayRequest(signer, va, w.ExtPair, w.VaultID, i(10_000_000)), true, va)
	add("vault.MsgClose", vaulttypes.NewMsgLiquidateRequest(signer, va, w.ExtPair, w.VaultID), true, va)
	add("vault.MsgDepositAndDraw", vaulttypes.NewMsgDepositAndDrawRequest(signer, va, w.ExtPair, w.VaultID, i(10_000_000)), true, va)
	add("vault.MsgCreateStableMint", vaulttypes.NewMsgCreateStableMintRequest(signer, va, w.StableExtPair, i(10_000_000)), false, va)
	add("vault.MsgDepositStableMint", vaulttypes.NewMsgDepositStableMintRequest(signer, va, w.StableExtPair, i(10_000_000), w.StableVaultID), true, va)
	add("vault.MsgWithdrawStableMint", vaulttypes.NewMsgWithdrawStableMintRequest(signer, va, w.StableExtPair, i(5_000_000), w.StableVaultID), true, va)
	add("vault.MsgVaultInterestCalc", vaulttypes.NewMsgVaultInterestCalcRequest(signer, va, w.VaultID), true, va)

	// ---------- locker ----------
	la := w.LockerApp
	add("locker.MsgCreateLocker", lockertypes.NewMsgCreateLockerRequest(s, i(10_000_000), w.LockerAsset, la), false, la)
	add("locker.MsgDepositAsset", lockertypes.NewMsgDepositAssetRequest(s, w.LockerID, i(5_000_000), w.LockerAsset, la), true, la)
	add("locker.MsgWithdrawAsset", lockertypes.NewMsgWithdrawAssetRequest(s, w.LockerID, i(5_000_000), w.LockerAsset, la), true, la)
	add("locker.MsgCloseLocker", lockertypes.NewMsgCloseLockerRequest(s, la, w.LockerAsset, w.LockerID), true, la)
	add("locker.MsgLockerRewardCalc", lockertypes.NewMsgLockerRewardCalcRequest(s, la, w.LockerID), true, la)

	// ---------- lend ----------
	le := w.LendApp
	add("lend.Lend", lendtypes.NewMsgLend(s, w.LendAsset, c12Coin(c12DenomATOM, 1_000_000), w.LendPool, le), false, le)
	add("lend.Withdraw", lendtypes.NewMsgWithdraw(s, w.LendID, c12Coin(c12DenomATOM, 10_000_000)), true, le)
	add("lend.Deposit", lendtypes.NewMsgDeposit(s, w.LendID, c12Coin(c12DenomATOM, 5_000_000)), true, le)
	add("lend.CloseLend", lendtypes.NewMsgCloseLend(s, w.LendID), true, le)
	add("lend.Borrow", lendtypes.NewMsgBorrow(s, w.LendID, w.LendAssetPair, false, c12Coin(c12DenomCATOM, 50_000_000), c12Coin(c12DenomCMST, 10_000_000)), true, le)
	add("lend.Repay", lendtypes.NewMsgRepay(s, w.BorrowID, c12Coin(c12DenomCMST, 10_000_000)), true, le)
	add("lend.DepositBorrow", lendtypes.NewMsgDepositBorrow(s, w.BorrowID, c12Coin(c12DenomCCMDX, 20_000_000)), true, le)
	add("lend.Draw", lendtypes.NewMsgDraw(s, w.BorrowID, c12Coin(c12DenomCMST, 10_000_000)), true, le)
	add("lend.CloseBorrow", lendtypes.NewMsgCloseBorrow(s, w.BorrowID), true, le)
	add("lend.BorrowAlternate", lendtypes.NewMsgBorrowAlternate(s, w.BorrowLendAsset, w.LendPool, c12Coin(c12DenomCMDX, 100_000_000), w.BorrowPair, false,
		c12Coin(c12DenomCMST, 5_000_000), le), false, le)
	add("lend.FundModuleAccounts", lendtypes.NewMsgFundModuleAccounts(w.LendPool, w.CMST, s, c12Coin(c12DenomCMST, 1_000_000)), false, le)
	add("lend.CalculateInterestAndRewards", lendtypes.NewMsgCalculateInterestAndRewards(s), true, le)
	add("lend.FundReserveAccounts", lendtypes.NewMsgFundReserveAccounts(w.CMST, s, c12Coin(c12DenomCMST, 1_000_000)), false, le)
	add("lend.RepayWithdraw", lendtypes.NewMsgRepayWithdraw(s, w.BorrowID), true, le)

	// ---------- liquidity ----------
	li := w.LiqApp
	add("liquidity.CreatePair", liquiditytypes.NewMsgCreatePair(li, signer, c12DenomATOM, c12DenomCMDX), false, li)
	add("liquidity.CreatePool", liquiditytypes.NewMsgCreatePool(li, signer, w.LiqPair2,
		sdk.NewCoins(c12Coin(c12DenomATOM, 10_000_000), c12Coin(c12DenomCMST, 100_000_000))), false, li)
	add("liquidity.CreateRangedPool", liquiditytypes.NewMsgCreateRangedPool(li, signer, w.LiqPair,
		sdk.NewCoins(c12Coin(c12DenomCMDX, 10_000_000), c12Coin(c12DenomCMST, 20_000_000)), c12Dec("1.5"), c12Dec("2.5"), c12Dec("2.0")), false, li)
	add("liquidity.Deposit", liquiditytypes.NewMsgDeposit(li, signer, w.LiqPool,
		sdk.NewCoins(c12Coin(c12DenomCMDX, 10_000_000), c12Coin(c12DenomCMST, 20_000_000))), false, li)
	add("liquidity.Withdraw", liquiditytypes.NewMsgWithdraw(li, signer, w.LiqPool, sdk.NewCoin(w.PoolCoinDenom, i(1_000_000))), true, li)
	restPrice := amm.PriceToDownTick(w.LastPrice.Mul(c12Dec("0.96")), int(liquiditytypes.DefaultTickPrecision))
	add("liquidity.LimitOrder", c12LimitBuy(w, signer, restPrice, 1_000_000, time.Hour), false, li)
	add("liquidity.MarketOrder", liquiditytypes.NewMsgMarketOrder(li, signer, w.LiqPair, liquiditytypes.OrderDirectionSell,
		c12Coin(c12DenomCMDX, 1_003_100), c12DenomCMST, i(1_000_000), 0), false, li)
	add("liquidity.MMOrder", c12MMOrder(w, signer), false, li)
	add("liquidity.CancelOrder", liquiditytypes.NewMsgCancelOrder(li, signer, w.LiqPair, w.OrderID), true, li)
	add("liquidity.CancelAllOrders", liquiditytypes.NewMsgCancelAllOrders(li, signer, []uint64{w.LiqPair}), true, li)
	add("liquidity.CancelMMOrder", liquiditytypes.NewMsgCancelMMOrder(li, signer, w.LiqPair), true, li)
	add("liquidity.Farm", liquiditytypes.NewMsgFarm(li, w.LiqPool, signer, sdk.NewCoin(w.PoolCoinDenom, i(1_000_000))), false, li)
	add("liquidity.Unfarm", liquiditytypes.NewMsgUnfarm(li, w.LiqPool, signer, sdk.NewCoin(w.PoolCoinDenom, i(1_000_000))), true, li)
	add("liquidity.DepositAndFarm", liquiditytypes.NewMsgDepositAndFarm(li, signer, w.LiqPool,
		sdk.NewCoins(c12Coin(c12DenomCMDX, 10_000_000), c12Coin(c12DenomCMST, 20_000_000))), false, li)
	add("liquidity.UnfarmAndWithdraw", liquiditytypes.NewMsgUnfarmAndWithdraw(li, w.LiqPool, signer, sdk.NewCoin(w.PoolCoinDenom, i(1_000_000))), true, li)

	// ---------- auctionsV2 ----------
	add("auctionsV2.MsgPlaceMarketBid", auctionsv2types.NewMsgPlaceMarketBid(s, w.AuctionID, c12Coin(c12DenomCMST, 10_000_000)), false, 0)
	add("auctionsV2.MsgDepositLimitBid", auctionsv2types.NewMsgDepositLimitBid(s, w.BidCollateralAsset, w.BidDebtAsset, w.BidPremium,
		c12Coin(c12DenomCMST, 5_000_000)), false, 0)
	add("auctionsV2.MsgCancelLimitBid", auctionsv2types.NewMsgCancelLimitBid(s, w.BidCollateralAsset, w.BidDebtAsset, w.BidPremium), true, 0)
	add("auctionsV2.MsgWithdrawLimitBid", auctionsv2types.NewMsgWithdrawLimitBid(s, w.BidCollateralAsset, w.BidDebtAsset, w.BidPremium,
		c12Coin(c12DenomCMST, 5_000_000)), true, 0)
	return ms
}
