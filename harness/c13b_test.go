//go:build verif

package verifharness

// C13, second workload (TestC13B): the collector paths that were modelled but not driven.
//   - auctionsV2 TriggerEsm (app under ESM, running dutch auction past its end time, with and without a
//     partial bid, once and twice on the same auction);
//   - esm SetUpDebtRedemptionForCollector (burn of the collector's net fees + book decrease) under every
//     combination of AssetToAmount / snapshot price / cool-off record / ESM status being present;
//   - collector MsgDeposit -> Refund (refund.go) in the configuration it was written for (app 2, asset 3 = ucmst);
//   - WasmMsgGetSurplusFund with a coin whose denom is not the asset's;
//   - collector.LockerIterateRewards with both `continue` branches (DecreaseNetFeeCollectedData fails; the
//     transfer fails after the books were lowered - reachable once C13-F2 has broken the backing);
//   - generation-1 / generation-2 auction closes with a token-mint record missing: the close fails inside
//     the auction module and the result class is compared (c13_auc_test.go prints the `ext` prediction).
// The base configuration differs from TestC13's in the asset order only: 1 = ucmdx, 2 = uharbor, 3 = ucmst.

import (
	"fmt"
	"strings"
	"testing"

	sdk "github.com/cosmos/cosmos-sdk/types"

	auctionsV2types "github.com/comdex-official/comdex/x/auctionsV2/types"
	collectortypes "github.com/comdex-official/comdex/x/collector/types"
	esmtypes "github.com/comdex-official/comdex/x/esm/types"
	vaulttypes "github.com/comdex-official/comdex/x/vault/types"
)

// what tokenmint.BurnTokensForApp / MintNewTokensForApp check before they touch the bank (mint.go:79-133),
// read from the stores: the part of an auction close that lies outside the collector model
func (w *c13World) c13MintOK(app, asset uint64, amt sdk.Int, burn bool) bool {
	if _, ok := w.a.AssetKeeper.GetAsset(w.ctx, asset); !ok {
		return false
	}
	if _, ok := w.a.TokenmintKeeper.GetTokenMint(w.ctx, app); !ok {
		return false
	}
	td, ok := w.a.TokenmintKeeper.GetAssetDataInTokenMintByApp(w.ctx, app, asset)
	if !ok {
		return false
	}
	if burn {
		return !(td.CurrentSupply.Sub(amt).LTE(sdk.ZeroInt()) || amt.LTE(sdk.ZeroInt()))
	}
	return true
}

// ---- auctionsV2 TriggerEsm ------------------------------------------------------------------------
// vault create, collateral price drop, automatic liquidation, optionally a partial dutch bid, ESM on,
// time past the auction's end; then TriggerEsm as AuctionIterator calls it (fresh auction and locked
// vault records), [times] times on the same auction (it deletes neither).
func (w *c13World) c13TriggerEsmFlow(app, out uint64, collIn int64, bidPct int64, times int) {
	w.c13TriggerEsmFlowOn(app, out, collIn, bidPct, times, false)
}

func (w *c13World) c13TriggerEsmFlowOn(app, out uint64, collIn int64, bidPct int64, times int, zeroFee bool) {
	a := w.a
	ep := w.ep[[2]uint64{app, out}]
	if zeroFee {
		ep = c13Epz[[2]uint64{app, out}]
	}
	in := sdk.NewInt(collIn)
	class := w.c13Vault("create", app, out, vaulttypes.NewMsgCreateRequest(w.vuser, app, ep, in, in))
	w.c13Obs()
	if class != "ok" {
		w.tr.p("op noop ok")
		return
	}
	vid := a.VaultKeeper.GetIDForVault(w.ctx)
	setPrice(a, w.ctx, w.assets[0], 1200000, true)
	before := a.NewaucKeeper.GetAuctionID(w.ctx)
	res := w.c13Apply(func(ctx sdk.Context) error { return a.NewliqKeeper.LiquidateIndividualVault(ctx, vid, "", false) })
	w.tr.p("op noop %s", res)
	w.c13Obs()
	after := a.NewaucKeeper.GetAuctionID(w.ctx)
	if res != "ok" || after != before+1 {
		setPrice(a, w.ctx, w.assets[0], 2000000, true)
		w.tr.p("op noop ok")
		return
	}
	au, _ := a.NewaucKeeper.GetAuction(w.ctx, after)
	if bidPct > 0 {
		d := au.DebtToken.Denom
		bal0 := bal(a, w.ctx, modAddr("collectorV1"), d)
		amt := au.DebtToken.Amount.MulRaw(bidPct).QuoRaw(100)
		class, _, _ := execMsg(a, w.ctx, &auctionsV2types.MsgPlaceMarketBidRequest{AuctionId: after, Bidder: w.c13Bidder().String(), Amount: sdk.NewCoin(d, amt)})
		delta := bal(a, w.ctx, modAddr("collectorV1"), d).Sub(bal0)
		if _, err := a.NewaucKeeper.GetAuction(w.ctx, after); class == "ok" && err != nil {
			// the bid closed the auction after all: the penalty went to the collector
			w.tr.p("op v2pen %d %d %d %s ok", au.AppId, au.CollateralAssetId, au.DebtAssetId, delta)
			w.c13Obs()
			setPrice(a, w.ctx, w.assets[0], 2000000, true)
			w.tr.p("op noop ok")
			return
		}
		if class == "ok" {
			w.tr.p("note v2esm:partial_bid")
		}
		w.tr.p("op noop %s", class)
		w.c13Obs()
	}
	setPrice(a, w.ctx, w.assets[0], 2000000, true)
	w.c13SetEsm(app, true)
	w.c13Obs()
	w.c13Advance(c13AucDur + 1)
	w.c13Obs()
	for i := 0; i < times; i++ {
		au, err := a.NewaucKeeper.GetAuction(w.ctx, after)
		if err != nil {
			w.tr.p("op noop ok")
			w.c13Obs()
			continue
		}
		lv, _ := a.NewliqKeeper.GetLockedVault(w.ctx, au.AppId, au.LockedVaultId)
		collected := lv.TargetDebt.Amount.Sub(au.DebtToken.Amount)
		ext := bal(a, w.ctx, modAddr(auctionsV2types.ModuleName), au.DebtToken.Denom).GTE(collected)
		res := w.c13Apply(func(ctx sdk.Context) error { return a.NewaucKeeper.TriggerEsm(ctx, au, lv) })
		if collected.GT(lv.FeeToBeCollected) {
			w.tr.p("note v2esm:collected_gt_penalty")
		} else if collected.IsPositive() {
			w.tr.p("note v2esm:collected_le_penalty")
		} else {
			w.tr.p("note v2esm:nothing_collected")
		}
		w.tr.p("ext %s", b2s(ext))
		w.tr.p("op v2esm %d %d %s %s %s", au.AppId, au.DebtAssetId, collected, lv.FeeToBeCollected, res)
		if i+1 < times {
			w.c13Obs()
		}
	}
}

// ---- esm SetUpDebtRedemptionForCollector ----------------------------------------------------------
// the records the function reads besides the net-fee book: random presence
func (w *c13World) c13EsmSetup(r *rng, app uint64) {
	a := w.a
	for i, as := range w.assets {
		if r.chance(88) {
			coll := i == 0
			if r.chance(12) {
				coll = !coll
			}
			a.EsmKeeper.SetAssetToAmount(w.ctx, esmtypes.AssetToAmount{AppId: app, AssetID: as, Amount: sdk.NewInt(1000000000000000),
				Share: sdk.ZeroDec(), DebtTokenWorth: sdk.ZeroDec(), IsCollateral: coll})
		}
		if r.chance(88) {
			a.EsmKeeper.SetSnapshotOfPrices(w.ctx, app, as, 1000000)
		}
	}
	if _, found := a.EsmKeeper.GetESMStatus(w.ctx, app); !found && r.chance(85) {
		// the esm BeginBlocker reaches the step only for apps with a status record; the model's esm switch is unchanged (off)
		a.EsmKeeper.SetESMStatus(w.ctx, esmtypes.ESMStatus{AppId: app, Status: false})
	}
	if r.chance(90) {
		a.EsmKeeper.SetDataAfterCoolOff(w.ctx, esmtypes.DataAfterCoolOff{AppId: app, CollateralTotalAmount: sdk.NewDec(1000000000000),
			DebtTotalAmount: sdk.NewDec(1000000000000)})
	}
}

// the class of one net-fee record, from the stores the function reads, in the order it reads them
func (w *c13World) c13EsmClass(app, asset uint64, nfZero bool) int {
	a := w.a
	v, found := a.EsmKeeper.GetAssetToAmount(w.ctx, app, asset)
	if found && v.IsCollateral {
		return 0
	}
	if nfZero {
		return 0
	}
	ad, ok := a.AssetKeeper.GetAsset(w.ctx, v.AssetID)
	if !ok {
		return 2
	}
	if a.EsmKeeper.GetRateOfAsset(w.ctx, app, ad.Id) == 0 {
		if _, ok := a.EsmKeeper.GetSnapshotOfPrices(w.ctx, app, ad.Id); !ok {
			return 2
		}
	}
	if _, ok := a.EsmKeeper.GetDataAfterCoolOff(w.ctx, app); !ok {
		return 3
	}
	return 1
}

func (w *c13World) c13EsmRedeem(app uint64) {
	a := w.a
	_, st := a.EsmKeeper.GetESMStatus(w.ctx, app)
	recs, _ := a.CollectorKeeper.GetAppNetFeeCollectedData(w.ctx, app)
	var sb strings.Builder
	burns := 0
	for _, rec := range recs {
		cls := w.c13EsmClass(app, rec.AssetId, rec.NetFeesCollected.IsZero())
		if cls == 1 {
			burns++
		}
		fmt.Fprintf(&sb, " %d %d", rec.AssetId, cls)
	}
	res := w.c13Apply(func(ctx sdk.Context) error { return a.EsmKeeper.SetUpDebtRedemptionForCollector(ctx, app) })
	if res == "ok" && burns > 0 {
		w.tr.p("note esmredeem:burnt")
	}
	w.tr.p("op esmredeem %d %s %d%s %s", app, b2s(st), len(recs), sb.String(), res)
}

// ---- collector MsgDeposit -> Refund ---------------------------------------------------------------
func (w *c13World) c13CDeposit(u int, app, asset uint64, amt sdk.Int) {
	done := w.a.CollectorKeeper.GetRefundCounterStatus(w.ctx) != 0
	d := w.denom[asset]
	if d == "" {
		d = "unknowndenom"
		asset = 0
	}
	class, _, _ := execMsg(w.a, w.ctx, &collectortypes.MsgDeposit{Addr: w.users[u].String(), Amount: sdk.Coin{Denom: d, Amount: amt}, AppId: app})
	if class == "ok" {
		w.tr.p("note cdeposit:refund_paid")
	}
	w.tr.p("op cdep %d %d %d %s %s %s", u, app, asset, amt, b2s(done), class)
}

// ---- WasmMsgGetSurplusFund with the coin of another asset ------------------------------------------
func (w *c13World) c13SurplusFundDenom(app, asset uint64, u int, coinAsset uint64, amt sdk.Int) {
	res := w.c13Apply(func(ctx sdk.Context) error {
		return w.a.CollectorKeeper.WasmMsgGetSurplusFund(ctx, app, asset, w.users[u], sdk.NewCoin(w.denom[coinAsset], amt))
	})
	w.tr.p("op sfund %d %d %d %d %s %s", app, asset, u, coinAsset, amt, res)
}

// ---- the savings-rate change with per-locker bookkeeping notes --------------------------------------
// collector.LockerIterateRewards writes the decremented tracker BEFORE DecreaseNetFeeCollectedData and
// continues on error: which of its branches ran is read off the stores before / after
func (w *c13World) c13UpdLookupNoted(app, asset uint64, lsr sdk.Dec, sthr, dthr, lot, dlot int64) {
	a := w.a
	lk, _ := a.LockerKeeper.GetLockerLookupTable(w.ctx, app, asset)
	type snap struct{ net, trk string }
	pre := map[uint64]snap{}
	for _, id := range lk.LockerIds {
		l, _ := a.LockerKeeper.GetLocker(w.ctx, id)
		t, _ := a.Rewardskeeper.GetLockerRewardTracker(w.ctx, id, app)
		ts := "nil"
		if !t.RewardsAccumulated.IsNil() {
			ts = t.RewardsAccumulated.String()
		}
		pre[id] = snap{l.NetBalance.String(), ts}
	}
	nf0, _ := a.CollectorKeeper.GetNetFeeCollectedData(w.ctx, app, asset)
	cb0 := bal(a, w.ctx, modAddr("collectorV1"), w.denom[asset])
	w.c13UpdLookup(app, asset, lsr, sthr, dthr, lot, dlot)
	nf1, _ := a.CollectorKeeper.GetNetFeeCollectedData(w.ctx, app, asset)
	cb1 := bal(a, w.ctx, modAddr("collectorV1"), w.denom[asset])
	credited := false
	trackerOnly := false
	for _, id := range lk.LockerIds {
		l, _ := a.LockerKeeper.GetLocker(w.ctx, id)
		t, _ := a.Rewardskeeper.GetLockerRewardTracker(w.ctx, id, app)
		ts := "nil"
		if !t.RewardsAccumulated.IsNil() {
			ts = t.RewardsAccumulated.String()
		}
		if l.NetBalance.String() != pre[id].net {
			credited = true
		} else if ts != pre[id].trk {
			trackerOnly = true
		}
	}
	if credited {
		w.tr.p("note updlk:locker_credited")
	}
	if trackerOnly {
		w.tr.p("note updlk:tracker_written_only")
	}
	if !nf0.NetFeesCollected.IsNil() && !nf1.NetFeesCollected.IsNil() && nf1.NetFeesCollected.LT(nf0.NetFeesCollected) && cb1.Equal(cb0) {
		w.tr.p("note updlk:books_lowered_nothing_paid")
	}
}

// ---- directed cases -------------------------------------------------------------------------------

// both `continue` branches of LockerIterateRewards.  (a) no net-fee record: DecreaseNetFeeCollectedData
// fails, the tracker has already been written without the whole units; nothing else moves.  (b) after a
// generation-2 surplus auction (C13-F2) and a debt cover the collector holds 2 coins against 4 000 002 on
// the books: the decrease succeeds, the transfer fails, the lockers are not credited.
func (w *c13World) c13DirectedIterate() {
	app, cmst, harbor := w.apps[0], w.assets[2], w.assets[1]
	w.c13AddLookup(app, cmst, harbor, sdk.NewDecWithPrec(1, 1), 10000000, 5000000, 2000000, 3000000)
	w.c13Obs()
	w.c13WlLocker(app, cmst)
	w.c13Obs()
	w.c13WlReward(app, cmst)
	w.c13Obs()
	for u, amt := range []int64{50000000, 1000, 700000000} {
		w.c13Create(u, app, cmst, sdk.NewInt(amt))
		w.c13Obs()
	}
	w.c13Advance(31557600)
	w.c13Obs()
	w.c13UpdLookupNoted(app, cmst, sdk.NewDecWithPrec(5, 2), 10000000, 5000000, 2000000, 3000000) // (a)
	w.c13Obs()
	w.c13SetFlags(app, cmst, true, false, false)
	w.c13Obs()
	w.c13FeeIn(app, cmst, sdk.NewInt(13000000))
	w.c13Obs()
	w.c13V2CheckStats(app, cmst)
	w.c13Obs()
	for _, au := range w.a.NewaucKeeper.GetAuctions(w.ctx) {
		class, _, _ := execMsg(w.a, w.ctx, &auctionsV2types.MsgPlaceMarketBidRequest{AuctionId: au.AuctionId, Bidder: w.c13Bidder().String(),
			Amount: sdk.NewCoin(au.DebtToken.Denom, sdk.NewInt(100))})
		w.tr.p("op noop %s", class)
		w.c13Obs()
	}
	w.c13Advance(c13AucDur + 1)
	w.c13Obs()
	w.c13V2Close()
	w.c13Obs()
	w.c13GetAmount(app, cmst, sdk.NewInt(8999998)) // collector 9 000 000 -> 2, books 13 000 000 -> 4 000 002
	w.c13Obs()
	w.c13Advance(31557600)
	w.c13Obs()
	w.c13UpdLookupNoted(app, cmst, sdk.NewDecWithPrec(1, 1), 10000000, 5000000, 2000000, 3000000) // (b)
	w.c13Obs()
}

// TriggerEsm with more / less / nothing collected, twice on one auction; then the emergency redemption of
// the collector's books with every record present, with the price missing, with the cool-off record missing
func (w *c13World) c13DirectedEsm() {
	app, app2, cmst, harbor := w.apps[0], w.apps[1], w.assets[2], w.assets[1]
	w.c13TriggerEsmFlow(app, cmst, 20000000, 30, 2)
	w.c13Obs()
	w.c13SetEsm(app, false)
	w.c13Obs()
	w.c13TriggerEsmFlow(app2, harbor, 8000000, 5, 1)
	w.c13Obs()
	w.c13TriggerEsmFlow(app2, cmst, 6000000, 0, 1)
	w.c13Obs()
	w.c13FeeIn(app, harbor, sdk.NewInt(777))
	w.c13Obs()
	a := w.a
	// app 1: asset 1 collateral, assets 2 and 3 debt, prices for 1 and 3 only: the harbor record fails the call
	for i, as := range w.assets {
		a.EsmKeeper.SetAssetToAmount(w.ctx, esmtypes.AssetToAmount{AppId: app, AssetID: as, Amount: sdk.NewInt(1000000000000000), Share: sdk.ZeroDec(),
			DebtTokenWorth: sdk.ZeroDec(), IsCollateral: i == 0})
	}
	a.EsmKeeper.SetSnapshotOfPrices(w.ctx, app, cmst, 1000000)
	a.EsmKeeper.SetDataAfterCoolOff(w.ctx, esmtypes.DataAfterCoolOff{AppId: app, CollateralTotalAmount: sdk.NewDec(1000000000000), DebtTotalAmount: sdk.NewDec(1000000000000)})
	w.c13EsmRedeem(app) // err: no price for uharbor
	w.c13Obs()
	a.EsmKeeper.SetSnapshotOfPrices(w.ctx, app, harbor, 1000000)
	w.c13EsmRedeem(app) // ok: both entries burnt
	w.c13Obs()
	w.c13EsmRedeem(app) // ok: nothing left
	w.c13Obs()
	// app 2: no cool-off record: nil Dec
	for i, as := range w.assets {
		a.EsmKeeper.SetAssetToAmount(w.ctx, esmtypes.AssetToAmount{AppId: app2, AssetID: as, Amount: sdk.NewInt(1000000000000000), Share: sdk.ZeroDec(),
			DebtTokenWorth: sdk.ZeroDec(), IsCollateral: i == 0})
		a.EsmKeeper.SetSnapshotOfPrices(w.ctx, app2, as, 1000000)
	}
	w.c13EsmRedeem(app2) // panic
	w.c13Obs()
	a.EsmKeeper.SetDataAfterCoolOff(w.ctx, esmtypes.DataAfterCoolOff{AppId: app2, CollateralTotalAmount: sdk.NewDec(1000000000000), DebtTotalAmount: sdk.NewDec(1000000000000)})
	w.c13EsmRedeem(app2)
	w.c13Obs()
	w.c13EsmRedeem(7) // no ESM status record
	w.c13Obs()
}

// collector MsgDeposit + Refund, the mismatched surplus-fund coin, and auction closes that fail inside the
// auction module (the secondary asset has no token-mint record in the app)
func (w *c13World) c13DirectedRefund() {
	app2, cmst, harbor, cmdx := w.apps[1], w.assets[2], w.assets[1], w.assets[0]
	w.c13CDeposit(0, app2, cmst, sdk.NewInt(20163519999)) // collector balance one short: refund refused
	w.c13Obs()
	w.c13CDeposit(0, w.apps[0], cmst, sdk.NewInt(30000000000)) // wrong app
	w.c13Obs()
	w.c13CDeposit(0, app2, harbor, sdk.NewInt(30000000000)) // wrong asset
	w.c13Obs()
	w.c13CDeposit(1, app2, cmst, sdk.NewInt(25000000000))
	w.c13Obs()
	w.c13CDeposit(1, app2, cmst, sdk.NewInt(25000000000)) // the counter: once only
	w.c13Obs()
	w.c13FeeIn(app2, harbor, sdk.NewInt(5000))
	w.c13Obs()
	w.c13SurplusFundDenom(app2, harbor, 2, cmst, sdk.NewInt(1200)) // books of uharbor fall, ucmst coins leave
	w.c13Obs()
	// a generation-2 surplus auction whose bid asset (ucmdx) has no token-mint record: the close fails in tokenmint
	w.c13AddLookup(w.apps[0], harbor, cmdx, sdk.ZeroDec(), 10000000, 5000000, 2000000, 3000000)
	w.c13Obs()
	w.c13SetFlags(w.apps[0], harbor, true, false, false)
	w.c13Obs()
	w.c13FeeIn(w.apps[0], harbor, sdk.NewInt(13000000))
	w.c13Obs()
	w.c13V2CheckStats(w.apps[0], harbor)
	w.c13Obs()
	for _, au := range w.a.NewaucKeeper.GetAuctions(w.ctx) {
		class, _, _ := execMsg(w.a, w.ctx, &auctionsV2types.MsgPlaceMarketBidRequest{AuctionId: au.AuctionId, Bidder: w.c13Bidder().String(),
			Amount: sdk.NewCoin(au.DebtToken.Denom, sdk.NewInt(100))})
		w.tr.p("op noop %s", class)
		w.c13Obs()
	}
	w.c13Advance(c13AucDur + 1)
	w.c13Obs()
	w.c13V2Close()
	w.c13Obs()
}

// ---- random ops of this workload ------------------------------------------------------------------
func (w *c13World) c13BOp(r *rng) {
	app := w.apps[r.intn(len(w.apps))]
	asset := w.assets[1+r.intn(2)]
	u := r.intn(len(w.users))
	switch k := r.intn(20); {
	case k < 4:
		times := 1
		if r.chance(35) {
			times = 2
		}
		w.c13TriggerEsmFlowOn(app, asset, int64(2+r.intn(40))*1000000, r.pickI(0, 0, 3, 10, 30, 60, 95), times, r.chance(45))
		if r.chance(60) {
			w.c13Obs()
			w.c13SetEsm(app, false)
		}
	case k < 9:
		if r.chance(70) {
			w.c13EsmSetup(r, app)
		}
		if r.chance(6) {
			app = 7
		}
		w.c13EsmRedeem(app)
	case k < 12:
		amt := sdk.NewInt(int64(1+r.intn(40)) * 1000000000)
		switch r.intn(8) {
		case 0:
			amt = sdk.NewInt(20163520000)
		case 1:
			amt = sdk.NewInt(20163519999)
		case 2:
			amt = sdk.ZeroInt()
		}
		aa, as := w.apps[1], w.assets[2]
		if r.chance(12) {
			aa = w.apps[0]
		}
		if r.chance(12) {
			as = w.assets[r.intn(3)]
		}
		if r.chance(4) {
			as = 9
		}
		w.c13CDeposit(u, aa, as, amt)
	case k < 14:
		nf, _ := w.a.CollectorKeeper.GetNetFeeCollectedData(w.ctx, app, asset)
		amt := c13Amount(r)
		if !nf.NetFeesCollected.IsNil() && nf.NetFeesCollected.IsPositive() {
			amt = nf.NetFeesCollected.QuoRaw(int64(1 + r.intn(3)))
		}
		w.c13SurplusFundDenom(app, asset, u, w.assets[r.intn(3)], amt)
	case k < 17:
		w.c13UpdLookupNoted(app, asset, c13Lsr(r), 10000000, 5000000, 2000000, 2000000)
	default:
		// a lookup whose secondary asset has no token-mint record: closes of its auctions fail in tokenmint
		w.c13AddLookup(app, asset, w.assets[0], c13Lsr(r), 10000000, 5000000, 2000000, 2000000)
	}
}

func TestC13B(t *testing.T) {
	c12SetPrefixes() // refund.go pays hard-coded comdex1... addresses
	a, base := newApp(t)
	tr := newTracer(t, "c13b.trace")
	defer tr.close()
	r := newRng(seed())
	ncases := envInt("VERIF_CASES", 40)
	only := envInt("VERIF_CASE", -1)
	apps, assets, denom, ep := c13BaseCfg(t, a, base, true)
	// cases 0..2: directed (seed-independent); then random histories mixing the ops of TestC13 with c13BOp
	for ci := 0; ci < ncases; ci++ {
		directed := 0
		if ci < 3 {
			directed = ci + 4
		}
		c13RunCase(t, a, base, tr, r, ci, only < 0 || only == ci, directed, true, apps, assets, denom, ep)
	}
}
