#!/bin/sh
# regenerate go.mod/go.sum for the harness from /repo's current go.mod (module replace => /repo)
set -e
REPO=${VERIF_REPO:-/repo}
cd "$(dirname "$0")"
{
  echo "module verifharness"
  echo
  sed -n '/^go /p' $REPO/go.mod
  echo
  echo "require github.com/comdex-official/comdex v0.0.0"
  echo
  echo "replace github.com/comdex-official/comdex => $REPO"
  echo
  # copy every require/replace block of the repository verbatim
  awk '/^require \(/,/^\)/' $REPO/go.mod
  awk '/^replace \(/,/^\)/' $REPO/go.mod
} > go.mod.new
if ! cmp -s go.mod.new go.mod; then mv go.mod.new go.mod; else rm go.mod.new; fi
if ! cmp -s $REPO/go.sum go.sum; then cp $REPO/go.sum go.sum; fi
