//go:build verif

package verifharness

// Fixtures for C11 (copied/adapted from x/auction/keeper/*_test.go, x/auctionsV2/keeper/*_test.go):
// one app record with a genesis-minted governance token (tokenmint data is needed by the closes),
// three assets, collector lookup table + auction mapping, V1 auction params, V2 auction params and
// liquidation white-listing.  All top-level identifiers carry the c11 prefix.

import (
	"testing"
	"time"

	sdk "github.com/cosmos/cosmos-sdk/types"

	chain "github.com/comdex-official/comdex/app"
	"github.com/comdex-official/comdex/app/wasm/bindings"
	assettypes "github.com/comdex-official/comdex/x/asset/types"
	"github.com/comdex-official/comdex/x/auction"
	auctiontypes "github.com/comdex-official/comdex/x/auction/types"
	auctionsV2types "github.com/comdex-official/comdex/x/auctionsV2/types"
	liqV2types "github.com/comdex-official/comdex/x/liquidationsV2/types"
	tokenminttypes "github.com/comdex-official/comdex/x/tokenmint/types"
)

const (
	c11Cmst   = "ucmst"
	c11Harbor = "uharbor"
	c11Oth    = "uoth"
)

type c11Fix struct {
	a                 *chain.App
	base              sdk.Context
	app               uint64
	cmst, harbor, oth uint64 // asset ids
	bidders           []sdk.AccAddress
	ext               sdk.AccAddress
}

var c11GenesisSupply = sdk.NewInt(1000000000000000)

func c11NewFixture(t *testing.T) *c11Fix {
	a, ctx := newApp(t)
	f := &c11Fix{a: a, base: ctx, ext: addrN(90)}
	f.cmst = addAsset(t, a, ctx, "CMST", c11Cmst, 1000000, false, true)
	f.harbor = addAsset(t, a, ctx, "HARBOR", c11Harbor, 1000000, false, true)
	f.oth = addAsset(t, a, ctx, "OTH", c11Oth, 1000000, false, true)
	err := a.AssetKeeper.AddAppRecords(ctx, assettypes.AppData{Name: "harbor", ShortName: "hbr", MinGovDeposit: sdk.NewInt(0), GovTimeInSeconds: 0,
		GenesisToken: []assettypes.MintGenesisToken{{AssetId: f.harbor, GenesisSupply: c11GenesisSupply, IsGovToken: true, Recipient: addrN(80).String()}}})
	if err != nil {
		t.Fatalf("AddAppRecords: %v", err)
	}
	apps, _ := a.AssetKeeper.GetApps(ctx)
	for _, ap := range apps {
		if ap.Name == "harbor" {
			f.app = ap.Id
		}
	}
	if cls, err, _ := execMsg(a, ctx, &tokenminttypes.MsgMintNewTokensRequest{From: addrN(80).String(), AppId: f.app, AssetId: f.harbor}); cls != "ok" {
		t.Fatalf("MsgMintNewTokens: %s %v", cls, err)
	}
	for i := 0; i < 5; i++ {
		f.bidders = append(f.bidders, addrN(100+i))
	}
	// V2: english auctions allowed for the app
	a.NewliqKeeper.SetLiquidationWhiteListing(ctx, liqV2types.LiquidationWhiteListing{AppId: f.app, Initiator: true, IsDutchActivated: true,
		DutchAuctionParam:  &liqV2types.DutchAuctionParam{Premium: sdk.MustNewDecFromStr("1.2"), Discount: sdk.MustNewDecFromStr("0.7"), DecrementFactor: sdk.NewInt(1)},
		IsEnglishActivated: true, EnglishAuctionParam: &liqV2types.EnglishAuctionParam{DecrementFactor: sdk.NewInt(1)}, KeeeperIncentive: sdk.MustNewDecFromStr("0.1")})
	return f
}

func (f *c11Fix) c11Denom(id int) string {
	switch id {
	case 0:
		return c11Harbor
	case 1:
		return c11Cmst
	default:
		return c11Oth
	}
}

// collector lookup table + auction mapping for (app, cmst); surplus XOR debt
func (f *c11Fix) c11Collector(t *testing.T, ctx sdk.Context, surplus bool, lot, debtLot sdk.Int, bidFactor sdk.Dec) {
	err := f.a.CollectorKeeper.WasmSetCollectorLookupTable(ctx, &bindings.MsgSetCollectorLookupTable{AppID: f.app, CollectorAssetID: f.cmst, SecondaryAssetID: f.harbor,
		SurplusThreshold: sdk.NewInt(1000), DebtThreshold: lot.Add(sdk.NewInt(1000)), LockerSavingRate: sdk.MustNewDecFromStr("0.1"),
		LotSize: lot, BidFactor: bidFactor, DebtLotSize: debtLot})
	if err != nil {
		t.Fatalf("WasmSetCollectorLookupTable: %v", err)
	}
	err = f.a.CollectorKeeper.WasmSetAuctionMappingForApp(ctx, &bindings.MsgSetAuctionMappingForApp{AppID: f.app, AssetIDs: f.cmst,
		IsSurplusAuctions: surplus, IsDebtAuctions: !surplus, AssetOutOraclePrices: false, AssetOutPrices: 1000000})
	if err != nil {
		t.Fatalf("WasmSetAuctionMappingForApp: %v", err)
	}
}

func (f *c11Fix) c11V1Params(ctx sdk.Context, dur, bidDur uint64) {
	f.a.AuctionKeeper.SetAuctionParams(ctx, auctiontypes.AuctionParams{AppId: f.app, AuctionDurationSeconds: dur, Buffer: sdk.MustNewDecFromStr("1.2"),
		Cusp: sdk.MustNewDecFromStr("0.6"), Step: sdk.NewIntFromUint64(1), PriceFunctionType: 1, SurplusId: 1, DebtId: 2, DutchId: 3, BidDurationSeconds: bidDur})
}

func (f *c11Fix) c11V2Params(ctx sdk.Context, dur uint64, bidFactor, closingFee, withdrawalFee sdk.Dec) {
	f.a.NewaucKeeper.SetAuctionParams(ctx, auctionsV2types.AuctionParams{AuctionDurationSeconds: dur, Step: sdk.MustNewDecFromStr("0.1"),
		WithdrawalFee: withdrawalFee, ClosingFee: closingFee, MinUsdValueLeft: 100000, BidFactor: bidFactor,
		LiquidationPenalty: sdk.MustNewDecFromStr("0.1"), AuctionBonus: sdk.ZeroDec()})
}

func (f *c11Fix) c11V1BeginBlock(ctx sdk.Context) (panicked bool) {
	p, _ := safely(func() { auction.BeginBlocker(ctx, f.a.AuctionKeeper, f.a.AssetKeeper, f.a.CollectorKeeper, f.a.EsmKeeper) })
	return p
}

func c11At(ctx sdk.Context, unix int64) sdk.Context {
	return ctx.WithBlockTime(time.Unix(unix, 0).UTC()).WithBlockHeight(ctx.BlockHeight() + 1)
}

// mint coins straight into a module account (the vault module is the minter used by fund)
func (f *c11Fix) c11FundModule(t *testing.T, ctx sdk.Context, module string, coin sdk.Coin) {
	if !coin.Amount.IsPositive() {
		return
	}
	if err := f.a.BankKeeper.MintCoins(ctx, "vaultV1", sdk.NewCoins(coin)); err != nil {
		t.Fatalf("mint: %v", err)
	}
	if err := f.a.BankKeeper.SendCoinsFromModuleToModule(ctx, "vaultV1", module, sdk.NewCoins(coin)); err != nil {
		t.Fatalf("send to module %s: %v", module, err)
	}
}

// tokenmint bookkeeping: would BurnTokensForApp(amount) / MintNewTokensForApp succeed?
func (f *c11Fix) c11TmOk(ctx sdk.Context, burn bool, amount sdk.Int) bool {
	td, found := f.a.TokenmintKeeper.GetAssetDataInTokenMintByApp(ctx, f.app, f.harbor)
	if !found {
		return false
	}
	if burn {
		return td.CurrentSupply.Sub(amount).GT(sdk.ZeroInt()) && amount.GT(sdk.ZeroInt())
	}
	return true
}
