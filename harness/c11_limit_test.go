//go:build verif

package verifharness

import (
	"fmt"
	"strings"
	"testing"

	sdk "github.com/cosmos/cosmos-sdk/types"

	chain "github.com/comdex-official/comdex/app"
	"github.com/comdex-official/comdex/x/auctionsV2"
	auctionsV2types "github.com/comdex-official/comdex/x/auctionsV2/types"
)

// Limit-bid cases of TestC11: the limit-bid book of x/auctionsV2 driven through its msg server
// (deposit / cancel / withdraw) and, when Dutch auctions run next to the book, through its
// BeginBlocker (AuctionIterator, then LimitOrderBid = the automatic fill).
//
// denom ids: 0 = uharbor, 1 = ucmst, 2 = uoth (the debt denoms: balances are dumped for these),
// 3 = ucol (collateral of the Dutch auctions; its flows are the Dutch settlement's, see C10).
//
// trace:  case <id> lim <nb> <closing fee> <withdrawal fee> 4 <asset denom>x4 <base0> <base1> <base2>
//         op dep|can|wd ...                                  one message
//         op fill <debt asset> <coll asset> <premium> <D> <ok> <n> (<who> <bid>)*n
//                                                            one LimitOrderBid closure (one auction whose
//                                                            discount has limit bids), in the order of the block:
//                                                            D = the outstanding debt before the closure, the
//                                                            limit bids it bid with and the amount
//                                                            PlaceDutchAuctionBid actually bid for each (the debt
//                                                            amount of the user bid it created); ok = committed
//         op block <now> <ok|panic>                          ends the block
//         lobs <n> <records> <m> <totals> <module balance>x3 <auction proceeds>x3 <bidder balances>
// "auction proceeds" = for every running Dutch auction TargetDebt - outstanding debt: debt coins the
// module keeps for the auction until it closes, plus the penalties of closed external auctions that
// the module keeps as booked fees (AuctionLimitBidFeeDataExternal, only ever added to); neither is
// limit-bid custody.

const (
	c11Col     = "ucol"
	c11NCorpus = 8
)

type c11LKey struct {
	debt, coll uint64
	prem       int64
	who        int
}

type c11Lim struct {
	t          *testing.T
	f          *c11Fix
	tr         *tracer
	a          *chain.App
	ctx        sdk.Context
	nb         int
	col        uint64
	keys       []c11LKey
	seen       map[c11LKey]bool
	cur        map[c11LKey]sdk.Int
	now        int64
	assetDenom map[uint64]int
	nauctions  int
}

type c11AucSpec struct {
	debtAsset                    uint64
	debt, fee, collateral, resrv int64
}

func c11NewLim(t *testing.T, f *c11Fix, tr *tracer, ci, nb int, closing, withdrawal sdk.Dec, funding [][3]int64, base [3]int64, aucs []c11AucSpec) *c11Lim {
	a := f.a
	ctx, _ := f.base.CacheContext()
	ctx = c11At(ctx, c11T0)
	l := &c11Lim{t: t, f: f, tr: tr, a: a, nb: nb, seen: map[c11LKey]bool{}, cur: map[c11LKey]sdk.Int{}, now: c11T0}
	l.col = addAsset(t, a, ctx, "COL", c11Col, 1000000, false, false)
	l.assetDenom = map[uint64]int{f.harbor: 0, f.cmst: 1, f.oth: 2, l.col: 3}
	f.c11V2Params(ctx, 3600, sdk.MustNewDecFromStr("0.01"), closing, withdrawal)
	for _, id := range []uint64{f.harbor, f.cmst, f.oth, l.col} {
		setPrice(a, ctx, id, 1000000, true)
	}
	for i := 0; i < nb; i++ {
		for d := 0; d < 3; d++ {
			if funding[i][d] > 0 {
				fund(t, a, ctx, f.bidders[i], sdk.NewCoins(sdk.NewCoin(f.c11Denom(d), sdk.NewInt(funding[i][d]))))
			}
		}
	}
	// somebody else's coins in the module account (e.g. auction proceeds)
	for d := 0; d < 3; d++ {
		f.c11FundModule(t, ctx, auctionsV2types.ModuleName, sdk.NewCoin(f.c11Denom(d), sdk.NewInt(base[d])))
	}
	// Dutch auctions of an external initiator: collateral ucol (held by the module), debt in a debt denom
	owner, funder := addrN(91), addrN(92)
	for _, s := range aucs {
		coll := sdk.NewCoin(c11Col, sdk.NewInt(s.collateral))
		debt := sdk.NewCoin(f.c11Denom(l.assetDenom[s.debtAsset]), sdk.NewInt(s.debt))
		f.c11FundModule(t, ctx, auctionsV2types.ModuleName, coll)
		if s.resrv > 0 {
			rc := sdk.NewCoin(debt.Denom, sdk.NewInt(s.resrv))
			fund(t, a, ctx, funder, sdk.NewCoins(rc))
			if err := a.NewliqKeeper.MsgAppReserveFundsFn(ctx, funder.String(), f.app, s.debtAsset, rc); err != nil {
				t.Fatalf("MsgAppReserveFundsFn: %v", err)
			}
		}
		err := a.NewliqKeeper.CreateLockedVault(ctx, 0, 0, owner.String(), coll, debt, coll, debt, sdk.ZeroDec(), f.app, false, "", f.ext.String(),
			sdk.NewInt(s.fee), sdk.ZeroInt(), "external", true, false, l.col, s.debtAsset)
		if err != nil {
			t.Fatalf("CreateLockedVault (dutch): %v", err)
		}
		l.nauctions++
	}
	l.ctx = ctx
	tr.p("case %d lim %d %s %s 4 %d 0 %d 1 %d 2 %d 3 %d %d %d", ci, nb, closing.BigInt(), withdrawal.BigInt(), f.harbor, f.cmst, f.oth, l.col, base[0], base[1], base[2])
	l.observe()
	return l
}

func (l *c11Lim) note(key c11LKey) {
	if !l.seen[key] && key.prem >= 0 {
		l.seen[key] = true
		l.keys = append(l.keys, key)
	}
}

func (l *c11Lim) observe() {
	a, ctx, f := l.a, l.ctx, l.f
	cur := map[c11LKey]sdk.Int{}
	var sb strings.Builder
	n := 0
	for _, k := range l.keys {
		rec, found := a.NewaucKeeper.GetUserLimitBidData(ctx, k.debt, k.coll, sdk.NewInt(k.prem), f.bidders[k.who].String())
		if found {
			n++
			di := -1
			for d := 0; d < 3; d++ {
				if f.c11Denom(d) == rec.DebtToken.Denom {
					di = d
				}
			}
			fmt.Fprintf(&sb, " %d %d %d %d %s %d", k.debt, k.coll, k.prem, k.who, rec.DebtToken.Amount, di)
			cur[k] = rec.DebtToken.Amount
		}
	}
	tots := a.NewaucKeeper.GetAllLimitBidProtocolData(ctx)
	var tb strings.Builder
	for _, p := range tots {
		fmt.Fprintf(&tb, " %d %d %s", p.DebtAssetId, p.CollateralAssetId, p.BidValue)
	}
	var bb strings.Builder
	for d := 0; d < 3; d++ {
		fmt.Fprintf(&bb, " %s", bal(a, ctx, modAddr(auctionsV2types.ModuleName), f.c11Denom(d)))
	}
	proc := [3]sdk.Int{sdk.ZeroInt(), sdk.ZeroInt(), sdk.ZeroInt()}
	for _, au := range a.NewaucKeeper.GetAuctions(ctx) {
		if !au.AuctionType {
			continue
		}
		if lv, found := a.NewliqKeeper.GetLockedVault(ctx, au.AppId, au.LockedVaultId); found {
			for d := 0; d < 3; d++ {
				if f.c11Denom(d) == au.DebtToken.Denom {
					proc[d] = proc[d].Add(lv.TargetDebt.Amount.Sub(au.DebtToken.Amount))
				}
			}
		}
	}
	for d, asset := range []uint64{f.harbor, f.cmst, f.oth} {
		if fee, found := a.NewaucKeeper.GetAuctionLimitBidFeeDataExternal(ctx, asset); found {
			proc[d] = proc[d].Add(fee.Amount)
		}
	}
	for d := 0; d < 3; d++ {
		fmt.Fprintf(&bb, " %s", proc[d])
	}
	for i := 0; i < l.nb; i++ {
		for d := 0; d < 3; d++ {
			fmt.Fprintf(&bb, " %s", bal(a, ctx, f.bidders[i], f.c11Denom(d)))
		}
	}
	l.tr.p("lobs %d%s %d%s%s", n, sb.String(), len(tots), tb.String(), bb.String())
	l.cur = cur
}

func (l *c11Lim) deposit(who int, coll, debt uint64, prem int64, d int, amt sdk.Int) {
	l.note(c11LKey{debt, coll, prem, who})
	msg := &auctionsV2types.MsgDepositLimitBidRequest{CollateralTokenId: coll, DebtTokenId: debt, PremiumDiscount: sdk.NewInt(prem), Bidder: l.f.bidders[who].String(),
		Amount: sdk.Coin{Denom: l.f.c11Denom(d), Amount: amt}}
	cls, _, _ := execMsg(l.a, l.ctx, msg)
	l.tr.p("op dep %d %d %d %d %d %s %s", who, coll, debt, prem, d, amt, cls)
	l.observe()
}

func (l *c11Lim) cancel(who int, coll, debt uint64, prem int64) {
	l.note(c11LKey{debt, coll, prem, who})
	msg := &auctionsV2types.MsgCancelLimitBidRequest{CollateralTokenId: coll, DebtTokenId: debt, PremiumDiscount: sdk.NewInt(prem), Bidder: l.f.bidders[who].String()}
	cls, _, _ := execMsg(l.a, l.ctx, msg)
	l.tr.p("op can %d %d %d %d %s", who, coll, debt, prem, cls)
	l.observe()
}

func (l *c11Lim) withdraw(who int, coll, debt uint64, prem int64, d int, amt sdk.Int) {
	l.note(c11LKey{debt, coll, prem, who})
	msg := &auctionsV2types.MsgWithdrawLimitBidRequest{CollateralTokenId: coll, DebtTokenId: debt, PremiumDiscount: sdk.NewInt(prem), Bidder: l.f.bidders[who].String(),
		Amount: sdk.Coin{Denom: l.f.c11Denom(d), Amount: amt}}
	cls, _, _ := execMsg(l.a, l.ctx, msg)
	l.tr.p("op wd %d %d %d %d %d %s %s", who, coll, debt, prem, d, amt, cls)
	l.observe()
}

// one block at time now: the real auctionsV2.BeginBlocker.  Which LimitOrderBid closures run, on
// which records and against which outstanding debt is read off a throw-away run of the price update
// (AuctionIterator) on a cache context; whether a closure was committed or rolled back is read off
// the auction afterwards.
func (l *c11Lim) block(now int64) {
	a, f := l.a, l.f
	if now < l.now {
		now = l.now
	}
	l.now = now
	l.ctx = c11At(l.ctx, now)
	ctx := l.ctx
	type grp struct {
		id           uint64
		debtA, collA uint64
		prem, D      sdk.Int
	}
	var groups []grp
	cctx, _ := ctx.CacheContext()
	safely(func() { _ = a.NewaucKeeper.AuctionIterator(cctx) })
	for _, au := range a.NewaucKeeper.GetAuctions(cctx) {
		if !au.AuctionType || au.CollateralTokenOraclePrice.IsNil() || au.CollateralTokenAuctionPrice.IsNil() {
			continue
		}
		if !au.CollateralTokenOraclePrice.GT(au.CollateralTokenAuctionPrice) {
			continue
		}
		prem := au.CollateralTokenOraclePrice.Sub(au.CollateralTokenAuctionPrice).Quo(au.CollateralTokenOraclePrice).Mul(sdk.NewDecFromInt(sdk.NewInt(100))).TruncateInt()
		if _, found := a.NewaucKeeper.GetUserLimitBidDataByPremium(cctx, au.DebtAssetId, au.CollateralAssetId, prem); !found {
			continue
		}
		groups = append(groups, grp{id: au.AuctionId, debtA: au.DebtAssetId, collA: au.CollateralAssetId, prem: prem, D: au.DebtToken.Amount})
	}
	firstBid := a.NewaucKeeper.GetUserBidID(ctx) + 1
	res := "ok"
	if p, _ := safely(func() { auctionsV2.BeginBlocker(ctx, a.NewaucKeeper) }); p {
		res = "panic"
	}
	lastBid := a.NewaucKeeper.GetUserBidID(ctx)
	for _, g := range groups {
		// the automatic bids the closure committed, in order: (bidder, amount actually bid)
		var sb strings.Builder
		n := 0
		for id := firstBid; id <= lastBid; id++ {
			if ub, err := a.NewaucKeeper.GetUserBid(ctx, id); err == nil && ub.AuctionId == g.id {
				fmt.Fprintf(&sb, " %d %s", c11Idx(f, ub.BidderAddress), ub.DebtTokenAmount.Amount)
				n++
			}
		}
		l.tr.p("op fill %d %d %s %s %s %d%s", g.debtA, g.collA, g.prem, g.D, b2s(n > 0), n, sb.String())
	}
	l.tr.p("op block %d %s", now, res)
	l.observe()
}

// ------------------------------------------------------------------------------------------------
// corpus: the witnesses of the repaired defects (0-2) and the automatic-fill scenarios that the thorough
// tier found or that belong to C10 (3-7)
func c11LimitCorpus(t *testing.T, f *c11Fix, tr *tracer, ci int) {
	rich := [][3]int64{{10000000, 10000000, 10000000}, {10000000, 10000000, 10000000}}
	zero := sdk.ZeroDec()
	switch ci {
	case 0: // C11-F1, amount: a deposit of 1 000 000 used to withdraw 2 900 000
		l := c11NewLim(t, f, tr, ci, 2, zero, zero, rich, [3]int64{0, 0, 0}, nil)
		l.deposit(0, f.cmst, f.harbor, 5, 0, sdk.NewInt(1000000))
		l.deposit(1, f.cmst, f.harbor, 5, 0, sdk.NewInt(3000000))
		l.withdraw(0, f.cmst, f.harbor, 5, 0, sdk.NewInt(2900000))
		l.withdraw(0, f.cmst, f.harbor, 5, 0, sdk.NewInt(1000001))
		l.withdraw(0, f.cmst, f.harbor, 5, 0, sdk.NewInt(999999))
		l.cancel(1, f.cmst, f.harbor, 5)
	case 1: // C11-F1, denom: a depositor of uharbor used to withdraw ucmst held for another market
		l := c11NewLim(t, f, tr, ci, 2, zero, zero, rich, [3]int64{0, 700000, 0}, nil)
		l.deposit(0, f.cmst, f.harbor, 5, 0, sdk.NewInt(1000000))
		l.deposit(1, f.oth, f.cmst, 5, 1, sdk.NewInt(3000000))
		l.withdraw(0, f.cmst, f.harbor, 5, 1, sdk.NewInt(500000))
		l.withdraw(0, f.cmst, f.harbor, 5, 1, sdk.NewInt(1000000)) // full amount in a foreign denom
		l.withdraw(0, f.cmst, f.harbor, 5, 0, sdk.NewInt(500000))
	case 2: // C11-F2: the automatic fill of a deposit equal to the auction debt used to leave BidValue stale
		l := c11NewLim(t, f, tr, ci, 2, zero, zero, rich, [3]int64{0, 0, 0},
			[]c11AucSpec{{debtAsset: f.harbor, debt: 1000000, fee: 0, collateral: 2000000}})
		l.deposit(0, l.col, f.harbor, 5, 0, sdk.NewInt(1000000))
		l.deposit(1, l.col, f.harbor, 9, 0, sdk.NewInt(250000))
		l.block(c11T0 + 1000) // price above the oracle price: no discount yet
		l.block(c11T0 + 2550) // discount 5%: bidder 0 is filled, exactly
		l.block(c11T0 + 2950)
		l.cancel(1, l.col, f.harbor, 9)
	case 3: // thorough-tier case 13235 (seed 1): a partial fill, then a deposit that meets the rest of the
		// debt when the collateral has run short: the bid is cut down to the value of the left-over
		// collateral (104 800 < the penalty 120 000 the module keeps as fees), the app reserve pays the
		// rest into the module, the auction closes, the record is charged the 104 800 that were bid
		// (fixes/C10-F5; the original code charged it in full)
		l := c11NewLim(t, f, tr, ci, 2, sdk.MustNewDecFromStr("0.005"), zero, rich, [3]int64{5000000, 0, 0},
			[]c11AucSpec{{debtAsset: f.harbor, debt: 3000000, fee: 120000, collateral: 1500000, resrv: 10000000}})
		l.deposit(0, l.col, f.harbor, 9, 0, sdk.NewInt(1250000))
		l.block(c11T0 + 2968)
		l.deposit(0, l.col, f.harbor, 9, 0, sdk.NewInt(1000000))
		l.block(c11T0 + 2968)
		l.deposit(0, l.col, f.harbor, 9, 0, sdk.NewInt(1000000))
		l.block(c11T0 + 2970)
		l.cancel(0, l.col, f.harbor, 9)
	case 4: // a record above the debt of an auction whose collateral (1 000 000 at 0.906) is worth less than
		// the debt 1 120 000: the bid is cut to 906 000, the reserve pays 214 000, the record is charged
		// 906 000 (fixes/C10-F5; the original code charged 1 120 000: finding C10-F5);
		// then the same auction with a reserve that is too small: the closure fails atomically
		l := c11NewLim(t, f, tr, ci, 2, zero, zero, rich, [3]int64{0, 0, 0},
			[]c11AucSpec{{debtAsset: f.harbor, debt: 1000000, fee: 120000, collateral: 1000000, resrv: 10000000},
				{debtAsset: f.cmst, debt: 1000000, fee: 120000, collateral: 1000000, resrv: 213999}})
		l.deposit(0, l.col, f.harbor, 9, 0, sdk.NewInt(3000000))
		l.deposit(1, l.col, f.cmst, 9, 1, sdk.NewInt(3000000))
		l.block(c11T0 + 2940)
		l.block(c11T0 + 2941)
		l.withdraw(0, l.col, f.harbor, 9, 0, sdk.NewInt(2094001))
		l.withdraw(0, l.col, f.harbor, 9, 0, sdk.NewInt(2094000))
		l.cancel(1, l.col, f.cmst, 9)
	case 5: // two records below the debt in one closure: each is bid on the auction as the previous one left it
		// (fixes/C10-F6; the original code bid with the auction it read before the loop, the second bid
		// overwrote the first one's auction update: debt 500 003 - 1, not - 1000); both records are used up;
		// a record of exactly the remaining debt then closes the auction
		l := c11NewLim(t, f, tr, ci, 2, zero, zero, rich, [3]int64{0, 0, 0},
			[]c11AucSpec{{debtAsset: f.harbor, debt: 500003, fee: 0, collateral: 1000006}})
		l.deposit(0, l.col, f.harbor, 5, 0, sdk.NewInt(1))
		l.deposit(1, l.col, f.harbor, 5, 0, sdk.NewInt(999))
		l.block(c11T0 + 2550)
		l.deposit(0, l.col, f.harbor, 6, 0, sdk.NewInt(499003))
		l.block(c11T0 + 2650)
	case 6: // a record above the debt followed by another record of the premium: the first bid closes the
		// auction and ends the closure, the other record is untouched (fixes/C10-F6; on the original code the
		// second bid failed on the closed auction and the closure was rolled back on every block until the
		// second depositor left)
		l := c11NewLim(t, f, tr, ci, 2, zero, zero, rich, [3]int64{0, 0, 0},
			[]c11AucSpec{{debtAsset: f.harbor, debt: 1000000, fee: 0, collateral: 2000000}})
		l.deposit(0, l.col, f.harbor, 5, 0, sdk.NewInt(3000000))
		l.deposit(1, l.col, f.harbor, 5, 0, sdk.NewInt(250000))
		l.block(c11T0 + 2550)
		l.block(c11T0 + 2560)
		l.block(c11T0 + 2570)
		l.cancel(1, l.col, f.harbor, 5)
		l.block(c11T0 + 2580)
		l.cancel(0, l.col, f.harbor, 5)
	case 7: // case 3 with an app reserve that cannot cover the shortfall (1 765 200): the closing closure
		// fails atomically (before 4c7737c it went through and paid the initiator out of the module's
		// other coins: the base and bidder 1's deposit)
		l := c11NewLim(t, f, tr, ci, 2, zero, zero, rich, [3]int64{5000000, 0, 0},
			[]c11AucSpec{{debtAsset: f.harbor, debt: 3000000, fee: 120000, collateral: 1500000, resrv: 1000}})
		l.deposit(0, l.col, f.harbor, 9, 0, sdk.NewInt(1250000))
		l.deposit(1, l.col, f.harbor, 0, 0, sdk.NewInt(2000000))
		l.block(c11T0 + 2968)
		l.deposit(0, l.col, f.harbor, 9, 0, sdk.NewInt(1000000))
		l.block(c11T0 + 2968)
		l.block(c11T0 + 2969)
		l.cancel(0, l.col, f.harbor, 9)
		l.cancel(1, l.col, f.harbor, 0)
	}
}

// ------------------------------------------------------------------------------------------------
func c11LimitCase(t *testing.T, f *c11Fix, tr *tracer, r *rng, ci int) {
	nb := 2 + r.intn(4)
	fees := []string{"0", "0", "0.01", "0.005", "0.1", "0.000001", "1.0"}
	closing := sdk.MustNewDecFromStr(fees[r.intn(len(fees))])
	withdrawal := sdk.MustNewDecFromStr(fees[r.intn(len(fees))])
	funding := make([][3]int64, nb)
	for i := 0; i < nb; i++ {
		for d := 0; d < 3; d++ {
			funding[i][d] = r.pickI(10000000, 10000000, 1000000, 5000, 0)
		}
	}
	var base [3]int64
	for d := 0; d < 3; d++ {
		base[d] = r.pickI(0, 0, 1000, 5000000)
	}
	// Dutch auctions next to the book (none in 45% of the cases)
	var aucs []c11AucSpec
	nAuc := []int{0, 0, 0, 0, 1, 1, 1, 1, 2, 2, 0}[r.intn(11)]
	for i := 0; i < nAuc; i++ {
		debt := r.pickI(1000000, 1000000, 3000000, 500000, 2000001)
		s := c11AucSpec{debtAsset: []uint64{f.harbor, f.cmst}[r.intn(2)], debt: debt, fee: r.pickI(0, 0, 0, 5, 120000)}
		s.collateral = []int64{2 * debt, 2 * debt, debt, debt / 2, 10 * debt}[r.intn(5)]
		s.resrv = r.pickI(0, 0, 10000000, 1000)
		aucs = append(aucs, s)
	}
	// an auction whose collateral can run short closes on the app reserve: no reserve record, or a
	// reserve smaller than the shortfall (since 4c7737c WithdrawAppReserveFundsFn returns an error
	// then): the closure fails and is rolled back; a reserve that covers the shortfall pays the
	// difference into the module and the bid is cut down to the value of the left-over collateral.
	l := c11NewLim(t, f, tr, ci, nb, closing, withdrawal, funding, base, aucs)
	ids := []uint64{f.harbor, f.cmst, f.oth}
	nops := 8 + r.intn(25)
	if nAuc > 0 {
		nops += 12
	}
	for k := 0; k < nops; k++ {
		if nAuc > 0 {
			// blocks are frequent while a live record waits on a running auction's market
			pBlock := 10
			if len(c11BlockTimes(l)) > 0 {
				pBlock = 45
			}
			if r.chance(pBlock) {
				l.block(c11PickTime(l, r))
				continue
			}
		}
		who := r.intn(nb)
		debt := ids[r.intn(3)]
		if r.chance(60) {
			debt = ids[r.intn(2)] // concentrate on two markets
		}
		coll := ids[r.intn(3)]
		if r.chance(70) {
			coll = f.cmst
		}
		if nAuc > 0 && r.chance(85) {
			coll = l.col // the market of the Dutch auctions
			if r.chance(85) {
				debt = aucs[r.intn(nAuc)].debtAsset
			}
		}
		prem := r.pickI(5, 5, 5, 9, 0, 30, 31)
		if r.chance(3) {
			debt = 99
		}
		if r.chance(3) {
			coll = 98
		}
		if r.chance(2) {
			coll = 0
		}
		// prefer keys that exist for cancel / withdraw
		if len(l.keys) > 0 && r.chance(85) {
			kk := l.keys[r.intn(len(l.keys))]
			debt, coll, prem = kk.debt, kk.coll, kk.prem
			if r.chance(75) {
				who = kk.who
			}
		}
		key := c11LKey{debt, coll, prem, who}
		own, has := l.cur[key]
		if !has {
			own = sdk.ZeroInt()
		}
		denomID, okd := l.assetDenom[debt]
		if !okd || denomID > 2 {
			denomID = r.intn(3)
		}
		switch x := r.intn(10); {
		case x < 4: // deposit
			amt := sdk.NewInt(r.pickI(1000000, 1000000, 1, 2, 999, 3000000, 0, 20000000, 500000, 250000))
			d := denomID
			if r.chance(8) {
				d = r.intn(3)
			}
			l.deposit(who, coll, debt, prem, d, amt)
		case x < 6: // cancel (also repeated cancels)
			l.cancel(who, coll, debt, prem)
		default: // withdraw, including attacker-style amounts and denoms
			var amt sdk.Int
			if !own.IsPositive() && r.chance(70) {
				own = sdk.NewInt(r.pickI(1000000, 3, 500))
			}
			switch r.intn(9) {
			case 0:
				amt = own
			case 1:
				amt = own.Add(sdk.NewInt(1))
			case 2:
				amt = own.Sub(sdk.NewInt(1))
			case 3:
				amt = own.MulRaw(2).Add(sdk.NewInt(900000))
			case 4:
				amt = sdk.ZeroInt()
			case 5:
				amt = sdk.NewInt(1)
			case 6:
				amt = sdk.NewInt(2900000)
			default:
				amt = own.QuoRaw(2)
			}
			d := denomID
			if r.chance(18) {
				d = r.intn(3) // a denom the module holds for someone else
			}
			l.withdraw(who, coll, debt, prem, d, amt)
		}
	}
	if nAuc > 0 {
		l.block(c11PickTime(l, r))
		l.block(c11PickTime(l, r))
	}
}

// the time of the next block: aim at the discount of a live record on a running auction's market
// (premium 1.2, discount 0.7, 3600 s: the discount is trunc(t/100 - 20) percent from t = 2000 s on;
// when that window has passed, go past the end time so that the auction restarts), or let time pass
func c11BlockTimes(l *c11Lim) []int64 {
	now := l.now
	var cands []int64 // candidate block times
	for _, au := range l.a.NewaucKeeper.GetAuctions(l.ctx) {
		if !au.AuctionType {
			continue
		}
		for _, k := range l.keys {
			if _, live := l.cur[k]; live && k.coll == au.CollateralAssetId && k.debt == au.DebtAssetId && k.prem <= 15 {
				if t1 := au.StartTime.Unix() + 2000 + 100*k.prem; t1+99 >= now {
					if t1 < now {
						t1 = now
					}
					cands = append(cands, t1)
				} else if e := au.EndTime.Unix() + 1; e >= now {
					cands = append(cands, e)
				}
			}
		}
	}
	return cands
}

func c11PickTime(l *c11Lim, r *rng) int64 {
	now := l.now
	cands := c11BlockTimes(l)
	pass := r.pickI(1, 60, 100, 500, 1000)
	jitter := int64(r.intn(100))
	pick := r.intn(1 << 20)
	if len(cands) > 0 && r.chance(85) {
		t1 := cands[pick%len(cands)]
		if t1 > now && t1%100 == 0 { // a window start: land anywhere inside the window
			t1 += jitter
		}
		return t1
	}
	return now + pass
}
