module verifharness

go 1.20

require github.com/comdex-official/comdex v0.0.0

replace github.com/comdex-official/comdex => /repo

require (
	cosmossdk.io/api v0.3.1
	cosmossdk.io/math v1.1.2
	github.com/CosmWasm/wasmd v0.41.0
	github.com/CosmWasm/wasmvm v1.3.0
	github.com/bandprotocol/bandchain-packet v0.0.3
	github.com/cometbft/cometbft v0.37.2
	github.com/cometbft/cometbft-db v0.8.0
	github.com/cosmos/cosmos-sdk v0.47.5
	github.com/cosmos/gogoproto v1.4.10
	github.com/cosmos/ibc-apps/modules/async-icq/v7 v7.0.0
	github.com/cosmos/ibc-apps/modules/ibc-hooks/v7 v7.0.0-20230803181732-7c8f814d3b79
	github.com/golang/protobuf v1.5.3
	github.com/gorilla/mux v1.8.0
	github.com/grpc-ecosystem/grpc-gateway v1.16.0
	github.com/pkg/errors v0.9.1
	github.com/prometheus/client_golang v1.16.0
	github.com/spf13/cast v1.5.1
	github.com/spf13/cobra v1.7.0
	github.com/stretchr/testify v1.8.4
	google.golang.org/genproto/googleapis/api v0.0.0-20230629202037-9506855d4529
	google.golang.org/grpc v1.57.0
	google.golang.org/protobuf v1.31.0
)
require (
	github.com/cosmos/ibc-apps/middleware/packet-forward-middleware/v7 v7.0.1
	github.com/cosmos/ibc-go/v7 v7.3.1
	github.com/cosmos/ics23/go v0.10.0 // indirect
	github.com/golangci/golangci-lint v1.51.2
	github.com/rakyll/statik v0.1.7
	github.com/spf13/pflag v1.0.5
	gopkg.in/yaml.v2 v2.4.0
	mvdan.cc/gofumpt v0.5.0
)
require (
	4d63.com/gocheckcompilerdirectives v1.2.1 // indirect
	4d63.com/gochecknoglobals v0.2.1 // indirect
	cloud.google.com/go v0.110.4 // indirect
	cloud.google.com/go/compute v1.20.1 // indirect
	cloud.google.com/go/compute/metadata v0.2.3 // indirect
	cloud.google.com/go/iam v1.1.0 // indirect
	cloud.google.com/go/storage v1.30.1 // indirect
	cosmossdk.io/core v0.6.1 // indirect
	cosmossdk.io/depinject v1.0.0-alpha.4 // indirect
	cosmossdk.io/errors v1.0.0 // indirect
	cosmossdk.io/log v1.2.1 // indirect
	cosmossdk.io/tools/rosetta v0.2.1 // indirect
	filippo.io/edwards25519 v1.0.0 // indirect
	github.com/99designs/go-keychain v0.0.0-20191008050251-8e49817e8af4 // indirect
	github.com/99designs/keyring v1.2.2 // indirect
	github.com/Abirdcfly/dupword v0.0.9 // indirect
	github.com/Antonboom/errname v0.1.7 // indirect
	github.com/Antonboom/nilnil v0.1.1 // indirect
	github.com/BurntSushi/toml v1.2.1 // indirect
	github.com/ChainSafe/go-schnorrkel v0.0.0-20200405005733-88cbf1b4c40d // indirect
	github.com/Djarvur/go-err113 v0.1.0 // indirect
	github.com/GaijinEntertainment/go-exhaustruct/v2 v2.3.0 // indirect
	github.com/Masterminds/semver v1.5.0 // indirect
	github.com/OpenPeeDeeP/depguard v1.1.1 // indirect
	github.com/alexkohler/prealloc v1.0.0 // indirect
	github.com/alingse/asasalint v0.0.11 // indirect
	github.com/armon/go-metrics v0.4.1 // indirect
	github.com/ashanbrown/forbidigo v1.5.3 // indirect
	github.com/ashanbrown/makezero v1.1.1 // indirect
	github.com/aws/aws-sdk-go v1.44.203 // indirect
	github.com/beorn7/perks v1.0.1 // indirect
	github.com/bgentry/go-netrc v0.0.0-20140422174119-9fd32a8b3d3d // indirect
	github.com/bgentry/speakeasy v0.1.1-0.20220910012023-760eaf8b6816 // indirect
	github.com/bkielbasa/cyclop v1.2.1 // indirect
	github.com/blizzy78/varnamelen v0.8.0 // indirect
	github.com/bombsimon/wsl/v3 v3.4.0 // indirect
	github.com/breml/bidichk v0.2.3 // indirect
	github.com/breml/errchkjson v0.3.0 // indirect
	github.com/btcsuite/btcd/btcec/v2 v2.3.2 // indirect
	github.com/butuzov/ireturn v0.1.1 // indirect
	github.com/cenkalti/backoff/v4 v4.1.3 // indirect
	github.com/cespare/xxhash v1.1.0 // indirect
	github.com/cespare/xxhash/v2 v2.2.0 // indirect
	github.com/charithe/durationcheck v0.0.9 // indirect
	github.com/chavacava/garif v0.0.0-20230227094218-b8c73b2037b8 // indirect
	github.com/chzyer/readline v1.5.1 // indirect
	github.com/cockroachdb/apd/v2 v2.0.2 // indirect
	github.com/cockroachdb/errors v1.10.0 // indirect
	github.com/cockroachdb/logtags v0.0.0-20230118201751-21c54148d20b // indirect
	github.com/cockroachdb/redact v1.1.5 // indirect
	github.com/coinbase/rosetta-sdk-go v0.7.9 // indirect
	github.com/confio/ics23/go v0.9.0 // indirect
	github.com/cosmos/btcutil v1.0.5 // indirect
	github.com/cosmos/cosmos-proto v1.0.0-beta.3 // indirect
	github.com/cosmos/go-bip39 v1.0.0 // indirect
	github.com/cosmos/gogogateway v1.2.0 // indirect
	github.com/cosmos/iavl v0.20.0 // indirect
	github.com/cosmos/ledger-cosmos-go v0.12.4 // indirect
	github.com/cosmos/rosetta-sdk-go v0.10.0 // indirect
	github.com/creachadair/taskgroup v0.4.2 // indirect
	github.com/curioswitch/go-reassign v0.2.0 // indirect
	github.com/daixiang0/gci v0.10.1 // indirect
	github.com/danieljoos/wincred v1.1.2 // indirect
	github.com/davecgh/go-spew v1.1.1 // indirect
	github.com/decred/dcrd/dcrec/secp256k1/v4 v4.1.0 // indirect
	github.com/denis-tingaikin/go-header v0.4.3 // indirect
	github.com/desertbit/timer v0.0.0-20180107155436-c41aec40b27f // indirect
	github.com/dgraph-io/badger/v2 v2.2007.4 // indirect
	github.com/dgraph-io/ristretto v0.1.1 // indirect
	github.com/dgryski/go-farm v0.0.0-20200201041132-a6ae2369ad13 // indirect
	github.com/docker/distribution v2.8.2+incompatible // indirect
	github.com/dustin/go-humanize v1.0.1 // indirect
	github.com/dvsekhvalnov/jose2go v1.5.0 // indirect
	github.com/esimonov/ifshort v1.0.4 // indirect
	github.com/ettle/strcase v0.1.1 // indirect
	github.com/fatih/color v1.15.0 // indirect
	github.com/fatih/structtag v1.2.0 // indirect
	github.com/felixge/httpsnoop v1.0.2 // indirect
	github.com/firefart/nonamedreturns v1.0.4 // indirect
	github.com/fsnotify/fsnotify v1.6.0 // indirect
	github.com/fzipp/gocyclo v0.6.0 // indirect
	github.com/getsentry/sentry-go v0.23.0 // indirect
	github.com/gin-gonic/gin v1.9.0 // indirect
	github.com/go-critic/go-critic v0.8.1 // indirect
	github.com/go-kit/kit v0.12.0 // indirect
	github.com/go-kit/log v0.2.1 // indirect
	github.com/go-logfmt/logfmt v0.6.0 // indirect
	github.com/go-toolsmith/astcast v1.1.0 // indirect
	github.com/go-toolsmith/astcopy v1.1.0 // indirect
	github.com/go-toolsmith/astequal v1.1.0 // indirect
	github.com/go-toolsmith/astfmt v1.1.0 // indirect
	github.com/go-toolsmith/astp v1.1.0 // indirect
	github.com/go-toolsmith/strparse v1.1.0 // indirect
	github.com/go-toolsmith/typep v1.1.0 // indirect
	github.com/go-xmlfmt/xmlfmt v1.1.2 // indirect
	github.com/gobwas/glob v0.2.3 // indirect
	github.com/godbus/dbus v0.0.0-20190726142602-4481cbc300e2 // indirect
	github.com/gofrs/flock v0.8.1 // indirect
	github.com/gogo/googleapis v1.4.1 // indirect
	github.com/gogo/protobuf v1.3.2 // indirect
	github.com/golang/glog v1.1.0 // indirect
	github.com/golang/groupcache v0.0.0-20210331224755-41bb18bfe9da // indirect
	github.com/golang/mock v1.6.0 // indirect
	github.com/golang/snappy v0.0.5-0.20220116011046-fa5810519dcb // indirect
	github.com/golangci/check v0.0.0-20180506172741-cfe4005ccda2 // indirect
	github.com/golangci/dupl v0.0.0-20180902072040-3e9179ac440a // indirect
	github.com/golangci/go-misc v0.0.0-20220329215616-d24fe342adfe // indirect
	github.com/golangci/gofmt v0.0.0-20220901101216-f2edd75033f2 // indirect
	github.com/golangci/lint-1 v0.0.0-20191013205115-297bf364a8e0 // indirect
	github.com/golangci/maligned v0.0.0-20180506175553-b1d89398deca // indirect
	github.com/golangci/misspell v0.4.0 // indirect
	github.com/golangci/revgrep v0.0.0-20220804021717-745bb2f7c2e6 // indirect
	github.com/golangci/unconvert v0.0.0-20180507085042-28b1c447d1f4 // indirect
	github.com/google/btree v1.1.2 // indirect
	github.com/google/go-cmp v0.5.9 // indirect
	github.com/google/gofuzz v1.2.0 // indirect
	github.com/google/orderedcode v0.0.1 // indirect
	github.com/google/s2a-go v0.1.4 // indirect
	github.com/google/uuid v1.3.0 // indirect
	github.com/googleapis/enterprise-certificate-proxy v0.2.3 // indirect
	github.com/googleapis/gax-go/v2 v2.11.0 // indirect
	github.com/gordonklaus/ineffassign v0.0.0-20230107090616-13ace0543b28 // indirect
	github.com/gorilla/handlers v1.5.1 // indirect
	github.com/gorilla/websocket v1.5.0 // indirect
	github.com/gostaticanalysis/analysisutil v0.7.1 // indirect
	github.com/gostaticanalysis/comment v1.4.2 // indirect
	github.com/gostaticanalysis/forcetypeassert v0.1.0 // indirect
	github.com/gostaticanalysis/nilerr v0.1.1 // indirect
	github.com/grpc-ecosystem/go-grpc-middleware v1.3.0 // indirect
	github.com/gsterjov/go-libsecret v0.0.0-20161001094733-a6f4afe4910c // indirect
	github.com/gtank/merlin v0.1.1 // indirect
	github.com/gtank/ristretto255 v0.1.2 // indirect
	github.com/hashicorp/errwrap v1.1.0 // indirect
	github.com/hashicorp/go-cleanhttp v0.5.2 // indirect
	github.com/hashicorp/go-getter v1.7.1 // indirect
	github.com/hashicorp/go-immutable-radix v1.3.1 // indirect
	github.com/hashicorp/go-multierror v1.1.1 // indirect
	github.com/hashicorp/go-safetemp v1.0.0 // indirect
	github.com/hashicorp/go-version v1.6.0 // indirect
	github.com/hashicorp/golang-lru v0.5.5-0.20210104140557-80c98217689d // indirect
	github.com/hashicorp/hcl v1.0.0 // indirect
	github.com/hdevalence/ed25519consensus v0.1.0 // indirect
	github.com/hexops/gotextdiff v1.0.3 // indirect
	github.com/huandu/skiplist v1.2.0 // indirect
	github.com/iancoleman/orderedmap v0.2.0 // indirect
	github.com/improbable-eng/grpc-web v0.15.0 // indirect
	github.com/inconshreveable/mousetrap v1.1.0 // indirect
	github.com/jgautheron/goconst v1.5.1 // indirect
	github.com/jingyugao/rowserrcheck v1.1.1 // indirect
	github.com/jirfag/go-printf-func-name v0.0.0-20200119135958-7558a9eaa5af // indirect
	github.com/jmespath/go-jmespath v0.4.0 // indirect
	github.com/jmhodges/levigo v1.0.0 // indirect
	github.com/julz/importas v0.1.0 // indirect
	github.com/junk1tm/musttag v0.4.5 // indirect
	github.com/kisielk/errcheck v1.6.3 // indirect
	github.com/kisielk/gotool v1.0.0 // indirect
	github.com/kkHAIKE/contextcheck v1.1.3 // indirect
	github.com/klauspost/compress v1.16.3 // indirect
	github.com/kr/pretty v0.3.1 // indirect
	github.com/kr/text v0.2.0 // indirect
	github.com/kulti/thelper v0.6.3 // indirect
	github.com/kunwardeep/paralleltest v1.0.7 // indirect
	github.com/kyoh86/exportloopref v0.1.11 // indirect
	github.com/ldez/gomoddirectives v0.2.3 // indirect
	github.com/ldez/tagliatelle v0.5.0 // indirect
	github.com/leonklingele/grouper v1.1.1 // indirect
	github.com/lib/pq v1.10.9 // indirect
	github.com/libp2p/go-buffer-pool v0.1.0 // indirect
	github.com/linxGnu/grocksdb v1.7.16 // indirect
	github.com/lufeee/execinquery v1.2.1 // indirect
	github.com/magiconair/properties v1.8.7 // indirect
	github.com/manifoldco/promptui v0.9.0 // indirect
	github.com/maratori/testableexamples v1.0.0 // indirect
	github.com/maratori/testpackage v1.1.1 // indirect
	github.com/matoous/godox v0.0.0-20230222163458-006bad1f9d26 // indirect
	github.com/mattn/go-colorable v0.1.13 // indirect
	github.com/mattn/go-isatty v0.0.19 // indirect
	github.com/mattn/go-runewidth v0.0.10 // indirect
	github.com/matttproud/golang_protobuf_extensions v1.0.4 // indirect
	github.com/mbilski/exhaustivestruct v1.2.0 // indirect
	github.com/mgechev/revive v1.3.2 // indirect
	github.com/mimoo/StrobeGo v0.0.0-20210601165009-122bf33a46e0 // indirect
	github.com/minio/highwayhash v1.0.2 // indirect
	github.com/mitchellh/go-homedir v1.1.0 // indirect
	github.com/mitchellh/go-testing-interface v1.14.1 // indirect
	github.com/mitchellh/mapstructure v1.5.0 // indirect
	github.com/moricho/tparallel v0.3.1 // indirect
	github.com/mtibben/percent v0.2.1 // indirect
	github.com/nakabonne/nestif v0.3.1 // indirect
	github.com/nbutton23/zxcvbn-go v0.0.0-20210217022336-fa2cb2858354 // indirect
	github.com/nishanths/exhaustive v0.11.0 // indirect
	github.com/nishanths/predeclared v0.2.2 // indirect
	github.com/nunnatsa/ginkgolinter v0.12.1 // indirect
	github.com/olekukonko/tablewriter v0.0.5 // indirect
	github.com/opencontainers/go-digest v1.0.0 // indirect
	github.com/pelletier/go-toml/v2 v2.0.8 // indirect
	github.com/petermattis/goid v0.0.0-20230317030725-371a4b8eda08 // indirect
	github.com/pmezard/go-difflib v1.0.0 // indirect
	github.com/polyfloyd/go-errorlint v1.4.2 // indirect
	github.com/prometheus/client_model v0.3.0 // indirect
	github.com/prometheus/common v0.42.0 // indirect
	github.com/prometheus/procfs v0.10.1 // indirect
	github.com/quasilyte/go-ruleguard v0.3.19 // indirect
	github.com/quasilyte/gogrep v0.5.0 // indirect
	github.com/quasilyte/regex/syntax v0.0.0-20210819130434-b3f0c404a727 // indirect
	github.com/quasilyte/stdinfo v0.0.0-20220114132959-f7386bf02567 // indirect
	github.com/rcrowley/go-metrics v0.0.0-20201227073835-cf1acfcdf475 // indirect
	github.com/rivo/uniseg v0.2.0 // indirect
	github.com/rogpeppe/go-internal v1.11.0 // indirect
	github.com/rs/cors v1.8.3 // indirect
	github.com/rs/zerolog v1.30.0 // indirect
	github.com/ryancurrah/gomodguard v1.3.0 // indirect
	github.com/ryanrolds/sqlclosecheck v0.4.0 // indirect
	github.com/sanposhiho/wastedassign/v2 v2.0.7 // indirect
	github.com/sasha-s/go-deadlock v0.3.1 // indirect
	github.com/sashamelentyev/interfacebloat v1.1.0 // indirect
	github.com/sashamelentyev/usestdlibvars v1.23.0 // indirect
	github.com/securego/gosec/v2 v2.16.0 // indirect
	github.com/shazow/go-diff v0.0.0-20160112020656-b6b7b6733b8c // indirect
	github.com/sirupsen/logrus v1.9.3 // indirect
	github.com/sivchari/containedctx v1.0.3 // indirect
	github.com/sivchari/nosnakecase v1.7.0 // indirect
	github.com/sivchari/tenv v1.7.1 // indirect
	github.com/sonatard/noctx v0.0.2 // indirect
	github.com/sourcegraph/go-diff v0.7.0 // indirect
	github.com/spf13/afero v1.9.5 // indirect
	github.com/spf13/jwalterweatherman v1.1.0 // indirect
	github.com/spf13/viper v1.16.0 // indirect
	github.com/ssgreg/nlreturn/v2 v2.2.1 // indirect
	github.com/stbenjam/no-sprintf-host-port v0.1.1 // indirect
	github.com/stretchr/objx v0.5.0 // indirect
	github.com/subosito/gotenv v1.4.2 // indirect
	github.com/syndtr/goleveldb v1.0.1-0.20220721030215-126854af5e6d // indirect
	github.com/t-yuki/gocover-cobertura v0.0.0-20180217150009-aaee18c8195c // indirect
	github.com/tdakkota/asciicheck v0.1.1 // indirect
	github.com/tendermint/go-amino v0.16.0 // indirect
	github.com/tetafro/godot v1.4.11 // indirect
	github.com/tidwall/btree v1.6.0 // indirect
	github.com/timakin/bodyclose v0.0.0-20221125081123-e39cf3fc478e // indirect
	github.com/timonwong/loggercheck v0.9.3 // indirect
	github.com/tomarrell/wrapcheck/v2 v2.8.0 // indirect
	github.com/tommy-muehle/go-mnd/v2 v2.5.1 // indirect
	github.com/ulikunitz/xz v0.5.11 // indirect
	github.com/ultraware/funlen v0.0.3 // indirect
	github.com/ultraware/whitespace v0.0.5 // indirect
	github.com/uudashr/gocognit v1.0.6 // indirect
	github.com/yagipy/maintidx v1.0.0 // indirect
	github.com/yeya24/promlinter v0.2.0 // indirect
	github.com/zondax/hid v0.9.2 // indirect
	github.com/zondax/ledger-go v0.14.3 // indirect
	gitlab.com/bosi/decorder v0.2.3 // indirect
	go.etcd.io/bbolt v1.3.7 // indirect
	go.opencensus.io v0.24.0 // indirect
	go.uber.org/atomic v1.10.0 // indirect
	go.uber.org/multierr v1.10.0 // indirect
	go.uber.org/zap v1.24.0 // indirect
	golang.org/x/crypto v0.11.0 // indirect
	golang.org/x/exp v0.0.0-20230711153332-06a737ee72cb // indirect
	golang.org/x/exp/typeparams v0.0.0-20230213192124-5e25df0256eb // indirect
	golang.org/x/mod v0.11.0 // indirect
	golang.org/x/net v0.12.0 // indirect
	golang.org/x/oauth2 v0.8.0 // indirect
	golang.org/x/sync v0.2.0 // indirect
	golang.org/x/sys v0.11.0 // indirect
	golang.org/x/term v0.10.0 // indirect
	golang.org/x/text v0.12.0 // indirect
	golang.org/x/tools v0.9.3 // indirect
	golang.org/x/xerrors v0.0.0-20220907171357-04be3eba64a2 // indirect
	google.golang.org/api v0.126.0 // indirect
	google.golang.org/appengine v1.6.7 // indirect
	google.golang.org/genproto v0.0.0-20230706204954-ccb25ca9f130 // indirect
	google.golang.org/genproto/googleapis/rpc v0.0.0-20230711160842-782d3b101e98 // indirect
	gopkg.in/ini.v1 v1.67.0 // indirect
	gopkg.in/yaml.v3 v3.0.1 // indirect
	honnef.co/go/tools v0.4.3 // indirect
	mvdan.cc/interfacer v0.0.0-20180901003855-c20040233aed // indirect
	mvdan.cc/lint v0.0.0-20170908181259-adc824a0674b // indirect
	mvdan.cc/unparam v0.0.0-20221223090309-7455f1af531d // indirect
	nhooyr.io/websocket v1.8.7 // indirect
	pgregory.net/rapid v0.5.5 // indirect
	sigs.k8s.io/yaml v1.3.0 // indirect
)
replace (
	// use cosmos fork of keyring
	github.com/99designs/keyring => github.com/cosmos/keyring v1.2.0
	//TODO: to be replaced from comdex fork of bandchain-packet
	github.com/bandprotocol/bandchain-packet => github.com/InjectiveLabs/bandchain-packet v0.0.4-0.20230327115226-35199d4659d5
	// https://github.com/cosmos/cosmos-sdk/blob/v0.47.5/UPGRADING.md#protobuf
	// github.com/gogo/protobuf => github.com/regen-network/protobuf v1.3.3-alpha.regen.1
	github.com/syndtr/goleveldb => github.com/syndtr/goleveldb v1.0.1-0.20210819022825-2ae1ddf74ef7
)
