//go:build verif

package verifharness

// C20: whole-application export / import.  app.ExportAppStateAndValidators exports the COMMITTED state
// with the module manager (a.mm.ExportGenesisForModules); the rich states of this harness live on a
// branch of the deliver state, so the module manager is called on that branch directly (the field is
// not exported: it is read through reflection - the call is the one export.go makes).  A FRESH
// application is then initialised from the exported genesis with InitChain, exactly as a node started
// from the exported genesis file does, and its DeFi module stores are compared with the original ones.

import (
	"encoding/json"
	"fmt"
	"reflect"
	"sort"
	"strings"
	"testing"
	"unsafe"

	dbm "github.com/cometbft/cometbft-db"
	abci "github.com/cometbft/cometbft/abci/types"
	"github.com/cometbft/cometbft/libs/log"
	tmproto "github.com/cometbft/cometbft/proto/tendermint/types"
	servertypes "github.com/cosmos/cosmos-sdk/server/types"
	"github.com/cosmos/cosmos-sdk/store/rootmulti"
	storetypes "github.com/cosmos/cosmos-sdk/store/types"
	simtestutil "github.com/cosmos/cosmos-sdk/testutil/sims"
	sdk "github.com/cosmos/cosmos-sdk/types"
	"github.com/cosmos/cosmos-sdk/types/module"

	chain "github.com/comdex-official/comdex/app"
)

func c20ModuleManager(a *chain.App) *module.Manager {
	f := reflect.ValueOf(a).Elem().FieldByName("mm")
	return *(**module.Manager)(unsafe.Pointer(f.UnsafeAddr()))
}

func c20WholeAppImpl(t *testing.T, a *chain.App, tr *tracer, ctx sdk.Context, ci int) {
	var state map[string]json.RawMessage
	if p, msg := safely(func() { state = c20ModuleManager(a).ExportGenesis(ctx, a.AppCodec()) }); p {
		t.Logf("case %d: whole-application export panicked: %s", ci, msg)
		tr.p("# whole-application export panicked: %s", strings.ReplaceAll(msg, "\n", " "))
		tr.p("imp app-export panic")
		return
	}
	tr.p("imp app-export ok")
	bz, err := json.Marshal(state)
	if err != nil {
		t.Fatalf("marshal exported state: %v", err)
	}
	// the static validation `comdex validate-genesis` runs on a genesis file, for the DeFi modules
	vclass := "ok"
	for _, m := range c20Modules() {
		mb, found := chain.ModuleBasics[m.store].(module.HasGenesisBasics)
		if !found {
			continue
		}
		var err error
		if p, msg := safely(func() { err = mb.ValidateGenesis(a.AppCodec(), chain.MakeEncodingConfig().TxConfig, state[m.store]) }); p {
			err = fmt.Errorf("panic: %s", msg)
		}
		if err != nil {
			t.Logf("case %d: %s ValidateGenesis rejects the exported state: %v", ci, m.name, err)
			tr.p("# %s ValidateGenesis rejects the exported state: %s", m.name, strings.ReplaceAll(err.Error(), "\n", " "))
			vclass = "err"
		}
	}
	tr.p("imp app-validate %s", vclass)
	b := chain.New(log.NewNopLogger(), dbm.NewMemDB(), nil, true, map[int64]bool{}, chain.DefaultNodeHome, 5, chain.MakeEncodingConfig(),
		simtestutil.EmptyAppOptions{}, chain.GetWasmEnabledProposals(), chain.EmptyWasmOpts)
	class := "ok"
	if p, msg := safely(func() {
		b.InitChain(abci.RequestInitChain{Validators: []abci.ValidatorUpdate{}, ConsensusParams: chain.DefaultConsensusParams, AppStateBytes: bz,
			Time: ctx.BlockTime(), InitialHeight: ctx.BlockHeight() + 1})
	}); p {
		class = "panic"
		if len(msg) > 600 {
			msg = msg[:600]
		}
		t.Logf("case %d: InitChain of a fresh application from the exported state panicked: %s", ci, msg)
		tr.p("# InitChain from the exported application state panicked: %s", strings.ReplaceAll(msg, "\n", " "))
	}
	tr.p("imp app %s", class)
	if class != "ok" {
		return
	}
	ctx2 := b.BaseApp.NewContext(false, tmproto.Header{Height: ctx.BlockHeight(), Time: ctx.BlockTime(), ChainID: ctx.ChainID()})
	c20CompareApps(tr, a, ctx, b, ctx2)
	// every account's balances came through as well
	bo, bn := c20AllBalances(a, ctx), c20AllBalances(b, ctx2)
	tr.p("contd 0 app.balances ok ok 0 0 %d %d 0", c20BalDelta(map[string]sdk.Int{}, bo), c20BalDelta(map[string]sdk.Int{}, bn))
}

// the DeFi module stores of application b (context ctx2) against those of a (context ctx): p lines
func c20CompareApps(tr *tracer, a *chain.App, ctx sdk.Context, b *chain.App, ctx2 sdk.Context) {
	for _, m := range c20Modules() {
		do, dn := c20Dump(a, ctx, m.store), c20Dump(b, ctx2, m.store)
		if po := c20ParamDump(a, ctx, m.store); len(po) > 0 {
			do[256] = po
		}
		if pn := c20ParamDump(b, ctx2, m.store); len(pn) > 0 {
			dn[256] = pn
		}
		bytes := map[int]bool{}
		for x := range do {
			bytes[x] = true
		}
		for x := range dn {
			bytes[x] = true
		}
		var bs []int
		for x := range bytes {
			bs = append(bs, x)
		}
		sort.Ints(bs)
		for _, x := range bs {
			mo, lo, co := c20Stats(do[x])
			mn, ln, cn := c20Stats(dn[x])
			tr.p("p %s %d %d %d %d %d %d %d %d %d E%s N%s", m.name, x, len(do[x]), len(dn[x]), mo, lo, mn, ln, co, cn,
				c20EntriesStr(do[x]), c20EntriesStr(dn[x]))
		}
	}
}

// The literal entry point: app.ExportAppStateAndValidators exports the COMMITTED state.  The rich state
// (a branch of the deliver state) is copied store by store into the deliver state, the block is
// committed, and the application is exported through that function; a fresh application is initialised
// from the result.  Done last in a case: the commit ends the deliver state the case's contexts branch from.
func c20CommittedExport(t *testing.T, a *chain.App, tr *tracer, rich sdk.Context, ci int) {
	class := "ok"
	var exported servertypes.ExportedApp
	if p, msg := safely(func() {
		dst := a.BaseApp.NewContext(false, rich.BlockHeader())
		rs, ok := a.BaseApp.CommitMultiStore().(*rootmulti.Store)
		if !ok {
			panic("commit multistore is not a rootmulti store")
		}
		var names []string
		keys := rs.StoreKeysByName()
		for n := range keys {
			names = append(names, n)
		}
		sort.Strings(names)
		for _, n := range names {
			kv, isKV := keys[n].(*storetypes.KVStoreKey)
			if !isKV {
				continue
			}
			src, to := rich.KVStore(kv), dst.KVStore(kv)
			want := map[string][]byte{}
			it := src.Iterator(nil, nil)
			for ; it.Valid(); it.Next() {
				want[string(it.Key())] = append([]byte{}, it.Value()...)
			}
			it.Close()
			var drop [][]byte
			it = to.Iterator(nil, nil)
			for ; it.Valid(); it.Next() {
				if _, keep := want[string(it.Key())]; !keep {
					drop = append(drop, append([]byte{}, it.Key()...))
				}
			}
			it.Close()
			for _, k := range drop {
				to.Delete(k)
			}
			for k, v := range want {
				to.Set([]byte(k), v)
			}
		}
		a.Commit()
		var err error
		exported, err = a.ExportAppStateAndValidators(false, nil, nil)
		if err != nil {
			panic(err)
		}
	}); p {
		class = "panic"
		if len(msg) > 600 {
			msg = msg[:600]
		}
		t.Logf("case %d: commit + ExportAppStateAndValidators panicked: %s", ci, msg)
		tr.p("# commit + ExportAppStateAndValidators panicked: %s", strings.ReplaceAll(msg, "\n", " "))
	}
	tr.p("imp app-export-committed %s", class)
	if class != "ok" {
		return
	}
	b := chain.New(log.NewNopLogger(), dbm.NewMemDB(), nil, true, map[int64]bool{}, chain.DefaultNodeHome, 5, chain.MakeEncodingConfig(),
		simtestutil.EmptyAppOptions{}, chain.GetWasmEnabledProposals(), chain.EmptyWasmOpts)
	if p, msg := safely(func() {
		b.InitChain(abci.RequestInitChain{Validators: []abci.ValidatorUpdate{}, ConsensusParams: chain.DefaultConsensusParams, AppStateBytes: exported.AppState,
			Time: rich.BlockTime(), InitialHeight: exported.Height})
	}); p {
		class = "panic"
		if len(msg) > 600 {
			msg = msg[:600]
		}
		t.Logf("case %d: InitChain from ExportAppStateAndValidators panicked: %s", ci, msg)
		tr.p("# InitChain from ExportAppStateAndValidators panicked: %s", strings.ReplaceAll(msg, "\n", " "))
	}
	tr.p("imp app-committed %s", class)
	if class != "ok" {
		return
	}
	// the fresh application holds what the original one held: balances, and the DeFi stores (digest per module)
	ctx2 := b.BaseApp.NewContext(false, tmproto.Header{Height: rich.BlockHeight(), Time: rich.BlockTime(), ChainID: rich.ChainID()})
	src := a.BaseApp.NewContext(true, tmproto.Header{Height: a.LastBlockHeight()})
	c20CompareApps(tr, a, src, b, ctx2)
	tr.p("contd 1 app.committed.balances ok ok 0 0 %d %d 0", c20BalDelta(map[string]sdk.Int{}, c20AllBalances(a, src)), c20BalDelta(map[string]sdk.Int{}, c20AllBalances(b, ctx2)))
}
