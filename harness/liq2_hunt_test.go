//go:build verif

package verifharness

import (
	sdk "github.com/cosmos/cosmos-sdk/types"

	"github.com/comdex-official/comdex/x/liquidity/amm"
	liqtypes "github.com/comdex-official/comdex/x/liquidity/types"
)

// Directed search for the class of C05-F1 THROUGH THE KEEPER (mode C05F of liqDrive): pairs at low prices with a basic
// and two ranged pools shrunk by withdrawals until their orders on a tick are worth a few quote units; before a
// batch the search looks for a tick on which two or more pools have an order and tries, on a throw-away cache
// context through the REAL keeper.Match, single limit orders that consume that tick only in part; the first order
// whose batch does not conserve the base coin is placed for real, and the real EndBlocker runs on it.

// dry run of ExecuteMatching's book for a pair plus one extra user buy order; returns the base-coin imbalance
// (what buyers received minus what sellers paid) of the real keeper.Match on a throw-away context
func (w *liqWorld) huntTry(app uint64, pair liqtypes.Pair, price sdk.Dec, amt sdk.Int, buy bool) (imb sdk.Int, matched bool) {
	params, _ := w.k.GetGenericParams(w.ctx, app)
	cctx, _ := w.ctx.CacheContext()
	ob := amm.NewOrderBook()
	_ = w.k.IterateOrdersByPair(cctx, app, pair.Id, func(order liqtypes.Order) (bool, error) {
		switch order.Status {
		case liqtypes.OrderStatusNotExecuted, liqtypes.OrderStatusNotMatched, liqtypes.OrderStatusPartiallyMatched:
			if order.Status != liqtypes.OrderStatusNotExecuted && order.ExpiredAt(cctx.BlockTime()) {
				return false, nil
			}
			ob.AddOrder(liqtypes.NewUserOrder(order))
		}
		return false, nil
	})
	dir := amm.Sell
	if buy {
		dir = amm.Buy
	}
	ob.AddOrder(&liqtypes.UserOrder{BaseOrder: amm.NewBaseOrder(dir, price, amt, amm.OfferCoinAmount(dir, price, amt)), OrderID: pair.LastOrderId + 1, BatchID: pair.CurrentBatchId})
	var pools []*liqtypes.PoolOrderer
	_ = w.k.IteratePoolsByPair(cctx, app, pair.Id, func(pool liqtypes.Pool) (bool, error) {
		if pool.Disabled {
			return false, nil
		}
		rx, ry := w.k.GetPoolBalances(cctx, pool)
		ps := w.k.GetPoolCoinSupply(cctx, pool)
		p := liqtypes.NewPoolOrderer(pool.AMMPool(rx.Amount, ry.Amount, ps), pool.Id, pool.GetReserveAddress(), pair.BaseCoinDenom, pair.QuoteCoinDenom)
		if !p.IsDepleted() {
			pools = append(pools, p)
		}
		return false, nil
	})
	imb = sdk.ZeroInt()
	panicked, _ := safely(func() { _, _, matched = w.k.Match(cctx, params, ob, pools, pair.LastPrice) })
	if panicked || !matched {
		return imb, false
	}
	for _, o := range ob.Orders() {
		if o.GetDirection() == amm.Buy {
			imb = imb.Add(o.GetReceivedDemandCoinAmount())
		} else {
			imb = imb.Sub(o.GetPaidOfferCoinAmount())
		}
	}
	return imb, true
}

// search a single order (direction, tick, amount) whose batch does not conserve the base coin: a tick on which
// two or more pools have an order, consumed only in part
func (w *liqWorld) huntStep(g *rng) (happ, hpair, hid uint64, howner int, found bool) {
	for _, app := range w.apps {
		params, _ := w.k.GetGenericParams(w.ctx, app)
		prec := int(params.TickPrecision)
		for _, p0 := range w.pairs[app] {
			pair, _ := w.k.GetPair(w.ctx, app, p0.Id)
			if pair.LastPrice == nil {
				continue
			}
			lo, hi := w.k.PriceLimits(w.ctx, *pair.LastPrice, params)
			type tk struct {
				price sdk.Dec
				amts  []sdk.Int
			}
			var sells, buys []tk
			add := func(l []tk, o amm.Order) []tk {
				if !amm.MatchableAmount(o, o.GetPrice()).IsPositive() {
					return l
				}
				for i := range l {
					if l[i].price.Equal(o.GetPrice()) {
						l[i].amts = append(l[i].amts, o.GetAmount())
						return l
					}
				}
				return append(l, tk{o.GetPrice(), []sdk.Int{o.GetAmount()}})
			}
			for _, pool := range w.k.GetPoolsByPair(w.ctx, app, pair.Id) {
				if pool.Disabled {
					continue
				}
				rx, ry := w.k.GetPoolBalances(w.ctx, pool)
				ps := w.k.GetPoolCoinSupply(w.ctx, pool)
				po := liqtypes.NewPoolOrderer(pool.AMMPool(rx.Amount, ry.Amount, ps), pool.Id, pool.GetReserveAddress(), pair.BaseCoinDenom, pair.QuoteCoinDenom)
				if po.IsDepleted() {
					continue
				}
				for _, o := range amm.PoolOrders(po, po, lo, hi, prec) {
					if o.GetDirection() == amm.Sell {
						sells = add(sells, o)
					} else {
						buys = add(buys, o)
					}
				}
			}
			for _, side := range []struct {
				buy bool
				l   []tk
			}{{true, sells}, {false, buys}} {
				// ticks in the order in which a crossing order consumes them
				l := side.l
				for i := 0; i < len(l); i++ {
					for j := i + 1; j < len(l); j++ {
						if (side.buy && l[j].price.LT(l[i].price)) || (!side.buy && l[j].price.GT(l[i].price)) {
							l[i], l[j] = l[j], l[i]
						}
					}
				}
				cum := sdk.ZeroInt()
				tried := 0
				var users []liqtypes.Order
				for _, o := range w.k.GetOrdersByPair(w.ctx, app, pair.Id) {
					if (o.Status == liqtypes.OrderStatusNotExecuted || o.Status == liqtypes.OrderStatusNotMatched || o.Status == liqtypes.OrderStatusPartiallyMatched) &&
						(o.Direction == liqtypes.OrderDirectionSell) == side.buy {
						users = append(users, o)
					}
				}
				for _, t := range l {
					// resting user orders up to this tick are consumed before the pool orders on it (older batches first)
					for i := 0; i < len(users); i++ {
						if (side.buy && users[i].Price.LTE(t.price)) || (!side.buy && users[i].Price.GTE(t.price)) {
							cum = cum.Add(users[i].OpenAmount)
							users = append(users[:i], users[i+1:]...)
							i--
						}
					}
					tot, max := sdk.ZeroInt(), sdk.ZeroInt()
					for _, a := range t.amts {
						tot = tot.Add(a)
						if a.GT(max) {
							max = a
						}
					}
					if len(t.amts) >= 2 && tried < 15 {
						tried++
						step := tot.Sub(max).QuoRaw(12)
						if !step.IsPositive() {
							step = sdk.OneInt()
						}
						for r := max.AddRaw(1); r.LT(tot); r = r.Add(step) {
							amt := cum.Add(r)
							if liqtypes.IsTooSmallOrderAmount(amt, t.price) {
								continue
							}
							imb, ok := w.huntTry(app, pair, t.price, amt, side.buy)
							if ok && !imb.IsZero() {
								w.tr.p("# hunt: app %d pair %d buy=%v price %s amount %s base imbalance %s tick %v", app, pair.Id, side.buy, t.price, amt, imb, t.amts)
								owner := w.nextAcc
								if id, ok := w.placeOwn(app, pair, side.buy, t.price, amt, 10); ok {
									return app, pair.Id, id, owner, true
								}
								return 0, 0, 0, 0, false
							}
						}
					}
					cum = cum.Add(tot)
				}
			}
		}
	}
	_ = g
	return 0, 0, 0, 0, false
}
