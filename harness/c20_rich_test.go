//go:build verif

package verifharness

// C20, fourth workload ("genesis-roundtrip-rich"): the genesis round trip of RICH states of every DeFi
// module, exported at awkward moments - in the middle of a block, at a block boundary with the
// requests the last batch handled still in the store, in the middle of an auction / a cool-off / a
// reward programme.  The states are built with the fixtures of the other properties' workloads (their
// helper functions are called, their files are not edited).
//
// What is compared (same runner entry, lines case / imp / p / contd):
//   - InitGenesis of every module on the module's own export must SUCCEED: a panic is a violation
//     ("imp <module> panic"); once per run the whole application is exported (module manager) and a
//     FRESH application is initialised from it with InitChain ("imp app ...");
//   - the store of every module, prefix by prefix, against the prediction of the regenerated table;
//   - a continuation on both chains: blocks (every DeFi module's begin / end blocker, in app.go's
//     order) and messages on the objects that existed before the export.  After every step the
//     balances of ALL accounts and the content of ALL DeFi module stores are compared.  A step is
//     attributed to the known holes that are observably active (a prefix of a module the step depends
//     on differs between the two chains before the step); with none active a difference is a violation.

import (
	"bufio"
	"fmt"
	"io"
	"os"
	"sort"
	"strings"
	"testing"
	"time"

	abci "github.com/cometbft/cometbft/abci/types"
	sdk "github.com/cosmos/cosmos-sdk/types"

	chain "github.com/comdex-official/comdex/app"
	"github.com/comdex-official/comdex/x/auction"
	"github.com/comdex-official/comdex/x/auctionsV2"
	"github.com/comdex-official/comdex/x/esm"
	"github.com/comdex-official/comdex/x/lend"
	"github.com/comdex-official/comdex/x/liquidation"
	"github.com/comdex-official/comdex/x/liquidationsV2"
	"github.com/comdex-official/comdex/x/liquidity"
	"github.com/comdex-official/comdex/x/rewards"
)

func c20Scratch() *tracer { return &tracer{f: nil, w: bufio.NewWriter(io.Discard)} }

func c20Debug(format string, a ...interface{}) {
	if os.Getenv("VERIF_DEBUG") != "" {
		fmt.Printf("# "+format+"\n", a...)
	}
}

// ---------------------------------------------------------------------------------------------
// the two chains
type c20Twin struct {
	t           *testing.T
	a           *chain.App
	tr          *tracer
	mods        []c20Module
	orig, reimp sdk.Context
	n           int
}

// every account's balances (both chains are branches of one chain: the same addresses)
func c20AllBalances(a *chain.App, ctx sdk.Context) map[string]sdk.Int {
	out := map[string]sdk.Int{}
	a.BankKeeper.IterateAllBalances(ctx, func(addr sdk.AccAddress, c sdk.Coin) bool {
		out[addr.String()+"/"+c.Denom] = c.Amount
		return false
	})
	return out
}

type c20FullDump map[string]map[int][]c20Entry

func (tw *c20Twin) dump(ctx sdk.Context) c20FullDump {
	out := c20FullDump{}
	for _, m := range tw.mods {
		d := c20Dump(tw.a, ctx, m.store)
		if p := c20ParamDump(tw.a, ctx, m.store); len(p) > 0 {
			d[256] = p
		}
		out[m.name] = d
	}
	return out
}

// a counter that reads 0 either way: an empty value (the encoding of UInt64Value 0) under a key of at
// most 9 bytes (prefix, or prefix + app id).  ExportGenesis / InitGenesis write such keys for every app
// (liquidity LastPairId / LastPoolId of an app without pairs) where the original chain has none.
func c20DropZeroCounters(es []c20Entry) []c20Entry {
	var out []c20Entry
	for _, e := range es {
		if e.v == 0 && e.klen <= 9 {
			continue
		}
		out = append(out, e)
	}
	return out
}

func c20EntriesEqual(x, y []c20Entry) bool {
	x, y = c20DropZeroCounters(x), c20DropZeroCounters(y)
	if len(x) != len(y) {
		return false
	}
	for i := range x {
		if x[i].k != y[i].k || x[i].v != y[i].v {
			return false
		}
	}
	return true
}

// the (module, prefix) pairs whose content differs between the two chains
func c20Differing(do, dn c20FullDump) map[string]bool {
	out := map[string]bool{}
	for m, po := range do {
		for b, es := range po {
			if !c20EntriesEqual(es, dn[m][b]) {
				out[fmt.Sprintf("%s %d", m, b)] = true
			}
		}
		for b, es := range dn[m] {
			if _, ok := po[b]; !ok && len(es) > 0 {
				out[fmt.Sprintf("%s %d", m, b)] = true
			}
		}
	}
	return out
}

// digest of everything outside the prefixes in excl
func c20DumpDigest(d c20FullDump, excl map[string]bool) uint64 {
	var keys []string
	for m, po := range d {
		for b := range po {
			k := fmt.Sprintf("%s %d", m, b)
			if !excl[k] {
				keys = append(keys, k)
			}
		}
	}
	sort.Strings(keys)
	var sb strings.Builder
	for _, k := range keys {
		var m string
		var b int
		fmt.Sscanf(k, "%s %d", &m, &b)
		es := c20DropZeroCounters(d[m][b])
		if len(es) == 0 {
			continue
		}
		sb.WriteString(k)
		sb.WriteString(c20EntriesStr(es))
		sb.WriteByte(';')
	}
	return c20Hash([]byte(sb.String()))
}

// export -> JSON -> import of every module into emptied stores on a branch; imp and p lines
func c20NewTwin(t *testing.T, a *chain.App, tr *tracer, ctx sdk.Context, ci int) *c20Twin {
	tw := &c20Twin{t: t, a: a, tr: tr, mods: c20Modules()}
	cdc := a.AppCodec()
	tw.orig, _ = ctx.CacheContext()
	tw.reimp, _ = ctx.CacheContext()
	for _, m := range tw.mods {
		c20Wipe(a, tw.reimp, m.store, m.store)
	}
	for _, m := range tw.mods {
		m := m
		class := "ok"
		if p, msg := safely(func() { m.roundtrip(a, cdc, tw.orig, tw.reimp) }); p {
			class = "panic"
			t.Logf("case %d: %s export/import panicked: %s", ci, m.name, msg)
			tr.p("# case %d: %s InitGenesis(ExportGenesis) panicked: %s", ci, m.name, strings.ReplaceAll(msg, "\n", " "))
		}
		tr.p("imp %s %s", m.name, class)
	}
	c20DumpCompare(a, tr, tw.mods, tw.orig, tw.reimp)
	return tw
}

// which modules' state a step of module m reads or writes (the keepers wired into m's keeper)
var c20Deps = map[string][]string{
	"asset":          {"asset"},
	"market":         {"market", "asset"},
	"liquidity":      {"liquidity", "asset", "rewards", "market"},
	"rewards":        {"rewards", "liquidity", "locker", "vault", "lend", "collector", "asset", "market", "esm"},
	"lend":           {"lend", "asset", "market", "esm", "auction", "liquidation"},
	"esm":            {"esm", "asset", "market", "vault", "collector", "tokenmint"},
	"liquidation":    {"liquidation", "vault", "lend", "auction", "asset", "market", "esm", "collector", "rewards"},
	"auction":        {"auction", "liquidation", "vault", "lend", "collector", "asset", "market", "esm", "tokenmint", "rewards"},
	"liquidationsV2": {"liquidationsV2", "auctionsV2", "vault", "lend", "asset", "market", "esm", "collector", "rewards", "tokenmint"},
	"auctionsV2":     {"auctionsV2", "liquidationsV2", "vault", "lend", "collector", "asset", "market", "esm", "tokenmint", "rewards"},
	"vault":          {"vault", "asset", "market", "esm", "collector", "rewards", "tokenmint"},
	"locker":         {"locker", "asset", "collector", "esm", "rewards"},
	"collector":      {"collector", "asset", "locker", "rewards", "auction", "auctionsV2"},
	"tokenmint":      {"tokenmint", "asset"},
}

// one step on both chains.  f runs the operation on a context and returns the (possibly advanced)
// context and the result class.
func (tw *c20Twin) step(name string, mod string, f func(ctx sdk.Context) (sdk.Context, string)) {
	pre := c20Differing(tw.dump(tw.orig), tw.dump(tw.reimp))
	bo, bn := c20AllBalances(tw.a, tw.orig), c20AllBalances(tw.a, tw.reimp)
	run := func(ctx sdk.Context) (out sdk.Context, class string) {
		out = ctx
		if p, msg := safely(func() { out, class = f(ctx) }); p {
			c20Debug("step %s panicked: %s", name, msg)
			return ctx, "panic"
		}
		return
	}
	var co, cn string
	tw.orig, co = run(tw.orig)
	tw.reimp, cn = run(tw.reimp)
	do, dn := tw.dump(tw.orig), tw.dump(tw.reimp)
	ido, idn := c20DumpDigest(do, pre), c20DumpDigest(dn, pre)
	if ido != idn && os.Getenv("VERIF_DEBUG") != "" {
		post := c20Differing(do, dn)
		var news []string
		for k := range post {
			if !pre[k] {
				news = append(news, k)
			}
		}
		sort.Strings(news)
		c20Debug("step %d %s: new differing prefixes %v", tw.n, name, news)
	}
	if os.Getenv("VERIF_DEBUG") != "" {
		ao, an := c20AllBalances(tw.a, tw.orig), c20AllBalances(tw.a, tw.reimp)
		if c20BalDelta(bo, ao) != c20BalDelta(bn, an) {
			keys := map[string]bool{}
			for k := range ao {
				keys[k] = true
			}
			for k := range an {
				keys[k] = true
			}
			var ks []string
			for k := range keys {
				ks = append(ks, k)
			}
			sort.Strings(ks)
			z := func(m map[string]sdk.Int, k string) sdk.Int {
				if v, ok := m[k]; ok {
					return v
				}
				return sdk.ZeroInt()
			}
			for _, k := range ks {
				d1, d2 := z(ao, k).Sub(z(bo, k)), z(an, k).Sub(z(bn, k))
				if !d1.Equal(d2) {
					c20Debug("step %d %s: balance change of %s: %s on the original chain, %s on the re-imported one", tw.n, name, k, d1, d2)
				}
			}
		}
	}
	// the active holes this step may depend on
	var deps []string
	for k := range pre {
		m := strings.SplitN(k, " ", 2)[0]
		for _, d := range c20Deps[mod] {
			if d == m {
				deps = append(deps, k)
			}
		}
	}
	// the step's own module first: the runner attributes a difference to the first active known hole
	sort.Slice(deps, func(i, j int) bool {
		oi, oj := strings.HasPrefix(deps[i], mod+" "), strings.HasPrefix(deps[j], mod+" ")
		if oi != oj {
			return oi
		}
		return deps[i] < deps[j]
	})
	var sb strings.Builder
	for _, d := range deps {
		sb.WriteString(" " + d)
	}
	tw.tr.p("contd %d %s %s %s %d %d %d %d %d%s", tw.n, name, co, cn, ido, idn, c20BalDelta(bo, c20AllBalances(tw.a, tw.orig)),
		c20BalDelta(bn, c20AllBalances(tw.a, tw.reimp)), len(deps), sb.String())
	tw.n++
}

func (tw *c20Twin) msg(name, mod string, mk func(ctx sdk.Context) sdk.Msg) {
	tw.step(name, mod, func(ctx sdk.Context) (sdk.Context, string) {
		c, _, _ := execMsg(tw.a, ctx, mk(ctx))
		return ctx, c
	})
}

// the block hooks of the DeFi modules in app.go's order (market / bandoracle left out: the oracle feed
// is an input, and its hook would switch every price off)
var c20BeginHooks = []string{"liquidation", "auction", "rewards", "liquidity", "lend", "esm", "liquidationsV2", "auctionsV2"}

func c20RunHook(a *chain.App, ctx sdk.Context, h string) {
	switch h {
	case "liquidation":
		liquidation.BeginBlocker(ctx, abci.RequestBeginBlock{}, a.LiquidationKeeper)
	case "auction":
		auction.BeginBlocker(ctx, a.AuctionKeeper, a.AssetKeeper, a.CollectorKeeper, a.EsmKeeper)
	case "rewards":
		rewards.BeginBlocker(ctx, abci.RequestBeginBlock{}, a.Rewardskeeper)
	case "liquidity":
		liquidity.BeginBlocker(ctx, a.LiquidityKeeper, a.AssetKeeper)
	case "lend":
		lend.BeginBlocker(ctx, abci.RequestBeginBlock{}, a.LendKeeper)
	case "esm":
		esm.BeginBlocker(ctx, abci.RequestBeginBlock{}, a.EsmKeeper, a.AssetKeeper)
	case "liquidationsV2":
		liquidationsV2.BeginBlocker(ctx, abci.RequestBeginBlock{}, a.NewliqKeeper)
	case "auctionsV2":
		auctionsV2.BeginBlocker(ctx, a.NewaucKeeper)
	case "liquidity.end":
		liquidity.EndBlocker(ctx, a.LiquidityKeeper, a.AssetKeeper)
	}
}

func (tw *c20Twin) hook(h string) {
	mod := strings.TrimSuffix(h, ".end")
	tw.step("blk."+h, mod, func(ctx sdk.Context) (sdk.Context, string) {
		cctx, write := ctx.CacheContext()
		if p, msg := safely(func() { c20RunHook(tw.a, cctx, h) }); p {
			c20Debug("hook %s panicked: %s", h, msg)
			return ctx, "panic"
		}
		write()
		return ctx, "ok"
	})
}

// the begin blockers of a new block, dt later
func (tw *c20Twin) begin(dt time.Duration, hooks ...string) {
	adv := func(ctx sdk.Context) sdk.Context {
		return ctx.WithBlockHeight(ctx.BlockHeight() + 1).WithBlockTime(ctx.BlockTime().Add(dt))
	}
	tw.orig, tw.reimp = adv(tw.orig), adv(tw.reimp)
	if len(hooks) == 0 {
		hooks = c20BeginHooks
	}
	for _, h := range hooks {
		tw.hook(h)
	}
}

func (tw *c20Twin) end() { tw.hook("liquidity.end") }

// ---------------------------------------------------------------------------------------------
// whole-application round trip: the module manager's ExportGenesis of EVERY module on the rich state
// (what app.ExportAppStateAndValidators does on the committed state) -> InitChain of a fresh
// application.  Lines: "imp app <class>"; the DeFi module stores of the fresh application are compared
// with the original ones through the same p lines (a second "case").
func c20WholeApp(t *testing.T, a *chain.App, tr *tracer, ctx sdk.Context, ci int) {
	c20WholeAppImpl(t, a, tr, ctx, ci)
}

// ---------------------------------------------------------------------------------------------
var c20RichWorlds = []struct {
	name  string
	build func(t *testing.T, g *rng) *c20Rich
}{
	{"swap", c20WorldSwap},
	{"lend", c20WorldLend},
	{"fees", c20WorldFees},
	{"esm", c20WorldEsm},
}

func TestC20Rich(t *testing.T) {
	tr := newTracer(t, "c20rich.trace")
	defer tr.close()
	r := newRng(seed() + 424242)
	ncases := envInt("VERIF_CASES", len(c20RichWorlds))
	only := envInt("VERIF_CASE", -1)
	for ci := 0; ci < ncases; ci++ {
		cs := r.next()
		if only >= 0 && ci != only {
			continue
		}
		wd := c20RichWorlds[ci%len(c20RichWorlds)]
		g := newRng(cs)
		t0 := time.Now()
		w := wd.build(t, g)
		tr.p("case %d rich world=%s seed=%d %s", ci, wd.name, cs, strings.ReplaceAll(w.label, " ", "_"))
		tw := c20NewTwin(t, w.a, tr, w.ctx, ci)
		if w.cont != nil {
			w.cont(tw)
		}
		c20Debug("case %d world %s: %d continuation steps, %.1fs", ci, wd.name, tw.n, time.Since(t0).Seconds())
		// the whole application: module manager export of the rich state -> InitChain of a fresh application
		t1 := time.Now()
		c20WholeApp(t, w.a, tr, w.ctx, ci)
		c20Debug("case %d whole application: %.1fs", ci, time.Since(t1).Seconds())
		// and through the literal entry point, on the committed state (first case of each world)
		if ci < len(c20RichWorlds) || only >= 0 {
			c20CommittedExport(t, w.a, tr, w.ctx, ci)
		}
	}
}
