//go:build verif

package verifharness

import (
	"fmt"
	"time"

	sdk "github.com/cosmos/cosmos-sdk/types"

	"github.com/comdex-official/comdex/x/liquidity/amm"
	liqtypes "github.com/comdex-official/comdex/x/liquidity/types"
)

// Directed parts of the C04 / C07 workloads (driver in c07_test.go):
//
//   soleProviderScn   the in-transaction execution paths of the pool messages: an account that holds the WHOLE
//                     pool-coin supply of a pool farms all of it and leaves with MsgUnfarmAndWithdraw (the withdrawal
//                     is executed inside the transaction, not by the batch), in one piece / in pieces / with one
//                     share left / next to a second provider; followed IN THE SAME BLOCK by deposits, deposit-and-farm,
//                     withdraw requests and pool creation attempts on the same pair.  The runner evaluates the
//                     custody / disabled / supply predicates after every one of these messages.
//   wrongCoinOrder    limit / market orders whose coins are wrong in ONE position at a time (right demand coin with a
//                     foreign offer coin, right offer coin with a foreign demand coin, swapped, both foreign, the same
//                     coin twice), the foreign coin being the third asset of the app, the fee asset, or the pool coin
//                     of a pool of this or another app - sent by accounts that HOLD the offered coin, with a valid
//                     price and amounts, so that the pair check of ValidateMsgLimitOrder / ValidateMsgMarketOrder is
//                     the check that decides.  (MsgMMOrder carries no coin denoms: its coins are the pair's by
//                     construction; its wrong position is the pair id, which the order stream varies.)
//   wrongCoinScn      a resting buy and a resting sell order with the right coins, the battery of wrong-coin messages
//                     at the resting orders' prices, then counter orders that cross them: were one of the wrong-coin
//                     orders accepted, it would be matched and paid out of the other orders' escrow.

// every asset denom on a pair's escrow: the escrow clause is evaluated per denom
func (w *liqWorld) watchPairAll(p liqtypes.Pair) {
	for _, d := range liqDenoms {
		w.watchBal(fmt.Sprintf("esc.%d.%d", p.AppId, p.Id), p.GetEscrowAddress(), d)
	}
}

func (w *liqWorld) nextBlock(step int64) {
	w.opEnd()
	w.now = w.now.Add(time.Duration(step) * time.Second)
	w.opBegin()
}

// the asset of {uaaa, ubbb, uccc} that is not a coin of the pair
func liqThirdDenom(p liqtypes.Pair) string {
	for _, d := range []string{"uaaa", "ubbb", "uccc"} {
		if d != p.BaseCoinDenom && d != p.QuoteCoinDenom {
			return d
		}
	}
	return "ucmdx"
}

// ---------------------------------------------------------------------------------------------

func (w *liqWorld) farmedBy(app, pid uint64, owner int) sdk.Int {
	farmed := sdk.ZeroInt()
	if q, ok := w.k.GetQueuedFarmer(w.ctx, app, pid, addrN(owner)); ok {
		for _, c := range q.QueudCoins {
			farmed = farmed.Add(c.FarmedPoolCoin.Amount)
		}
	}
	if f, ok := w.k.GetActiveFarmer(w.ctx, app, pid, addrN(owner)); ok {
		farmed = farmed.Add(f.FarmedPoolCoin.Amount)
	}
	return farmed
}

func (w *liqWorld) soleProviderScn(g *rng) {
	// pools whose whole supply is in the creator's wallet
	var cands []liqtypes.Pool
	for _, app := range w.apps {
		for _, pl := range w.k.GetAllPools(w.ctx, app) {
			ps := w.k.GetPoolCoinSupply(w.ctx, pl)
			if !pl.Disabled && ps.IsPositive() && bal(w.a, w.ctx, addrN(90), pl.PoolCoinDenom).Equal(ps) {
				cands = append(cands, pl)
			}
		}
	}
	if len(cands) == 0 {
		return
	}
	pl := cands[g.intn(len(cands))]
	app, pid := pl.AppId, pl.Id
	whole := w.k.GetPoolCoinSupply(w.ctx, pl)
	pc := func(x sdk.Int) sdk.Coin { return liqPC(app, pid, x) }
	lp := 1 + g.intn(5)
	ref := w.refP[fmt.Sprintf("%d:%d", app, pl.PairId)]
	ownDep := func() sdk.Coins {
		y := sdk.NewInt(int64(g.pickI(1000, 100000, 2000000)))
		return w.ownCoins(app, pid, ref.MulInt(y).TruncateInt().AddRaw(int64(g.intn(100))), y)
	}
	pass := func() { // maybe a block boundary, sometimes long enough for the farming queue to mature
		switch g.intn(4) {
		case 0:
			w.nextBlock(10)
		case 1:
			w.nextBlock(13 * 3600)
		}
	}
	switch g.intn(7) {
	case 0, 1: // everything farmed, everything unfarmed-and-withdrawn in one message
		w.opFarm(app, 90, pid, pc(whole))
		pass()
		w.opUnfarmAndWithdraw(app, 90, pid, pc(whole))
	case 2: // farmed in two pieces (two queue entries, or an active and a queued part)
		half := whole.QuoRaw(2)
		w.opFarm(app, 90, pid, pc(half))
		pass()
		w.opFarm(app, 90, pid, pc(whole.Sub(half)))
		pass()
		w.opUnfarmAndWithdraw(app, 90, pid, pc(whole))
	case 3: // all but one share, then the last share
		w.opFarm(app, 90, pid, pc(whole))
		pass()
		w.opUnfarmAndWithdraw(app, 90, pid, pc(whole.SubRaw(1)))
		w.opUnfarmAndWithdraw(app, 90, pid, pc(sdk.OneInt()))
		if left := bal(w.a, w.ctx, addrN(90), pl.PoolCoinDenom); left.IsPositive() {
			w.opWithdraw(app, 90, pid, pc(left)) // the last share went back to the wallet: the batch path takes it
		}
	case 4: // a second provider joins through deposit-and-farm; the creator leaves first, then the second provider
		w.opDepositAndFarm(app, lp, pid, ownDep())
		w.opFarm(app, 90, pid, pc(whole))
		pass()
		w.opUnfarmAndWithdraw(app, 90, pid, pc(whole))
		if f := w.farmedBy(app, pid, lp); f.IsPositive() {
			w.opUnfarmAndWithdraw(app, lp, pid, pc(f))
		}
	case 5: // one more than farmed (refused), then everything
		w.opFarm(app, 90, pid, pc(whole))
		w.opUnfarmAndWithdraw(app, 90, pid, pc(whole.AddRaw(1)))
		w.opUnfarmAndWithdraw(app, 90, pid, pc(whole))
	default: // partial amounts in the transaction, the rest through a withdraw request of the batch
		part := whole.MulRaw(int64(1 + g.intn(98))).QuoRaw(100)
		if !part.IsPositive() {
			part = sdk.OneInt()
		}
		w.opFarm(app, 90, pid, pc(part))
		pass()
		w.opUnfarmAndWithdraw(app, 90, pid, pc(part.QuoRaw(2).AddRaw(1)))
		w.opWithdraw(app, 90, pid, pc(whole.Sub(part)))
		if f := w.farmedBy(app, pid, 90); f.IsPositive() {
			w.opUnfarmAndWithdraw(app, 90, pid, pc(f))
		}
	}
	// the same block goes on: deposits / pool creation attempts on the same pool and pair
	pr, _ := w.k.GetPair(w.ctx, app, pl.PairId)
	n := 2 + g.intn(4)
	for i := 0; i < n; i++ {
		switch g.intn(7) {
		case 0:
			w.opDeposit(app, lp, pid, ownDep())
		case 1:
			w.opDepositAndFarm(app, lp, pid, ownDep())
		case 2:
			y := sdk.NewInt(int64(1000000 + g.intn(3000000)))
			w.opCreatePool(app, 90, pr.Id, ref.MulInt(y).TruncateInt(), y)
		case 3:
			y := sdk.NewInt(int64(1000000 + g.intn(3000000)))
			lo := amm.PriceToDownTick(ref.Mul(sdk.NewDecWithPrec(8, 1)), 4)
			hi := amm.PriceToDownTick(ref.Mul(sdk.NewDecWithPrec(13, 1)), 4)
			w.opCreateRanged(app, 90, pr.Id, ref.MulInt(y).TruncateInt(), y, lo, hi, amm.PriceToDownTick(ref, 4))
		case 4:
			w.opWithdraw(app, 90, pid, pc(sdk.NewInt(int64(1+g.intn(1000)))))
		case 5:
			w.opFarm(app, []int{90, lp}[g.intn(2)], pid, pc(sdk.NewInt(int64(1+g.intn(1000)))))
		default:
			w.opUnfarmAndWithdraw(app, []int{90, lp}[g.intn(2)], pid, pc(sdk.NewInt(int64(1+g.intn(1000)))))
		}
	}
}

// ---------------------------------------------------------------------------------------------

// a pool coin somebody could offer: of a pool of this or of another app
func (w *liqWorld) somePoolCoin(g *rng) (string, bool) {
	var ds []string
	for _, app := range w.apps {
		for _, pl := range w.k.GetAllPools(w.ctx, app) {
			ds = append(ds, pl.PoolCoinDenom)
		}
	}
	if len(ds) == 0 {
		return "", false
	}
	return ds[g.intn(len(ds))], true
}

// one order message with the coins wrong in the position [variant]; everything else is valid.  Returns the
// message's amount (for the counter orders of wrongCoinScn)
func (w *liqWorld) wrongCoinOrder(g *rng, app uint64, p liqtypes.Pair, variant int, buy bool, price sdk.Dec, amt sdk.Int) {
	params, _ := w.k.GetGenericParams(w.ctx, app)
	market := p.LastPrice != nil && g.chance(35)
	ro, rd := p.QuoteCoinDenom, p.BaseCoinDenom // the right offer / demand coin of a buy
	dir := int32(1)
	if !buy {
		ro, rd, dir = p.BaseCoinDenom, p.QuoteCoinDenom, 2
	}
	third := liqThirdDenom(p)
	foreign := third
	poolCoin := false
	switch g.intn(5) {
	case 0:
		foreign = "ucmdx"
	case 1:
		if d, ok := w.somePoolCoin(g); ok {
			foreign, poolCoin = d, true
		}
	}
	od, dd := ro, rd
	switch variant % 8 {
	case 0, 1:
		od = foreign // right demand coin, foreign offer coin
	case 2:
		dd = foreign // right offer coin, foreign demand coin
	case 3:
		od, dd = rd, ro // swapped
	case 4:
		od, dd = foreign, "ucmdx" // both foreign
		if foreign == "ucmdx" {
			dd = third
		}
	case 5:
		od, dd = foreign, ro // foreign offer coin, the pair's offer-side coin demanded
	case 6:
		od, dd = rd, foreign // the pair's demand-side coin offered, foreign demand coin
	default:
		od, dd = ro, ro // the same coin twice (ValidateBasic)
	}
	tick := amm.PriceToDownTick(price, int(params.TickPrecision))
	if market {
		tick = amm.PriceToDownTick(p.LastPrice.Mul(sdk.OneDec().Add(params.MaxPriceLimitRatio)), int(params.TickPrecision))
	}
	need := amt
	if buy {
		need = amm.OfferCoinAmount(amm.Buy, tick, amt)
	}
	oamt := need.Add(need.ToLegacyDec().Mul(params.SwapFeeRate).Ceil().TruncateInt())
	// the sender holds what it offers: a fresh account funded with exactly the offer coin, or (pool coins, which
	// must not be minted by the harness) the creator / a liquidity provider
	owner := w.nextAcc
	switch {
	case poolCoin && (od == foreign):
		owner = []int{90, 90, 1 + g.intn(5)}[g.intn(3)]
	case g.chance(25):
		owner = []int{60, 61, 62, 90}[g.intn(4)]
	default:
		w.nextAcc++
		w.watchUser(owner, p.QuoteCoinDenom, p.BaseCoinDenom, od)
		w.fund(owner, od, oamt)
		w.obs()
	}
	w.opOrder(market, app, owner, p.Id, dir, od, oamt, dd, price, amt, []int64{0, 10, 40, 3600}[g.intn(4)])
}

// a random wrong-coin order inside the op stream
func (w *liqWorld) genWrongCoinOrder(g *rng) {
	app, p, ok := w.pickPair(g)
	if !ok {
		return
	}
	price := w.pickPrice(g, app, p)
	amt := sdk.NewInt(liqAmounts[g.intn(len(liqAmounts))])
	if liqtypes.IsTooSmallOrderAmount(amt, price) {
		amt = amt.MulRaw(1000)
	}
	w.wrongCoinOrder(g, app, p, g.intn(8), g.chance(60), price, amt)
}

func (w *liqWorld) wrongCoinScn(g *rng) {
	app, p, ok := w.pickPair(g)
	if !ok {
		return
	}
	params, _ := w.k.GetGenericParams(w.ctx, app)
	prec := int(params.TickPrecision)
	ref := w.refP[fmt.Sprintf("%d:%d", app, p.Id)]
	if p.LastPrice != nil {
		ref = *p.LastPrice
	}
	pb := amm.PriceToDownTick(ref.MulInt64(995).QuoInt64(1000), prec) // resting buy a little below
	ps := amm.PriceToUpTick(ref.MulInt64(1005).QuoInt64(1000), prec)  // resting sell a little above
	if !ps.GT(pb) {
		ps = amm.UpTick(pb, prec)
	}
	a1 := sdk.NewInt(int64(20001 + 2*g.intn(400000)))
	for liqtypes.IsTooSmallOrderAmount(a1.QuoRaw(8), pb) {
		a1 = a1.MulRaw(10).AddRaw(1)
	}
	w.placeOwn(app, p, true, pb, a1, 3600)
	w.placeOwn(app, p, false, ps, a1, 3600)
	// the battery: every position, buy and sell, at the resting orders' prices
	n := 5 + g.intn(6)
	start := g.intn(8)
	for i := 0; i < n; i++ {
		buy := i%2 == 0
		if g.chance(20) {
			buy = !buy
		}
		price := pb
		if !buy {
			price = ps
		}
		variant := (start + i) % 8
		if i == 0 {
			variant = 0 // a buy with the right demand coin and a foreign offer coin is always among them
			buy, price = true, pb
		}
		if i == 1 {
			variant = 0 // ... and a sell likewise
			buy, price = false, ps
		}
		amt := a1.MulRaw(int64(50 + g.intn(100))).QuoRaw(100)
		w.wrongCoinOrder(g, app, p, variant, buy, price, amt)
	}
	// counter orders that cross the resting orders (and whatever else sits at their prices)
	cur, _ := w.k.GetPair(w.ctx, app, p.Id)
	w.placeOwn(app, cur, false, pb, a1.MulRaw(3).QuoRaw(2), 40)
	if g.chance(50) {
		w.nextBlock(10)
		cur, _ = w.k.GetPair(w.ctx, app, p.Id)
		if lo, hi, lim := w.limitsOf(app, cur); lim && (ps.LT(lo) || ps.GT(hi)) {
			return
		}
	}
	w.placeOwn(app, cur, true, ps, a1.MulRaw(3).QuoRaw(2), 40)
}
