//go:build verif

package verifharness

// C10, generation-2 LEND-initiated Dutch auctions: real lend positions and borrows (the lend fixture of the C09
// borrow workload: two pools, same-pool / e-mode / cross-pool pairs; the e-mode liquidation penalty of every
// asset differs from its ordinary one), seized through the real liquidationsV2 path
// (MsgLiquidateInternalKeeper liq type 1, or LiquidateIndividualBorrow as the sweep calls it) after a collateral
// price drop, then the same bid / limit-bid / block-tick mix as TestC10.  The closing bid runs
// MsgCloseDutchAuctionForBorrow: the auction's target debt goes to the lending pool (pool and reserve module
// accounts are observed together: the close also books penalty and interest between them), the seized
// collateral to bidders and borrower, nothing stays in auction custody.
//
// Same trace format and runner entry as TestC10 (initiator type 1).

import (
	"math/big"
	"testing"

	sdk "github.com/cosmos/cosmos-sdk/types"

	auctypes "github.com/comdex-official/comdex/x/auctionsV2/types"
	lendtypes "github.com/comdex-official/comdex/x/lend/types"
	liqtypes "github.com/comdex-official/comdex/x/liquidationsV2/types"
)

type c10LendCase struct {
	p            c10Params
	pair         int   // index into the fixture's pairs
	amtUnits     int64 // collateral lent, in thousandths of a whole token
	permille     int64 // share of the largest admissible loan
	dropPermille int64 // the collateral price falls to this share of the price at which the position is exactly at its threshold
	skip         int64 // seconds between the borrow and the liquidation (interest accrues)
	keeper       bool  // MsgLiquidateInternalKeeper, else the sweep's call
	reserveClass int
	plan         []c10PlanOp
}

func c10LendDraw(r *rng) c10LendCase {
	var cs c10LendCase
	p := &cs.p
	p.premium = c10Dec([]string{"1.2", "1.0", "1.5", "1.15"}[r.intn(4)])
	p.disc = c10Dec([]string{"0.7", "0.65", "0.5", "0.9"}[r.intn(4)])
	p.dur = []uint64{60, 3600, 1000, 77}[r.intn(4)]
	p.minUsd = r.pickU(0, 100000, 1000000, 100000)
	p.ki = c10Dec([]string{"0", "0.1"}[r.intn(2)])
	p.vaultPenalty, p.extPenalty, p.extBonus = sdk.ZeroDec(), sdk.ZeroDec(), sdk.ZeroDec()
	switch x := r.intn(10); {
	case x < 5: // e-mode pairs: the penalty recomputed at close would differ from the one in the target debt
		cs.pair = []int{4, 6}[r.intn(2)]
	case x < 8:
		cs.pair = []int{0, 1, 2, 3, 5, 7}[r.intn(6)]
	default: // cross pool (bridged), incl. the e-mode one
		cs.pair = 8 + r.intn(5)
	}
	cs.amtUnits = int64(100 + r.intn(50000))
	cs.permille = int64(600 + r.intn(401))
	cs.dropPermille = r.pickI(999, 990, 950, 900, 800, 600, 400)
	cs.skip = r.pickI(0, 0, 3600, 86400, 30*86400)
	cs.keeper = r.chance(50)
	cs.reserveClass = r.intn(3)
	nops := 4 + r.intn(10)
	cs.plan = make([]c10PlanOp, nops)
	for i := range cs.plan {
		x := r.intn(100)
		switch {
		case x < 45:
			cs.plan[i] = c10PlanOp{kind: 0, who: r.intn(3), class: r.intn(12), f1: 1 + r.intn(99), f2: 1 + r.intn(1000)}
		case x < 60:
			cs.plan[i] = c10PlanOp{kind: 3, who: r.intn(3), class: r.intn(8), f1: 1 + r.intn(99), f2: 1 + r.intn(1000)}
		default:
			cs.plan[i] = c10PlanOp{kind: 1, dtClass: r.intn(13), priceClass: r.intn(20), f1: 70 + r.intn(60)}
		}
		cs.plan[i].f2 += r.intn(2)
	}
	// the last op is an over-sized bid: most auctions are closed
	cs.plan = append(cs.plan, c10PlanOp{kind: 0, who: r.intn(2), class: 8, f1: 50, f2: 1})
	return cs
}

// corpus (no randomness consumed): an e-mode pair closed by one exact bid (regression of seeded/C10-4: the close
// sent principal + the e-mode penalty recomputed at close instead of the auction's target debt, which carries the
// ordinary penalty), the same after a partial bid and a tick, an ordinary pair, an e-mode pair through a fill
var c10LendCorpus = []c10LendCase{
	{p: c10Params{premium: c10Dec("1.2"), disc: c10Dec("0.7"), ki: c10Dec("0.1"), dur: 3600, minUsd: 100000}, pair: 4, amtUnits: 10000, permille: 900, dropPermille: 950, keeper: true, reserveClass: 2,
		plan: []c10PlanOp{{kind: 0, who: 0, class: 5, f1: 50, f2: 0}}},
	{p: c10Params{premium: c10Dec("1.2"), disc: c10Dec("0.7"), ki: c10Dec("0"), dur: 3600, minUsd: 100000}, pair: 6, amtUnits: 25000, permille: 800, dropPermille: 900, skip: 86400, reserveClass: 2,
		plan: []c10PlanOp{{kind: 0, who: 1, class: 3, f1: 40, f2: 0}, {kind: 1, lit: true, v1: 600}, {kind: 0, who: 0, class: 8, f1: 50, f2: 0}}},
	{p: c10Params{premium: c10Dec("1.2"), disc: c10Dec("0.7"), ki: c10Dec("0.1"), dur: 3600, minUsd: 0}, pair: 0, amtUnits: 5000, permille: 1000, dropPermille: 950, keeper: true, reserveClass: 1,
		plan: []c10PlanOp{{kind: 0, who: 0, class: 2, f1: 30, f2: 0}, {kind: 1, lit: true, v1: 1800}, {kind: 0, who: 1, class: 7, f1: 50, f2: 0}}},
	{p: c10Params{premium: c10Dec("1.2"), disc: c10Dec("0.7"), ki: c10Dec("0"), dur: 3600, minUsd: 0}, pair: 4, amtUnits: 8000, permille: 900, dropPermille: 990, reserveClass: 2,
		plan: []c10PlanOp{{kind: 3, who: 0, lit: true, v1: 5, v2: 1 << 40}, {kind: 1, lit: true, v1: 2550}, {kind: 1, lit: true, v1: 10}}},
}

func TestC10Lend(t *testing.T) {
	w := c09bSetup(t)
	a := w.a
	tr := newTracer(t, "c10lend.trace")
	defer tr.close()
	r := newRng(seed())
	ncases := envInt("VERIF_CASES", 60)
	only := envInt("VERIF_CASE", -1)
	debug := envInt("VERIF_DEBUG", 0) == 1

	bidders := []sdk.AccAddress{addrN(10), addrN(11), addrN(12)}
	liquidator, funder := addrN(30), addrN(32)
	pools := []sdk.AccAddress{modAddr(lendtypes.ModuleName)}
	for _, pid := range w.pools {
		pools = append(pools, modAddr(w.poolMod[pid]))
	}

	for ci := 0; ci < ncases; ci++ {
		var cs c10LendCase
		if ci < len(c10LendCorpus) {
			cs = c10LendCorpus[ci]
		} else {
			cs = c10LendDraw(r)
		}
		if only >= 0 && ci != only {
			continue
		}
		pr := w.pairs[cs.pair%len(w.pairs)]
		assetIn, assetOut := pr.p.AssetIn, pr.p.AssetOut
		denomC, denomD := w.idDenom[assetIn], w.idDenom[assetOut]
		p := cs.p
		p.dc, p.dd = w.dec[assetIn], w.dec[assetOut]

		ctx, _ := w.base.CacheContext()
		ctx = c10At(ctx, 0)
		dp := liqtypes.DutchAuctionParam{Premium: p.premium, Discount: p.disc, DecrementFactor: sdk.NewInt(1)}
		ep := liqtypes.EnglishAuctionParam{DecrementFactor: sdk.NewInt(1)}
		a.NewliqKeeper.SetLiquidationWhiteListing(ctx, liqtypes.LiquidationWhiteListing{AppId: w.app, Initiator: true, IsDutchActivated: true,
			DutchAuctionParam: &dp, IsEnglishActivated: true, EnglishAuctionParam: &ep, KeeeperIncentive: p.ki})
		a.NewaucKeeper.SetAuctionParams(ctx, auctypes.AuctionParams{AuctionDurationSeconds: p.dur, Step: c10Dec("0.1"), WithdrawalFee: sdk.ZeroDec(),
			ClosingFee: sdk.ZeroDec(), MinUsdValueLeft: p.minUsd, BidFactor: c10Dec("0.1"), LiquidationPenalty: c10Dec("0.1"), AuctionBonus: sdk.ZeroDec()})
		for _, as := range []uint64{assetIn, assetOut} {
			setPrice(a, ctx, as, w.normal[as], true)
		}
		huge := sdk.NewIntFromUint64(1 << 62)
		fund(t, a, ctx, bidders[0], sdk.NewCoins(sdk.NewCoin(denomD, huge)))
		fund(t, a, ctx, bidders[1], sdk.NewCoins(sdk.NewCoin(denomD, huge)))
		fund(t, a, ctx, bidders[2], sdk.NewCoins(sdk.NewCoin(denomD, sdk.NewInt(p.dd).QuoRaw(3))))
		fund(t, a, ctx, funder, sdk.NewCoins(sdk.NewCoin(denomD, huge)))

		// the position: a fresh user lends the collateral asset and borrows against it
		user := addrN(2500)
		amtIn := sdk.NewInt(p.dc).QuoRaw(1000).MulRaw(cs.amtUnits)
		fund(t, a, ctx, user, sdk.NewCoins(sdk.NewCoin(denomC, amtIn)))
		k := a.LendKeeper
		rates, _ := k.GetAssetRatesParams(ctx, assetIn)
		ltv, thr := rates.Ltv, rates.LiquidationThreshold
		if pr.p.IsEModeEnabled {
			ltv, thr = rates.ELtv, rates.ELiquidationThreshold
		}
		borrowID := uint64(0)
		var loan sdk.Int
		if class, _, _ := execMsg(a, ctx, lendtypes.NewMsgLend(user.String(), assetIn, sdk.NewCoin(denomC, amtIn), pr.inPool, w.app)); class == "ok" {
			lendID := k.GetUserLendIDCounter(ctx)
			l := c09bMaxLoan(w, ctx, amtIn, assetIn, assetOut, ltv)
			l.Mul(l, big.NewInt(cs.permille)).Quo(l, big.NewInt(1000))
			if pr.p.IsInterPool { // the bridged quantity must also respect the transit asset's own LTV
				l.Mul(l, big.NewInt(69)).Quo(l, big.NewInt(100))
			}
			if l.Sign() <= 0 {
				l = big.NewInt(1)
			}
			loan = sdk.NewIntFromBigInt(l)
			before := k.GetUserBorrowIDCounter(ctx)
			class, berr, _ := execMsg(a, ctx, lendtypes.NewMsgBorrow(user.String(), lendID, pr.p.Id, false,
				sdk.NewCoin(w.idDenom[rates.CAssetID], amtIn), sdk.NewCoin(denomD, loan)))
			if debug && berr != nil {
				tr.p("# borrow: %s", berr.Error())
			}
			if class == "ok" && k.GetUserBorrowIDCounter(ctx) == before+1 {
				borrowID = before + 1
			}
		}
		if cs.reserveClass > 0 {
			amt := sdk.NewInt(1000)
			if cs.reserveClass >= 2 {
				amt = sdk.NewIntFromUint64(1 << 50)
			}
			execMsg(a, ctx, liqtypes.NewMsgAppReserveFundsRequest(funder.String(), w.app, assetOut, sdk.NewCoin(denomD, amt)))
		}

		e := &c10Run{t: t, a: a, ctx: ctx, tr: tr, p: p, app: w.app, assetC: assetIn, assetD: assetOut, denomC: denomC, denomD: denomD,
			bidders: bidders, owners: []sdk.AccAddress{user}, liquidator: liquidator, initiator: addrN(31), pools: pools,
			twaC: w.normal[assetIn], twaDcur: w.normal[assetOut], actC: true, actD: true, debug: debug}
		e.begin(ci)

		// the collateral price falls below the one at which the position sits exactly on its threshold
		e.now = cs.skip
		c := c10At(ctx, e.now)
		started := false
		if borrowID != 0 {
			// ratio = debt value / collateral value = thr  <=>  price_in = normal_in * (ltv * permille / 1000 [* 0.69]) / thr
			num := sdk.NewDec(int64(w.normal[assetIn])).Mul(ltv).MulInt64(cs.permille).QuoInt64(1000)
			if pr.p.IsInterPool {
				num = num.MulInt64(69).QuoInt64(100)
			}
			at := num.Quo(thr)
			np := at.MulInt64(cs.dropPermille).QuoInt64(1000).TruncateInt64()
			if np < 1 {
				np = 1
			}
			e.twaC = uint64(np)
			setPrice(a, c, assetIn, e.twaC, true)
			before := a.NewaucKeeper.GetAuctionID(c)
			var class string
			if cs.keeper {
				class, _, _ = execMsg(a, c, liqtypes.NewMsgLiquidateInternalKeeperRequest(liquidator, 1, borrowID))
			} else {
				cc, write := c.CacheContext()
				var err error
				pn, _ := safely(func() { err = a.NewliqKeeper.LiquidateIndividualBorrow(cc, borrowID, "", false) })
				class = "ok"
				if pn {
					class = "panic"
				} else if err != nil {
					class = "err"
				} else {
					write()
				}
			}
			after := a.NewaucKeeper.GetAuctionID(c)
			if class == "ok" && after == before+1 {
				e.emitStart(after)
				started = true
			} else {
				tr.p("op nostart 3 %s %d %s %d %s %d %s", class, e.now, b2s(e.actC), e.twaC, b2s(e.actD), e.twaDcur, b2s(after != before))
			}
		} else {
			tr.p("op nostart 3 noborrow %d %s %d %s %d 0", e.now, b2s(e.actC), e.twaC, b2s(e.actD), e.twaDcur)
		}
		e.observe()
		if !started {
			continue
		}
		for _, o := range cs.plan {
			switch o.kind {
			case 1:
				e.tick(o)
			case 3:
				e.deposit(o)
			case 0:
				e.bid(o)
			}
		}
	}
}
